(* Input parameters (pydsol/core/parameters.py) and the two model-level
   accessors DSOLModel.set_parameter / get_parameter (pydsol/core/model.py).

   Executable definitions only (no proofs), so the correspondence check can run
   the model even when a proof file is broken.

   Conventions
   - Python values are the universe [pyval]; the isinstance lattice the code
     relies on is spelled out (bool <= int, Quantity <= float).
   - Python floats are carried as EXACT values: a finite float is the rational
     it denotes ([FFin q], q in lowest terms as given by float.as_integer_ratio),
     plus NaN, the two infinities and -0.0.  parameters.py never computes with
     values, it only stores and compares them, and Python compares int with
     float exactly, so exact rationals reproduce every comparison.
   - Python exceptions are data ([Raise e] / [ORaise e]).
   - [quirks] selects between the REPAIRED behaviour (all flags false; this is
     what the theorems are about and what the correspondence check runs) and
     the behaviour of the pinned tree (used for the _refuted theorems). *)
From Coq Require Import ZArith QArith List Bool String Ascii.
Import ListNotations.
Local Open Scope list_scope.

(* ------------------------------------------------------------------ exceptions *)
Inductive exn := TypeError | ValueError | KeyError | NotImplementedError | AttributeError | OtherError.

Inductive res (A : Type) := Val (a : A) | Raise (e : exn).
Arguments Val {A} a.
Arguments Raise {A} e.

(* ------------------------------------------------------------------ numbers *)
Inductive flt := FNaN | FPInf | FNInf | FNZero | FFin (q : Q).   (* +0.0 is FFin 0 *)

(* the extended-real reading used by comparisons *)
Inductive xr := XNaN | XNInf | XPInf | XFin (q : Q).

Definition flt_x (f : flt) : xr :=
  match f with
  | FNaN => XNaN | FPInf => XPInf | FNInf => XNInf
  | FNZero => XFin 0 | FFin q => XFin q
  end.

(* Python's  a <= b  on numbers: False as soon as a NaN is involved *)
Definition x_leb (a b : xr) : bool :=
  match a, b with
  | XNaN, _ => false
  | _, XNaN => false
  | XNInf, _ => true
  | _, XPInf => true
  | XPInf, _ => false
  | _, XNInf => false
  | XFin p, XFin q => Qle_bool p q
  end.

(* a bound given to a constructor: an int or a float *)
Inductive num := NI (z : Z) | NF (f : flt).
Definition num_x (n : num) : xr :=
  match n with NI z => XFin (inject_Z z) | NF f => flt_x f end.

(* ------------------------------------------------------------------ Python values *)
Inductive pyval :=
| VInt (z : Z)
| VBool (b : bool)
| VFloat (f : flt)
| VStr (s : string)
| VQty (cls : N) (si : flt) (unit : string)    (* a Quantity instance: class tag, si value, unit *)
| VNone
| VOther (tag : N).                             (* 0 list, 1 tuple, 2 SI, 3 dict, 9 anything else *)

(* isinstance lattice *)
Definition is_int (v : pyval) : bool := match v with VInt _ | VBool _ => true | _ => false end.
(* Quantity and SI are subclasses of float *)
Definition is_float (v : pyval) : bool :=
  match v with VFloat _ | VQty _ _ _ => true | VOther t => N.eqb t 2 | _ => false end.
Definition is_bool (v : pyval) : bool := match v with VBool _ => true | _ => false end.
Definition is_str (v : pyval) : bool := match v with VStr _ => true | _ => false end.

(* the number a value denotes in a comparison with a plain int/float bound;
   None for a Quantity or SI (their comparison operators raise TypeError
   against a plain number) and for non-numbers *)
Definition val_x (v : pyval) : option xr :=
  match v with
  | VInt z => Some (XFin (inject_Z z))
  | VBool b => Some (XFin (if b then 1 else 0))
  | VFloat f => Some (flt_x f)
  | _ => None
  end.

(* mn <= x <= mx *)
Definition between (mn mx : num) (x : xr) : bool := x_leb (num_x mn) x && x_leb x (num_x mx).

Fixpoint mem_str (s : string) (l : list string) : bool :=
  match l with [] => false | x :: r => String.eqb s x || mem_str s r end.

(* ------------------------------------------------------------------ keys and dotted paths *)
Definition dot : ascii := "."%char.

Fixpoint has_dot (s : string) : bool :=
  match s with
  | EmptyString => false
  | String c r => Ascii.eqb c dot || has_dot r
  end.

(* key.split('.') ; get/remove peel off the part before the first '.' and
   recurse on the remainder, which visits exactly these segments in order *)
Fixpoint segments (s : string) : list string :=
  match s with
  | EmptyString => [EmptyString]
  | String c r =>
      if Ascii.eqb c dot then EmptyString :: segments r
      else match segments r with
           | seg :: rest => String c seg :: rest
           | [] => [String c EmptyString]
           end
  end.

Fixpoint join (segs : list string) : string :=
  match segs with
  | [] => EmptyString
  | a :: r => match r with
              | [] => a
              | _ => String.append a (String dot (join r))
              end
  end.

(* the text after the first '.', i.e. an extended key without the root's own key *)
Fixpoint after_dot (s : string) : string :=
  match s with
  | EmptyString => EmptyString
  | String c r => if Ascii.eqb c dot then r else after_dot r
  end.

(* the text before the first '.', i.e. parts[0] of key.split('.') *)
Fixpoint before_dot (s : string) : string :=
  match s with
  | EmptyString => EmptyString
  | String c r => if Ascii.eqb c dot then EmptyString else String c (before_dot r)
  end.

(* ------------------------------------------------------------------ parameters *)
(* what a leaf parameter checks in set_value *)
Inductive constr :=
| CInt (mn mx : num)
| CFloat (mn mx : num)
| CStr
| CBool
| CQty (cls : N) (mn mx : num)           (* quantity class of the default; bounds on the si value *)
| CSel (opts : list string)
| CUnit (cls : N) (opts : list string).  (* InputParameterUnit: a selection list of the class's units *)

(* h_id is the identity of the parameter object: the model stamps every object
   it creates with the number of the operation that created it (1, 2, ...;
   0 is the root map), so identities grow with creation = insertion order *)
(* h_seq is the number of the operation that put the object into the map it is
   listed in now (for an object constructed with a parent, or not attached yet:
   the operation that created it).  Among children of equal priority it is the
   insertion order.  An object built parent-less and attached later keeps its
   identity and gets a new h_seq at the attachment. *)
Record hdr := mkHdrS { h_id : nat; h_key : string; h_prio : Q; h_seq : nat }.
Definition mkHdr (id : nat) (key : string) (prio : Q) : hdr := mkHdrS id key prio id.

Inductive param :=
| Leaf (h : hdr) (ro : bool) (c : constr) (dflt val : pyval)
| Map (h : hdr) (ch : list param).          (* ch = the dict _value, in iteration order *)

Definition phdr (p : param) : hdr := match p with Leaf h _ _ _ _ => h | Map h _ => h end.
Definition pkey (p : param) : string := h_key (phdr p).
Definition pprio (p : param) : Q := h_prio (phdr p).
Definition pid (p : param) : nat := h_id (phdr p).
Definition pseq (p : param) : nat := h_seq (phdr p).

(* the same object, listed from operation n on *)
Definition restamp (n : nat) (p : param) : param :=
  let f := fun h => mkHdrS (h_id h) (h_key h) (h_prio h) n in
  match p with
  | Leaf h ro c d v => Leaf (f h) ro c d v
  | Map h ch => Map (f h) ch
  end.

Fixpoint find_child (k : string) (ch : list param) : option param :=
  match ch with
  | [] => None
  | c :: r => if String.eqb k (pkey c) then Some c else find_child k r
  end.

Definition has_key (k : string) (ch : list param) : bool :=
  match find_child k ch with Some _ => true | None => false end.

(* in-place change of a child object: its dict slot stays where it is *)
Fixpoint replace_child (k : string) (c' : param) (ch : list param) : list param :=
  match ch with
  | [] => []
  | c :: r => if String.eqb k (pkey c) then c' :: r else c :: replace_child k c' r
  end.

Fixpoint remove_child (k : string) (ch : list param) : list param :=
  match ch with
  | [] => []
  | c :: r => if String.eqb k (pkey c) then r else c :: remove_child k r
  end.

(* sorted(items, key=item[1]) : InputParameter.__lt__ compares display_priority;
   sorted is stable.  Stable insertion sort is the unique stable sort. *)
Definition prio_ltb (a b : param) : bool := negb (Qle_bool (pprio b) (pprio a)).

Fixpoint insert_sorted (x : param) (l : list param) : list param :=
  match l with
  | [] => [x]
  | y :: r => if prio_ltb y x then y :: insert_sorted x r else x :: l
  end.

Definition py_sorted (l : list param) : list param := fold_right insert_sorted [] l.

(* InputParameterMap.add *)
Definition map_add (p : param) (m : param) : res param :=
  match m with
  | Leaf _ _ _ _ _ => Raise AttributeError          (* only reachable through <non-map>.add(p) *)
  | Map h ch =>
      if has_key (pkey p) ch then Raise ValueError
      else Val (Map h (py_sorted (ch ++ [p])))
  end.

(* the node a list of segments leads to ([] = the node itself) *)
Fixpoint node_at (p : param) (segs : list string) : option param :=
  match segs with
  | [] => Some p
  | k :: r =>
      match p with
      | Leaf _ _ _ _ _ => None
      | Map _ ch => match find_child k ch with
                    | None => None
                    | Some c => node_at c r
                    end
      end
  end.

(* InputParameterMap.get : every failure is a KeyError *)
Definition get (root : param) (key : string) : res param :=
  match node_at root (segments key) with
  | Some p => Val p
  | None => Raise KeyError
  end.

(* walk down like get does, apply f to the node found, rebuild the spine *)
Fixpoint modify (segs : list string) (f : param -> res param) (p : param) : res param :=
  match segs with
  | [] => f p
  | k :: r =>
      match p with
      | Leaf _ _ _ _ _ => Raise KeyError
      | Map h ch =>
          match find_child k ch with
          | None => Raise KeyError
          | Some c =>
              match modify r f c with
              | Val c' => Val (Map h (replace_child k c' ch))
              | Raise e => Raise e
              end
          end
      end
  end.

(* InputParameterMap.remove : returns (new tree, removed parameter) *)
Fixpoint remove_at (segs : list string) (p : param) : res (param * param) :=
  match segs with
  | [] => Raise KeyError
  | k :: r =>
      match p with
      | Leaf _ _ _ _ _ => Raise KeyError
      | Map h ch =>
          match find_child k ch with
          | None => Raise KeyError
          | Some c =>
              match r with
              | [] => Val (Map h (remove_child k ch), c)
              | _ => match remove_at r c with
                     | Val (c', x) => Val (Map h (replace_child k c' ch), x)
                     | Raise e => Raise e
                     end
              end
          end
      end
  end.

(* ------------------------------------------------------------------ get / remove as written in parameters.py
   A line-by-line transcription of the recursion in InputParameterMap.get and
   .remove: test for a '.', look up parts[0], insist on a sub-map, recurse on
   the text after the first '.'.  [fuel] bounds the recursion depth (the key
   gets shorter at every call; running out is reported as OtherError and is
   excluded by the equivalence lemmas in Proofs.v, which show that these
   functions agree with [get], [remove_at], [modify] over [segments]).
   The Leaf case is not reachable (get / remove are methods of maps). *)
Fixpoint get_lit (fuel : nat) (m : param) (key : string) : res param :=
  match fuel with
  | O => Raise OtherError
  | S f =>
      match m with
      | Leaf _ _ _ _ _ => Raise KeyError
      | Map _ ch =>
          if has_dot key then
            match find_child (before_dot key) ch with
            | None => Raise KeyError                          (* parts[0] not in self._value *)
            | Some (Leaf _ _ _ _ _) => Raise KeyError         (* not a sub-map *)
            | Some c => get_lit f c (after_dot key)           (* .get(key[key.find('.') + 1:]) *)
            end
          else
            match find_child key ch with
            | None => Raise KeyError
            | Some c => Val c
            end
      end
  end.

Fixpoint remove_lit (fuel : nat) (m : param) (key : string) : res (param * param) :=
  match fuel with
  | O => Raise OtherError
  | S f =>
      match m with
      | Leaf _ _ _ _ _ => Raise KeyError
      | Map h ch =>
          if has_dot key then
            match find_child (before_dot key) ch with
            | None => Raise KeyError
            | Some (Leaf _ _ _ _ _) => Raise KeyError
            | Some c =>
                match remove_lit f c (after_dot key) with
                | Val (c', x) => Val (Map h (replace_child (before_dot key) c' ch), x)
                | Raise e => Raise e
                end
            end
          else
            match find_child key ch with
            | None => Raise KeyError                          (* self._value.pop(key) *)
            | Some c => Val (Map h (remove_child key ch), c)
            end
      end
  end.

(* p = m.get(key); f(p) changes p in place *)
Fixpoint modify_lit (fuel : nat) (f : param -> res param) (m : param) (key : string) : res param :=
  match fuel with
  | O => Raise OtherError
  | S fu =>
      match m with
      | Leaf _ _ _ _ _ => Raise KeyError
      | Map h ch =>
          if has_dot key then
            match find_child (before_dot key) ch with
            | None => Raise KeyError
            | Some (Leaf _ _ _ _ _) => Raise KeyError
            | Some c =>
                match modify_lit fu f c (after_dot key) with
                | Val c' => Val (Map h (replace_child (before_dot key) c' ch))
                | Raise e => Raise e
                end
            end
          else
            match find_child key ch with
            | None => Raise KeyError
            | Some c => match f c with
                        | Val c' => Val (Map h (replace_child key c' ch))
                        | Raise e => Raise e
                        end
            end
      end
  end.

Definition fuel_for (key : string) : nat := S (String.length key).
Definition py_get (m : param) (key : string) : res param := get_lit (fuel_for key) m key.
Definition py_remove (m : param) (key : string) : res (param * param) := remove_lit (fuel_for key) m key.
Definition py_modify (f : param -> res param) (m : param) (key : string) : res param := modify_lit (fuel_for key) f m key.

(* ------------------------------------------------------------------ what "a valid value" means *)
(* The declared type / bounds / option list / quantity type of each class, as
   documented; written independently of set_value ([check_set] below), to which
   it is related by a theorem. *)
Definition in_bounds (mn mx : num) (x : option xr) : bool :=
  match x with Some x => between mn mx x | None => false end.

Definition valid_for (c : constr) (v : pyval) : bool :=
  match c with
  | CInt mn mx => is_int v && in_bounds mn mx (val_x v)
  | CFloat mn mx => (is_int v || is_float v) && in_bounds mn mx (val_x v)
  | CStr => is_str v
  | CBool => is_bool v
  | CQty cls mn mx =>
      match v with
      | VQty cls' si _ => N.eqb cls' cls && between mn mx (flt_x si)
      | _ => false
      end
  | CSel opts | CUnit _ opts =>
      match v with VStr s => mem_str s opts | _ => false end
  end.

(* ------------------------------------------------------------------ behaviour switches *)
Record quirks := mkQuirks {
  q_str_ignores_ro : bool;      (* InputParameterStr.set_value has no read-only check *)
  q_model_set_attr : bool;      (* DSOLModel.set_parameter assigns the setter-less property .value *)
  q_register_first : bool       (* InputParameter.__init__ registers in the parent before the subclass validates *)
}.
Definition repaired : quirks := mkQuirks false false false.
Definition pinned : quirks := mkQuirks true true true.

(* ------------------------------------------------------------------ set_value, per class *)
(* None = accepted *)
Definition check_set (q : quirks) (ro : bool) (c : constr) (v : pyval) : option exn :=
  match c with
  | CInt mn mx =>
      if ro then Some ValueError
      else if negb (is_int v) then Some TypeError
      else match val_x v with
           | Some x => if between mn mx x then None else Some ValueError
           | None => Some TypeError
           end
  | CFloat mn mx =>
      if ro then Some ValueError
      else if negb (is_int v || is_float v) then Some TypeError
      else match val_x v with
           | Some x => if between mn mx x then None else Some ValueError
           | None => Some TypeError        (* a Quantity: comparing it with the bound raises *)
           end
  | CStr =>
      if ro && negb (q_str_ignores_ro q) then Some ValueError
      else if negb (is_str v) then Some ValueError       (* sic: ValueError, not TypeError *)
      else None
  | CBool =>
      if ro then Some ValueError
      else if negb (is_bool v) then Some TypeError
      else None
  | CQty cls mn mx =>
      if ro then Some ValueError
      else match v with
           | VQty cls' si _ =>
               if negb (N.eqb cls' cls) then Some ValueError
               else if between mn mx (flt_x si) then None else Some ValueError
           | _ => Some ValueError                          (* sic: ValueError *)
           end
  | CSel opts | CUnit _ opts =>
      if ro then Some ValueError
      else match v with
           | VStr s => if mem_str s opts then None else Some ValueError
           | _ => Some TypeError
           end
  end.

Definition set_value (q : quirks) (v : pyval) (p : param) : res param :=
  match p with
  | Map _ _ => Raise NotImplementedError
  | Leaf h ro c d _ =>
      match check_set q ro c v with
      | None => Val (Leaf h ro c d v)
      | Some e => Raise e
      end
  end.

(* ------------------------------------------------------------------ construction *)
Inductive kspec :=
| SMap
| SInt (mn mx : num)
| SFloat (mn mx : num)
| SStr
| SBool
| SQty (mn mx : num)
| SSel (opts : list string)
| SUnit (cls : N) (units : list string).   (* units = list(quantity._units.keys()), supplied by the harness *)

(* constructor arguments of the wrong Python type (the malformed stream);
   none of them can be represented by the well-typed fields of [pspec], so
   they are flags, and a flagged argument's field is ignored *)
Record flaws := mkFlaws {
  f_key : bool;      (* key is not a str *)
  f_name : N;        (* 0 fine; 1 name is not a str; 2 name is the empty string *)
  f_prio : bool;     (* display_priority is neither int nor float *)
  f_ro : bool;       (* read_only is not a bool *)
  f_min : bool;      (* min_value / min_si is neither int nor float *)
  f_max : bool;
  f_fmt : bool;      (* format_str is not a str *)
  f_opts : N         (* 0 fine; 1 options is not a list; 2 options holds a non-str *)
}.
Definition no_flaws : flaws := mkFlaws false 0 false false false false false 0.

Record pspec := mkSpec {
  s_key : string;
  s_prio : Q;
  s_ro : bool;
  s_kind : kspec;
  s_default : pyval;
  s_flaws : flaws
}.

Definition qty_class (d : pyval) : N := match d with VQty cls _ _ => cls | _ => 0%N end.

Definition constr_of (k : kspec) (d : pyval) : constr :=
  match k with
  | SMap => CStr          (* not used *)
  | SInt mn mx => CInt mn mx
  | SFloat mn mx => CFloat mn mx
  | SStr => CStr
  | SBool => CBool
  | SQty mn mx => CQty (qty_class d) mn mx
  | SSel opts => CSel opts
  | SUnit cls units => CUnit cls units
  end.

Definition node_of (id : nat) (s : pspec) : param :=
  let h := mkHdr id (s_key s) (s_prio s) in
  match s_kind s with
  | SMap => Map h []
  | k => Leaf h (s_ro s) (constr_of k (s_default s)) (s_default s) (s_default s)
  end.

(* list, SI, dict: d in dict raises TypeError (Quantity and SI define __eq__ without __hash__) *)
Definition unhashable (tag : N) : bool := N.eqb tag 0 || N.eqb tag 2 || N.eqb tag 3.

(* InputParameterUnit checks its own arguments before anything else *)
Definition unit_checks (s : pspec) : option exn :=
  match s_kind s with
  | SUnit _ units =>
      match s_default s with
      | VStr d => if mem_str d units then None else Some ValueError
      | VOther t => if unhashable t then Some TypeError else Some ValueError
      | VQty _ _ _ => Some TypeError
      | _ => Some ValueError
      end
  | _ => None
  end.

(* the checks of the subclass constructors on default value and bounds *)
Definition default_checks (s : pspec) : option exn :=
  let d := s_default s in
  let fl := s_flaws s in
  match s_kind s with
  | SMap => None
  | SInt mn mx =>
      if negb (is_int d) then Some TypeError
      else if f_min fl || f_max fl || f_fmt fl then Some TypeError
      else if x_leb (num_x mx) (num_x mn) then Some ValueError          (* min >= max *)
      else match val_x d with
           | Some x => if between mn mx x then None else Some ValueError
           | None => Some TypeError
           end
  | SFloat mn mx =>
      if negb (is_int d || is_float d) then Some TypeError
      else if f_min fl || f_max fl || f_fmt fl then Some TypeError
      else if x_leb (num_x mx) (num_x mn) then Some ValueError
      else match val_x d with
           | Some x => if between mn mx x then None else Some ValueError
           | None => Some TypeError
           end
  | SStr => if is_str d then None else Some TypeError
  | SBool => if is_bool d then None else Some TypeError
  | SQty mn mx =>
      match d with
      | VQty _ si _ =>
          if f_min fl || f_max fl || f_fmt fl then Some TypeError
          else if x_leb (num_x mx) (num_x mn) then Some ValueError
          else if between mn mx (flt_x si) then None else Some ValueError
      | _ => Some TypeError
      end
  | SSel opts =>
      if negb (N.eqb (f_opts fl) 0) then Some TypeError          (* checked before the default *)
      else match d with
           | VStr x => if mem_str x opts then None else Some ValueError
           | _ => Some TypeError
           end
  | SUnit _ opts =>
      match d with
      | VStr x => if mem_str x opts then None else Some ValueError
      | _ => Some TypeError
      end
  end.

(* InputParameter.__init__ : its checks, in the order they are made *)
Definition base_checks (s : pspec) (parent : option param) : option exn :=
  let fl := s_flaws s in
  if f_key fl then Some TypeError
  else if String.eqb (s_key s) EmptyString then Some ValueError
  else if has_dot (s_key s) then Some ValueError
  else if N.eqb (f_name fl) 1 then Some TypeError
  else if N.eqb (f_name fl) 2 then Some ValueError
  else if f_prio fl then Some TypeError
  else match parent with
       | Some (Leaf _ _ _ _ _) => Some TypeError        (* parent not an InputParameterMap *)
       | _ => match s_kind s with
              | SMap => None                                  (* a map has no read_only argument *)
              | _ => if f_ro fl then Some TypeError else None
              end
       end.

Definition first_exn (a b : option exn) : option exn :=
  match a with Some e => Some e | None => b end.

(* every constructor check except the duplicate-key check made by parent.add.
   repaired: subclass validation first, InputParameter.__init__ (which
   registers) last.  pinned: InputParameter.__init__ first. *)
Definition ctor_checks (q : quirks) (s : pspec) (parent : option param) : option exn :=
  if q_register_first q
  then first_exn (unit_checks s) (first_exn (base_checks s parent) (default_checks s))
  else first_exn (unit_checks s) (first_exn (default_checks s) (base_checks s parent)).

(* ------------------------------------------------------------------ operations *)
Inductive op :=
| OSet (path : string) (v : pyval)               (* root.get(path).set_value(v) *)
| OAddCtor (pp : option string) (s : pspec)      (* Cls(..., parent = root | root.get(pp)) *)
| OAddMeth (pp : option string) (s : pspec)      (* par = root | root.get(pp); p = Cls(...); par.add(p) *)
| ORemove (path : string)                        (* root.remove(path) *)
| OGet (path : string)                           (* root.get(path) *)
| OModelSet (path : string) (v : pyval)          (* model.set_parameter(path, v) *)
| OModelGet (path : string)                      (* model.get_parameter(path) *)
| OReAdd (src : string) (dst : option string)    (* p = root.get(src); par = root | root.get(dst); par.add(p):
                                                    an EXISTING object is offered to a map.  The refused cases
                                                    (duplicate key in par, par not a map) are modelled: nothing
                                                    changes, in particular not p's parent / extended key, which
                                                    the model reads from p's position.  An ACCEPTED re-add makes
                                                    one object a member of two maps; that is outside this tree
                                                    model and is flagged [OOutside] (the harness ends a sequence
                                                    there). *)
| OInspect (path : string)
(* bottom-up construction: parent-less objects, operations on them, attaching them *)
| ONew (s : pspec)                               (* p = Cls(...) without parent: a new parent-less object *)
| OFree (i : nat) (o : op)                       (* o, applied to the parent-less object of identity i in place of
                                                    the model's root map (o = OAddCtor / OAddMeth / OSet / OGet /
                                                    OInspect / ORemove / OReAdd / OAttach) *)
| OAttach (i : nat) (dst : option string).       (* (T | T.get(dst)).add(<the parent-less object i>), T the root map
                                                    (or, inside OFree j, the parent-less object j) *)                      (* p = root.get(path); what p reports through its public
                                                    properties: read_only, display_priority, and
                                                    min_value / max_value | min_si / max_si / type | options | unittype *)

Inductive out :=
| ORaise (e : exn)
| ONone
| OParam (id : nat)                (* a parameter object, named by its identity *)
| OValue (v : pyval)
| OMapKeys (ks : list string)      (* the dict of a map, as its keys in iteration order *)
| ODecl (ro : bool) (prio : Q) (c : option constr)    (* a parameter's declaration (None: a map) *)
| OOutside.                                           (* accepted, but the result is outside the model *)

Definition psegs (pp : option string) : list string :=
  match pp with None => [] | Some s => segments s end.

(* one operation on the tree; [id] is the identity given to an object the
   operation creates *)
Definition step_root (q : quirks) (id : nat) (root : param) (o : op) : param * out :=
  match o with
  | OSet path v =>
      match modify (segments path) (set_value q v) root with
      | Val root' => (root', ONone)
      | Raise e => (root, ORaise e)
      end
  | OModelSet path v =>
      if q_model_set_attr q then
        match get root path with
        | Val _ => (root, ORaise AttributeError)       (* property 'value' has no setter *)
        | Raise e => (root, ORaise e)
        end
      else
        match modify (segments path) (set_value q v) root with
        | Val root' => (root', ONone)
        | Raise e => (root, ORaise e)
        end
  | OGet path =>
      match get root path with
      | Val p => (root, OParam (pid p))
      | Raise e => (root, ORaise e)
      end
  | OModelGet path =>
      match get root path with
      | Val (Leaf _ _ _ _ v) => (root, OValue v)
      | Val (Map _ ch) => (root, OMapKeys (map pkey ch))
      | Raise e => (root, ORaise e)
      end
  | OReAdd src dst =>
      match get root src with
      | Raise e => (root, ORaise e)
      | Val p =>
          match node_at root (psegs dst) with
          | None => (root, ORaise KeyError)
          | Some par =>
              match map_add p par with
              | Raise e => (root, ORaise e)          (* refused: duplicate key (ValueError), not a map *)
              | Val _ => (root, OOutside)
              end
          end
      end
  | OInspect path =>
      match get root path with
      | Val (Leaf h ro c _ _) => (root, ODecl ro (h_prio h) (Some c))
      | Val (Map h _) => (root, ODecl true (h_prio h) None)       (* a map is read-only by definition *)
      | Raise e => (root, ORaise e)
      end
  | ONew _ | OFree _ _ | OAttach _ _ => (root, OOutside)      (* operations on the forest: see [step] *)
  | ORemove path =>
      match remove_at (segments path) root with
      | Val (root', x) => (root', OParam (pid x))
      | Raise e => (root, ORaise e)
      end
  | OAddMeth pp s =>
      match node_at root (psegs pp) with
      | None => (root, ORaise KeyError)
      | Some _ =>
          match ctor_checks q s None with
          | Some e => (root, ORaise e)
          | None =>
              match modify (psegs pp) (map_add (node_of id s)) root with
              | Val root' => (root', ONone)
              | Raise e => (root, ORaise e)
              end
          end
      end
  | OAddCtor pp s =>
      match node_at root (psegs pp) with
      | None => (root, ORaise KeyError)
      | Some par =>
          if q_register_first q then
            (* pinned: base checks, registration, then the subclass validates *)
            match first_exn (unit_checks s) (base_checks s (Some par)) with
            | Some e => (root, ORaise e)
            | None =>
                match modify (psegs pp) (map_add (node_of id s)) root with
                | Raise e => (root, ORaise e)
                | Val root' =>
                    match default_checks s with
                    | Some e => (root', ORaise e)       (* raised, yet registered *)
                    | None => (root', ONone)
                    end
                end
            end
          else
            match ctor_checks q s (Some par) with
            | Some e => (root, ORaise e)
            | None =>
                match modify (psegs pp) (map_add (node_of id s)) root with
                | Val root' => (root', ONone)
                | Raise e => (root, ORaise e)
                end
            end
      end
  end.

(* The same operations over the transcribed get / remove (this is what the
   correspondence check executes); equal to [step_root] by [step_root_lit_eq]. *)
Definition py_parent (root : param) (pp : option string) : res param :=
  match pp with None => Val root | Some k => py_get root k end.

Definition py_modify_at (pp : option string) (f : param -> res param) (root : param) : res param :=
  match pp with None => f root | Some k => py_modify f root k end.

Definition step_root_lit (q : quirks) (id : nat) (root : param) (o : op) : param * out :=
  match o with
  | OSet path v =>
      match py_modify (set_value q v) root path with
      | Val root' => (root', ONone)
      | Raise e => (root, ORaise e)
      end
  | OModelSet path v =>
      if q_model_set_attr q then
        match py_get root path with
        | Val _ => (root, ORaise AttributeError)
        | Raise e => (root, ORaise e)
        end
      else
        match py_modify (set_value q v) root path with
        | Val root' => (root', ONone)
        | Raise e => (root, ORaise e)
        end
  | OGet path =>
      match py_get root path with
      | Val p => (root, OParam (pid p))
      | Raise e => (root, ORaise e)
      end
  | OModelGet path =>
      match py_get root path with
      | Val (Leaf _ _ _ _ v) => (root, OValue v)
      | Val (Map _ ch) => (root, OMapKeys (map pkey ch))
      | Raise e => (root, ORaise e)
      end
  | OReAdd src dst =>
      match py_get root src with
      | Raise e => (root, ORaise e)
      | Val p =>
          match py_parent root dst with
          | Raise e => (root, ORaise e)
          | Val par =>
              match map_add p par with
              | Raise e => (root, ORaise e)
              | Val _ => (root, OOutside)
              end
          end
      end
  | OInspect path =>
      match py_get root path with
      | Val (Leaf h ro c _ _) => (root, ODecl ro (h_prio h) (Some c))
      | Val (Map h _) => (root, ODecl true (h_prio h) None)
      | Raise e => (root, ORaise e)
      end
  | ONew _ | OFree _ _ | OAttach _ _ => (root, OOutside)
  | ORemove path =>
      match py_remove root path with
      | Val (root', x) => (root', OParam (pid x))
      | Raise e => (root, ORaise e)
      end
  | OAddMeth pp s =>
      match py_parent root pp with
      | Raise e => (root, ORaise e)
      | Val _ =>
          match ctor_checks q s None with
          | Some e => (root, ORaise e)
          | None =>
              match py_modify_at pp (map_add (node_of id s)) root with
              | Val root' => (root', ONone)
              | Raise e => (root, ORaise e)
              end
          end
      end
  | OAddCtor pp s =>
      match py_parent root pp with
      | Raise e => (root, ORaise e)
      | Val par =>
          if q_register_first q then
            match first_exn (unit_checks s) (base_checks s (Some par)) with
            | Some e => (root, ORaise e)
            | None =>
                match py_modify_at pp (map_add (node_of id s)) root with
                | Raise e => (root, ORaise e)
                | Val root' =>
                    match default_checks s with
                    | Some e => (root', ORaise e)
                    | None => (root', ONone)
                    end
                end
            end
          else
            match ctor_checks q s (Some par) with
            | Some e => (root, ORaise e)
            | None =>
                match py_modify_at pp (map_add (node_of id s)) root with
                | Val root' => (root', ONone)
                | Raise e => (root, ORaise e)
                end
            end
      end
  end.

(* the whole state: the tree of a DSOLModel, the objects that are in no map - built
   parent-less and not attached yet, or RETIRED: taken out of their map by
   remove(), which hands the object back - (each is the root of its own tree,
   addressed by its identity; in the order they became free) and the number of
   the next operation.  A retired object can be added again like a parent-less
   one: add() checks the key, sets the parent and registers (that remove() on
   HEAD leaves the retired object's _parent attribute pointing at the old map
   makes no difference to add(); its extended_key() while retired is not
   observed). *)
Record state := mkState { st_root : param; st_next : nat; st_free : list param }.

Fixpoint find_free (i : nat) (l : list param) : option param :=
  match l with
  | [] => None
  | t :: r => if Nat.eqb (pid t) i then Some t else find_free i r
  end.

Fixpoint remove_free (i : nat) (l : list param) : list param :=
  match l with
  | [] => []
  | t :: r => if Nat.eqb (pid t) i then r else t :: remove_free i r
  end.

Fixpoint replace_free (i : nat) (t' : param) (l : list param) : list param :=
  match l with
  | [] => []
  | t :: r => if Nat.eqb (pid t) i then t' :: r else t :: replace_free i t' r
  end.

(* the tree an operation works on: the model's root map, or a parent-less object *)
Definition target := option nat.

Definition get_target (root : param) (free : list param) (tg : target) : option param :=
  match tg with None => Some root | Some j => find_free j free end.

Definition set_target (root : param) (free : list param) (tg : target) (t' : param) : param * list param :=
  match tg with None => (t', free) | Some j => (root, replace_free j t' free) end.

Definition split_target (o : op) : target * op :=
  match o with OFree j o' => (Some j, o') | _ => (None, o) end.

(* One operation on the forest, over the functions that act on one tree:
   [tstep] the tree operations, [rem] remove (which also hands back the removed
   object: it becomes a retired, free object), [ctor] the parent-less
   constructor call, [attach] par.add(t) at a path of the target.  [step] instantiates them with
   the transcription, GenAgree.v with the functions generated from the source. *)
Definition step_with
    (tstep : nat -> param -> op -> param * out)
    (rem : param -> string -> res (param * param))
    (ctor : nat -> pspec -> res param)
    (attach : option string -> param -> param -> res param)
    (st : state) (o : op) : state * out :=
  let n := st_next st in
  let root := st_root st in
  let free := st_free st in
  let same := fun r => (mkState root (S n) free, r) in
  let '(tg, o') := split_target o in
  match get_target root free tg with
  | None => same OOutside                              (* no such parent-less object *)
  | Some T =>
      match o' with
      | ONew s =>
          match tg with
          | Some _ => same OOutside
          | None =>
              match ctor n s with
              | Raise e => same (ORaise e)
              | Val p => (mkState root (S n) (free ++ [p]), ONone)
              end
          end
      | OFree _ _ => same OOutside
      | ORemove path =>
          match rem T path with
          | Raise e => same (ORaise e)
          | Val (T', x) =>
              let '(root', free') := set_target root free tg T' in
              (mkState root' (S n) (free' ++ [x]), OParam (pid x))      (* x is retired, not gone *)
          end
      | OAttach i dst =>
          match find_free i free with
          | None => same OOutside
          | Some t =>
              if match tg with Some j => Nat.eqb i j | None => false end
              then same OOutside                       (* an object offered to itself: a cycle, not a tree *)
              else
                match attach dst (restamp n t) T with
                | Raise e => same (ORaise e)           (* refused: t stays parent-less, nothing changes *)
                | Val T' =>
                    let '(root', free') := set_target root (remove_free i free) tg T' in
                    (mkState root' (S n) free', ONone)
                end
          end
      | _ =>
          let '(T', r) := tstep n T o' in
          let '(root', free') := set_target root free tg T' in
          (mkState root' (S n) free', r)
      end
  end.

(* Cls(...) without parent *)
Definition ctor_free (q : quirks) (n : nat) (s : pspec) : res param :=
  match ctor_checks q s None with Some e => Raise e | None => Val (node_of n s) end.

(* par = T | T.get(dst); par.add(t) *)
Definition attach_seg (dst : option string) (t T : param) : res param := modify (psegs dst) (map_add t) T.
Definition attach_lit (dst : option string) (t T : param) : res param := py_modify_at dst (map_add t) T.

Definition step (q : quirks) : state -> op -> state * out :=
  step_with (step_root_lit q) py_remove (ctor_free q) attach_lit.

Fixpoint run (q : quirks) (st : state) (ops : list op) : state :=
  match ops with
  | [] => st
  | o :: r => run q (fst (step q st o)) r
  end.

(* DSOLModel.__init__ : InputParameterMap("root", "parameters", 1) *)
Definition root_key : string := "root"%string.
Definition init : state := mkState (Map (mkHdr 0 root_key 1) []) 1 [].

(* ------------------------------------------------------------------ observation *)
(* every parameter below (and including) p with its extended key, pre-order =
   iteration order of the nested dicts.  extended_key() walks the parents and
   joins their keys with '.', which is the prefix accumulated here. *)
Fixpoint ext_keys (prefix : string) (p : param) : list (string * param) :=
  let ek := String.append prefix (pkey p) in
  (ek, p) :: match p with
             | Leaf _ _ _ _ _ => []
             | Map _ ch => flat_map (ext_keys (String.append ek (String dot EmptyString))) ch
             end.

(* (extended key, identity, value (None for a map), default) *)
Definition dump_entry := (string * nat * option pyval * pyval)%type.

Definition entry_of (e : string * param) : dump_entry :=
  match snd e with
  | Leaf h _ _ d v => (fst e, h_id h, Some v, d)
  | Map h _ => (fst e, h_id h, None, VNone)
  end.

Definition dump_root (root : param) : list dump_entry := map entry_of (ext_keys EmptyString root).

(* the model's tree, then every free (parent-less or retired) object with what
   hangs below it (keys starting at the object's own key) *)
Definition dump_state (st : state) : list dump_entry :=
  dump_root (st_root st) ++ flat_map dump_root (st_free st).

(* ------------------------------------------------------------------ equality of observables *)
Definition q_eqb (a b : Q) : bool := Z.eqb (Qnum a) (Qnum b) && Pos.eqb (Qden a) (Qden b).

Definition flt_eqb (a b : flt) : bool :=
  match a, b with
  | FNaN, FNaN => true
  | FPInf, FPInf => true
  | FNInf, FNInf => true
  | FNZero, FNZero => true
  | FFin p, FFin q => q_eqb p q
  | _, _ => false
  end.

Definition pyval_eqb (a b : pyval) : bool :=
  match a, b with
  | VInt x, VInt y => Z.eqb x y
  | VBool x, VBool y => Bool.eqb x y
  | VFloat x, VFloat y => flt_eqb x y
  | VStr x, VStr y => String.eqb x y
  | VQty c x u, VQty d y w => N.eqb c d && flt_eqb x y && String.eqb u w
  | VNone, VNone => true
  | VOther x, VOther y => N.eqb x y
  | _, _ => false
  end.

Definition exn_eqb (a b : exn) : bool :=
  match a, b with
  | TypeError, TypeError => true
  | ValueError, ValueError => true
  | KeyError, KeyError => true
  | NotImplementedError, NotImplementedError => true
  | AttributeError, AttributeError => true
  | OtherError, OtherError => true
  | _, _ => false
  end.

Fixpoint strs_eqb (a b : list string) : bool :=
  match a, b with
  | [], [] => true
  | x :: r, y :: s => String.eqb x y && strs_eqb r s
  | _, _ => false
  end.

Definition num_eqb (a b : num) : bool :=
  match a, b with
  | NI x, NI y => Z.eqb x y
  | NF x, NF y => flt_eqb x y
  | _, _ => false
  end.

Definition constr_eqb (a b : constr) : bool :=
  match a, b with
  | CInt m x, CInt m' x' => num_eqb m m' && num_eqb x x'
  | CFloat m x, CFloat m' x' => num_eqb m m' && num_eqb x x'
  | CStr, CStr => true
  | CBool, CBool => true
  | CQty c m x, CQty c' m' x' => N.eqb c c' && num_eqb m m' && num_eqb x x'
  | CSel o, CSel o' => strs_eqb o o'
  | CUnit c o, CUnit c' o' => N.eqb c c' && strs_eqb o o'
  | _, _ => false
  end.

Definition out_eqb (a b : out) : bool :=
  match a, b with
  | ORaise x, ORaise y => exn_eqb x y
  | ONone, ONone => true
  | OParam x, OParam y => Nat.eqb x y
  | OValue x, OValue y => pyval_eqb x y
  | OMapKeys x, OMapKeys y => strs_eqb x y
  | OOutside, OOutside => true
  | ODecl r p c, ODecl r' p' c' =>
      Bool.eqb r r' && Qeq_bool p p' &&
      match c, c' with
      | None, None => true
      | Some x, Some y => constr_eqb x y
      | _, _ => false
      end
  | _, _ => false
  end.

Definition entry_eqb (a b : dump_entry) : bool :=
  let '(ka, ia, va, da) := a in
  let '(kb, ib, vb, db) := b in
  String.eqb ka kb && Nat.eqb ia ib &&
  match va, vb with
  | None, None => true
  | Some x, Some y => pyval_eqb x y
  | _, _ => false
  end && pyval_eqb da db.

Fixpoint dump_eqb (a b : list dump_entry) : bool :=
  match a, b with
  | [], [] => true
  | x :: r, y :: s => entry_eqb x y && dump_eqb r s
  | _, _ => false
  end.

(* One correspondence case: operations with the implementation's result and,
   when the implementation's observable state changed, its new dump (None =
   the implementation's dump is the same as before the operation).
   [trace_bad] is the position of the first operation at which the model and
   the implementation differ (None = they agree on the whole trace). *)
Definition obs := (op * out * option (list dump_entry))%type.

Fixpoint trace_bad (q : quirks) (i : nat) (st : state) (prev : list dump_entry) (l : list obs) : option nat :=
  match l with
  | [] => None
  | (o, expected, d) :: r =>
      let '(st', got) := step q st o in
      let now := dump_state st' in
      let want := match d with Some x => x | None => prev end in
      if out_eqb got expected && dump_eqb now want then trace_bad q (S i) st' want r else Some i
  end.

Definition case_bad (q : quirks) (l : list obs) : option nat :=
  trace_bad q 0 init (dump_state init) l.

Definition case_ok (q : quirks) (l : list obs) : bool :=
  match case_bad q l with None => true | Some _ => false end.

Fixpoint mismatches_from (i : nat) (check : list obs -> bool) (cases : list (list obs)) : list nat :=
  match cases with
  | [] => []
  | c :: r => if check c then mismatches_from (S i) check r else i :: mismatches_from (S i) check r
  end.

(* for each listed case the position of its first disagreeing operation
   (length of the case when there is none) *)
Definition first_bad_ops (q : quirks) (cases : list (list obs)) : list nat :=
  map (fun c => match case_bad q c with Some i => i | None => List.length c end) cases.
