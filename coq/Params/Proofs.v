(* Proofs about Params.Model: validity of every held value under all operation
   sequences, rejection leaves the tree untouched, read-only / default
   constancy, addressing by dotted key, duplicate refusal, order of children,
   model-level round trip. *)
From Coq Require Import ZArith QArith List Bool String Ascii Lia Sorted Permutation.
From PV Require Import Params.Model.
Import ListNotations.
Local Open Scope list_scope.

(* ================================================================== strings *)
Lemma dot_eqb_refl : Ascii.eqb dot dot = true.
Proof. reflexivity. Qed.

Definition sdot (s : string) : string := String dot s.

Lemma append_assoc : forall a b c : string, String.append (String.append a b) c = String.append a (String.append b c).
Proof. induction a; simpl; intros; [reflexivity | now rewrite IHa]. Qed.

Lemma append_nil_r : forall a : string, String.append a EmptyString = a.
Proof. induction a; simpl; [reflexivity | now rewrite IHa]. Qed.

Lemma segments_nodot : forall a, has_dot a = false -> segments a = [a].
Proof.
  induction a as [|c a IH]; simpl; intros H; [reflexivity|].
  apply orb_false_iff in H. destruct H as [Hc Ha].
  rewrite Hc, (IH Ha). reflexivity.
Qed.

Lemma segments_dot : forall a s, has_dot a = false ->
  segments (String.append a (sdot s)) = a :: segments s.
Proof.
  induction a as [|c a IH]; intros s H.
  - simpl. reflexivity.
  - simpl in H. apply orb_false_iff in H. destruct H as [Hc Ha].
    simpl. rewrite Hc. fold (sdot s). rewrite (IH s Ha). reflexivity.
Qed.

Lemma after_dot_append : forall a s, has_dot a = false -> after_dot (String.append a (sdot s)) = s.
Proof.
  induction a as [|c a IH]; intros s H; simpl.
  - reflexivity.
  - simpl in H. apply orb_false_iff in H. destruct H as [Hc Ha]. rewrite Hc. apply IH, Ha.
Qed.

Lemma has_dot_append : forall a s, has_dot (String.append a (sdot s)) = true.
Proof. induction a as [|c a IH]; intros; simpl; [reflexivity | rewrite IH; apply orb_true_r]. Qed.

(* InputParameterMap.get / remove look at parts[0] and recurse on the text
   after the first '.', or use the whole key when it has no '.'; that visits
   exactly the segments. *)
Lemma segments_first_rest : forall key, has_dot key = true ->
  segments key = before_dot key :: segments (after_dot key).
Proof.
  induction key as [|c r IH]; simpl; intros H; [discriminate|].
  destruct (Ascii.eqb c dot) eqn:E; [reflexivity|].
  simpl in H. rewrite (IH H). reflexivity.
Qed.

Lemma join_cons2 : forall a b r, join (a :: b :: r) = String.append a (sdot (join (b :: r))).
Proof. reflexivity. Qed.

Definition nodot (k : string) : Prop := has_dot k = false.

Lemma segments_join : forall l, l <> [] -> Forall nodot l -> segments (join l) = l.
Proof.
  induction l as [|a r IH]; intros Hne HF; [congruence|].
  inversion HF as [|? ? Ha Hr]; subst.
  destruct r as [|b r].
  - simpl. apply segments_nodot, Ha.
  - rewrite join_cons2, segments_dot by exact Ha.
    f_equal. apply IH; [discriminate | exact Hr].
Qed.

Lemma eqb_false_sym : forall a b : string, String.eqb a b = false -> String.eqb b a = false.
Proof. intros a b H. apply String.eqb_neq in H. apply String.eqb_neq. congruence. Qed.

(* ================================================================== the transcribed get / remove = the walk over segments *)
Lemma segments_nonempty : forall s, exists a r, segments s = a :: r.
Proof.
  induction s as [|c s IH]; simpl; [eauto|].
  destruct (Ascii.eqb c dot); [eauto|]. destruct IH as (a & r & ->). eauto.
Qed.

Lemma after_dot_length : forall s, has_dot s = true -> (String.length (after_dot s) < String.length s)%nat.
Proof.
  induction s as [|c s IH]; simpl; intros H; [discriminate|].
  destruct (Ascii.eqb c dot); simpl in H; [lia | specialize (IH H); lia].
Qed.

Lemma get_lit_eq : forall fuel m key, (String.length key < fuel)%nat -> get_lit fuel m key = get m key.
Proof.
  induction fuel as [|fuel IH]; intros m key H; [lia|]. simpl. unfold get.
  destruct m as [h ro c d v|h ch].
  - destruct (segments_nonempty key) as (a & r & ->). reflexivity.
  - destruct (has_dot key) eqn:Hd.
    + rewrite (segments_first_rest key Hd). simpl.
      destruct (find_child (before_dot key) ch) as [c|]; [|reflexivity].
      destruct c as [h' ro' c' d' v'|h' ch'].
      * destruct (segments_nonempty (after_dot key)) as (a & r & ->). reflexivity.
      * rewrite IH by (pose proof (after_dot_length key Hd); lia). reflexivity.
    + rewrite (segments_nodot key Hd). simpl. destruct (find_child key ch); reflexivity.
Qed.

Lemma remove_lit_eq : forall fuel m key, (String.length key < fuel)%nat -> remove_lit fuel m key = remove_at (segments key) m.
Proof.
  induction fuel as [|fuel IH]; intros m key H; [lia|]. simpl.
  destruct m as [h ro c d v|h ch].
  - destruct (segments_nonempty key) as (a & r & ->). reflexivity.
  - destruct (has_dot key) eqn:Hd.
    + rewrite (segments_first_rest key Hd).
      destruct (segments_nonempty (after_dot key)) as (a & r & Hs).
      simpl. rewrite Hs.
      destruct (find_child (before_dot key) ch) as [c|]; [|reflexivity].
      destruct c as [h' ro' c' d' v'|h' ch'].
      * reflexivity.
      * rewrite IH by (pose proof (after_dot_length key Hd); lia). rewrite Hs. reflexivity.
    + rewrite (segments_nodot key Hd). simpl. destruct (find_child key ch); reflexivity.
Qed.

Lemma modify_lit_eq : forall fuel f m key, (String.length key < fuel)%nat -> modify_lit fuel f m key = modify (segments key) f m.
Proof.
  induction fuel as [|fuel IH]; intros f m key H; [lia|]. simpl.
  destruct m as [h ro c d v|h ch].
  - destruct (segments_nonempty key) as (a & r & ->). reflexivity.
  - destruct (has_dot key) eqn:Hd.
    + rewrite (segments_first_rest key Hd).
      destruct (segments_nonempty (after_dot key)) as (a & r & Hs).
      simpl. rewrite Hs.
      destruct (find_child (before_dot key) ch) as [c|]; [|reflexivity].
      destruct c as [h' ro' c' d' v'|h' ch'].
      * reflexivity.
      * rewrite IH by (pose proof (after_dot_length key Hd); lia). rewrite Hs. reflexivity.
    + rewrite (segments_nodot key Hd). simpl. destruct (find_child key ch); reflexivity.
Qed.

Lemma py_get_eq : forall m key, py_get m key = get m key.
Proof. intros. apply get_lit_eq. unfold fuel_for. lia. Qed.

Lemma py_remove_eq : forall m key, py_remove m key = remove_at (segments key) m.
Proof. intros. apply remove_lit_eq. unfold fuel_for. lia. Qed.

Lemma py_modify_eq : forall f m key, py_modify f m key = modify (segments key) f m.
Proof. intros. apply modify_lit_eq. unfold fuel_for. lia. Qed.

Lemma py_parent_eq : forall root pp,
  py_parent root pp = match node_at root (psegs pp) with Some p => Val p | None => Raise KeyError end.
Proof. intros root [k|]; simpl; [apply py_get_eq | reflexivity]. Qed.

Lemma py_modify_at_eq : forall pp f root, py_modify_at pp f root = modify (psegs pp) f root.
Proof. intros [k|] f root; simpl; [apply py_modify_eq | reflexivity]. Qed.

(* the transcription and the walk over segments are the same function *)
Theorem step_root_lit_eq : forall q n root o, step_root_lit q n root o = step_root q n root o.
Proof.
  intros q n root o. destruct o; unfold step_root_lit, step_root;
    rewrite ?py_get_eq, ?py_remove_eq, ?py_modify_eq, ?py_parent_eq, ?py_modify_at_eq; try reflexivity.
  - destruct (node_at root (psegs pp)); reflexivity.
  - destruct (node_at root (psegs pp)); reflexivity.
  - destruct (get root src); [|reflexivity]. destruct (node_at root (psegs dst)); reflexivity.
Qed.

(* ================================================================== numbers / validity *)
(* set_value accepts a value exactly when the parameter is writable and the
   value is valid for the declared type / bounds / options / quantity type
   (for the pinned tree: a read-only string parameter is writable too). *)
Lemma check_set_spec : forall q ro c v,
  check_set q ro c v = None <->
  (valid_for c v = true /\ (ro = false \/ (c = CStr /\ q_str_ignores_ro q = true))).
Proof.
  intros q ro c v.
  destruct (q_str_ignores_ro q) eqn:Hq; destruct c; destruct ro; simpl; rewrite ?Hq; simpl; destruct v; simpl;
    repeat match goal with
           | |- context [N.eqb ?a ?b] => destruct (N.eqb a b) eqn:?
           | |- context [between ?a ?b ?c] => destruct (between a b c) eqn:?
           | |- context [mem_str ?a ?b] => destruct (mem_str a b) eqn:?
           end; simpl;
    intuition (try discriminate; try congruence).
Qed.

Lemma check_set_repaired : forall ro c v,
  check_set repaired ro c v = None <-> (ro = false /\ valid_for c v = true).
Proof.
  intros. rewrite check_set_spec. simpl. intuition discriminate.
Qed.

(* set_value on the repaired code: success = a writable leaf, a valid value, and
   nothing but the value changes *)
Lemma set_value_val : forall q v p p',
  set_value q v p = Val p' ->
  exists h ro c d v0, p = Leaf h ro c d v0 /\ p' = Leaf h ro c d v /\ valid_for c v = true /\
                      (ro = false \/ (c = CStr /\ q_str_ignores_ro q = true)).
Proof.
  intros q v p p' H. destruct p as [h ro c d v0|h ch]; simpl in H; [|discriminate].
  destruct (check_set q ro c v) eqn:E; [discriminate|].
  inversion H; subst. apply check_set_spec in E. destruct E as [E1 E2].
  exists h, ro, c, d, v0. auto.
Qed.

Lemma set_value_repaired_val : forall v p p',
  set_value repaired v p = Val p' ->
  exists h c d v0, p = Leaf h false c d v0 /\ p' = Leaf h false c d v /\ valid_for c v = true.
Proof.
  intros v p p' H. apply set_value_val in H.
  destruct H as (h & ro & c & d & v0 & -> & -> & Hv & [->|[_ Hq]]); [|discriminate].
  exists h, c, d, v0. auto.
Qed.

(* ================================================================== child lists *)
Lemma find_child_key : forall k ch c, find_child k ch = Some c -> pkey c = k.
Proof.
  induction ch as [|x r IH]; simpl; intros c H; [discriminate|].
  destruct (String.eqb k (pkey x)) eqn:E.
  - inversion H; subst. symmetry. apply String.eqb_eq, E.
  - apply IH, H.
Qed.

Lemma find_child_in : forall k ch c, find_child k ch = Some c -> In c ch.
Proof.
  induction ch as [|x r IH]; simpl; intros c H; [discriminate|].
  destruct (String.eqb k (pkey x)); [inversion H; auto | right; apply IH, H].
Qed.

Lemma find_child_none : forall k ch, find_child k ch = None <-> ~ In k (map pkey ch).
Proof.
  induction ch as [|x r IH]; simpl; [tauto|].
  destruct (String.eqb k (pkey x)) eqn:E.
  - apply String.eqb_eq in E. split; [discriminate | intros H; exfalso; apply H; auto].
  - apply String.eqb_neq in E. rewrite IH. split; [intros H [H1|H1]; [congruence | auto] | tauto].
Qed.

Lemma find_child_nodup : forall ch c, NoDup (map pkey ch) -> In c ch -> find_child (pkey c) ch = Some c.
Proof.
  induction ch as [|x r IH]; simpl; intros c Hnd Hin; [tauto|].
  inversion Hnd as [|? ? Hx Hr]; subst.
  destruct Hin as [->|Hin].
  - rewrite String.eqb_refl. reflexivity.
  - destruct (String.eqb (pkey c) (pkey x)) eqn:E.
    + apply String.eqb_eq in E. exfalso. apply Hx. rewrite <- E. apply in_map, Hin.
    + apply IH; assumption.
Qed.

Lemma has_key_false : forall k ch, has_key k ch = false -> ~ In k (map pkey ch).
Proof. unfold has_key. intros k ch H. apply find_child_none. destruct (find_child k ch); [discriminate | reflexivity]. Qed.

Lemma map_replace_child : forall (A : Type) (g : param -> A) k c c' ch,
  find_child k ch = Some c -> g c' = g c -> map g (replace_child k c' ch) = map g ch.
Proof.
  induction ch as [|x r IH]; simpl; intros H Hg; [reflexivity|].
  destruct (String.eqb k (pkey x)); simpl.
  - inversion H; subst. now rewrite Hg.
  - now rewrite IH.
Qed.

Lemma Forall_replace_child : forall (P : param -> Prop) k c' ch,
  Forall P ch -> P c' -> Forall P (replace_child k c' ch).
Proof.
  induction ch as [|x r IH]; simpl; intros HF Hc; [constructor|].
  inversion HF; subst. destruct (String.eqb k (pkey x)); constructor; auto.
Qed.

Lemma In_replace_child : forall k c' ch y, In y (replace_child k c' ch) -> y = c' \/ In y ch.
Proof.
  induction ch as [|x r IH]; simpl; intros y H; [tauto|].
  destruct (String.eqb k (pkey x)); simpl in H; destruct H as [H|H]; auto.
  destruct (IH _ H); auto.
Qed.

Lemma find_child_replace_same : forall k c c' ch,
  find_child k ch = Some c -> pkey c' = k -> find_child k (replace_child k c' ch) = Some c'.
Proof.
  induction ch as [|x r IH]; simpl; intros H Hk; [discriminate|].
  destruct (String.eqb k (pkey x)) eqn:E; simpl.
  - rewrite Hk, String.eqb_refl. reflexivity.
  - rewrite E. apply IH; assumption.
Qed.

Lemma find_child_replace_other : forall k k' c' ch,
  pkey c' = k -> String.eqb k' k = false -> find_child k' (replace_child k c' ch) = find_child k' ch.
Proof.
  induction ch as [|x r IH]; simpl; intros Hk Hne; [reflexivity|].
  destruct (String.eqb k (pkey x)) eqn:E; simpl.
  - apply String.eqb_eq in E. rewrite Hk, <- E, Hne. reflexivity.
  - destruct (String.eqb k' (pkey x)); [reflexivity | apply IH; assumption].
Qed.

Lemma In_remove_child : forall k ch y, In y (remove_child k ch) -> In y ch.
Proof.
  induction ch as [|x r IH]; simpl; intros y H; [tauto|].
  destruct (String.eqb k (pkey x)); [auto | destruct H; auto].
Qed.

Lemma Forall_remove_child : forall (P : param -> Prop) k ch, Forall P ch -> Forall P (remove_child k ch).
Proof.
  intros P k ch H. apply Forall_forall. intros y Hy. apply In_remove_child in Hy.
  rewrite Forall_forall in H. auto.
Qed.

Lemma find_child_remove_other : forall k k' ch,
  String.eqb k' k = false -> find_child k' (remove_child k ch) = find_child k' ch.
Proof.
  induction ch as [|x r IH]; simpl; intros Hne; [reflexivity|].
  destruct (String.eqb k (pkey x)) eqn:E; simpl.
  - apply String.eqb_eq in E. rewrite <- E, Hne. reflexivity.
  - destruct (String.eqb k' (pkey x)); [reflexivity | apply IH; assumption].
Qed.

Lemma find_child_remove_same : forall k ch, NoDup (map pkey ch) -> find_child k (remove_child k ch) = None.
Proof.
  induction ch as [|x r IH]; simpl; intros Hnd; [reflexivity|].
  inversion Hnd as [|? ? Hx Hr]; subst.
  destruct (String.eqb k (pkey x)) eqn:E; simpl.
  - apply String.eqb_eq in E. subst. apply find_child_none, Hx.
  - rewrite E. apply IH, Hr.
Qed.

(* ================================================================== order of children *)
(* listed by display priority, ties by identity = creation = insertion order *)
Definition hord_lt (a b : hdr) : Prop :=
  (h_prio a < h_prio b)%Q \/ ((h_prio a == h_prio b)%Q /\ (h_seq a < h_seq b)%nat).

Definition key_ok (k : string) : Prop := k <> EmptyString /\ has_dot k = false.

Definition hdrs_ok (hs : list hdr) : Prop :=
  NoDup (map h_key hs) /\ Forall key_ok (map h_key hs) /\ StronglySorted hord_lt hs.

Definition children_ok (ch : list param) : Prop := hdrs_ok (map phdr ch).

Lemma map_pkey_phdr : forall ch, map pkey ch = map h_key (map phdr ch).
Proof. intros. rewrite map_map. reflexivity. Qed.

(* p is placed after every child whose priority is <= its own *)
Fixpoint place (p : param) (ch : list param) : list param :=
  match ch with
  | [] => [p]
  | y :: r => if Qle_bool (pprio y) (pprio p) then y :: place p r else p :: ch
  end.

Definition prio_le (a b : param) : Prop := (pprio a <= pprio b)%Q.

Lemma insert_sorted_le : forall y l, Forall (prio_le y) l -> insert_sorted y l = y :: l.
Proof.
  intros y l H. destruct l as [|z l]; [reflexivity|].
  inversion H as [|? ? Hz _]; subst. simpl. unfold prio_ltb.
  unfold prio_le in Hz. apply Qle_bool_iff in Hz. rewrite Hz. reflexivity.
Qed.

Lemma place_Forall : forall (P : param -> Prop) p ch, P p -> Forall P ch -> Forall P (place p ch).
Proof.
  induction ch as [|y r IH]; simpl; intros Hp HF; [auto|].
  inversion HF; subst. destruct (Qle_bool (pprio y) (pprio p)); auto.
Qed.

Lemma place_lt_all : forall p ch, Forall (fun y => (pprio p < pprio y)%Q) ch -> place p ch = p :: ch.
Proof.
  intros p ch H. destruct ch as [|y r]; [reflexivity|].
  inversion H as [|? ? Hy _]; subst. simpl.
  destruct (Qle_bool (pprio y) (pprio p)) eqn:E; [|reflexivity].
  apply Qle_bool_iff in E. exfalso. apply (Qlt_not_le _ _ Hy E).
Qed.

(* sorted(items) after appending p to an already sorted dict = stable insertion *)
Lemma py_sorted_append : forall p ch, StronglySorted prio_le ch -> py_sorted (ch ++ [p]) = place p ch.
Proof.
  intros p ch Hs. unfold py_sorted. rewrite fold_right_app. simpl.
  induction Hs as [|y r Hr IH Hy]; [reflexivity|].
  simpl. rewrite IH. destruct (Qle_bool (pprio y) (pprio p)) eqn:E.
  - apply insert_sorted_le. apply place_Forall; [apply Qle_bool_iff, E | exact Hy].
  - assert (Hlt : (pprio p < pprio y)%Q).
    { apply Qnot_le_lt. intro Hle. apply Qle_bool_iff in Hle. congruence. }
    rewrite place_lt_all.
    + simpl. unfold prio_ltb at 1. destruct (Qle_bool (pprio y) (pprio p)); [discriminate|]. simpl.
      rewrite insert_sorted_le by exact Hy. reflexivity.
    + eapply Forall_impl; [|exact Hy]. intros z Hz. unfold prio_le in Hz. eapply Qlt_le_trans; eassumption.
Qed.

(* where p lands: the children are split, unchanged, around p *)
Lemma place_split : forall p ch, StronglySorted prio_le ch ->
  exists l1 l2, ch = l1 ++ l2 /\ place p ch = l1 ++ p :: l2 /\
                Forall (fun y => (pprio y <= pprio p)%Q) l1 /\ Forall (fun y => (pprio p < pprio y)%Q) l2.
Proof.
  intros p ch Hs. induction Hs as [|y r Hr IH Hy].
  - exists [], []. simpl. auto.
  - simpl. destruct (Qle_bool (pprio y) (pprio p)) eqn:E.
    + destruct IH as (l1 & l2 & -> & -> & H1 & H2). exists (y :: l1), l2. simpl.
      repeat split; auto. constructor; [apply Qle_bool_iff, E | exact H1].
    + exists [], (y :: r). simpl. repeat split; auto.
      assert (Hlt : (pprio p < pprio y)%Q).
      { apply Qnot_le_lt. intro Hle. apply Qle_bool_iff in Hle. congruence. }
      constructor; [exact Hlt|].
      eapply Forall_impl; [|exact Hy]. intros z Hz. unfold prio_le in Hz. eapply Qlt_le_trans; eassumption.
Qed.

Lemma place_perm : forall p ch, Permutation (place p ch) (p :: ch).
Proof.
  induction ch as [|y r IH]; simpl; [apply Permutation_refl|].
  destruct (Qle_bool (pprio y) (pprio p)); [|apply Permutation_refl].
  eapply perm_trans; [apply perm_skip, IH | apply perm_swap].
Qed.

Lemma hord_lt_trans : forall a b c, hord_lt a b -> hord_lt b c -> hord_lt a c.
Proof.
  unfold hord_lt. intros a b c [H1|[H1 H1']] [H2|[H2 H2']].
  - left. eapply Qlt_trans; eassumption.
  - left. rewrite <- H2. exact H1.
  - left. rewrite H1. exact H2.
  - right. split; [rewrite H1; exact H2 | lia].
Qed.

Lemma hord_lt_prio_le : forall a b, hord_lt a b -> (h_prio a <= h_prio b)%Q.
Proof. intros a b [H|[H _]]; [apply Qlt_le_weak, H | rewrite H; apply Qle_refl]. Qed.

Lemma sorted_hord_prio : forall ch, StronglySorted hord_lt (map phdr ch) -> StronglySorted prio_le ch.
Proof.
  induction ch as [|y r IH]; simpl; intros H; [constructor|].
  inversion H as [|? ? Hr Hy]; subst. constructor; [apply IH, Hr|].
  rewrite Forall_map in Hy. eapply Forall_impl; [|exact Hy]. intros z Hz. apply hord_lt_prio_le, Hz.
Qed.

(* a new object (identity above all present ones) lands so that the list stays
   sorted by (priority, identity) *)
Lemma place_sorted : forall p ch,
  StronglySorted hord_lt (map phdr ch) -> Forall (fun y => (pseq y < pseq p)%nat) ch ->
  StronglySorted hord_lt (map phdr (place p ch)).
Proof.
  induction ch as [|y r IH]; simpl; intros Hs Hid.
  - repeat constructor.
  - inversion Hs as [|? ? Hr Hy]; subst. inversion Hid as [|? ? Hyid Hrid]; subst.
    destruct (Qle_bool (pprio y) (pprio p)) eqn:E; simpl.
    + constructor; [apply IH; assumption|].
      rewrite Forall_map. apply place_Forall; [|rewrite Forall_map in Hy; exact Hy].
      apply Qle_bool_iff in E. unfold hord_lt. apply Qle_lteq in E. destruct E as [E|E]; [left; exact E|].
      right. split; [exact E | exact Hyid].
    + assert (Hlt : (pprio p < pprio y)%Q).
      { apply Qnot_le_lt. intro Hle. apply Qle_bool_iff in Hle. congruence. }
      constructor; [constructor; assumption|].
      constructor; [left; exact Hlt|].
      eapply Forall_impl; [|exact Hy]. intros z Hz. eapply hord_lt_trans; [left; exact Hlt | exact Hz].
Qed.

Lemma children_ok_place : forall p ch,
  children_ok ch -> key_ok (pkey p) -> ~ In (pkey p) (map pkey ch) -> Forall (fun y => (pseq y < pseq p)%nat) ch ->
  children_ok (place p ch).
Proof.
  unfold children_ok, hdrs_ok. intros p ch (Hnd & Hk & Hs) Hkp Hnin Hid.
  rewrite <- !map_pkey_phdr in *.
  assert (HP : Permutation (map pkey (place p ch)) (pkey p :: map pkey ch)).
  { change (pkey p :: map pkey ch) with (map pkey (p :: ch)). apply Permutation_map, place_perm. }
  repeat split.
  - eapply Permutation_NoDup; [apply Permutation_sym, HP|]. constructor; assumption.
  - eapply Permutation_Forall; [apply Permutation_sym, HP|]. constructor; assumption.
  - apply place_sorted; assumption.
Qed.

Lemma children_ok_replace : forall k c c' ch,
  children_ok ch -> find_child k ch = Some c -> phdr c' = phdr c -> children_ok (replace_child k c' ch).
Proof.
  unfold children_ok. intros. erewrite map_replace_child; eauto.
Qed.

Lemma sorted_remove_child : forall k ch,
  StronglySorted hord_lt (map phdr ch) -> StronglySorted hord_lt (map phdr (remove_child k ch)).
Proof.
  induction ch as [|x r IH]; simpl; intros H; [constructor|].
  inversion H as [|? ? Hr Hx]; subst.
  destruct (String.eqb k (pkey x)); [exact Hr|].
  simpl. constructor; [apply IH, Hr|].
  rewrite Forall_map in *. apply Forall_remove_child, Hx.
Qed.

Lemma nodup_remove_child : forall k ch, NoDup (map pkey ch) -> NoDup (map pkey (remove_child k ch)).
Proof.
  induction ch as [|x r IH]; simpl; intros H; [constructor|].
  inversion H as [|? ? Hx Hr]; subst.
  destruct (String.eqb k (pkey x)); [exact Hr|].
  simpl. constructor; [|apply IH, Hr].
  intro Hin. apply Hx. apply in_map_iff in Hin. destruct Hin as (y & Hy & Hin).
  apply in_map_iff. exists y. split; [exact Hy | eapply In_remove_child, Hin].
Qed.

Lemma children_ok_remove : forall k ch, children_ok ch -> children_ok (remove_child k ch).
Proof.
  unfold children_ok, hdrs_ok. intros k ch (Hnd & Hk & Hs). rewrite <- !map_pkey_phdr in *.
  repeat split.
  - apply nodup_remove_child, Hnd.
  - rewrite Forall_map in *. apply Forall_remove_child, Hk.
  - apply sorted_remove_child, Hs.
Qed.

(* ================================================================== trees *)
Section ParamInd.
  Variable P : param -> Prop.
  Hypothesis Hleaf : forall h ro c d v, P (Leaf h ro c d v).
  Hypothesis Hmap : forall h ch, Forall P ch -> P (Map h ch).
  Fixpoint param_ind' (p : param) : P p :=
    match p with
    | Leaf h ro c d v => Hleaf h ro c d v
    | Map h ch =>
        Hmap h ch ((fix go (l : list param) : Forall P l :=
                      match l with
                      | [] => Forall_nil P
                      | x :: r => Forall_cons x (param_ind' x) (go r)
                      end) ch)
    end.
End ParamInd.

(* every parameter of a tree: the node and all its descendants *)
Fixpoint nodes (p : param) : list param :=
  p :: match p with
       | Leaf _ _ _ _ _ => []
       | Map _ ch => flat_map nodes ch
       end.

Lemma nodes_self : forall p, In p (nodes p).
Proof. destruct p; simpl; auto. Qed.

Lemma nodes_child : forall h ch c x, In c ch -> In x (nodes c) -> In x (nodes (Map h ch)).
Proof. intros. simpl. right. apply in_flat_map. eauto. Qed.

Lemma nodes_map_inv : forall h ch x, In x (nodes (Map h ch)) -> x = Map h ch \/ exists c, In c ch /\ In x (nodes c).
Proof. simpl. intros h ch x [H|H]; [auto|]. right. apply in_flat_map in H. exact H. Qed.

Lemma nodes_trans : forall p x y, In x (nodes p) -> In y (nodes x) -> In y (nodes p).
Proof.
  intros p. induction p as [h ro c d v|h ch IH] using param_ind'; intros x y Hx Hy.
  - simpl in Hx. destruct Hx as [<-|[]]. exact Hy.
  - apply nodes_map_inv in Hx. destruct Hx as [->|(c & Hc & Hx)]; [exact Hy|].
    rewrite Forall_forall in IH. eapply nodes_child; eauto.
Qed.

(* what a leaf has to satisfy: default and value valid for its declared constraint *)
Definition leaf_ok (p : param) : Prop :=
  match p with
  | Leaf _ _ c d v => valid_for c d = true /\ valid_for c v = true
  | Map _ _ => True
  end.

(* well-formed tree, all identities below n *)
Inductive wf (n : nat) : param -> Prop :=
| wf_leaf : forall h ro c d v,
    (h_id h < n)%nat -> (h_seq h < n)%nat -> valid_for c d = true -> valid_for c v = true -> wf n (Leaf h ro c d v)
| wf_map : forall h ch,
    (h_id h < n)%nat -> (h_seq h < n)%nat -> Forall (wf n) ch -> children_ok ch -> wf n (Map h ch).

Lemma wf_id : forall n p, wf n p -> (pid p < n)%nat.
Proof. intros n p H. inversion H; subst; assumption. Qed.

Lemma wf_seq : forall n p, wf n p -> (pseq p < n)%nat.
Proof. intros n p H. inversion H; subst; assumption. Qed.

Lemma wf_mono : forall n m p, (n <= m)%nat -> wf n p -> wf m p.
Proof.
  intros n m p Hle. induction p as [h ro c d v|h ch IH] using param_ind'; intros H; inversion H; subst.
  - constructor; auto; lia.
  - constructor; auto; try lia.
    rewrite Forall_forall in *. auto.
Qed.

Lemma wf_nodes : forall n p, wf n p -> forall x, In x (nodes p) -> wf n x.
Proof.
  intros n p. induction p as [h ro c d v|h ch IH] using param_ind'; intros H x Hx.
  - simpl in Hx. destruct Hx as [<-|[]]. exact H.
  - apply nodes_map_inv in Hx. destruct Hx as [->|(c & Hc & Hx)]; [exact H|].
    inversion H; subst. rewrite Forall_forall in *. eauto.
Qed.

Lemma wf_leaf_ok : forall n p, wf n p -> leaf_ok p.
Proof. intros n p H. inversion H; subst; simpl; auto. Qed.

(* ------------------------------------------------------------------ modify *)
Lemma modify_wf : forall n m segs f p p',
  (n <= m)%nat -> wf n p ->
  (forall x x', wf n x -> f x = Val x' -> wf m x' /\ phdr x' = phdr x) ->
  modify segs f p = Val p' -> wf m p' /\ phdr p' = phdr p.
Proof.
  intros n m segs f. induction segs as [|k r IH]; intros p p' Hle Hwf Hf H; simpl in H.
  - apply Hf; assumption.
  - destruct p as [h ro c d v|h ch]; [discriminate|].
    destruct (find_child k ch) as [c|] eqn:Ec; [|discriminate].
    destruct (modify r f c) as [c'|e] eqn:Em; [|discriminate].
    inversion H; subst. inversion Hwf as [|? ? Hid Hsq Hch Hok]; subst.
    assert (Hc : wf n c) by (rewrite Forall_forall in Hch; apply Hch; eapply find_child_in; eauto).
    destruct (IH c c' Hle Hc Hf Em) as [Hc' Hh].
    split; [|reflexivity].
    constructor; [lia | lia | | eapply children_ok_replace; eauto].
    apply Forall_replace_child; [|exact Hc'].
    eapply Forall_impl; [|exact Hch]. intros; eapply wf_mono; eauto.
Qed.

Lemma modify_raise_at : forall segs f p x e,
  node_at p segs = Some x -> f x = Raise e -> modify segs f p = Raise e.
Proof.
  induction segs as [|k r IH]; simpl; intros f p x e Hn Hf.
  - inversion Hn; subst. exact Hf.
  - destruct p as [|h ch]; [discriminate|].
    destruct (find_child k ch) as [c|]; [|discriminate].
    rewrite (IH _ _ _ _ Hn Hf). reflexivity.
Qed.

Lemma modify_val_at : forall segs f p x x',
  node_at p segs = Some x -> f x = Val x' -> exists p', modify segs f p = Val p'.
Proof.
  induction segs as [|k r IH]; simpl; intros f p x x' Hn Hf.
  - inversion Hn; subst. eauto.
  - destruct p as [|h ch]; [discriminate|].
    destruct (find_child k ch) as [c|]; [|discriminate].
    destruct (IH _ _ _ _ Hn Hf) as [c' ->]. eauto.
Qed.

Lemma modify_none_at : forall segs f p, node_at p segs = None -> modify segs f p = Raise KeyError.
Proof.
  induction segs as [|k r IH]; simpl; intros f p Hn; [discriminate|].
  destruct p as [|h ch]; [reflexivity|].
  destruct (find_child k ch) as [c|]; [|reflexivity].
  rewrite (IH _ _ Hn). reflexivity.
Qed.

(* a successful modify applied f to the node the path leads to, and the same
   path leads to the result afterwards (f keeps the key) *)
Lemma modify_inv : forall segs f p p',
  (forall x x', f x = Val x' -> pkey x' = pkey x) ->
  modify segs f p = Val p' ->
  pkey p' = pkey p /\ exists x x', node_at p segs = Some x /\ f x = Val x' /\ node_at p' segs = Some x'.
Proof.
  induction segs as [|k r IH]; simpl; intros f p p' Hf H.
  - split; [apply Hf, H | eauto].
  - destruct p as [|h ch]; [discriminate|].
    destruct (find_child k ch) as [c|] eqn:Ec; [|discriminate].
    destruct (modify r f c) as [c'|] eqn:Em; [|discriminate].
    inversion H; subst. split; [reflexivity|].
    destruct (IH _ _ _ Hf Em) as (Hk & x & x' & Hn & Hfx & Hn').
    exists x, x'. repeat split; auto. simpl.
    rewrite (find_child_replace_same k c c' ch Ec); [exact Hn'|].
    rewrite Hk. eapply find_child_key, Ec.
Qed.

(* leaves after a modify: old leaves, or leaves of what f produced *)
Definition is_leaf (p : param) : Prop := match p with Leaf _ _ _ _ _ => True | Map _ _ => False end.

Lemma modify_leaves : forall segs f p p' L,
  modify segs f p = Val p' -> is_leaf L -> In L (nodes p') ->
  In L (nodes p) \/ exists x x', In x (nodes p) /\ f x = Val x' /\ In L (nodes x').
Proof.
  induction segs as [|k r IH]; simpl; intros f p p' L H HL Hin.
  - right. exists p, p'. split; [apply nodes_self | auto].
  - destruct p as [|h ch]; [discriminate|].
    destruct (find_child k ch) as [c|] eqn:Ec; [|discriminate].
    destruct (modify r f c) as [c'|] eqn:Em; [|discriminate].
    inversion H; subst.
    apply nodes_map_inv in Hin. destruct Hin as [->|(y & Hy & Hin)]; [destruct HL|].
    apply In_replace_child in Hy. destruct Hy as [->|Hy].
    + destruct (IH _ _ _ _ Em HL Hin) as [H1|(x & x' & H1 & H2 & H3)].
      * left. eapply nodes_child; [eapply find_child_in, Ec | exact H1].
      * right. exists x, x'. repeat split; auto. eapply nodes_child; [eapply find_child_in, Ec | exact H1].
    + left. eapply nodes_child; eauto.
Qed.

(* ------------------------------------------------------------------ remove *)
Lemma remove_at_wf : forall n segs p p' x,
  wf n p -> remove_at segs p = Val (p', x) -> wf n p' /\ phdr p' = phdr p /\ wf n x.
Proof.
  intros n segs. induction segs as [|k r IH]; intros p p' x Hwf H; simpl in H; [discriminate|].
  destruct p as [|h ch]; [discriminate|].
  destruct (find_child k ch) as [c|] eqn:Ec; [|discriminate].
  inversion Hwf as [|? ? Hid Hsq Hch Hok]; subst.
  assert (Hc : wf n c) by (rewrite Forall_forall in Hch; apply Hch; eapply find_child_in; eauto).
  destruct r as [|k2 r2].
  - inversion H; subst. repeat split; auto.
    constructor; [exact Hid | exact Hsq | apply Forall_remove_child, Hch | apply children_ok_remove, Hok].
  - destruct (remove_at (k2 :: r2) c) as [[c' y]|] eqn:Er; [|discriminate].
    inversion H; subst.
    destruct (IH _ _ _ Hc Er) as (Hc' & Hh & Hx).
    repeat split; auto.
    constructor; [exact Hid | exact Hsq | apply Forall_replace_child; assumption | eapply children_ok_replace; eauto].
Qed.

Lemma remove_at_removed : forall n segs p p' x,
  wf n p -> remove_at segs p = Val (p', x) -> In x (nodes p) /\ key_ok (pkey x).
Proof.
  intros n segs. induction segs as [|k r IH]; intros p p' x Hwf H; simpl in H; [discriminate|].
  destruct p as [|h ch]; [discriminate|].
  destruct (find_child k ch) as [c|] eqn:Ec; [|discriminate].
  inversion Hwf as [|? ? Hid Hsq Hch Hok]; subst.
  pose proof (find_child_in _ _ _ Ec) as Hin.
  destruct r as [|k2 r2].
  - inversion H; subst. split; [eapply nodes_child; [exact Hin | apply nodes_self]|].
    destruct Hok as (_ & Hk & _). rewrite <- map_pkey_phdr in Hk. rewrite Forall_forall in Hk. apply Hk, in_map, Hin.
  - destruct (remove_at (k2 :: r2) c) as [[c' y]|] eqn:Er; [|discriminate]. inversion H; subst.
    assert (Hc : wf n c) by (rewrite Forall_forall in Hch; auto).
    destruct (IH _ _ _ Hc Er) as [H1 H2]. split; [eapply nodes_child; eauto | exact H2].
Qed.

Lemma remove_at_leaves : forall segs p p' x L,
  remove_at segs p = Val (p', x) -> is_leaf L -> In L (nodes p') -> In L (nodes p).
Proof.
  induction segs as [|k r IH]; intros p p' x L H HL Hin; simpl in H; [discriminate|].
  destruct p as [|h ch]; [discriminate|].
  destruct (find_child k ch) as [c|] eqn:Ec; [|discriminate].
  destruct r as [|k2 r2].
  - inversion H; subst.
    apply nodes_map_inv in Hin. destruct Hin as [->|(y & Hy & Hin)]; [destruct HL|].
    eapply nodes_child; [eapply In_remove_child, Hy | exact Hin].
  - destruct (remove_at (k2 :: r2) c) as [[c' y]|] eqn:Er; [|discriminate].
    inversion H; subst.
    apply nodes_map_inv in Hin. destruct Hin as [->|(z & Hz & Hin)]; [destruct HL|].
    apply In_replace_child in Hz. destruct Hz as [->|Hz].
    + eapply nodes_child; [eapply find_child_in, Ec | eapply IH; eauto].
    + eapply nodes_child; eauto.
Qed.

(* ================================================================== one operation keeps the tree well-formed *)
Lemma set_value_wf : forall q n m v x x',
  (n <= m)%nat -> wf n x -> set_value q v x = Val x' -> wf m x' /\ phdr x' = phdr x.
Proof.
  intros q n m v x x' Hle Hwf H. apply set_value_val in H.
  destruct H as (h & ro & c & d & v0 & -> & -> & Hv & _).
  inversion Hwf; subst. split; [|reflexivity]. constructor; auto; lia.
Qed.

Lemma first_exn_none : forall a b, first_exn a b = None -> a = None /\ b = None.
Proof. intros [e|] b H; simpl in H; [discriminate | auto]. Qed.

Lemma ctor_checks_repaired_none : forall s par,
  ctor_checks repaired s par = None ->
  unit_checks s = None /\ default_checks s = None /\ base_checks s par = None.
Proof.
  intros s par H. unfold ctor_checks in H. simpl in H.
  apply first_exn_none in H. destruct H as [H1 H]. apply first_exn_none in H. tauto.
Qed.

Lemma base_checks_key_ok : forall s par, base_checks s par = None -> key_ok (s_key s).
Proof.
  unfold base_checks, key_ok. intros s par H.
  destruct (f_key (s_flaws s)); [discriminate|].
  destruct (String.eqb (s_key s) EmptyString) eqn:E1; [discriminate|].
  destruct (has_dot (s_key s)) eqn:E2; [discriminate|].
  split; [apply String.eqb_neq, E1 | reflexivity].
Qed.

Lemma node_of_hdr : forall id s, phdr (node_of id s) = mkHdr id (s_key s) (s_prio s).
Proof. intros id s. unfold node_of. destruct (s_kind s); reflexivity. Qed.

Lemma node_of_key : forall id s, pkey (node_of id s) = s_key s.
Proof. intros. unfold pkey. rewrite node_of_hdr. reflexivity. Qed.

Lemma node_of_id : forall id s, pid (node_of id s) = id.
Proof. intros. unfold pid. rewrite node_of_hdr. reflexivity. Qed.

(* a constructor that passed its own validation builds a parameter whose
   default (= initial value) is valid *)
Lemma default_checks_leaf_ok : forall id s, default_checks s = None -> leaf_ok (node_of id s).
Proof.
  intros id s H. unfold node_of, default_checks in *.
  destruct (s_kind s) eqn:Ek; simpl; try exact I; destruct (s_default s) eqn:Ed; simpl in *;
    repeat match goal with
           | H : context [if ?b then _ else _] |- _ => destruct b eqn:?; try discriminate H
           end; simpl in *; try discriminate;
    repeat match goal with
           | H : ?b = true |- context [?b] => rewrite H
           | |- context [N.eqb ?a ?a] => rewrite N.eqb_refl
           end; simpl; auto.
Qed.

Lemma children_ok_nil : children_ok [].
Proof. unfold children_ok, hdrs_ok. simpl. repeat split; constructor. Qed.

Lemma node_of_wf : forall id s, leaf_ok (node_of id s) -> wf (S id) (node_of id s).
Proof.
  intros id s H. unfold node_of in *. destruct (s_kind s); simpl in *;
    try (destruct H; constructor; simpl; auto; fail).
  constructor; simpl; [lia | lia | constructor | apply children_ok_nil].
Qed.

Lemma node_of_seq : forall id s, pseq (node_of id s) = id.
Proof. intros. unfold pseq. rewrite node_of_hdr. reflexivity. Qed.

(* adding any well-formed object that is stamped with the current operation *)
Lemma map_add_wf_gen : forall n p x x',
  wf n x -> wf (S n) p -> key_ok (pkey p) -> pseq p = n ->
  map_add p x = Val x' -> wf (S n) x' /\ phdr x' = phdr x.
Proof.
  intros n p x x' Hwf Hp Hk Hsn H. destruct x as [|h ch]; simpl in H; [discriminate|].
  destruct (has_key (pkey p) ch) eqn:Eh; [discriminate|].
  inversion H; subst. inversion Hwf as [|? ? Hid Hsq Hch Hok]; subst.
  split; [|reflexivity].
  assert (Hs : StronglySorted prio_le ch) by (apply sorted_hord_prio; apply Hok).
  rewrite py_sorted_append by exact Hs.
  constructor; [lia | lia | |].
  - apply place_Forall; [exact Hp|].
    eapply Forall_impl; [|exact Hch]. intros y Hy. eapply wf_mono; [|exact Hy]. lia.
  - apply children_ok_place; auto.
    + apply has_key_false, Eh.
    + eapply Forall_impl; [|exact Hch]. intros y Hy. apply wf_seq, Hy.
Qed.

Lemma map_add_wf : forall n s x x',
  wf n x -> key_ok (s_key s) -> leaf_ok (node_of n s) ->
  map_add (node_of n s) x = Val x' -> wf (S n) x' /\ phdr x' = phdr x.
Proof.
  intros n s x x' Hwf Hk Hl H. eapply map_add_wf_gen; eauto.
  - apply node_of_wf, Hl.
  - rewrite node_of_key. exact Hk.
  - apply node_of_seq.
Qed.

Lemma step_root_wf_hdr : forall n root o, wf n root ->
  wf (S n) (fst (step_root repaired n root o)) /\ phdr (fst (step_root repaired n root o)) = phdr root.
Proof.
  intros n root o Hwf.
  assert (Hm : wf (S n) root /\ phdr root = phdr root) by (split; [eapply wf_mono; [|exact Hwf]; lia | reflexivity]).
  destruct o as [path v|pp s|pp s|path|path|path v|path|src dst|path|s|i o'|i dst]; simpl.
  - destruct (modify (segments path) (set_value repaired v) root) as [r'|e] eqn:E; simpl; [|exact Hm].
    eapply modify_wf in E; [apply E | | exact Hwf |]; [lia|].
    intros x x' Hx Hs. eapply set_value_wf; [|exact Hx|exact Hs]. lia.
  - destruct (node_at root (psegs pp)) as [par|]; simpl; [|exact Hm].
    destruct (ctor_checks repaired s (Some par)) eqn:Ec; simpl; [exact Hm|].
    apply ctor_checks_repaired_none in Ec. destruct Ec as (_ & Hd & Hb).
    destruct (modify (psegs pp) (map_add (node_of n s)) root) as [r'|e] eqn:E; simpl; [|exact Hm].
    eapply modify_wf in E; [apply E | | exact Hwf |]; [lia|].
    intros x x' Hx Ha. eapply map_add_wf; eauto.
    + eapply base_checks_key_ok, Hb.
    + apply default_checks_leaf_ok, Hd.
  - destruct (node_at root (psegs pp)) as [par|]; simpl; [|exact Hm].
    destruct (ctor_checks repaired s None) eqn:Ec; simpl; [exact Hm|].
    apply ctor_checks_repaired_none in Ec. destruct Ec as (_ & Hd & Hb).
    destruct (modify (psegs pp) (map_add (node_of n s)) root) as [r'|e] eqn:E; simpl; [|exact Hm].
    eapply modify_wf in E; [apply E | | exact Hwf |]; [lia|].
    intros x x' Hx Ha. eapply map_add_wf; eauto.
    + eapply base_checks_key_ok, Hb.
    + apply default_checks_leaf_ok, Hd.
  - destruct (remove_at (segments path) root) as [[r' x]|e] eqn:E; simpl; [|exact Hm].
    eapply remove_at_wf in E; [|exact Hwf]. destruct E as (E1 & E2 & _). split; [|exact E2].
    eapply wf_mono; [|exact E1]. lia.
  - destruct (get root path) as [p|e]; simpl; exact Hm.
  - destruct (modify (segments path) (set_value repaired v) root) as [r'|e] eqn:E; simpl; [|exact Hm].
    eapply modify_wf in E; [apply E | | exact Hwf |]; [lia|].
    intros x x' Hx Hs. eapply set_value_wf; [|exact Hx|exact Hs]. lia.
  - destruct (get root path) as [[? ? ? ? ?|? ?]|e]; simpl; exact Hm.
  - destruct (get root src) as [p|e]; simpl; [|exact Hm].
    destruct (node_at root (psegs dst)) as [par|]; simpl; [|exact Hm].
    destruct (map_add p par); simpl; exact Hm.
  - destruct (get root path) as [[? ? ? ? ?|? ?]|e]; simpl; exact Hm.
  - exact Hm.
  - exact Hm.
  - exact Hm.
Qed.

Lemma step_root_wf : forall n root o, wf n root -> wf (S n) (fst (step_root repaired n root o)).
Proof. intros. apply step_root_wf_hdr. assumption. Qed.

(* ================================================================== T2: a rejected attempt changes nothing *)
Theorem rejected_unchanged_root : forall n root o e,
  snd (step_root repaired n root o) = ORaise e -> fst (step_root repaired n root o) = root.
Proof.
  intros n root o e. destruct o as [path v|pp s|pp s|path|path|path v|path|src dst|path|s|i o'|i dst]; simpl;
    repeat match goal with
           | |- context [match ?x with _ => _ end] => destruct x eqn:?; simpl
           end; intros H; try discriminate H; reflexivity.
Qed.

(* an invalid value, or any value for a read-only parameter, IS rejected; a
   valid value for a writable parameter is accepted and becomes the value *)
Theorem set_value_decides : forall h ro c d v0 v,
  (ro = false /\ valid_for c v = true -> set_value repaired v (Leaf h ro c d v0) = Val (Leaf h ro c d v)) /\
  (~ (ro = false /\ valid_for c v = true) -> exists e, set_value repaired v (Leaf h ro c d v0) = Raise e).
Proof.
  intros. simpl. destruct (check_set repaired ro c v) eqn:E.
  - split; [|eauto]. intros H. apply check_set_repaired in H. congruence.
  - split; [reflexivity|]. intros H. apply check_set_repaired in E. tauto.
Qed.

(* ================================================================== T3/T4: read-only and default constancy *)
Lemma In_insert_sorted : forall x l y, In y (insert_sorted x l) -> y = x \/ In y l.
Proof.
  induction l as [|z l IH]; simpl; intros y H; [destruct H; auto|].
  destruct (prio_ltb z x); simpl in H; destruct H as [H|H]; auto.
  destruct (IH _ H); auto.
Qed.

Lemma In_py_sorted : forall l y, In y (py_sorted l) -> In y l.
Proof.
  unfold py_sorted. induction l as [|x l IH]; simpl; intros y H; [exact H|].
  apply In_insert_sorted in H. destruct H; auto.
Qed.

Lemma node_of_nodes : forall id s, nodes (node_of id s) = [node_of id s].
Proof. intros. unfold node_of. destruct (s_kind s); reflexivity. Qed.

Lemma map_add_leaves : forall p x x' L,
  map_add p x = Val x' -> is_leaf L -> In L (nodes x') -> In L (nodes x) \/ In L (nodes p).
Proof.
  intros p x x' L H HL Hin. destruct x as [|h ch]; simpl in H; [discriminate|].
  destruct (has_key (pkey p) ch); [discriminate|]. inversion H; subst.
  apply nodes_map_inv in Hin. destruct Hin as [->|(y & Hy & Hin)]; [destruct HL|].
  apply In_py_sorted, in_app_or in Hy. destruct Hy as [Hy|[<-|[]]]; [|auto].
  left. eapply nodes_child; eauto.
Qed.

(* where a leaf of the tree after one operation comes from: it is a leaf of
   the tree before, with the same header, read-only flag, constraint and
   default, and the same value unless it is writable; or it is the object this
   operation created (identity n, value = default) *)
Lemma step_root_leaf_origin : forall n root o h ro c d v',
  In (Leaf h ro c d v') (nodes (fst (step_root repaired n root o))) ->
  (exists v, In (Leaf h ro c d v) (nodes root) /\ (v' = v \/ ro = false)) \/
  (h_id h = n /\ v' = d).
Proof.
  intros n root o h ro c d v' Hin.
  assert (Hold : In (Leaf h ro c d v') (nodes root) ->
                 (exists v, In (Leaf h ro c d v) (nodes root) /\ (v' = v \/ ro = false)) \/ (h_id h = n /\ v' = d))
    by (intros; left; eauto).
  assert (Hset : forall path v r', modify (segments path) (set_value repaired v) root = Val r' ->
                 In (Leaf h ro c d v') (nodes r') ->
                 (exists v, In (Leaf h ro c d v) (nodes root) /\ (v' = v \/ ro = false)) \/ (h_id h = n /\ v' = d)).
  { intros path v r' E Hi. eapply (modify_leaves _ _ _ _ (Leaf h ro c d v')) in E; [|exact I|exact Hi].
    destruct E as [E|(x & x' & Hx & Hs & Hx')]; [auto|].
    apply set_value_repaired_val in Hs. destruct Hs as (h0 & c0 & d0 & v0 & -> & -> & _).
    simpl in Hx'. destruct Hx' as [Hx'|[]]. inversion Hx'; subst. left. eauto. }
  assert (Hadd : forall pp s r', modify (psegs pp) (map_add (node_of n s)) root = Val r' ->
                 In (Leaf h ro c d v') (nodes r') ->
                 (exists v, In (Leaf h ro c d v) (nodes root) /\ (v' = v \/ ro = false)) \/ (h_id h = n /\ v' = d)).
  { intros pp s r' E Hi. eapply (modify_leaves _ _ _ _ (Leaf h ro c d v')) in E; [|exact I|exact Hi].
    destruct E as [E|(x & x' & Hx & Hs & Hx')]; [auto|].
    eapply (map_add_leaves _ _ _ (Leaf h ro c d v')) in Hs; [|exact I|exact Hx'].
    destruct Hs as [Hs|Hs].
    - apply Hold. eapply nodes_trans; eauto.
    - right. rewrite node_of_nodes in Hs. destruct Hs as [Hs|[]].
      unfold node_of in Hs. destruct (s_kind s); inversion Hs; subst; auto. }
  destruct o as [path v|pp s|pp s|path|path|path v|path|src dst|path|s|i o'|i dst]; simpl in Hin.
  - destruct (modify (segments path) (set_value repaired v) root) as [r'|e] eqn:E; simpl in Hin; eauto.
  - destruct (node_at root (psegs pp)) as [par|]; simpl in Hin; auto.
    destruct (ctor_checks repaired s (Some par)); simpl in Hin; auto.
    destruct (modify (psegs pp) (map_add (node_of n s)) root) as [r'|e] eqn:E; simpl in Hin; eauto.
  - destruct (node_at root (psegs pp)) as [par|]; simpl in Hin; auto.
    destruct (ctor_checks repaired s None); simpl in Hin; auto.
    destruct (modify (psegs pp) (map_add (node_of n s)) root) as [r'|e] eqn:E; simpl in Hin; eauto.
  - destruct (remove_at (segments path) root) as [[r' x]|e] eqn:E; simpl in Hin; auto.
    apply Hold. eapply (remove_at_leaves _ _ _ _ (Leaf h ro c d v')); eauto. exact I.
  - destruct (get root path) as [p|e]; simpl in Hin; auto.
  - destruct (modify (segments path) (set_value repaired v) root) as [r'|e] eqn:E; simpl in Hin; eauto.
  - destruct (get root path) as [[? ? ? ? ?|? ?]|e]; simpl in Hin; auto.
  - destruct (get root src) as [p|e]; simpl in Hin; auto.
    destruct (node_at root (psegs dst)) as [par|]; simpl in Hin; auto.
    destruct (map_add p par); simpl in Hin; auto.
  - destruct (get root path) as [[? ? ? ? ?|? ?]|e]; simpl in Hin; auto.
  - auto.
  - auto.
  - auto.
Qed.

(* ================================================================== T5: addressing by dotted key *)
(* every node below p with the list of keys leading to it ([] = p itself) *)
Fixpoint paths (p : param) : list (list string * param) :=
  ([], p) :: match p with
             | Leaf _ _ _ _ _ => []
             | Map _ ch => flat_map (fun c => map (fun lx => (pkey c :: fst lx, snd lx)) (paths c)) ch
             end.

Lemma paths_map_inv : forall h ch l x, In (l, x) (paths (Map h ch)) ->
  (l = [] /\ x = Map h ch) \/ exists c l', In c ch /\ In (l', x) (paths c) /\ l = pkey c :: l'.
Proof.
  simpl. intros h ch l x [H|H]; [inversion H; auto|]. right.
  apply in_flat_map in H. destruct H as (c & Hc & H). apply in_map_iff in H.
  destruct H as ([l' x'] & Heq & H). simpl in Heq. inversion Heq; subst. eauto.
Qed.

Lemma wf_children_nodup : forall n h ch, wf n (Map h ch) -> NoDup (map pkey ch) /\ Forall key_ok (map pkey ch).
Proof.
  intros n h ch H. inversion H as [|? ? _ _ _ Hok]; subst. destruct Hok as (H1 & H2 & _).
  rewrite <- map_pkey_phdr in *. auto.
Qed.

Lemma node_at_paths : forall n p l x, wf n p -> In (l, x) (paths p) -> node_at p l = Some x /\ Forall key_ok l.
Proof.
  intros n p. induction p as [h ro c d v|h ch IH] using param_ind'; intros l x Hwf Hin.
  - simpl in Hin. destruct Hin as [Hin|[]]. inversion Hin; subst. simpl. auto.
  - apply paths_map_inv in Hin. destruct Hin as [[-> ->]|(c & l' & Hc & Hin & ->)]; [simpl; auto|].
    destruct (wf_children_nodup _ _ _ Hwf) as [Hnd Hk].
    inversion Hwf as [|? ? _ _ Hch _]; subst. rewrite Forall_forall in IH, Hch.
    destruct (IH c Hc l' x (Hch c Hc) Hin) as [Hn Hl].
    simpl. rewrite (find_child_nodup ch c Hnd Hc). split; [exact Hn|].
    constructor; [|exact Hl]. rewrite Forall_forall in Hk. apply Hk, in_map, Hc.
Qed.

(* conversely every addressable node is listed *)
Lemma paths_node_at : forall l p x, node_at p l = Some x -> In (l, x) (paths p).
Proof.
  induction l as [|k r IH]; simpl; intros p x H.
  - inversion H; subst. destruct x; simpl; auto.
  - destruct p as [|h ch]; [discriminate|].
    destruct (find_child k ch) as [c|] eqn:Ec; [|discriminate].
    simpl. right. apply in_flat_map. exists c. split; [eapply find_child_in, Ec|].
    apply in_map_iff. exists (r, x). simpl. split; [|apply IH, H].
    rewrite (find_child_key _ _ _ Ec). reflexivity.
Qed.

(* extended_key() of a node = the keys from the root down, joined by '.' *)
Lemma ext_keys_paths : forall p pre,
  ext_keys pre p = map (fun lx => (String.append pre (join (pkey p :: fst lx)), snd lx)) (paths p).
Proof.
  intros p. induction p as [h ro c d v|h ch IH] using param_ind'; intros pre.
  - reflexivity.
  - simpl. f_equal. rewrite flat_map_concat_map, flat_map_concat_map, concat_map, map_map. f_equal.
    apply map_ext_in. intros c Hc. rewrite Forall_forall in IH. rewrite (IH c Hc), map_map.
    apply map_ext. intros [l x]. cbn [fst snd]. f_equal.
    change (join (pkey (Map h ch) :: pkey c :: l)) with (String.append (h_key h) (sdot (join (pkey c :: l)))).
    change (pkey (Map h ch)) with (h_key h). unfold sdot.
    rewrite !append_assoc. reflexivity.
Qed.

Lemma get_path : forall n root l x,
  wf n root -> In (l, x) (paths root) -> l <> [] -> get root (join l) = Val x.
Proof.
  intros n root l x Hwf Hin Hne. destruct (node_at_paths _ _ _ _ Hwf Hin) as [Hn Hk].
  unfold get. rewrite segments_join; [rewrite Hn; reflexivity | exact Hne|].
  eapply Forall_impl; [|exact Hk]. intros k [_ H]. exact H.
Qed.

(* rel_key: the extended key without the root's own key (lookup paths are
   relative to the map that get / remove is called on) *)
Definition rel_key (ek : string) : string := after_dot ek.

Theorem get_by_extended_key : forall n root ek x,
  wf n root -> has_dot (pkey root) = false ->
  In (ek, x) (ext_keys EmptyString root) -> ek <> pkey root ->
  get root (rel_key ek) = Val x.
Proof.
  intros n root ek x Hwf Hroot Hin Hne. rewrite ext_keys_paths in Hin.
  apply in_map_iff in Hin. destruct Hin as ([l y] & Heq & Hin). simpl in Heq. inversion Heq; subst.
  destruct l as [|k l]; [simpl in Hne; congruence|].
  unfold rel_key. fold (sdot (join (k :: l))). rewrite after_dot_append by exact Hroot.
  eapply get_path; eauto. discriminate.
Qed.

(* ------------------------------------------------------------------ removal by dotted key *)
Fixpoint is_prefix (a b : list string) : bool :=
  match a, b with
  | [], _ => true
  | x :: a', y :: b' => String.eqb x y && is_prefix a' b'
  | _ :: _, [] => false
  end.

(* a node without what hangs below it *)
Definition shallow (p : param) : param := match p with Leaf _ _ _ _ _ => p | Map h _ => Map h [] end.

Lemma remove_path : forall n l p x,
  wf n p -> In (l, x) (paths p) -> l <> [] ->
  exists p', remove_at l p = Val (p', x) /\ node_at p' l = None /\
             forall l', is_prefix l l' = false ->
                        option_map shallow (node_at p' l') = option_map shallow (node_at p l').
Proof.
  intros n l. induction l as [|k r IH]; intros p x Hwf Hin Hne; [congruence|].
  destruct (node_at_paths _ _ _ _ Hwf Hin) as [Hn _].
  destruct p as [|h ch]; [discriminate|]. simpl in Hn.
  destruct (find_child k ch) as [c|] eqn:Ec; [|discriminate].
  destruct (wf_children_nodup _ _ _ Hwf) as [Hnd _].
  inversion Hwf as [|? ? _ _ Hch _]; subst.
  assert (Hc : wf n c) by (rewrite Forall_forall in Hch; apply Hch; eapply find_child_in; eauto).
  assert (Hkc : pkey c = k) by (eapply find_child_key; eauto).
  destruct r as [|k2 r2].
  - simpl in Hn. inversion Hn; subst. simpl. rewrite Ec.
    eexists. split; [reflexivity|]. split.
    + simpl. rewrite find_child_remove_same by exact Hnd. reflexivity.
    + intros l' Hp. destruct l' as [|k' r']; [reflexivity|]. simpl in Hp.
      rewrite andb_true_r in Hp. simpl.
      rewrite find_child_remove_other by (apply eqb_false_sym, Hp). reflexivity.
  - apply paths_node_at in Hn.
    destruct (IH c x Hc Hn ltac:(discriminate)) as (c' & Hr & Hgone & Hframe).
    simpl. rewrite Ec. simpl in Hr. rewrite Hr.
    assert (Hk' : pkey c' = k).
    { destruct (remove_at_wf n (k2 :: r2) c c' x Hc Hr) as (_ & Hh & _). unfold pkey. rewrite Hh. exact Hkc. }
    eexists. split; [reflexivity|]. split.
    + simpl. rewrite (find_child_replace_same k c c' ch Ec Hk'). exact Hgone.
    + intros l' Hp. destruct l' as [|k' r']; [reflexivity|]. simpl in Hp. simpl.
      destruct (String.eqb k k') eqn:Ek.
      * apply String.eqb_eq in Ek. subst k'. simpl in Hp.
        rewrite (find_child_replace_same _ c c' ch Ec Hk'), Ec. apply Hframe, Hp.
      * rewrite find_child_replace_other; [reflexivity | exact Hk' | apply eqb_false_sym, Ek].
Qed.

(* T6: every descendant is removable by its dotted key: remove hands back
   exactly that parameter, the key no longer resolves, every key that does not
   extend the removed one resolves as before, and the tree stays well-formed *)
Theorem remove_by_extended_key : forall n root ek x,
  wf n root -> has_dot (pkey root) = false ->
  In (ek, x) (ext_keys EmptyString root) -> ek <> pkey root ->
  exists root',
    step_root repaired n root (ORemove (rel_key ek)) = (root', OParam (pid x)) /\
    get root' (rel_key ek) = Raise KeyError /\ wf n root' /\
    forall key', is_prefix (segments (rel_key ek)) (segments key') = false ->
                 option_map shallow (node_at root' (segments key')) = option_map shallow (node_at root (segments key')).
Proof.
  intros n root ek x Hwf Hroot Hin Hne. rewrite ext_keys_paths in Hin.
  apply in_map_iff in Hin. destruct Hin as ([l y] & Heq & Hin). simpl in Heq. inversion Heq; subst.
  destruct l as [|k l]; [simpl in Hne; congruence|].
  unfold rel_key. fold (sdot (join (k :: l))). rewrite after_dot_append by exact Hroot.
  destruct (node_at_paths _ _ _ _ Hwf Hin) as [_ Hk].
  assert (Hseg : segments (join (k :: l)) = k :: l).
  { apply segments_join; [discriminate|]. eapply Forall_impl; [|exact Hk]. intros ? [_ H]. exact H. }
  destruct (remove_path n (k :: l) root x Hwf Hin ltac:(discriminate)) as (root' & Hr & Hgone & Hframe).
  exists root'. unfold step_root, get. rewrite Hseg, Hr, Hgone.
  destruct (remove_at_wf n _ _ _ _ Hwf Hr) as (H1 & _ & _).
  repeat split; auto.
Qed.

(* ================================================================== T7: duplicate keys are refused *)
Theorem duplicate_refused_map : forall p h ch,
  In (pkey p) (map pkey ch) -> map_add p (Map h ch) = Raise ValueError.
Proof.
  intros p h ch Hin. simpl. unfold has_key.
  destruct (find_child (pkey p) ch) eqn:E; [reflexivity|].
  apply find_child_none in E. contradiction.
Qed.

(* both ways of adding (constructor with parent=..., and parent.add) refuse a
   key that the addressed map already holds, and leave the tree as it was;
   when the arguments are otherwise acceptable the error is the ValueError
   raised by add *)
Theorem duplicate_refused : forall n root pp s h ch,
  node_at root (psegs pp) = Some (Map h ch) -> In (s_key s) (map pkey ch) ->
  (exists e, step_root repaired n root (OAddCtor pp s) = (root, ORaise e) /\
             (ctor_checks repaired s (Some (Map h ch)) = None -> e = ValueError)) /\
  (exists e, step_root repaired n root (OAddMeth pp s) = (root, ORaise e) /\
             (ctor_checks repaired s None = None -> e = ValueError)).
Proof.
  intros n root pp s h ch Hn Hin.
  assert (Hm : modify (psegs pp) (map_add (node_of n s)) root = Raise ValueError).
  { eapply modify_raise_at; [exact Hn|]. apply duplicate_refused_map. rewrite node_of_key. exact Hin. }
  split; simpl; rewrite Hn; simpl.
  - destruct (ctor_checks repaired s (Some (Map h ch))) as [e|]; [exists e; split; [reflexivity | discriminate]|].
    rewrite Hm. exists ValueError. auto.
  - destruct (ctor_checks repaired s None) as [e|]; [exists e; split; [reflexivity | discriminate]|].
    rewrite Hm. exists ValueError. auto.
Qed.

(* ================================================================== T8: order of children *)
(* local: add() puts the new parameter behind every child whose priority is
   <= its own and before the others, and leaves the others as they were *)
Theorem add_is_stable_insertion : forall p h ch x',
  StronglySorted prio_le ch -> map_add p (Map h ch) = Val x' ->
  exists l1 l2, ch = l1 ++ l2 /\ x' = Map h (l1 ++ p :: l2) /\
                Forall (fun y => (pprio y <= pprio p)%Q) l1 /\ Forall (fun y => (pprio p < pprio y)%Q) l2.
Proof.
  intros p h ch x' Hs H. simpl in H. destruct (has_key (pkey p) ch); [discriminate|].
  inversion H; subst. rewrite py_sorted_append by exact Hs.
  destruct (place_split p ch Hs) as (l1 & l2 & H1 & H2 & H3 & H4).
  exists l1, l2. rewrite H2. auto.
Qed.

(* the sort used by add() (sorted() with the parameters' own __lt__) is a
   stable sort: a permutation, ordered by priority, and for every priority
   class the members keep their relative order *)
Lemma insert_sorted_perm : forall x l, Permutation (insert_sorted x l) (x :: l).
Proof.
  induction l as [|y l IH]; simpl; [apply Permutation_refl|].
  destruct (prio_ltb y x); [|apply Permutation_refl].
  eapply perm_trans; [apply perm_skip, IH | apply perm_swap].
Qed.

Lemma prio_ltb_false : forall a b, prio_ltb a b = false -> prio_le b a.
Proof. unfold prio_ltb, prio_le. intros a b H. apply negb_false_iff in H. apply Qle_bool_iff, H. Qed.

Lemma prio_ltb_true : forall a b, prio_ltb a b = true -> (pprio a < pprio b)%Q.
Proof.
  unfold prio_ltb. intros a b H. apply negb_true_iff in H. apply Qnot_le_lt. intro Hle.
  apply Qle_bool_iff in Hle. congruence.
Qed.

Lemma insert_sorted_sorted : forall x l, StronglySorted prio_le l -> StronglySorted prio_le (insert_sorted x l).
Proof.
  intros x l Hs. induction Hs as [|y r Hr IH Hy]; simpl; [repeat constructor|].
  destruct (prio_ltb y x) eqn:E.
  - constructor; [exact IH|].
    eapply Permutation_Forall; [apply Permutation_sym, insert_sorted_perm|].
    constructor; [apply Qlt_le_weak, prio_ltb_true, E | exact Hy].
  - apply prio_ltb_false in E. constructor; [constructor; assumption|].
    constructor; [exact E|]. eapply Forall_impl; [|exact Hy].
    intros z Hz. unfold prio_le in *. eapply Qle_trans; eassumption.
Qed.

Definition same_prio (q : Q) (p : param) : bool := Qeq_bool (pprio p) q.

Lemma insert_sorted_filter : forall q x l,
  StronglySorted prio_le l ->
  filter (same_prio q) (insert_sorted x l) = filter (same_prio q) (x :: l).
Proof.
  intros q x l Hs. induction Hs as [|y r Hr IH Hy]; [reflexivity|].
  simpl insert_sorted. destruct (prio_ltb y x) eqn:E; [|reflexivity].
  simpl. simpl in IH. rewrite IH.
  destruct (same_prio q x) eqn:Ex; [|reflexivity].
  destruct (same_prio q y) eqn:Ey; [|reflexivity].
  exfalso. apply prio_ltb_true in E. unfold same_prio in *.
  apply Qeq_bool_iff in Ex. apply Qeq_bool_iff in Ey. rewrite Ex, Ey in E. apply (Qlt_irrefl _ E).
Qed.

Theorem py_sorted_is_stable_sort : forall l,
  Permutation (py_sorted l) l /\ StronglySorted prio_le (py_sorted l) /\
  forall q, filter (same_prio q) (py_sorted l) = filter (same_prio q) l.
Proof.
  unfold py_sorted. induction l as [|x l (IH1 & IH2 & IH3)]; simpl.
  - repeat split; constructor.
  - repeat split.
    + eapply perm_trans; [apply insert_sorted_perm | apply perm_skip, IH1].
    + apply insert_sorted_sorted, IH2.
    + intros q. rewrite insert_sorted_filter by exact IH2. simpl. rewrite IH3. reflexivity.
Qed.

(* ================================================================== T9: model-level round trip *)
Lemma set_value_key : forall q v x x', set_value q v x = Val x' -> pkey x' = pkey x.
Proof.
  intros q v x x' H. apply set_value_val in H. destruct H as (h & ro & c & d & v0 & -> & -> & _). reflexivity.
Qed.

(* set_parameter(key, v) that returns normally, followed by get_parameter(key),
   returns v; the same holds for set_value on the object followed by the
   model-level get *)
Theorem model_set_get_roundtrip : forall n m root path v root',
  step_root repaired n root (OModelSet path v) = (root', ONone) ->
  step_root repaired m root' (OModelGet path) = (root', OValue v).
Proof.
  intros n m root path v root' H. simpl in H.
  destruct (modify (segments path) (set_value repaired v) root) as [r|e] eqn:E; inversion H; subst.
  apply modify_inv in E; [|intros x x'; apply set_value_key].
  destruct E as (_ & x & x' & Hn & Hs & Hn').
  apply set_value_repaired_val in Hs. destruct Hs as (h & c & d & v0 & -> & -> & _).
  simpl. unfold get. rewrite Hn'. reflexivity.
Qed.

(* and set_parameter does return normally for every valid value of a writable
   parameter addressed by an existing key *)
Theorem model_set_accepts_valid : forall n root path h c d v0 v,
  node_at root (segments path) = Some (Leaf h false c d v0) -> valid_for c v = true ->
  exists root', step_root repaired n root (OModelSet path v) = (root', ONone).
Proof.
  intros n root path h c d v0 v Hn Hv. simpl.
  destruct (modify_val_at (segments path) (set_value repaired v) root _ (Leaf h false c d v) Hn) as [r Hr].
  - apply set_value_decides. auto.
  - rewrite Hr. eauto.
Qed.

(* it refuses, with the tree unchanged, in every other case *)
Theorem model_set_rejects : forall n root path v e,
  snd (step_root repaired n root (OModelSet path v)) = ORaise e ->
  fst (step_root repaired n root (OModelSet path v)) = root.
Proof. intros. eapply rejected_unchanged_root; eauto. Qed.

(* ================================================================== T10: failed construction is not registered *)
Theorem failed_construction_not_registered : forall n root pp s e,
  snd (step_root repaired n root (OAddCtor pp s)) = ORaise e ->
  fst (step_root repaired n root (OAddCtor pp s)) = root.
Proof. intros. eapply rejected_unchanged_root; eauto. Qed.

(* ================================================================== T11: a refused add of an existing object *)
(* Offering a parameter that already lives somewhere in the tree to a map that
   holds its key (or to something that is not a map) is refused and nothing
   changes: the tree is the same, so the parameter is still where it was,
   keeps its extended key, and that key still resolves to it. *)
Theorem readd_duplicate_refused : forall n root src dst p h ch,
  get root src = Val p -> node_at root (psegs dst) = Some (Map h ch) -> In (pkey p) (map pkey ch) ->
  step_root repaired n root (OReAdd src dst) = (root, ORaise ValueError).
Proof.
  intros n root src dst p h ch Hg Hn Hin. simpl. rewrite Hg, Hn.
  rewrite (duplicate_refused_map p h ch Hin). reflexivity.
Qed.

Theorem readd_never_changes_the_tree : forall n root src dst,
  fst (step_root repaired n root (OReAdd src dst)) = root.
Proof.
  intros. simpl. destruct (get root src) as [p|e]; [|reflexivity].
  destruct (node_at root (psegs dst)) as [par|]; [|reflexivity].
  destruct (map_add p par); reflexivity.
Qed.

(* ================================================================== the pinned snapshot (13808df) *)
(* The three defects of the snapshot, as behaviour of [step pinned]; each was
   replayed on the snapshot's code.  /repo has since been repaired (commits
   67d3f71, bc11b41, a3d4ad7) and the correspondence check runs [repaired]. *)
Open Scope string_scope.

Definition wit_str_spec : pspec := mkSpec "s" 1 true SStr (VStr "a") no_flaws.

Lemma pinned_read_only_str_changes :
  exists ops h c d v,
    In (Leaf h true c d v) (nodes (st_root (run pinned init ops))) /\ v <> d.
Proof.
  exists [OAddCtor None wit_str_spec; OSet "s" (VStr "b")].
  exists (mkHdr 1 "s" 1), CStr, (VStr "a"), (VStr "b").
  split; [vm_compute; auto | discriminate].
Qed.

Definition wit_int_tree : param :=
  Map (mkHdr 0 "root" 1) [Leaf (mkHdr 1 "n" 1) false (CInt (NI 0) (NI 10)) (VInt 5) (VInt 5)].

Lemma pinned_model_set_raises :
  exists n root path v h c d v0,
    node_at root (segments path) = Some (Leaf h false c d v0) /\ valid_for c v = true /\
    step_root pinned n root (OModelSet path v) = (root, ORaise AttributeError).
Proof.
  exists 2%nat, wit_int_tree, "n", (VInt 7), (mkHdr 1 "n" 1), (CInt (NI 0) (NI 10)), (VInt 5), (VInt 5).
  vm_compute. auto.
Qed.

Definition wit_bad_spec : pspec := mkSpec "x" 1 false (SInt (NI 0) (NI 10)) (VInt 50) no_flaws.

Lemma pinned_failed_construction_registered :
  exists n root pp s e,
    snd (step_root pinned n root (OAddCtor pp s)) = ORaise e /\
    fst (step_root pinned n root (OAddCtor pp s)) <> root /\
    exists p, In p (nodes (fst (step_root pinned n root (OAddCtor pp s)))) /\ ~ leaf_ok p.
Proof.
  exists 1%nat, (st_root init), None, wit_bad_spec, ValueError.
  split; [vm_compute; reflexivity|]. split; [vm_compute; discriminate|].
  exists (Leaf (mkHdr 1 "x" 1) false (CInt (NI 0) (NI 10)) (VInt 50) (VInt 50)).
  split; [vm_compute; auto|]. vm_compute. intros [H _]. discriminate.
Qed.

(* ================================================================== identities are unique *)
(* The theorems above name a parameter by its identity (creation stamp).  In
   every reachable tree the identities are pairwise distinct, so that name
   denotes one parameter. *)
Close Scope string_scope.
Open Scope list_scope.
Definition ids (p : param) : list nat := map pid (nodes p).

Lemma ids_map : forall h ch, ids (Map h ch) = h_id h :: flat_map ids ch.
Proof.
  intros. unfold ids. simpl. f_equal. rewrite flat_map_concat_map, concat_map, map_map, <- flat_map_concat_map. reflexivity.
Qed.

Lemma find_child_split : forall k c c' ch, find_child k ch = Some c ->
  exists l1 l2, ch = l1 ++ c :: l2 /\ replace_child k c' ch = l1 ++ c' :: l2 /\ remove_child k ch = l1 ++ l2.
Proof.
  induction ch as [|x r IH]; simpl; intros H; [discriminate|].
  destruct (String.eqb k (pkey x)).
  - inversion H; subst. exists [], r. auto.
  - destruct (IH H) as (l1 & l2 & -> & -> & ->). exists (x :: l1), l2. auto.
Qed.

Lemma modify_ids : forall extra segs f p p',
  (forall x x', f x = Val x' -> Permutation (ids x') (extra ++ ids x)) ->
  modify segs f p = Val p' -> Permutation (ids p') (extra ++ ids p).
Proof.
  intros extra. induction segs as [|k r IH]; simpl; intros f p p' Hf H; [apply Hf, H|].
  destruct p as [|h ch]; [discriminate|].
  destruct (find_child k ch) as [c|] eqn:Ec; [|discriminate].
  destruct (modify r f c) as [c'|] eqn:Em; [|discriminate].
  inversion H; subst. specialize (IH _ _ _ Hf Em).
  destruct (find_child_split k c c' ch Ec) as (l1 & l2 & -> & -> & _).
  rewrite !ids_map, !flat_map_app. simpl.
  eapply perm_trans; [|apply Permutation_middle]. apply perm_skip.
  eapply perm_trans; [apply Permutation_app_head, Permutation_app_tail, IH|].
  rewrite <- !app_assoc.
  eapply perm_trans; [apply Permutation_app_swap_app|]. apply Permutation_refl.
Qed.

Lemma set_value_ids : forall q v x x', set_value q v x = Val x' -> Permutation (ids x') ([] ++ ids x).
Proof.
  intros q v x x' H. apply set_value_val in H. destruct H as (h & ro & c & d & v0 & -> & -> & _). apply Permutation_refl.
Qed.

Lemma map_add_ids : forall n s x x', StronglySorted prio_le (match x with Map _ ch => ch | _ => [] end) ->
  map_add (node_of n s) x = Val x' -> Permutation (ids x') ([n] ++ ids x).
Proof.
  intros n s x x' Hs H. destruct x as [|h ch]; simpl in H; [discriminate|].
  destruct (has_key (pkey (node_of n s)) ch); [discriminate|]. inversion H; subst.
  rewrite py_sorted_append by exact Hs. rewrite !ids_map. simpl.
  eapply perm_trans; [apply perm_skip, (Permutation_flat_map ids (place_perm _ _))|].
  simpl. unfold ids at 1. rewrite node_of_nodes. simpl. rewrite node_of_id. apply perm_swap.
Qed.

Lemma remove_at_ids : forall segs p p' x,
  remove_at segs p = Val (p', x) -> Permutation (ids p) (ids x ++ ids p').
Proof.
  induction segs as [|k r IH]; intros p p' x H; simpl in H; [discriminate|].
  destruct p as [|h ch]; [discriminate|].
  destruct (find_child k ch) as [c|] eqn:Ec; [|discriminate].
  destruct r as [|k2 r2].
  - inversion H; subst.
    destruct (find_child_split k x x ch Ec) as (l1 & l2 & -> & _ & ->).
    rewrite !ids_map, !flat_map_app. simpl.
    eapply perm_trans; [|apply Permutation_middle]. apply perm_skip.
    apply Permutation_app_swap_app.
  - destruct (remove_at (k2 :: r2) c) as [[c' y]|] eqn:Er; [|discriminate].
    inversion H; subst. specialize (IH _ _ _ Er).
    destruct (find_child_split k c c' ch Ec) as (l1 & l2 & -> & -> & _).
    rewrite !ids_map, !flat_map_app. simpl.
    eapply perm_trans; [|apply Permutation_middle]. apply perm_skip.
    eapply perm_trans; [apply Permutation_app_head, Permutation_app_tail, IH|].
    rewrite <- !app_assoc.
    eapply perm_trans; [apply Permutation_app_swap_app|]. apply Permutation_refl.
Qed.

Lemma wf_ids_below : forall n p, wf n p -> Forall (fun i => (i < n)%nat) (ids p).
Proof.
  intros n p H. unfold ids. rewrite Forall_map. apply Forall_forall. intros x Hx.
  apply wf_id. eapply wf_nodes; eauto.
Qed.

Lemma node_children_sorted : forall n root segs h ch,
  wf n root -> node_at root segs = Some (Map h ch) -> StronglySorted prio_le ch.
Proof.
  intros n root segs h ch Hwf Hn. apply paths_node_at in Hn.
  assert (Hin : In (Map h ch) (nodes root)).
  { clear Hwf. revert Hn. generalize (Map h ch) as x. intros x. revert segs.
    induction root as [h0 ro c d v|h0 ch0 IH] using param_ind'; intros segs Hn.
    - simpl in Hn. destruct Hn as [Hn|[]]. inversion Hn; subst. simpl. auto.
    - apply paths_map_inv in Hn. destruct Hn as [[_ ->]|(c & l' & Hc & Hn & _)]; [apply nodes_self|].
      rewrite Forall_forall in IH. eapply nodes_child; eauto. }
  pose proof (wf_nodes _ _ Hwf _ Hin) as Hw. inversion Hw as [|? ? _ _ _ Hok]; subst.
  apply sorted_hord_prio. apply Hok.
Qed.

Lemma nodup_app_r : forall (A : Type) (a b : list A), NoDup (a ++ b) -> NoDup b.
Proof. induction a as [|x a IH]; simpl; intros b H; [exact H | inversion H; auto]. Qed.

(* ================================================================== the forest: the model's tree and the parent-less objects *)
Definition trees (st : state) : list param := st_root st :: st_free st.
Definition all_nodes (st : state) : list param := flat_map nodes (trees st).

Lemma step_with_ext : forall ts ts' rm rm' c c' a a',
  (forall n T o, ts n T o = ts' n T o) -> (forall T k, rm T k = rm' T k) ->
  (forall n s, c n s = c' n s) -> (forall d t T, a d t T = a' d t T) ->
  forall st o, step_with ts rm c a st o = step_with ts' rm' c' a' st o.
Proof.
  intros ts ts' rm rm' c c' a a' H1 Hr H2 H3 st o. unfold step_with.
  destruct (split_target o) as [tg o'].
  destruct (get_target (st_root st) (st_free st) tg) as [T|]; [|reflexivity].
  destruct o'; rewrite ?H1, ?H2, ?Hr; try reflexivity.
  match goal with |- context [find_free ?x ?l] => destruct (find_free x l); [|reflexivity] end. rewrite H3. reflexivity.
Qed.

Lemma attach_lit_eq : forall d t T, attach_lit d t T = attach_seg d t T.
Proof. intros. apply py_modify_at_eq. Qed.

(* the forest step over the walk-over-segments functions *)
Lemma step_seg : forall st o,
  step repaired st o =
  step_with (step_root repaired) (fun T k => remove_at (segments k) T) (ctor_free repaired) attach_seg st o.
Proof.
  intros. unfold step.
  apply step_with_ext; [intros; apply step_root_lit_eq | intros; apply py_remove_eq | reflexivity | apply attach_lit_eq].
Qed.

Lemma find_free_split : forall j T T' l, find_free j l = Some T ->
  pid T = j /\ exists l1 l2, l = l1 ++ T :: l2 /\ replace_free j T' l = l1 ++ T' :: l2 /\ remove_free j l = l1 ++ l2.
Proof.
  induction l as [|x r IH]; simpl; intros H; [discriminate|].
  destruct (Nat.eqb (pid x) j) eqn:E.
  - inversion H; subst. apply Nat.eqb_eq in E. split; [exact E|]. exists [], r. auto.
  - destruct (IH H) as (Hp & l1 & l2 & -> & -> & ->). split; [exact Hp|]. exists (x :: l1), l2. auto.
Qed.

Lemma find_free_remove_other : forall i j l, i <> j -> find_free j (remove_free i l) = find_free j l.
Proof.
  induction l as [|x r IH]; simpl; intros Hne; [reflexivity|].
  destruct (Nat.eqb (pid x) i) eqn:Ei; simpl.
  - apply Nat.eqb_eq in Ei. destruct (Nat.eqb (pid x) j) eqn:Ej; [apply Nat.eqb_eq in Ej; lia | reflexivity].
  - destruct (Nat.eqb (pid x) j); [reflexivity | apply IH, Hne].
Qed.

(* one tree of the forest is exchanged *)
Lemma set_target_split : forall root free tg T T' root' free',
  get_target root free tg = Some T -> set_target root free tg T' = (root', free') ->
  exists l1 l2, root :: free = l1 ++ T :: l2 /\ root' :: free' = l1 ++ T' :: l2.
Proof.
  intros root free [j|] T T' root' free' Hg Hs; simpl in *.
  - inversion Hs; subst. destruct (find_free_split j T T' free Hg) as (_ & l1 & l2 & -> & -> & _).
    exists (root' :: l1), l2. auto.
  - inversion Hg; inversion Hs; subst. exists [], free'. auto.
Qed.

Lemma set_target_free : forall (P : param -> Prop) root free tg T' root' free',
  set_target root free tg T' = (root', free') -> Forall P free -> P T' -> Forall P free'.
Proof.
  intros P root free [j|] T' root' free' Hs HF HT; simpl in Hs; inversion Hs; subst; [|exact HF].
  clear Hs. induction free as [|x r IH]; simpl; [constructor|].
  inversion HF; subst. destruct (Nat.eqb (pid x) j); constructor; auto.
Qed.

Lemma set_target_same : forall root free tg T,
  get_target root free tg = Some T -> set_target root free tg T = (root, free).
Proof.
  intros root free [j|] T Hg; simpl in *; [|inversion Hg; reflexivity].
  f_equal. induction free as [|x r IH]; simpl in *; [reflexivity|].
  destruct (Nat.eqb (pid x) j); [inversion Hg; reflexivity | rewrite IH; auto].
Qed.

Lemma In_remove_free : forall i l x, In x (remove_free i l) -> In x l.
Proof.
  induction l as [|y r IH]; simpl; intros x H; [tauto|].
  destruct (Nat.eqb (pid y) i); [auto | destruct H; auto].
Qed.

Lemma Forall_remove_free : forall (P : param -> Prop) i l, Forall P l -> Forall P (remove_free i l).
Proof.
  intros P i l H. apply Forall_forall. intros x Hx. apply In_remove_free in Hx. rewrite Forall_forall in H. auto.
Qed.

Lemma find_free_in : forall i l t, find_free i l = Some t -> In t l.
Proof.
  induction l as [|y r IH]; simpl; intros t H; [discriminate|].
  destruct (Nat.eqb (pid y) i); [inversion H; auto | right; apply IH, H].
Qed.

(* what one forest operation can do *)
Inductive trans (n : nat) (root : param) (free : list param) : param -> list param -> out -> Prop :=
| tr_same : forall r, trans n root free root free r
| tr_new : forall s, ctor_checks repaired s None = None -> trans n root free root (free ++ [node_of n s]) ONone
| tr_tree : forall tg T o' root' free',
    get_target root free tg = Some T ->
    set_target root free tg (fst (step_root repaired n T o')) = (root', free') ->
    trans n root free root' free' (snd (step_root repaired n T o'))
| tr_remove : forall tg T path T' x root' free',
    get_target root free tg = Some T ->
    remove_at (segments path) T = Val (T', x) ->
    set_target root free tg T' = (root', free') ->
    trans n root free root' (free' ++ [x]) (OParam (pid x))
| tr_attach : forall tg T i t dst T' root' free',
    find_free i free = Some t -> tg <> Some i ->
    get_target root (remove_free i free) tg = Some T ->
    modify (psegs dst) (map_add (restamp n t)) T = Val T' ->
    set_target root (remove_free i free) tg T' = (root', free') ->
    trans n root free root' free' ONone.

Lemma step_trans : forall st o,
  st_next (fst (step repaired st o)) = S (st_next st) /\
  trans (st_next st) (st_root st) (st_free st)
        (st_root (fst (step repaired st o))) (st_free (fst (step repaired st o))) (snd (step repaired st o)).
Proof.
  intros [root n free] o. rewrite step_seg. unfold step_with. cbn [st_root st_next st_free].
  destruct (split_target o) as [tg o'] eqn:Es.
  destruct (get_target root free tg) as [T|] eqn:Eg; [|split; [reflexivity | apply tr_same]].
  assert (Htree : forall o'',
            (let '(T', r) := step_root repaired n T o'' in
             let '(root', free') := set_target root free tg T' in (mkState root' (S n) free', r)) =
            (let '(T', r) := step_root repaired n T o'' in
             let '(root', free') := set_target root free tg T' in (mkState root' (S n) free', r)) ->
            st_next (fst (let '(T', r) := step_root repaired n T o'' in
                          let '(root', free') := set_target root free tg T' in (mkState root' (S n) free', r))) = S n /\
            trans n root free
              (st_root (fst (let '(T', r) := step_root repaired n T o'' in
                             let '(root', free') := set_target root free tg T' in (mkState root' (S n) free', r))))
              (st_free (fst (let '(T', r) := step_root repaired n T o'' in
                             let '(root', free') := set_target root free tg T' in (mkState root' (S n) free', r))))
              (snd (let '(T', r) := step_root repaired n T o'' in
                    let '(root', free') := set_target root free tg T' in (mkState root' (S n) free', r)))).
  { intros o'' _. pose proof (tr_tree n root free tg T o'') as Ht.
    destruct (step_root repaired n T o'') as [T' r] eqn:Est. simpl in Ht.
    destruct (set_target root free tg T') as [root' free'] eqn:Eset. simpl.
    split; [reflexivity | apply (Ht root' free' Eg eq_refl)]. }
  destruct o' as [path v|pp s|pp s|path|path|path v|path|src dst|path|s|i o''|i dst];
    try (apply Htree; reflexivity).
  - (* ORemove *)
    destruct (remove_at (segments path) T) as [[T' x]|e] eqn:Er; [|split; [reflexivity | apply tr_same]].
    destruct (set_target root free tg T') as [root' free'] eqn:Eset. simpl.
    split; [reflexivity | eapply tr_remove; eauto].
  - (* ONew *)
    destruct tg as [j|]; [split; [reflexivity | apply tr_same]|].
    unfold ctor_free. destruct (ctor_checks repaired s None) eqn:Ec; simpl;
      (split; [reflexivity|]); [apply tr_same | apply tr_new, Ec].
  - split; [reflexivity | apply tr_same].
  - (* OAttach *)
    destruct (find_free i free) as [t|] eqn:Ef; [|split; [reflexivity | apply tr_same]].
    destruct (match tg with Some j => Nat.eqb i j | None => false end) eqn:Eself;
      [split; [reflexivity | apply tr_same]|].
    unfold attach_seg.
    destruct (modify (psegs dst) (map_add (restamp n t)) T) as [T'|e] eqn:Em;
      [|split; [reflexivity | apply tr_same]].
    destruct (set_target root (remove_free i free) tg T') as [root' free'] eqn:Eset. simpl.
    split; [reflexivity|].
    assert (Hne : tg <> Some i).
    { destruct tg as [j|]; [|discriminate]. intro H. inversion H; subst. rewrite Nat.eqb_refl in Eself. discriminate. }
    eapply tr_attach; eauto.
    destruct tg as [j|]; simpl in *; [|exact Eg].
    rewrite find_free_remove_other; [exact Eg | congruence].
Qed.

(* ------------------------------------------------------------------ T1 on the forest *)
Definition wf_state (st : state) : Prop :=
  Forall (wf (st_next st)) (trees st) /\ Forall (fun t => key_ok (pkey t)) (st_free st).

Lemma Forall_mid : forall (P : param -> Prop) l1 T T' l2,
  Forall P (l1 ++ T :: l2) -> P T' -> Forall P (l1 ++ T' :: l2).
Proof.
  intros P l1 T T' l2 H HT. apply Forall_app in H. destruct H as [H1 H2]. inversion H2; subst.
  apply Forall_app. split; [exact H1 | constructor; assumption].
Qed.

Lemma Forall_mid_at : forall (P : param -> Prop) l1 T l2, Forall P (l1 ++ T :: l2) -> P T.
Proof. intros P l1 T l2 H. apply Forall_app in H. destruct H as [_ H]. inversion H; assumption. Qed.

Lemma restamp_wf : forall n t, wf n t -> wf (S n) (restamp n t).
Proof.
  intros n t H. inversion H; subst; simpl; constructor; simpl; auto; try lia.
  eapply Forall_impl; [|eassumption]. intros y Hy. eapply wf_mono; [|exact Hy]. lia.
Qed.

Lemma restamp_key : forall n t, pkey (restamp n t) = pkey t.
Proof. intros n [h ro c d v|h ch]; reflexivity. Qed.

Lemma restamp_id : forall n t, pid (restamp n t) = pid t.
Proof. intros n [h ro c d v|h ch]; reflexivity. Qed.

Lemma restamp_seq : forall n t, pseq (restamp n t) = n.
Proof. intros n [h ro c d v|h ch]; reflexivity. Qed.

Lemma trans_wf : forall n root free root' free' r,
  Forall (wf n) (root :: free) -> Forall (fun t => key_ok (pkey t)) free ->
  trans n root free root' free' r ->
  Forall (wf (S n)) (root' :: free') /\ Forall (fun t => key_ok (pkey t)) free'.
Proof.
  intros n root free root' free' r Hwf Hk Ht.
  assert (Hmono : forall l, Forall (wf n) l -> Forall (wf (S n)) l).
  { intros l Hl. eapply Forall_impl; [|exact Hl]. intros y Hy. eapply wf_mono; [|exact Hy]. lia. }
  inversion Ht; subst.
  - split; [apply Hmono, Hwf | exact Hk].
  - apply ctor_checks_repaired_none in H. destruct H as (_ & Hd & Hb).
    split.
    + change (root' :: free ++ [node_of n s]) with ((root' :: free) ++ [node_of n s]).
      apply Forall_app. split; [apply Hmono, Hwf|]. constructor; [|constructor].
      apply node_of_wf, default_checks_leaf_ok, Hd.
    + apply Forall_app. split; [exact Hk|]. constructor; [|constructor].
      rewrite node_of_key. eapply base_checks_key_ok, Hb.
  - destruct (set_target_split _ _ _ _ _ _ _ H H0) as (l1 & l2 & E1 & E2).
    rewrite E1 in Hwf. pose proof (Forall_mid_at _ _ _ _ Hwf) as HT.
    destruct (step_root_wf_hdr n T o' HT) as [HT' Hh].
    split.
    + rewrite E2. eapply Forall_mid; [apply Hmono, Hwf | exact HT'].
    + destruct tg as [j|]; simpl in H, H0.
      * inversion H0; subst. eapply (set_target_free _ root' free (Some j)); [reflexivity | exact Hk|].
        unfold pkey. rewrite Hh. apply find_free_in in H. rewrite Forall_forall in Hk. apply (Hk _ H).
      * inversion H0; subst. exact Hk.
  - (* remove: the removed object is retired *)
    match goal with
    | Hg : get_target _ _ _ = Some _, Hr : remove_at _ _ = Val _, Hs : set_target _ _ _ _ = _ |- _ =>
        destruct (set_target_split _ _ _ _ _ _ _ Hg Hs) as (l1 & l2 & E1 & E2);
        rename Hg into Hget; rename Hr into Hrem; rename Hs into Hset
    end.
    rewrite E1 in Hwf. pose proof (Forall_mid_at _ _ _ _ Hwf) as HT.
    destruct (remove_at_wf n _ _ _ _ HT Hrem) as (HT' & Hh & Hx).
    destruct (remove_at_removed n _ _ _ _ HT Hrem) as [_ Hkx].
    split.
    + change (root' :: free'0 ++ [x]) with ((root' :: free'0) ++ [x]). apply Forall_app. split.
      * rewrite E2. eapply Forall_mid; [apply Hmono, Hwf|]. eapply wf_mono; [|exact HT']. lia.
      * constructor; [|constructor]. eapply wf_mono; [|exact Hx]. lia.
    + apply Forall_app. split; [|constructor; [exact Hkx | constructor]].
      destruct tg as [j|]; simpl in Hget, Hset.
      * inversion Hset; subst. eapply (set_target_free _ root' free (Some j)); [reflexivity | exact Hk|].
        unfold pkey. rewrite Hh. apply find_free_in in Hget. rewrite Forall_forall in Hk. apply (Hk _ Hget).
      * inversion Hset; subst. exact Hk.
  - (* attach *)
    assert (Hwf0 : Forall (wf n) (root :: remove_free i free)).
    { inversion Hwf; subst. constructor; [assumption | apply Forall_remove_free; assumption]. }
    assert (Hk0 : Forall (fun t => key_ok (pkey t)) (remove_free i free)) by (apply Forall_remove_free, Hk).
    assert (Ht0 : wf n t /\ key_ok (pkey t)).
    { apply find_free_in in H. inversion Hwf; subst. rewrite Forall_forall in *. auto. }
    destruct (set_target_split _ _ _ _ _ _ _ H1 H3) as (l1 & l2 & E1 & E2).
    rewrite E1 in Hwf0. pose proof (Forall_mid_at _ _ _ _ Hwf0) as HT.
    assert (HT' : wf (S n) T' /\ phdr T' = phdr T).
    { eapply modify_wf; [| exact HT | | exact H2]; [lia|].
      intros x x' Hx Ha. eapply map_add_wf_gen; eauto.
      - apply restamp_wf, Ht0.
      - rewrite restamp_key. apply Ht0.
      - apply restamp_seq. }
    destruct HT' as [HT' Hh].
    split.
    + rewrite E2. eapply Forall_mid; [apply Hmono, Hwf0 | exact HT'].
    + destruct tg as [j|]; simpl in H1, H3.
      * inversion H3; subst. eapply (set_target_free _ root' (remove_free i free) (Some j)); [reflexivity | exact Hk0|].
        unfold pkey. rewrite Hh. apply find_free_in in H1. rewrite Forall_forall in Hk0. apply (Hk0 _ H1).
      * inversion H3; subst. exact Hk0.
Qed.

Lemma step_next : forall st o, st_next (fst (step repaired st o)) = S (st_next st).
Proof. intros. apply step_trans. Qed.

Lemma step_wf : forall st o, wf_state st -> wf_state (fst (step repaired st o)).
Proof.
  intros st o [H1 H2]. destruct (step_trans st o) as [Hn Ht]. unfold wf_state, trees. rewrite Hn.
  eapply trans_wf; eauto.
Qed.

Lemma run_wf : forall ops st, wf_state st -> wf_state (run repaired st ops).
Proof. induction ops as [|o r IH]; simpl; intros st H; [exact H | apply IH, step_wf, H]. Qed.

Lemma init_wf : wf_state init.
Proof.
  unfold wf_state, trees, init. simpl. split; [|constructor].
  constructor; [|constructor]. constructor; simpl; [lia | lia | constructor | apply children_ok_nil].
Qed.

Lemma run_next : forall ops st, st_next (run repaired st ops) = (List.length ops + st_next st)%nat.
Proof.
  induction ops as [|o r IH]; simpl; intros st; [reflexivity|].
  rewrite IH, step_next. lia.
Qed.

Lemma run_app : forall q a b st, run q st (a ++ b) = run q (run q st a) b.
Proof. induction a as [|o r IH]; simpl; intros; [reflexivity | apply IH]. Qed.

Lemma all_nodes_in : forall st x, In x (all_nodes st) <-> exists t, In t (trees st) /\ In x (nodes t).
Proof. intros. unfold all_nodes. apply in_flat_map. Qed.

Lemma wf_state_nodes : forall st x, wf_state st -> In x (all_nodes st) -> wf (st_next st) x.
Proof.
  intros st x [H _] Hx. apply all_nodes_in in Hx. destruct Hx as (t & Ht & Hx).
  rewrite Forall_forall in H. eapply wf_nodes; eauto.
Qed.

(* T1: after every sequence of operations every tree of the forest - the
   model's tree and every parent-less object under construction - is
   well-formed; in particular every parameter holds a value (and a default)
   that is valid for its declared type / bounds / options / quantity type. *)
Theorem value_always_valid_from : forall st ops p,
  wf_state st -> In p (all_nodes (run repaired st ops)) -> leaf_ok p.
Proof. intros st ops p Hwf Hin. eapply wf_leaf_ok, wf_state_nodes; [apply run_wf, Hwf | exact Hin]. Qed.

Theorem value_always_valid : forall ops p, In p (all_nodes (run repaired init ops)) -> leaf_ok p.
Proof. intros ops p. apply value_always_valid_from, init_wf. Qed.

(* T8 global: every map anywhere in the forest lists its children by display
   priority, ties in insertion order, under distinct well-formed keys *)
Theorem children_sorted : forall ops h ch,
  In (Map h ch) (all_nodes (run repaired init ops)) ->
  StronglySorted hord_lt (map phdr ch) /\ NoDup (map pkey ch) /\ Forall key_ok (map pkey ch).
Proof.
  intros ops h ch Hin.
  pose proof (wf_state_nodes _ _ (run_wf ops init init_wf) Hin) as Hwf.
  destruct (wf_children_nodup _ _ _ Hwf). inversion Hwf as [|? ? _ _ _ Hok]; subst.
  destruct Hok as (_ & _ & Hs). auto.
Qed.

(* ------------------------------------------------------------------ T2 on the forest *)
Lemma trans_rejected : forall n root free root' free' e,
  trans n root free root' free' (ORaise e) -> root' = root /\ free' = free.
Proof.
  intros n root free root' free' e Ht. inversion Ht; subst; auto.
  match goal with
  | Hs : set_target _ _ _ (fst (step_root _ _ _ _)) = _, Hg : get_target _ _ _ = Some _,
    Hr : snd (step_root _ _ _ _) = ORaise _ |- _ =>
      apply rejected_unchanged_root in Hr; rewrite Hr in Hs;
      rewrite (set_target_same _ _ _ _ Hg) in Hs; inversion Hs; auto
  end.
Qed.

Theorem rejected_unchanged : forall st o e,
  snd (step repaired st o) = ORaise e ->
  st_root (fst (step repaired st o)) = st_root st /\ st_free (fst (step repaired st o)) = st_free st.
Proof.
  intros st o e H. destruct (step_trans st o) as [_ Ht]. rewrite H in Ht. eapply trans_rejected; eauto.
Qed.

(* ------------------------------------------------------------------ T3/T4 on the forest *)
(* the same object: identity, key and priority (the insertion stamp changes when
   a parent-less object is attached) *)
Definition same_obj (a b : hdr) : Prop := h_id a = h_id b /\ h_key a = h_key b /\ h_prio a = h_prio b.

Lemma same_obj_refl : forall a, same_obj a a.
Proof. intros; repeat split. Qed.

Lemma same_obj_trans : forall a b c, same_obj a b -> same_obj b c -> same_obj a c.
Proof. unfold same_obj. intros a b c (H1 & H2 & H3) (H4 & H5 & H6). repeat split; congruence. Qed.

Lemma nodes_restamp : forall n t L, In L (nodes (restamp n t)) -> L = restamp n t \/ In L (nodes t).
Proof.
  intros n [h ro c d v|h ch] L H; simpl in *.
  - destruct H as [H|[]]; auto.
  - destruct H as [H|H]; auto.
Qed.

Lemma in_mid : forall (A : Type) (x : A) l1 T l2, In x (l1 ++ T :: l2) -> x = T \/ In x (l1 ++ l2).
Proof.
  intros A x l1 T l2 H. apply in_app_or in H. destruct H as [H|[H|H]]; auto; right; apply in_or_app; auto.
Qed.

(* where a leaf of the forest after one operation comes from *)
Lemma trans_leaf_origin : forall n root free root' free' r h ro c d v',
  trans n root free root' free' r ->
  In (Leaf h ro c d v') (flat_map nodes (root' :: free')) ->
  (exists h0 v, In (Leaf h0 ro c d v) (flat_map nodes (root :: free)) /\ same_obj h0 h /\ (v' = v \/ ro = false)) \/
  (h_id h = n /\ v' = d).
Proof.
  intros n root free root' free' r h ro c d v' Ht Hin.
  assert (Hold : In (Leaf h ro c d v') (flat_map nodes (root :: free)) ->
                 (exists h0 v, In (Leaf h0 ro c d v) (flat_map nodes (root :: free)) /\ same_obj h0 h /\ (v' = v \/ ro = false)) \/
                 (h_id h = n /\ v' = d)).
  { intros H. left. exists h, v'. split; [exact H|]. split; [apply same_obj_refl | auto]. }
  inversion Ht; subst.
  - auto.
  - change (root' :: free ++ [node_of n s]) with ((root' :: free) ++ [node_of n s]) in Hin.
    rewrite flat_map_app in Hin. apply in_app_or in Hin. destruct Hin as [Hin|Hin]; [auto|].
    simpl in Hin. rewrite app_nil_r, node_of_nodes in Hin. destruct Hin as [Hin|[]].
    right. unfold node_of in Hin. destruct (s_kind s); inversion Hin; subst; auto.
  - match goal with
    | Hg : get_target _ _ _ = Some _, Hs : set_target _ _ _ _ = _ |- _ =>
        destruct (set_target_split _ _ _ _ _ _ _ Hg Hs) as (l1 & l2 & E1 & E2)
    end.
    rewrite E2 in Hin. rewrite E1. apply in_flat_map in Hin. destruct Hin as (t & Ht' & Hin).
    apply in_mid in Ht'. destruct Ht' as [->|Ht'].
    + apply step_root_leaf_origin in Hin. destruct Hin as [(v & Hv & Hor)|Hf]; [|auto].
      left. exists h, v. split; [|split; [apply same_obj_refl | exact Hor]].
      apply in_flat_map. exists T. split; [apply in_or_app; right; left; reflexivity | exact Hv].
    + left. exists h, v'. split; [|split; [apply same_obj_refl | auto]].
      apply in_flat_map. exists t. split; [|exact Hin].
      apply in_app_or in Ht'. apply in_or_app. destruct Ht'; [left | right; right]; assumption.
  - (* remove: what is left and what was handed back both come from T *)
    match goal with
    | Hg : get_target _ _ _ = Some _, Hr : remove_at _ _ = Val _, Hs : set_target _ _ _ _ = _ |- _ =>
        destruct (set_target_split _ _ _ _ _ _ _ Hg Hs) as (l1 & l2 & E1 & E2); rename Hr into Hrem
    end.
    assert (HinT : forall L, In L (nodes T) -> In L (flat_map nodes (root :: free))).
    { intros L HL. rewrite E1. apply in_flat_map. exists T. split; [apply in_or_app; right; left; reflexivity | exact HL]. }
    change (root' :: free'0 ++ [x]) with ((root' :: free'0) ++ [x]) in Hin.
    rewrite flat_map_app in Hin. apply in_app_or in Hin. destruct Hin as [Hin|Hin].
    + rewrite E2 in Hin. apply in_flat_map in Hin. destruct Hin as (y & Hy & Hin).
      apply in_mid in Hy. destruct Hy as [->|Hy].
      * apply Hold, HinT. eapply (remove_at_leaves _ _ _ _ (Leaf h ro c d v')); eauto. exact I.
      * apply Hold. rewrite E1. apply in_flat_map. exists y. split; [|exact Hin].
        apply in_app_or in Hy. apply in_or_app. destruct Hy; [left | right; right]; assumption.
    + simpl in Hin. rewrite app_nil_r in Hin. apply Hold, HinT.
      assert (Hx : In x (nodes T)).
      { clear - Hrem. revert T T' x Hrem. generalize (segments path) as segs.
        induction segs as [|k r IH]; intros T T' x H; simpl in H; [discriminate|].
        destruct T as [|h0 ch]; [discriminate|].
        destruct (find_child k ch) as [c0|] eqn:Ec; [|discriminate].
        destruct r as [|k2 r2].
        - inversion H; subst. eapply nodes_child; [eapply find_child_in, Ec | apply nodes_self].
        - destruct (remove_at (k2 :: r2) c0) as [[c' y]|] eqn:Er; [|discriminate]. inversion H; subst.
          eapply nodes_child; [eapply find_child_in, Ec | eapply IH, Er]. }
      eapply nodes_trans; eauto.
  - (* attach *)
    match goal with
    | Hf : find_free _ _ = Some _, Hg : get_target _ _ _ = Some _, Hs : set_target _ _ _ _ = _,
      Hm : modify _ _ _ = Val _ |- _ =>
        destruct (set_target_split _ _ _ _ _ _ _ Hg Hs) as (l1 & l2 & E1 & E2);
        pose proof (find_free_in _ _ _ Hf) as Htin; rename Hm into Hmod
    end.
    assert (Hsub : forall x, In x (flat_map nodes (root :: remove_free i free)) -> In x (flat_map nodes (root :: free))).
    { intros x Hx. apply in_flat_map in Hx. destruct Hx as (y & Hy & Hx). apply in_flat_map. exists y. split; [|exact Hx].
      destruct Hy as [Hy|Hy]; [left; exact Hy | right; eapply In_remove_free, Hy]. }
    rewrite E2 in Hin. apply in_flat_map in Hin. destruct Hin as (y & Hy & Hin).
    apply in_mid in Hy. destruct Hy as [->|Hy].
    + eapply (modify_leaves _ _ _ _ (Leaf h ro c d v')) in Hmod; [|exact I|exact Hin].
      destruct Hmod as [Hm|(x & x' & Hx & Ha & Hx')].
      * apply Hold, Hsub. rewrite E1. apply in_flat_map. exists T. split; [apply in_or_app; right; left; reflexivity | exact Hm].
      * eapply (map_add_leaves _ _ _ (Leaf h ro c d v')) in Ha; [|exact I|exact Hx'].
        destruct Ha as [Ha|Ha].
        -- apply Hold, Hsub. rewrite E1. apply in_flat_map. exists T.
           split; [apply in_or_app; right; left; reflexivity | eapply nodes_trans; eauto].
        -- apply nodes_restamp in Ha. destruct Ha as [Ha|Ha].
           ++ destruct t as [h0 ro0 c0 d0 v0|h0 ch0]; simpl in Ha; inversion Ha; subst.
              left. exists h0, v0. split; [|split; [repeat split | auto]].
              apply in_flat_map. exists (Leaf h0 ro0 c0 d0 v0). split; [right; exact Htin | simpl; auto].
           ++ apply Hold. apply in_flat_map. exists t. split; [right; exact Htin | exact Ha].
    + apply Hold, Hsub. rewrite E1. apply in_flat_map. exists y. split; [|exact Hin].
      apply in_app_or in Hy. apply in_or_app. destruct Hy; [left | right; right]; assumption.
Qed.

Lemma step_leaf_origin : forall st o h ro c d v',
  In (Leaf h ro c d v') (all_nodes (fst (step repaired st o))) ->
  (exists h0 v, In (Leaf h0 ro c d v) (all_nodes st) /\ same_obj h0 h /\ (v' = v \/ ro = false)) \/
  (h_id h = st_next st /\ v' = d).
Proof.
  intros st o h ro c d v' Hin. destruct (step_trans st o) as [_ Ht]. eapply trans_leaf_origin; eauto.
Qed.

(* T3/T4, history form: a parameter that exists after the history and already
   existed before it (its identity is below the next one to be handed out) was
   there as the same object with the same read-only flag, constraint and
   DEFAULT, and, when read-only, with the same VALUE. *)
Theorem leaf_history : forall ops st h ro c d v',
  In (Leaf h ro c d v') (all_nodes (run repaired st ops)) -> (h_id h < st_next st)%nat ->
  exists h0 v, In (Leaf h0 ro c d v) (all_nodes st) /\ same_obj h0 h /\ (ro = true -> v' = v).
Proof.
  induction ops as [|o r IH]; simpl; intros st h ro c d v' Hin Hid.
  - exists h, v'. split; [exact Hin | split; [apply same_obj_refl | auto]].
  - apply IH in Hin; [|rewrite step_next; lia].
    destruct Hin as (h1 & v1 & Hin & Hso & Hro).
    apply step_leaf_origin in Hin. destruct Hin as [(h0 & v & Hv & Hso' & Hor)|[Hn _]].
    + exists h0, v. split; [exact Hv|]. split; [eapply same_obj_trans; eauto|].
      intros Ht. rewrite (Hro Ht). destruct Hor as [Hor|Hor]; [exact Hor | congruence].
    + destruct Hso as (Hi & _). lia.
Qed.

Theorem default_never_changes : forall ops1 ops2 h ro c d v',
  let st1 := run repaired init ops1 in
  In (Leaf h ro c d v') (all_nodes (run repaired st1 ops2)) -> (h_id h < st_next st1)%nat ->
  exists h0 v, In (Leaf h0 ro c d v) (all_nodes st1) /\ same_obj h0 h.
Proof.
  intros ops1 ops2 h ro c d v' st1 Hin Hid.
  destruct (leaf_history ops2 st1 _ _ _ _ _ Hin Hid) as (h0 & v & Hv & Hs & _). eauto.
Qed.

Theorem read_only_never_changes : forall ops1 ops2 h c d v',
  let st1 := run repaired init ops1 in
  In (Leaf h true c d v') (all_nodes (run repaired st1 ops2)) -> (h_id h < st_next st1)%nat ->
  exists h0, In (Leaf h0 true c d v') (all_nodes st1) /\ same_obj h0 h.
Proof.
  intros ops1 ops2 h c d v' st1 Hin Hid.
  destruct (leaf_history ops2 st1 _ _ _ _ _ Hin Hid) as (h0 & v & Hv & Hs & Hro).
  rewrite (Hro eq_refl). eauto.
Qed.

(* ... hence a read-only parameter holds its default for ever *)
Definition ro_at_default (st : state) : Prop :=
  forall h c d v, In (Leaf h true c d v) (all_nodes st) -> v = d.

Lemma step_ro_at_default : forall st o, ro_at_default st -> ro_at_default (fst (step repaired st o)).
Proof.
  unfold ro_at_default. intros st o H h c d v Hin.
  apply step_leaf_origin in Hin. destruct Hin as [(h0 & v0 & Hv & _ & [->|Hf])|[_ ->]]; [eauto | discriminate | reflexivity].
Qed.

Theorem read_only_value_is_default : forall ops h c d v,
  In (Leaf h true c d v) (all_nodes (run repaired init ops)) -> v = d.
Proof.
  intros ops. change (ro_at_default (run repaired init ops)).
  assert (G : forall ops st, ro_at_default st -> ro_at_default (run repaired st ops)).
  { induction ops0 as [|o r IH]; simpl; intros st H; [exact H | apply IH, step_ro_at_default, H]. }
  apply G. unfold ro_at_default, all_nodes, trees, init. simpl. intros h c d v [H|[]]. discriminate.
Qed.

(* ------------------------------------------------------------------ identities are unique in the whole forest *)
Definition all_ids (st : state) : list nat := flat_map ids (trees st).

Lemma map_add_ids_gen : forall p x x', map_add p x = Val x' -> Permutation (ids x') (ids p ++ ids x).
Proof.
  intros p x x' H. destruct x as [|h ch]; simpl in H; [discriminate|].
  destruct (has_key (pkey p) ch); [discriminate|]. inversion H; subst.
  rewrite !ids_map.
  assert (Hp : Permutation (py_sorted (ch ++ [p])) (p :: ch)).
  { eapply perm_trans; [apply (proj1 (py_sorted_is_stable_sort _))|]. apply Permutation_sym, Permutation_cons_append. }
  eapply perm_trans; [apply perm_skip, (Permutation_flat_map ids Hp)|].
  simpl. apply Permutation_middle.
Qed.

Lemma ids_restamp : forall n t, ids (restamp n t) = ids t.
Proof. intros n [h ro c d v|h ch]; reflexivity. Qed.

(* identities after one tree operation: those before and the new one, minus what was removed *)
Lemma step_root_ids_perm : forall n root o,
  exists l, Permutation (ids root ++ [n]) (ids (fst (step_root repaired n root o)) ++ l).
Proof.
  intros n root o.
  assert (Hsame : exists l, Permutation (ids root ++ [n]) (ids root ++ l)) by (exists [n]; apply Permutation_refl).
  assert (Hset : forall path v r', modify (segments path) (set_value repaired v) root = Val r' ->
                 exists l, Permutation (ids root ++ [n]) (ids r' ++ l)).
  { intros path v r' E. eapply modify_ids in E; [|intros x x'; apply set_value_ids].
    exists [n]. apply Permutation_app_tail, Permutation_sym, E. }
  assert (Hadd : forall pp s r', modify (psegs pp) (map_add (node_of n s)) root = Val r' ->
                 exists l, Permutation (ids root ++ [n]) (ids r' ++ l)).
  { intros pp s r' E. eapply (modify_ids (ids (node_of n s))) in E; [|intros x x'; apply map_add_ids_gen].
    exists []. rewrite app_nil_r. eapply perm_trans; [|apply Permutation_sym, E].
    unfold ids at 2. rewrite node_of_nodes. simpl. rewrite node_of_id. apply Permutation_sym, Permutation_cons_append. }
  destruct o as [path v|pp s|pp s|path|path|path v|path|src dst|path|s|i o'|i dst]; simpl; auto.
  - destruct (modify (segments path) (set_value repaired v) root) as [r'|e] eqn:E; simpl; eauto.
  - destruct (node_at root (psegs pp)) as [par|]; simpl; auto.
    destruct (ctor_checks repaired s (Some par)); simpl; auto.
    destruct (modify (psegs pp) (map_add (node_of n s)) root) as [r'|e] eqn:E; simpl; eauto.
  - destruct (node_at root (psegs pp)) as [par|]; simpl; auto.
    destruct (ctor_checks repaired s None); simpl; auto.
    destruct (modify (psegs pp) (map_add (node_of n s)) root) as [r'|e] eqn:E; simpl; eauto.
  - destruct (remove_at (segments path) root) as [[r' x]|e] eqn:E; simpl; auto.
    apply remove_at_ids in E. exists (ids x ++ [n]).
    eapply perm_trans; [apply Permutation_app_tail, E|].
    rewrite <- app_assoc. apply Permutation_app_swap_app.
  - destruct (get root path) as [p|e]; simpl; auto.
  - destruct (modify (segments path) (set_value repaired v) root) as [r'|e] eqn:E; simpl; eauto.
  - destruct (get root path) as [[? ? ? ? ?|? ?]|e]; simpl; auto.
  - destruct (get root src) as [p|e]; simpl; auto.
    destruct (node_at root (psegs dst)) as [par|]; simpl; auto.
    destruct (map_add p par); simpl; auto.
  - destruct (get root path) as [[? ? ? ? ?|? ?]|e]; simpl; auto.
Qed.

Lemma flat_map_mid : forall (f : param -> list nat) l1 T l2,
  flat_map f (l1 ++ T :: l2) = flat_map f l1 ++ f T ++ flat_map f l2.
Proof. intros. rewrite flat_map_app. reflexivity. Qed.

(* exchanging one tree: the leftovers carry over *)
Lemma perm_mid : forall (a a' : list nat) x y l1 l2,
  Permutation (a ++ x) (a' ++ y) -> Permutation ((l1 ++ a ++ l2) ++ x) ((l1 ++ a' ++ l2) ++ y).
Proof.
  intros a a' x y l1 l2 H.
  assert (E : forall b z, Permutation ((l1 ++ b ++ l2) ++ z) ((b ++ z) ++ l1 ++ l2)).
  { intros b z. rewrite <- !app_assoc. eapply perm_trans; [apply Permutation_app_swap_app|].
    apply Permutation_app_head. rewrite (app_assoc l1 l2 z). apply Permutation_app_comm. }
  eapply perm_trans; [apply E|]. eapply perm_trans; [|apply Permutation_sym, E].
  apply Permutation_app_tail, H.
Qed.

Lemma trans_ids : forall n root free root' free' r,
  trans n root free root' free' r ->
  exists l, Permutation (flat_map ids (root :: free) ++ [n]) (flat_map ids (root' :: free') ++ l).
Proof.
  intros n root free root' free' r Ht. inversion Ht; subst.
  - exists [n]. apply Permutation_refl.
  - exists []. rewrite app_nil_r.
    change (root' :: free ++ [node_of n s]) with ((root' :: free) ++ [node_of n s]).
    rewrite flat_map_app. apply Permutation_app_head. simpl. rewrite app_nil_r.
    unfold ids. rewrite node_of_nodes. simpl. rewrite node_of_id. apply Permutation_refl.
  - match goal with
    | Hg : get_target _ _ _ = Some _, Hs : set_target _ _ _ _ = _ |- _ =>
        destruct (set_target_split _ _ _ _ _ _ _ Hg Hs) as (l1 & l2 & E1 & E2)
    end.
    destruct (step_root_ids_perm n T o') as [l Hl]. exists l.
    rewrite E1, E2, !flat_map_mid. apply perm_mid, Hl.
  - (* remove: the identities of T are those of what is left and of what was handed back *)
    match goal with
    | Hg : get_target _ _ _ = Some _, Hr : remove_at _ _ = Val _, Hs : set_target _ _ _ _ = _ |- _ =>
        destruct (set_target_split _ _ _ _ _ _ _ Hg Hs) as (l1 & l2 & E1 & E2); rename Hr into Hrem
    end.
    exists [n]. apply Permutation_app_tail. apply remove_at_ids in Hrem.
    change (root' :: free'0 ++ [x]) with ((root' :: free'0) ++ [x]).
    rewrite flat_map_app, E1, E2, !flat_map_mid. simpl. rewrite app_nil_r.
    (* F l1 ++ ids T ++ F l2  ~  (F l1 ++ ids T' ++ F l2) ++ ids x *)
    eapply perm_trans; [apply Permutation_app_head, Permutation_app_tail, Hrem|].
    rewrite <- !app_assoc.
    apply Permutation_app_head.
    rewrite (app_assoc (ids T') (flat_map ids l2) (ids x)). apply Permutation_app_comm.
  - match goal with
    | Hf : find_free _ _ = Some _, Hg : get_target _ _ _ = Some _, Hs : set_target _ _ _ _ = _,
      Hm : modify _ _ _ = Val _ |- _ =>
        destruct (set_target_split _ _ _ _ _ _ _ Hg Hs) as (l1 & l2 & E1 & E2);
        destruct (find_free_split i t t free Hf) as (_ & f1 & f2 & Ef & _ & Er); rename Hm into Hmod
    end.
    exists [n]. apply Permutation_app_tail.
    eapply (modify_ids (ids t)) in Hmod;
      [|intros x x' Hx; apply map_add_ids_gen in Hx; rewrite ids_restamp in Hx; exact Hx].
    rewrite E2, flat_map_mid.
    transitivity (ids t ++ flat_map ids (root :: remove_free i free)).
    + rewrite Er, Ef. simpl. rewrite !flat_map_app. simpl.
      eapply perm_trans; [apply Permutation_app_head, Permutation_app_swap_app|]. apply Permutation_app_swap_app.
    + rewrite E1, flat_map_mid.
      eapply perm_trans; [apply Permutation_app_swap_app|]. apply Permutation_app_head.
      rewrite app_assoc. apply Permutation_app_tail. apply Permutation_sym, Hmod.
Qed.

Lemma wf_state_ids_below : forall st, wf_state st -> Forall (fun i => (i < st_next st)%nat) (all_ids st).
Proof.
  intros st [H _]. unfold all_ids. apply Forall_forall. intros i Hi. apply in_flat_map in Hi.
  destruct Hi as (t & Ht & Hi). rewrite Forall_forall in H.
  pose proof (wf_ids_below _ _ (H _ Ht)) as Hb. rewrite Forall_forall in Hb. auto.
Qed.

Lemma nodup_app_l : forall (A : Type) (a b : list A), NoDup (a ++ b) -> NoDup a.
Proof.
  induction a as [|x a IH]; simpl; intros b H; [constructor|].
  inversion H; subst. constructor; [|eapply IH; eauto]. intro Hx. apply H2. apply in_or_app. auto.
Qed.

Lemma nodup_snoc : forall (A : Type) (a : list A) x, NoDup a -> ~ In x a -> NoDup (a ++ [x]).
Proof.
  intros A a x H Hx. eapply Permutation_NoDup; [apply Permutation_cons_append|]. constructor; assumption.
Qed.

Theorem ids_unique : forall ops, NoDup (map pid (all_nodes (run repaired init ops))).
Proof.
  assert (E : forall st, map pid (all_nodes st) = all_ids st).
  { intros st. unfold all_nodes, all_ids, ids. rewrite flat_map_concat_map, concat_map, map_map, <- flat_map_concat_map. reflexivity. }
  intros ops. rewrite E.
  assert (G : forall ops st, wf_state st -> NoDup (all_ids st) -> NoDup (all_ids (run repaired st ops))).
  { induction ops0 as [|o r IH]; simpl; intros st Hwf Hnd; [exact Hnd|].
    apply IH; [apply step_wf, Hwf|].
    destruct (step_trans st o) as [_ Ht]. apply trans_ids in Ht. destruct Ht as [l Hl].
    unfold all_ids, trees in *. eapply Permutation_NoDup in Hl.
    - apply nodup_app_l in Hl. exact Hl.
    - apply nodup_snoc; [exact Hnd|].
      intros Hx. pose proof (wf_state_ids_below st Hwf) as Hb. unfold all_ids, trees in Hb.
      rewrite Forall_forall in Hb. specialize (Hb _ Hx). lia. }
  apply G; [apply init_wf|]. unfold all_ids, trees, ids, init. simpl. repeat constructor. simpl. tauto.
Qed.

(* ------------------------------------------------------------------ T12: bottom-up construction *)
Lemma node_at_in_nodes : forall l p x, node_at p l = Some x -> In x (nodes p).
Proof.
  induction l as [|k r IH]; simpl; intros p x H.
  - inversion H; subst. apply nodes_self.
  - destruct p as [|h ch]; [discriminate|]. destruct (find_child k ch) as [c|] eqn:Ec; [|discriminate].
    eapply nodes_child; [eapply find_child_in, Ec | apply IH, H].
Qed.

Lemma node_at_app : forall a b p, node_at p (a ++ b) = match node_at p a with Some y => node_at y b | None => None end.
Proof.
  induction a as [|k r IH]; simpl; intros b p; [reflexivity|].
  destruct p as [|h ch]; [reflexivity|]. destruct (find_child k ch); [apply IH | reflexivity].
Qed.

Lemma node_at_restamp : forall n t l, l <> [] -> node_at (restamp n t) l = node_at t l.
Proof. intros n [h ro c d v|h ch] [|k r] H; try congruence; reflexivity. Qed.

(* A parent-less object (with everything built below it) that add() accepts
   becomes a child of the addressed map: the tree stays well-formed, the object
   is found under its key there, and everything below it is found under the
   path through it - so (T5) the extended keys of all of them, now starting at
   the root, resolve to them. *)
Theorem attach_registers : forall n dst t T T',
  wf n T -> wf n t -> key_ok (pkey t) ->
  attach_seg dst (restamp n t) T = Val T' ->
  wf (S n) T' /\ phdr T' = phdr T /\
  node_at T' (psegs dst ++ [pkey t]) = Some (restamp n t) /\
  forall l x, In (l, x) (paths t) -> l <> [] -> node_at T' (psegs dst ++ pkey t :: l) = Some x.
Proof.
  intros n dst t T T' HT Ht Hk H. unfold attach_seg in H.
  assert (Hw : wf (S n) T' /\ phdr T' = phdr T).
  { eapply modify_wf; [| exact HT | | exact H]; [lia|].
    intros x x' Hx Ha. eapply (map_add_wf_gen n (restamp n t));
      [exact Hx | apply restamp_wf, Ht | rewrite restamp_key; exact Hk | apply restamp_seq | exact Ha]. }
  destruct Hw as [Hw Hh]. split; [exact Hw|]. split; [exact Hh|].
  apply modify_inv in H.
  2:{ intros x x' Hx. destruct x as [|h ch]; simpl in Hx; [discriminate|].
      destruct (has_key _ _); [discriminate|]. inversion Hx; reflexivity. }
  destruct H as (_ & x & x' & Hn & Ha & Hn').
  destruct x as [|h ch]; simpl in Ha; [discriminate|].
  destruct (has_key (pkey (restamp n t)) ch); [discriminate|]. inversion Ha; subst. clear Ha.
  set (ch' := py_sorted (ch ++ [restamp n t])) in *.
  assert (Hx' : wf (S n) (Map h ch')) by (eapply wf_nodes; [exact Hw | eapply node_at_in_nodes, Hn']).
  assert (Hfind : find_child (pkey t) ch' = Some (restamp n t)).
  { rewrite <- (restamp_key n t). apply find_child_nodup; [apply (wf_children_nodup _ _ _ Hx')|].
    eapply Permutation_in; [apply Permutation_sym, (proj1 (py_sorted_is_stable_sort _))|].
    apply in_or_app. right. left. reflexivity. }
  split.
  - rewrite node_at_app, Hn'. simpl. rewrite Hfind. reflexivity.
  - intros l y Hin Hne. rewrite node_at_app, Hn'. simpl. rewrite Hfind.
    rewrite node_at_restamp by exact Hne. eapply node_at_paths; eauto.
Qed.

(* ------------------------------------------------------------------ T13: adding touches nothing else *)
Lemma find_child_perm : forall k l l', NoDup (map pkey l) -> Permutation l l' -> find_child k l' = find_child k l.
Proof.
  intros k l l' Hnd Hp.
  assert (Hnd' : NoDup (map pkey l')) by (eapply Permutation_NoDup; [apply Permutation_map, Hp | exact Hnd]).
  destruct (find_child k l) as [c|] eqn:E.
  - pose proof (find_child_key _ _ _ E) as Hk. pose proof (find_child_in _ _ _ E) as Hin.
    rewrite <- Hk. apply find_child_nodup; [exact Hnd' | eapply Permutation_in; eauto].
  - apply find_child_none. apply find_child_none in E. intro H. apply E.
    eapply Permutation_in; [apply Permutation_sym, Permutation_map, Hp | exact H].
Qed.

Lemma find_child_snoc_other : forall k p ch, String.eqb k (pkey p) = false -> find_child k (ch ++ [p]) = find_child k ch.
Proof.
  induction ch as [|x r IH]; simpl; intros H; [rewrite H; reflexivity|].
  destruct (String.eqb k (pkey x)); [reflexivity | apply IH, H].
Qed.

Lemma is_prefix_app_cons : forall a k k' r', is_prefix (a ++ [k]) (k' :: r') = false ->
  match a with [] => String.eqb k k' = false | x :: a' => String.eqb x k' = false \/ is_prefix (a' ++ [k]) r' = false end.
Proof.
  intros [|x a'] k k' r' H; simpl in *.
  - rewrite andb_true_r in H. exact H.
  - apply andb_false_iff in H. exact H.
Qed.

(* An accepted add / attach of p at the path segs changes the map it is added to
   and nothing else: every path that does not lead through the new child
   resolves to the same node as before (up to the child lists of maps on the
   way).  In particular no parameter of another map disappears. *)
Theorem add_frame : forall n segs p T T',
  wf n T -> modify segs (map_add p) T = Val T' ->
  forall l', is_prefix (segs ++ [pkey p]) l' = false ->
             option_map shallow (node_at T' l') = option_map shallow (node_at T l').
Proof.
  intros n segs p. induction segs as [|k r IH]; intros T T' Hwf H l' Hp.
  - simpl in H. destruct T as [|h ch]; simpl in H; [discriminate|].
    destruct (has_key (pkey p) ch) eqn:Eh; [discriminate|]. inversion H; subst.
    destruct l' as [|k' r']; [reflexivity|].
    apply (is_prefix_app_cons [] (pkey p) k' r') in Hp. simpl.
    destruct (wf_children_nodup _ _ _ Hwf) as [Hnd _].
    assert (Hnd' : NoDup (map pkey (ch ++ [p]))).
    { rewrite map_app. simpl. eapply Permutation_NoDup; [apply Permutation_cons_append|].
      constructor; [apply has_key_false, Eh | exact Hnd]. }
    rewrite (find_child_perm k' (ch ++ [p]) (py_sorted (ch ++ [p])) Hnd'
               (Permutation_sym (proj1 (py_sorted_is_stable_sort _)))).
    rewrite find_child_snoc_other by (apply eqb_false_sym, Hp). reflexivity.
  - simpl in H. destruct T as [|h ch]; [discriminate|].
    destruct (find_child k ch) as [c|] eqn:Ec; [|discriminate].
    destruct (modify r (map_add p) c) as [c'|] eqn:Em; [|discriminate]. inversion H; subst.
    destruct l' as [|k' r']; [reflexivity|].
    apply (is_prefix_app_cons (k :: r) (pkey p) k' r') in Hp. cbv beta iota in Hp. simpl.
    inversion Hwf as [|? ? _ _ Hch _]; subst.
    assert (Hc : wf n c) by (rewrite Forall_forall in Hch; apply Hch; eapply find_child_in; eauto).
    assert (Hk' : pkey c' = k).
    { apply modify_inv in Em; [|intros x x' Hx; destruct x; simpl in Hx; [discriminate|];
                                  destruct (has_key _ _); [discriminate|]; inversion Hx; reflexivity].
      destruct Em as [Hk _]. rewrite Hk. eapply find_child_key, Ec. }
    destruct (String.eqb k k') eqn:Ek.
    + apply String.eqb_eq in Ek. subst k'. destruct Hp as [Hp|Hp]; [discriminate|].
      rewrite (find_child_replace_same k c c' ch Ec Hk'), Ec. eapply IH; eauto.
    + rewrite find_child_replace_other; [reflexivity | exact Hk' | apply eqb_false_sym, Ek].
Qed.
