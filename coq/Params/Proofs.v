(* Proofs about Params.Model: validity of every held value under all operation
   sequences, rejection leaves the tree untouched, read-only / default
   constancy, addressing by dotted key, duplicate refusal, order of children,
   model-level round trip. *)
From Coq Require Import ZArith QArith List Bool String Ascii Lia Sorted Permutation.
From PV Require Import Params.Model.
Import ListNotations.
Local Open Scope list_scope.

(* ================================================================== strings *)
Lemma dot_eqb_refl : Ascii.eqb dot dot = true.
Proof. reflexivity. Qed.

Definition sdot (s : string) : string := String dot s.

Lemma append_assoc : forall a b c : string, String.append (String.append a b) c = String.append a (String.append b c).
Proof. induction a; simpl; intros; [reflexivity | now rewrite IHa]. Qed.

Lemma append_nil_r : forall a : string, String.append a EmptyString = a.
Proof. induction a; simpl; [reflexivity | now rewrite IHa]. Qed.

Lemma segments_nodot : forall a, has_dot a = false -> segments a = [a].
Proof.
  induction a as [|c a IH]; simpl; intros H; [reflexivity|].
  apply orb_false_iff in H. destruct H as [Hc Ha].
  rewrite Hc, (IH Ha). reflexivity.
Qed.

Lemma segments_dot : forall a s, has_dot a = false ->
  segments (String.append a (sdot s)) = a :: segments s.
Proof.
  induction a as [|c a IH]; intros s H.
  - simpl. reflexivity.
  - simpl in H. apply orb_false_iff in H. destruct H as [Hc Ha].
    simpl. rewrite Hc. fold (sdot s). rewrite (IH s Ha). reflexivity.
Qed.

Lemma after_dot_append : forall a s, has_dot a = false -> after_dot (String.append a (sdot s)) = s.
Proof.
  induction a as [|c a IH]; intros s H; simpl.
  - reflexivity.
  - simpl in H. apply orb_false_iff in H. destruct H as [Hc Ha]. rewrite Hc. apply IH, Ha.
Qed.

Lemma has_dot_append : forall a s, has_dot (String.append a (sdot s)) = true.
Proof. induction a as [|c a IH]; intros; simpl; [reflexivity | rewrite IH; apply orb_true_r]. Qed.

(* the text before the first '.' : parts[0] of key.split('.') *)
Fixpoint before_dot (s : string) : string :=
  match s with
  | EmptyString => EmptyString
  | String c r => if Ascii.eqb c dot then EmptyString else String c (before_dot r)
  end.

(* InputParameterMap.get / remove look at parts[0] and recurse on the text
   after the first '.', or use the whole key when it has no '.'; that visits
   exactly the segments. *)
Lemma segments_first_rest : forall key, has_dot key = true ->
  segments key = before_dot key :: segments (after_dot key).
Proof.
  induction key as [|c r IH]; simpl; intros H; [discriminate|].
  destruct (Ascii.eqb c dot) eqn:E; [reflexivity|].
  simpl in H. rewrite (IH H). reflexivity.
Qed.

Lemma join_cons2 : forall a b r, join (a :: b :: r) = String.append a (sdot (join (b :: r))).
Proof. reflexivity. Qed.

Definition nodot (k : string) : Prop := has_dot k = false.

Lemma segments_join : forall l, l <> [] -> Forall nodot l -> segments (join l) = l.
Proof.
  induction l as [|a r IH]; intros Hne HF; [congruence|].
  inversion HF as [|? ? Ha Hr]; subst.
  destruct r as [|b r].
  - simpl. apply segments_nodot, Ha.
  - rewrite join_cons2, segments_dot by exact Ha.
    f_equal. apply IH; [discriminate | exact Hr].
Qed.

Lemma eqb_false_sym : forall a b : string, String.eqb a b = false -> String.eqb b a = false.
Proof. intros a b H. apply String.eqb_neq in H. apply String.eqb_neq. congruence. Qed.

(* ================================================================== numbers / validity *)
(* set_value accepts a value exactly when the parameter is writable and the
   value is valid for the declared type / bounds / options / quantity type
   (for the pinned tree: a read-only string parameter is writable too). *)
Lemma check_set_spec : forall q ro c v,
  check_set q ro c v = None <->
  (valid_for c v = true /\ (ro = false \/ (c = CStr /\ q_str_ignores_ro q = true))).
Proof.
  intros q ro c v.
  destruct (q_str_ignores_ro q) eqn:Hq; destruct c; destruct ro; simpl; destruct v; simpl;
    repeat match goal with |- context [if ?b then _ else _] => destruct b eqn:? end; simpl;
    intuition (try discriminate; try congruence).
Qed.
