From Coq Require Import ZArith QArith List Bool String Ascii Lia.
From PV Require Import Params.Model.
Import ListNotations.
Lemma stub_true : True. Proof. exact I. Qed.
