(* C18 -- the model regenerated from the source IS the proved model.

   Params/Gen_Params.v is written by translator/py2gallina_params.py from the
   text of src/pydsol/core/parameters.py and model.py of the tree under test
   (Python's `ast`, fail-closed): set_value and the value property of every
   class, the constructors, InputParam.__lt__ / extended_key, add / get /
   remove of the map, set_parameter / get_parameter / add_parameter of the
   model class.  This file proves every generated definition equal to the
   hand-written function of Params/Model.v (behaviour [repaired]) for ALL
   arguments, then that running a whole operation history through the
   generated functions is running the model.  It is compiled against the
   generated file on every run of the check; a change of the sources that
   changes the meaning of a method makes an equality false, the file no longer
   compiles and the check reports the broken tie. *)
From Coq Require Import ZArith QArith List Bool String Ascii Lia.
From PV Require Import Params.Model Params.Proofs.
From PV Require Import Params.Gen_Params.
Import ListNotations.
Local Open Scope list_scope.

(* ====================================================================== *)
(* Python primitives of the generated code = primitives of the model       *)
(* ====================================================================== *)
Lemma py_contains_char_dot : forall s, py_contains_char "."%char s = has_dot s.
Proof. induction s as [|a r IH]; simpl; [reflexivity | rewrite IH; reflexivity]. Qed.

Lemma py_split_dot : forall s, py_split "."%char s = segments s.
Proof.
  induction s as [|a r IH]; simpl; [reflexivity|]. unfold dot. rewrite IH. reflexivity.
Qed.

Lemma segments_head : forall key, nth_error (segments key) 0 = Some (before_dot key).
Proof.
  induction key as [|a r IH]; simpl; [reflexivity|]. unfold dot.
  destruct (Ascii.eqb a "."); [reflexivity|].
  destruct (segments r) as [|seg rest]; simpl in *; [discriminate | inversion IH; reflexivity].
Qed.

Lemma py_list_get_parts0 : forall key, py_list_get (py_split "."%char key) 0 = Val (before_dot key).
Proof. intros. unfold py_list_get. rewrite py_split_dot, segments_head. reflexivity. Qed.

Lemma py_find_char_nonneg : forall s, has_dot s = true -> (0 <= py_find_char "."%char s)%Z.
Proof.
  induction s as [|a r IH]; simpl; [discriminate|]. unfold dot.
  destruct (Ascii.eqb a "."); simpl; intros H; [lia|].
  specialize (IH H). destruct (py_find_char "." r); lia.
Qed.

Lemma py_find_char_neg : forall s, has_dot s = false -> py_find_char "."%char s = (-1)%Z.
Proof.
  induction s as [|a r IH]; simpl; [reflexivity|]. unfold dot.
  destruct (Ascii.eqb a "."); simpl; intros H; [discriminate|]. rewrite (IH H). reflexivity.
Qed.

(* s.find('.') >= 0 (or > -1, != -1) is  '.' in s *)
Lemma py_find_ge0 : forall s, (0 <=? py_find_char "."%char s)%Z = has_dot s.
Proof.
  intros s. destruct (has_dot s) eqn:D.
  - apply Z.leb_le, py_find_char_nonneg, D.
  - rewrite (py_find_char_neg s D). reflexivity.
Qed.
Lemma py_find_gtm1 : forall s, ((-1) <? py_find_char "."%char s)%Z = has_dot s.
Proof.
  intros s. destruct (has_dot s) eqn:D.
  - apply Z.ltb_lt. pose proof (py_find_char_nonneg s D). lia.
  - rewrite (py_find_char_neg s D). reflexivity.
Qed.
Lemma py_find_eqm1 : forall s, (py_find_char "."%char s =? (-1))%Z = negb (has_dot s).
Proof.
  intros s. destruct (has_dot s) eqn:D.
  - apply Z.eqb_neq. pose proof (py_find_char_nonneg s D). lia.
  - rewrite (py_find_char_neg s D). reflexivity.
Qed.

Lemma py_drop_succ : forall z a r, (0 <= z)%Z -> py_drop (Z.to_nat (z + 1)) (String a r) = py_drop (Z.to_nat z) r.
Proof. intros z a r H. rewrite Z2Nat.inj_add by lia. rewrite Nat.add_1_r. reflexivity. Qed.

Lemma py_find_char_cons : forall a r,
  py_find_char "."%char (String a r) =
  if Ascii.eqb a "."%char then 0%Z else match py_find_char "."%char r with Zneg _ => (-1)%Z | z => (z + 1)%Z end.
Proof. reflexivity. Qed.

Lemma py_slice_find : forall key, has_dot key = true ->
  py_slice_from (py_find_char "."%char key + 1)%Z key = after_dot key.
Proof.
  unfold py_slice_from. induction key as [|a r IH]; [discriminate|].
  rewrite py_find_char_cons. cbn [has_dot after_dot]. unfold dot.
  destruct (Ascii.eqb a ".") eqn:E; cbn [orb]; intros H; [reflexivity|].
  pose proof (py_find_char_nonneg r H) as N. specialize (IH H).
  assert (M : match py_find_char "." r with Zneg _ => (-1)%Z | z => (z + 1)%Z end = (py_find_char "." r + 1)%Z)
    by (destruct (py_find_char "." r); [reflexivity | reflexivity | lia]).
  rewrite M. rewrite py_drop_succ by lia. exact IH.
Qed.

Lemma py_number_val_x : forall v, py_number v = val_x v.
Proof. reflexivity. Qed.

Lemma py_number_of_num : forall n, py_number (py_of_num n) = Some (num_x n).
Proof. intros [z|f]; reflexivity. Qed.

(* InputParam.__lt__ : the order add() sorts by (by cases on the comparison, whatever the shape of the text) *)
Theorem gen_InputParameter___lt___eq : forall a b, gen_InputParameter___lt__ a b = prio_ltb a b.
Proof.
  intros a b. unfold gen_InputParameter___lt__, prio_ltb, py_q_lt, py_q_le.
  repeat match goal with |- context [Qle_bool ?x ?y] => destruct (Qle_bool x y) end; reflexivity.
Qed.

Lemma py_insert_by_lt : forall x l, py_insert_by gen_InputParameter___lt__ x l = insert_sorted x l.
Proof. induction l as [|y r IH]; simpl; [reflexivity|]. rewrite IH, gen_InputParameter___lt___eq. reflexivity. Qed.

Lemma py_sorted_by_lt : forall l, py_sorted_by gen_InputParameter___lt__ l = py_sorted l.
Proof.
  unfold py_sorted_by, py_sorted. induction l as [|y r IH]; simpl; [reflexivity|].
  rewrite IH. apply py_insert_by_lt.
Qed.

(* ====================================================================== *)
(* set_value, class by class                                                *)
(* ====================================================================== *)
(* what check_set says, as the outcome of a call that changes _value *)
Definition set_res (c : option exn) (v0 v : pyval) : mres pyval unit :=
  match c with None => MOk v tt | Some e => MExn e v0 end.

(* The proofs below do not follow the shape of the generated text: they split on the object's read-only flag
   and on the kind of the value, then on every test that is still undecided (comparisons stay abstract), so a
   rewrite of the method that keeps its meaning -- checks in another order, guard clauses or nested
   conditionals, helpers, hoisted sub-expressions -- is proved equal to the model by the same script. *)
Ltac brk_step :=
  match goal with
  | |- context [match ?x with _ => _ end] =>
    lazymatch x with
    | context [match _ with _ => _ end] => fail
    | _ => destruct x eqn:?
    end
  end.
Ltac brk := repeat (first [reflexivity | brk_step; cbn]).

Opaque x_leb num_x flt_x.
Ltac cmp_cases :=
  unfold py_le, py_lt, py_ge, py_gt, py_cmp, x_ltb, between; rewrite ?py_number_of_num; cbn [py_number val_x];
  repeat match goal with |- context [x_leb ?a ?b] => destruct (x_leb a b) end; try reflexivity.
Ltac set_cases :=
  cbn; unfold py_le, py_lt, py_ge, py_gt, py_cmp, x_ltb, between; rewrite ?py_number_of_num; cbn; brk.

Theorem gen_InputParameter_set_value_eq : forall ro v0 v,
  gen_InputParameter_set_value ro v0 v = if ro then MExn ValueError v0 else MOk v tt.
Proof. intros ro v0 v. unfold gen_InputParameter_set_value. destruct ro; set_cases. Qed.

Theorem gen_InputParameterMap_set_value_eq : forall h ch v,
  gen_InputParameterMap_set_value (Map h ch) v = MExn NotImplementedError (Map h ch).
Proof. intros. unfold gen_InputParameterMap_set_value. set_cases. Qed.

Theorem gen_InputParameterInt_set_value_eq : forall ro mn mx v0 v,
  gen_InputParameterInt_set_value ro mn mx v0 v = set_res (check_set repaired ro (CInt mn mx) v) v0 v.
Proof.
  intros ro mn mx v0 v. unfold gen_InputParameterInt_set_value, check_set, set_res. destruct ro, v; set_cases.
Qed.

Theorem gen_InputParameterFloat_set_value_eq : forall ro mn mx v0 v,
  gen_InputParameterFloat_set_value ro mn mx v0 v = set_res (check_set repaired ro (CFloat mn mx) v) v0 v.
Proof.
  intros ro mn mx v0 v. unfold gen_InputParameterFloat_set_value, check_set, set_res. destruct ro, v; set_cases.
Qed.

Theorem gen_InputParameterStr_set_value_eq : forall ro v0 v,
  gen_InputParameterStr_set_value ro v0 v = set_res (check_set repaired ro CStr v) v0 v.
Proof. intros ro v0 v. unfold gen_InputParameterStr_set_value, check_set, set_res. destruct ro, v; set_cases. Qed.

Theorem gen_InputParameterBool_set_value_eq : forall ro v0 v,
  gen_InputParameterBool_set_value ro v0 v = set_res (check_set repaired ro CBool v) v0 v.
Proof. intros ro v0 v. unfold gen_InputParameterBool_set_value, check_set, set_res. destruct ro, v; set_cases. Qed.

Theorem gen_InputParameterQuantity_set_value_eq : forall ro cls mn mx v0 v,
  gen_InputParameterQuantity_set_value ro cls mn mx v0 v = set_res (check_set repaired ro (CQty cls mn mx) v) v0 v.
Proof.
  intros ro cls mn mx v0 v. unfold gen_InputParameterQuantity_set_value, check_set, set_res. destruct ro, v; set_cases.
Qed.

Theorem gen_InputParameterSelectionList_set_value_eq : forall ro opts v0 v,
  gen_InputParameterSelectionList_set_value ro opts v0 v = set_res (check_set repaired ro (CSel opts) v) v0 v.
Proof.
  intros ro opts v0 v. unfold gen_InputParameterSelectionList_set_value, check_set, set_res. destruct ro, v; set_cases.
Qed.

Transparent x_leb num_x flt_x.

(* outcome of an in-place change, from the model's functional result *)
Definition mres_of {A : Type} (old : A) (r : res A) : mres A unit :=
  match r with Val x => MOk x tt | Raise e => MExn e old end.

(* p.set_value(v) with the method of p's class (an InputParamUnit uses the selection list's) *)
Theorem gen_dispatch_set_value_eq : forall p v,
  gen_dispatch_set_value p v = mres_of p (set_value repaired v p).
Proof.
  intros [h ro c d v0 | h ch] v; [|reflexivity].
  unfold gen_dispatch_set_value, set_value.
  destruct c;
    rewrite ?gen_InputParameterInt_set_value_eq, ?gen_InputParameterFloat_set_value_eq,
            ?gen_InputParameterStr_set_value_eq, ?gen_InputParameterBool_set_value_eq,
            ?gen_InputParameterQuantity_set_value_eq, ?gen_InputParameterSelectionList_set_value_eq;
    unfold set_res;
    try (match goal with |- context [check_set ?q ?r ?c ?v] => destruct (check_set q r c v) eqn:E end; reflexivity).
  (* CUnit: check_set treats it as the selection list it is *)
  change (check_set repaired ro (CSel opts) v) with (check_set repaired ro (CUnit cls opts) v).
  destruct (check_set repaired ro (CUnit cls opts) v); reflexivity.
Qed.

(* the value property *)
Theorem gen_dispatch_value_eq : forall p,
  gen_dispatch_value p = match p with Leaf _ _ _ _ v => RV v | Map _ ch => RDict ch end.
Proof. intros [h ro c d v0 | h ch]; [destruct c|]; reflexivity. Qed.

(* ====================================================================== *)
(* the map: add, get, remove                                                *)
(* ====================================================================== *)
Theorem gen_InputParameterMap_add_eq : forall h ch p,
  gen_InputParameterMap_add (Map h ch) p = mres_of (Map h ch) (map_add p (Map h ch)).
Proof.
  intros h ch p. unfold gen_InputParameterMap_add, map_add, mres_of. cbn [py_children py_set_children].
  destruct (has_key (pkey p) ch) eqn:E; [reflexivity|].
  unfold py_dict_set. rewrite E, py_sorted_by_lt. reflexivity.
Qed.

Lemma replace_child_same : forall k c ch, find_child k ch = Some c -> replace_child k c ch = ch.
Proof.
  induction ch as [|a r IH]; simpl; [discriminate|].
  destruct (String.eqb k (pkey a)); intros H; [inversion H; reflexivity | rewrite IH by exact H; reflexivity].
Qed.

Theorem gen_InputParameterMap_get_eq : forall fuel m key,
  gen_InputParameterMap_get fuel m key = get_lit fuel m key.
Proof.
  induction fuel as [|f IH]; intros m key; [reflexivity|].
  cbn [gen_InputParameterMap_get get_lit]. cbv zeta. rewrite ?py_contains_char_dot, ?py_find_ge0, ?py_find_gtm1, ?py_find_eqm1.
  destruct m as [h ro c d v | h ch]; cbn [py_children].
  - destruct (has_dot key); [rewrite py_list_get_parts0|]; reflexivity.
  - destruct (has_dot key) eqn:D.
    + rewrite py_list_get_parts0. unfold has_key, py_dict_get.
      destruct (find_child (before_dot key) ch) as [c|]; [|reflexivity].
      destruct c as [h' ro' c' d' v' | h' ch']; cbn [py_is_map]; [reflexivity|].
      rewrite py_slice_find by exact D. rewrite IH.
      destruct (get_lit f (Map h' ch') (after_dot key)); reflexivity.
    + unfold has_key, py_dict_get. destruct (find_child key ch); reflexivity.
Qed.

(* a change made through the reference get() returns: the model's "walk down, apply, rebuild" *)
Definition mlift (g : param -> res param) (x : param) : mres param unit := mres_of x (g x).

Theorem gen_InputParameterMap_get__upd_eq : forall g f, (forall x, f x = mlift g x) ->
  forall fuel m key, gen_InputParameterMap_get__upd fuel f m key = mres_of m (modify_lit fuel g m key).
Proof.
  intros g f Hf. induction fuel as [|fu IH]; intros m key; [reflexivity|].
  cbn [gen_InputParameterMap_get__upd modify_lit]. cbv zeta. rewrite ?py_contains_char_dot, ?py_find_ge0, ?py_find_gtm1, ?py_find_eqm1.
  destruct m as [h ro c d v | h ch]; cbn [py_children].
  - destruct (has_dot key); [rewrite py_list_get_parts0|]; reflexivity.
  - destruct (has_dot key) eqn:D.
    + rewrite py_list_get_parts0. unfold has_key, py_dict_get.
      destruct (find_child (before_dot key) ch) as [c|] eqn:F; [|reflexivity].
      destruct c as [h' ro' c' d' v' | h' ch']; cbn [py_is_map]; [reflexivity|].
      rewrite py_slice_find by exact D. rewrite IH.
      destruct (modify_lit fu g (Map h' ch') (after_dot key)); cbn [mres_of py_through_child py_set_children];
        [reflexivity | rewrite (replace_child_same _ _ _ F); reflexivity].
    + unfold has_key, py_dict_get. destruct (find_child key ch) as [c|] eqn:F; [|reflexivity].
      rewrite Hf. unfold mlift. destruct (g c); cbn [mres_of py_through_child py_set_children];
        [reflexivity | rewrite (replace_child_same _ _ _ F); reflexivity].
Qed.

Definition rm_of (m : param) (r : res (param * param)) : mres param param :=
  match r with Val (m', x) => MOk m' x | Raise e => MExn e m end.

Theorem gen_InputParameterMap_remove_eq : forall fuel m key,
  gen_InputParameterMap_remove fuel m key = rm_of m (remove_lit fuel m key).
Proof.
  induction fuel as [|fu IH]; intros m key; [reflexivity|].
  cbn [gen_InputParameterMap_remove remove_lit]. cbv zeta. rewrite ?py_contains_char_dot, ?py_find_ge0, ?py_find_gtm1, ?py_find_eqm1.
  destruct m as [h ro c d v | h ch]; cbn [py_children].
  - destruct (has_dot key); [rewrite py_list_get_parts0|]; reflexivity.
  - destruct (has_dot key) eqn:D.
    + rewrite py_list_get_parts0. unfold has_key, py_dict_get.
      destruct (find_child (before_dot key) ch) as [c|] eqn:F; [|reflexivity].
      destruct c as [h' ro' c' d' v' | h' ch']; cbn [py_is_map]; [reflexivity|].
      rewrite py_slice_find by exact D. rewrite IH.
      destruct (remove_lit fu (Map h' ch') (after_dot key)) as [[c2 x]|e]; cbn [rm_of py_through_child py_set_children];
        [reflexivity | rewrite (replace_child_same _ _ _ F); reflexivity].
    + destruct (find_child key ch); reflexivity.
Qed.

(* ====================================================================== *)
(* extended_key                                                             *)
(* ====================================================================== *)
(* the key of a parameter whose parents are anc (nearest first) *)
Fixpoint ek (anc : list param) (self : param) : string :=
  match anc with
  | [] => pkey self
  | par :: anc' => String.append (String.append (ek anc' par) ".") (pkey self)
  end.

Lemma gen_extended_key_fuel : forall fuel anc self, (List.length anc < fuel)%nat ->
  gen_InputParameter_extended_key fuel anc self = Val (ek anc self).
Proof.
  induction fuel as [|fu IH]; intros anc self H; [inversion H|].
  destruct anc as [|par anc']; [reflexivity|].
  cbn [gen_InputParameter_extended_key ek]. rewrite IH by (cbn [List.length] in H; lia). reflexivity.
Qed.

Theorem gen_InputParameter_extended_key_eq : forall anc self,
  gen_InputParameter_extended_key (S (List.length anc)) anc self = Val (ek anc self).
Proof. intros. apply gen_extended_key_fuel. lia. Qed.

(* the tree walk of the model's dump, carrying the parents instead of the accumulated prefix *)
Fixpoint ext_keys_anc (anc : list param) (p : param) : list (string * param) :=
  (ek anc p, p) :: match p with
                   | Leaf _ _ _ _ _ => []
                   | Map _ ch => flat_map (ext_keys_anc (p :: anc)) ch
                   end.

Definition prefix_of (anc : list param) : string :=
  match anc with [] => EmptyString | par :: anc' => String.append (ek anc' par) "." end.

Lemma flat_map_Forall_ext : forall (A B : Type) (f g : A -> list B) l,
  Forall (fun x => f x = g x) l -> flat_map f l = flat_map g l.
Proof. induction 1 as [|x r H _ IH]; simpl; [reflexivity | rewrite H, IH; reflexivity]. Qed.

Lemma ext_keys_anc_eq : forall p anc, ext_keys_anc anc p = ext_keys (prefix_of anc) p.
Proof.
  induction p as [h ro c d v | h ch IH] using param_ind'; intros anc.
  - destruct anc; reflexivity.
  - cbn [ext_keys_anc ext_keys]. f_equal; [destruct anc; reflexivity|].
    apply flat_map_Forall_ext. eapply Forall_impl; [|exact IH].
    intros c Hc. rewrite Hc. destruct anc; reflexivity.
Qed.

(* every parameter the dump lists is listed under the key extended_key() computes *)
Theorem gen_extended_keys_are_the_dump_keys : forall root,
  ext_keys EmptyString root = ext_keys_anc [] root /\
  forall anc p, gen_InputParameter_extended_key (S (List.length anc)) anc p = Val (ek anc p).
Proof. intros root. split; [symmetry; apply (ext_keys_anc_eq root []) | apply gen_InputParameter_extended_key_eq]. Qed.

(* ====================================================================== *)
(* the model class: set_parameter, get_parameter, add_parameter             *)
(* ====================================================================== *)
Theorem gen_DSOLModel_get_parameter_eq : forall root key,
  gen_DSOLModel_get_parameter root key =
  match py_get root key with
  | Val (Leaf _ _ _ _ v) => Val (RV v)
  | Val (Map _ ch) => Val (RDict ch)
  | Raise e => Raise e
  end.
Proof.
  intros. unfold gen_DSOLModel_get_parameter, py_get, fuel_of, fuel_for. rewrite gen_InputParameterMap_get_eq.
  destruct (get_lit (S (String.length key)) root key) as [p|e]; [|reflexivity].
  rewrite gen_dispatch_value_eq. destruct p; reflexivity.
Qed.

(* a lookup that fails makes the change through the reference fail the same way (so looking the object up
   first -- a reference kept in a local -- and changing it afterwards is the one-step form) *)
Lemma modify_lit_get_raise : forall fuel g m key e,
  get_lit fuel m key = Raise e -> modify_lit fuel g m key = Raise e.
Proof.
  induction fuel as [|fu IH]; intros g m key e H; [exact H|].
  cbn [get_lit modify_lit] in *. destruct m as [h ro c d v | h ch]; [exact H|].
  destruct (has_dot key).
  - destruct (find_child (before_dot key) ch) as [[h' ro' c' d' v' | h' ch']|]; try exact H.
    rewrite (IH g _ _ _ H). reflexivity.
  - destruct (find_child key ch); [discriminate | exact H].
Qed.

Theorem gen_DSOLModel_set_parameter_eq : forall root key v,
  gen_DSOLModel_set_parameter root key v = mres_of root (py_modify (set_value repaired v) root key).
Proof.
  intros. unfold gen_DSOLModel_set_parameter, py_modify, fuel_of, fuel_for.
  rewrite ?gen_InputParameterMap_get_eq.
  rewrite (gen_InputParameterMap_get__upd_eq (set_value repaired v))
    by (intro x; apply gen_dispatch_set_value_eq).
  destruct (get_lit (S (String.length key)) root key) as [p|e] eqn:G;
    [| try rewrite (modify_lit_get_raise _ (set_value repaired v) _ _ _ G); reflexivity].
  destruct (modify_lit (S (String.length key)) (set_value repaired v) root key); reflexivity.
Qed.

Theorem gen_DSOLModel_add_parameter_eq : forall h ch p,
  gen_DSOLModel_add_parameter (Map h ch) p = mres_of (Map h ch) (map_add p (Map h ch)).
Proof.
  intros. unfold gen_DSOLModel_add_parameter. rewrite gen_InputParameterMap_add_eq.
  destruct (map_add p (Map h ch)); reflexivity.
Qed.

(* ====================================================================== *)
(* constructors                                                             *)
(* ====================================================================== *)
(* the parent holds a reference to the object: storing the object when only
   its base attributes are set and completing it afterwards is the same as
   storing the complete object *)
Lemma Forall_insert_sorted : forall (P : param -> Prop) x l, P x -> Forall P l -> Forall P (insert_sorted x l).
Proof.
  induction l as [|y r IH]; simpl; intros Hx Hl; [constructor; [exact Hx | constructor]|].
  inversion Hl; subst. destruct (prio_ltb y x); constructor; auto.
Qed.

Lemma insert_sorted_replace : forall k p' c L,
  String.eqb k (pkey c) = false ->
  Forall (fun y => String.eqb k (pkey y) = true -> pprio y = pprio p') L ->
  replace_child k p' (insert_sorted c L) = insert_sorted c (replace_child k p' L).
Proof.
  intros k p' c L Hc. induction L as [|y r IH]; intros HL.
  - simpl. rewrite Hc. reflexivity.
  - inversion HL as [|? ? Hy Hr]; subst. cbn [insert_sorted replace_child].
    destruct (prio_ltb y c) eqn:Lt; cbn [replace_child].
    + destruct (String.eqb k (pkey y)) eqn:E.
      * cbn [insert_sorted]. unfold prio_ltb in *. rewrite <- (Hy eq_refl). rewrite Lt. reflexivity.
      * cbn [insert_sorted]. rewrite Lt. rewrite IH by exact Hr. reflexivity.
    + rewrite Hc. destruct (String.eqb k (pkey y)) eqn:E.
      * cbn [insert_sorted]. unfold prio_ltb in *. rewrite <- (Hy eq_refl). rewrite Lt. reflexivity.
      * cbn [insert_sorted replace_child]. rewrite Lt. reflexivity.
Qed.

Lemma has_key_false_all : forall k ch, has_key k ch = false -> Forall (fun y => String.eqb k (pkey y) = false) ch.
Proof.
  unfold has_key. induction ch as [|c r IH]; cbn [find_child]; intros H; [constructor|].
  destruct (String.eqb k (pkey c)) eqn:E; [discriminate|]. constructor; [exact E | apply IH, H].
Qed.

Lemma sorted_replace_last : forall p p' ch,
  pkey p' = pkey p -> pprio p' = pprio p -> has_key (pkey p) ch = false ->
  replace_child (pkey p) p' (py_sorted (ch ++ [p])) = py_sorted (ch ++ [p']).
Proof.
  intros p p' ch Hk Hp H. unfold py_sorted. rewrite !fold_right_app. cbn [fold_right insert_sorted].
  pose proof (has_key_false_all _ _ H) as A. clear H.
  induction ch as [|c r IH].
  - cbn. rewrite String.eqb_refl. reflexivity.
  - inversion A as [|? ? Hc Hr]; subst. cbn [fold_right].
    rewrite insert_sorted_replace; [rewrite (IH Hr); reflexivity | exact Hc |].
    clear IH. induction r as [|y r IHr]; cbn [fold_right].
    + constructor; [intros _; symmetry; exact Hp | constructor].
    + inversion Hr as [|? ? Hy Hr']; subst. apply Forall_insert_sorted; [intros E; rewrite Hy in E; discriminate | apply IHr; [constructor; assumption | exact Hr']].
Qed.

Lemma reregister_add : forall p p' h ch,
  pkey p' = pkey p -> pprio p' = pprio p -> has_key (pkey p) ch = false ->
  py_reregister true (Some (Map h (py_sorted (ch ++ [p])))) p' = Some (Map h (py_sorted (ch ++ [p']))).
Proof.
  intros. unfold py_reregister. rewrite H. rewrite sorted_replace_last by assumption. reflexivity.
Qed.

(* the arguments a constructor call of the model passes: a well-typed value, or (a flaw) something else *)
Definition key_arg (s : pspec) : keyarg := if f_key (s_flaws s) then KBad else KStr (s_key s).
Definition name_arg (s : pspec) : namearg :=
  if N.eqb (f_name (s_flaws s)) 1 then NameNotStr else if N.eqb (f_name (s_flaws s)) 2 then NameEmpty else NameOk.
Definition prio_arg (s : pspec) : prioarg := if f_prio (s_flaws s) then PrioBad else PrioNum (s_prio s).
Definition ro_arg (s : pspec) : boolarg := if f_ro (s_flaws s) then BoolBad else BoolOk (s_ro s).
Definition min_arg (s : pspec) (mn : num) : numarg := if f_min (s_flaws s) then NumBad else NumOk mn.
Definition max_arg (s : pspec) (mx : num) : numarg := if f_max (s_flaws s) then NumBad else NumOk mx.
Definition fmt_arg (s : pspec) : fmtarg := if f_fmt (s_flaws s) then FmtBad else FmtOk.
Definition opts_arg (s : pspec) (opts : list string) : optsarg :=
  if N.eqb (f_opts (s_flaws s)) 0 then OptsOk opts else if N.eqb (f_opts (s_flaws s)) 1 then OptsNotList else OptsNonStr.

(* InputParam.__init__ : its checks in the model's order, with the read_only argument as passed *)
Definition base_checks_ra (s : pspec) (ra : boolarg) (parent : option param) : option exn :=
  let fl := s_flaws s in
  if f_key fl then Some TypeError
  else if String.eqb (s_key s) EmptyString then Some ValueError
  else if has_dot (s_key s) then Some ValueError
  else if N.eqb (f_name fl) 1 then Some TypeError
  else if N.eqb (f_name fl) 2 then Some ValueError
  else if f_prio fl then Some TypeError
  else match parent with
       | Some (Leaf _ _ _ _ _) => Some TypeError
       | _ => if boolarg_is_bool ra then None else Some TypeError
       end.

Definition base_obj (s : pspec) (d : pyval) (ro : bool) (reg : bool) : pobj :=
  mkObj reg (s_key s) (s_prio s) ro d d (NF FNaN) (NF FNaN) [] 0%N [].

Definition base_result (kls : pclass) (id : nat) (s : pspec) (d : pyval) (ro : bool) (par : option param)
  : mres (option param) pobj :=
  match par with
  | None => MOk None (base_obj s d ro false)
  | Some m => match map_add (obj_param kls id (base_obj s d ro false)) m with
              | Val m' => MOk (Some m') (base_obj s d ro true)
              | Raise e => MExn e (Some m)
              end
  end.

Lemma string_len0 : forall k, (Z.of_nat (String.length k) =? 0)%Z = String.eqb k EmptyString.
Proof. destruct k; reflexivity. Qed.

Theorem gen_InputParameter___init___eq : forall kls id s d ra par,
  gen_InputParameter___init__ kls id (key_arg s) (name_arg s) d (prio_arg s) par ra =
  match base_checks_ra s ra par with
  | Some e => MExn e par
  | None => base_result kls id s d (boolarg_b ra) par
  end.
Proof.
  (* every test the constructor makes is split on first, so the order and grouping of the checks in the
     source do not matter to the script *)
  intros kls id [key prio ro kind dflt [fk fn fp fr fmi fma ff fo]] d ra par.
  unfold gen_InputParameter___init__, base_checks_ra, key_arg, name_arg, prio_arg, base_result, base_obj.
  cbn [s_flaws s_key s_prio f_key f_name f_prio].
  rewrite ?string_len0, ?py_contains_char_dot.
  destruct fk; cbn [keyarg_is_str keyarg_str]; rewrite ?string_len0, ?py_contains_char_dot;
  destruct (String.eqb key EmptyString), (has_dot key), (N.eqb fn 1), (N.eqb fn 2), fp,
           par as [[hh rr cc dd vv | hh ch]|], ra as [b|];
    cbn [namearg_is_str namearg_len prioarg_is_num prioarg_q py_is_map boolarg_is_bool boolarg_b Z.eqb negb andb orb];
    try reflexivity;
    rewrite ?gen_InputParameterMap_add_eq;
    try (destruct (map_add _ (Map hh ch)); reflexivity).
Qed.

(* what a constructor call does according to the model: all checks (subclass
   validation first, InputParam.__init__ last), then -- with a parent --
   parent.add(new node); an exception leaves the parent as it was *)
Definition model_ctor (id : nat) (s : pspec) (par : option param) : mres (option param) param :=
  match ctor_checks repaired s par with
  | Some e => MExn e par
  | None => match par with
            | None => MOk None (node_of id s)
            | Some m => match map_add (node_of id s) m with
                        | Val m' => MOk (Some m') (node_of id s)
                        | Raise e => MExn e par
                        end
            end
  end.

Definition lift_ctor (k : pclass) (id : nat) (r : mres (option param) pobj) : mres (option param) param :=
  match r with MOk par o => MOk par (obj_param k id o) | MExn e par => MExn e par end.

Lemma base_checks_ra_eq : forall s par, s_kind s <> SMap -> base_checks_ra s (ro_arg s) par = base_checks s par.
Proof.
  intros s par H. unfold base_checks_ra, base_checks, ro_arg.
  destruct (s_kind s) eqn:K; try congruence; destruct (f_ro (s_flaws s)); reflexivity.
Qed.

Lemma base_checks_ra_map : forall s par, s_kind s = SMap -> base_checks_ra s (BoolOk true) par = base_checks s par.
Proof. intros s par H. unfold base_checks_ra, base_checks. rewrite H. reflexivity. Qed.

(* after the base constructor: complete the object, show it in the parent *)
Ltac ctor_tail :=
  unfold base_result, base_obj;
  match goal with |- context [match ?par with None => _ | Some _ => _ end] => destruct par as [[hh rr cc dd vv | hh ch]|] end;
  cbn -[py_reregister py_sorted]; try reflexivity;
  match goal with |- context [has_key ?k ?ch] => destruct (has_key k ch) eqn:? end; cbn -[py_reregister py_sorted]; try reflexivity;
  repeat (rewrite reregister_add by (reflexivity || assumption)); reflexivity.

Lemma base_checks_ro : forall s par, base_checks s par = None -> s_kind s <> SMap -> ro_arg s = BoolOk (s_ro s).
Proof.
  intros s par H K. unfold ro_arg. unfold base_checks in H.
  destruct (f_ro (s_flaws s)); [|reflexivity]. exfalso.
  repeat match type of H with (if ?c then _ else _) = None => destruct c; try discriminate end.
  destruct par as [[| ]|]; try discriminate; destruct (s_kind s); try discriminate; congruence.
Qed.

Opaque x_leb num_x flt_x.
Ltac num_checks :=
  unfold py_ge, py_le, py_cmp, between; rewrite ?py_number_of_num; cbn [py_number val_x andb];
  repeat match goal with |- context [x_leb ?a ?b] => destruct (x_leb a b); cbn [andb]; try reflexivity end.

Theorem gen_InputParameterInt___init___eq : forall id s par mn mx, s_kind s = SInt mn mx ->
  lift_ctor K_InputParameterInt id
    (gen_InputParameterInt___init__ K_InputParameterInt id (key_arg s) (name_arg s) (s_default s) (prio_arg s) par
       (ro_arg s) (min_arg s mn) (max_arg s mx) (fmt_arg s)) = model_ctor id s par.
Proof.
  intros id s par mn mx K.
  unfold gen_InputParameterInt___init__, model_ctor, ctor_checks, unit_checks, default_checks, node_of, first_exn.
  rewrite gen_InputParameter___init___eq, base_checks_ra_eq by congruence.
  rewrite K. cbn [repaired q_register_first constr_of].
  unfold min_arg, max_arg, fmt_arg.
  destruct (s_default s) eqn:D; cbn [py_isinstance existsb py_isinstance1 is_int negb orb lift_ctor]; try reflexivity;
    destruct (f_min (s_flaws s)), (f_max (s_flaws s)), (f_fmt (s_flaws s));
    cbn [numarg_is_num numarg_num fmtarg_is_str orb lift_ctor]; try reflexivity; num_checks;
    (destruct (base_checks s par) eqn:B; [reflexivity|]);
    rewrite (base_checks_ro _ _ B) by congruence; cbn [boolarg_b]; ctor_tail.
Qed.

Theorem gen_InputParameterFloat___init___eq : forall id s par mn mx, s_kind s = SFloat mn mx ->
  lift_ctor K_InputParameterFloat id
    (gen_InputParameterFloat___init__ K_InputParameterFloat id (key_arg s) (name_arg s) (s_default s) (prio_arg s) par
       (ro_arg s) (min_arg s mn) (max_arg s mx) (fmt_arg s)) = model_ctor id s par.
Proof.
  intros id s par mn mx K.
  unfold gen_InputParameterFloat___init__, model_ctor, ctor_checks, unit_checks, default_checks, node_of, first_exn.
  rewrite gen_InputParameter___init___eq, base_checks_ra_eq by congruence.
  rewrite K. cbn [repaired q_register_first constr_of].
  unfold min_arg, max_arg, fmt_arg.
  destruct (s_default s) eqn:D; cbn [py_isinstance existsb py_isinstance1 is_int is_float negb orb lift_ctor]; try reflexivity;
    try (destruct (N.eqb tag 2); cbn [negb lift_ctor]; [|reflexivity]);
    destruct (f_min (s_flaws s)), (f_max (s_flaws s)), (f_fmt (s_flaws s));
    cbn [numarg_is_num numarg_num fmtarg_is_str orb lift_ctor]; try reflexivity; num_checks;
    (destruct (base_checks s par) eqn:B; [reflexivity|]);
    rewrite (base_checks_ro _ _ B) by congruence; cbn [boolarg_b]; ctor_tail.
Qed.

Theorem gen_InputParameterStr___init___eq : forall id s par, s_kind s = SStr ->
  lift_ctor K_InputParameterStr id
    (gen_InputParameterStr___init__ K_InputParameterStr id (key_arg s) (name_arg s) (s_default s) (prio_arg s) par (ro_arg s))
  = model_ctor id s par.
Proof.
  intros id s par K.
  unfold gen_InputParameterStr___init__, model_ctor, ctor_checks, unit_checks, default_checks, node_of, first_exn.
  rewrite gen_InputParameter___init___eq, base_checks_ra_eq by congruence.
  rewrite K. cbn [repaired q_register_first constr_of].
  destruct (s_default s) eqn:D; cbn [py_isinstance existsb py_isinstance1 is_str orb lift_ctor]; try reflexivity;
    (destruct (base_checks s par) eqn:B; [reflexivity|]);
    rewrite (base_checks_ro _ _ B) by congruence; cbn [boolarg_b]; ctor_tail.
Qed.

Theorem gen_InputParameterBool___init___eq : forall id s par, s_kind s = SBool ->
  lift_ctor K_InputParameterBool id
    (gen_InputParameterBool___init__ K_InputParameterBool id (key_arg s) (name_arg s) (s_default s) (prio_arg s) par (ro_arg s))
  = model_ctor id s par.
Proof.
  intros id s par K.
  unfold gen_InputParameterBool___init__, model_ctor, ctor_checks, unit_checks, default_checks, node_of, first_exn.
  rewrite gen_InputParameter___init___eq, base_checks_ra_eq by congruence.
  rewrite K. cbn [repaired q_register_first constr_of].
  destruct (s_default s) eqn:D; cbn [py_isinstance existsb py_isinstance1 is_bool orb lift_ctor]; try reflexivity;
    (destruct (base_checks s par) eqn:B; [reflexivity|]);
    rewrite (base_checks_ro _ _ B) by congruence; cbn [boolarg_b]; ctor_tail.
Qed.

Theorem gen_InputParameterQuantity___init___eq : forall id s par mn mx, s_kind s = SQty mn mx ->
  lift_ctor K_InputParameterQuantity id
    (gen_InputParameterQuantity___init__ K_InputParameterQuantity id (key_arg s) (name_arg s) (s_default s) (prio_arg s) par
       (ro_arg s) (min_arg s mn) (max_arg s mx) (fmt_arg s)) = model_ctor id s par.
Proof.
  intros id s par mn mx K.
  unfold gen_InputParameterQuantity___init__, model_ctor, ctor_checks, unit_checks, default_checks, node_of, first_exn.
  rewrite gen_InputParameter___init___eq, base_checks_ra_eq by congruence.
  rewrite K. cbn [repaired q_register_first constr_of].
  unfold min_arg, max_arg, fmt_arg.
  destruct (s_default s) eqn:D; cbn [py_isinstance existsb py_isinstance1 negb orb lift_ctor]; try reflexivity;
    destruct (f_min (s_flaws s)), (f_max (s_flaws s)), (f_fmt (s_flaws s));
    cbn [numarg_is_num numarg_num fmtarg_is_str orb lift_ctor py_si]; try reflexivity; num_checks;
    (destruct (base_checks s par) eqn:B; [reflexivity|]);
    rewrite (base_checks_ro _ _ B) by congruence; cbn [boolarg_b]; ctor_tail.
Qed.

Theorem gen_InputParameterSelectionList___init___eq : forall id s par opts, s_kind s = SSel opts ->
  lift_ctor K_InputParameterSelectionList id
    (gen_InputParameterSelectionList___init__ K_InputParameterSelectionList id (key_arg s) (name_arg s) (opts_arg s opts)
       (s_default s) (prio_arg s) par (ro_arg s)) = model_ctor id s par.
Proof.
  intros id s par opts K.
  unfold gen_InputParameterSelectionList___init__, model_ctor, ctor_checks, unit_checks, default_checks, node_of, first_exn.
  rewrite gen_InputParameter___init___eq, base_checks_ra_eq by congruence.
  rewrite K. cbn [repaired q_register_first constr_of].
  unfold opts_arg.
  destruct (N.eqb (f_opts (s_flaws s)) 0); cbn [negb];
    [| destruct (N.eqb (f_opts (s_flaws s)) 1); reflexivity].
  cbn [optsarg_is_list optsarg_all_str optsarg_list].
  destruct (s_default s) eqn:D; cbn [py_isinstance existsb py_isinstance1 orb lift_ctor py_in_strs]; try reflexivity.
  destruct (mem_str s0 opts); cbn [lift_ctor]; [|reflexivity].
  destruct (base_checks s par) eqn:B; [reflexivity|].
  rewrite (base_checks_ro _ _ B) by congruence; cbn [boolarg_b]; ctor_tail.
Qed.

Theorem gen_InputParameterUnit___init___eq : forall id s par cls units, s_kind s = SUnit cls units ->
  lift_ctor K_InputParameterUnit id
    (gen_InputParameterUnit___init__ K_InputParameterUnit id (key_arg s) (name_arg s) (QCls cls units)
       (s_default s) (prio_arg s) par (ro_arg s)) = model_ctor id s par.
Proof.
  intros id s par cls units K.
  unfold gen_InputParameterUnit___init__, gen_InputParameterSelectionList___init__,
         model_ctor, ctor_checks, unit_checks, default_checks, node_of, first_exn, unhashable.
  rewrite gen_InputParameter___init___eq, base_checks_ra_eq by congruence.
  rewrite K. cbn [repaired q_register_first constr_of qclsarg_units qclsarg_cls optsarg_is_list optsarg_all_str optsarg_list].
  destruct (s_default s) eqn:D; cbn [py_in_keys py_isinstance existsb py_isinstance1 orb lift_ctor py_in_strs]; try reflexivity.
  - destruct (mem_str s0 units); cbn [lift_ctor]; [|reflexivity].
    destruct (base_checks s par) eqn:B; [reflexivity|].
    rewrite (base_checks_ro _ _ B) by congruence; cbn [boolarg_b]; ctor_tail.
  - destruct (N.eqb tag 0 || N.eqb tag 2 || N.eqb tag 3); reflexivity.
Qed.

Theorem gen_InputParameterMap___init___eq : forall id s par, s_kind s = SMap ->
  lift_ctor K_InputParameterMap id
    (gen_InputParameterMap___init__ K_InputParameterMap id (key_arg s) (name_arg s) (prio_arg s) par) = model_ctor id s par.
Proof.
  intros id s par K.
  unfold gen_InputParameterMap___init__, model_ctor, ctor_checks, unit_checks, default_checks, node_of, first_exn.
  rewrite gen_InputParameter___init___eq, base_checks_ra_map by exact K.
  rewrite K. cbn [repaired q_register_first].
  destruct (base_checks s par) eqn:B; [reflexivity|]. cbn [boolarg_b]. ctor_tail.
Qed.
Transparent x_leb num_x flt_x.

(* Cls(key, name, ..., parent = par) for the class and the arguments the specification names *)
Definition gen_construct (id : nat) (s : pspec) (par : option param) : mres (option param) param :=
  let k := key_arg s in let n := name_arg s in let d := s_default s in let p := prio_arg s in let r := ro_arg s in
  match s_kind s with
  | SMap => lift_ctor K_InputParameterMap id (gen_InputParameterMap___init__ K_InputParameterMap id k n p par)
  | SInt mn mx => lift_ctor K_InputParameterInt id
      (gen_InputParameterInt___init__ K_InputParameterInt id k n d p par r (min_arg s mn) (max_arg s mx) (fmt_arg s))
  | SFloat mn mx => lift_ctor K_InputParameterFloat id
      (gen_InputParameterFloat___init__ K_InputParameterFloat id k n d p par r (min_arg s mn) (max_arg s mx) (fmt_arg s))
  | SStr => lift_ctor K_InputParameterStr id (gen_InputParameterStr___init__ K_InputParameterStr id k n d p par r)
  | SBool => lift_ctor K_InputParameterBool id (gen_InputParameterBool___init__ K_InputParameterBool id k n d p par r)
  | SQty mn mx => lift_ctor K_InputParameterQuantity id
      (gen_InputParameterQuantity___init__ K_InputParameterQuantity id k n d p par r (min_arg s mn) (max_arg s mx) (fmt_arg s))
  | SSel opts => lift_ctor K_InputParameterSelectionList id
      (gen_InputParameterSelectionList___init__ K_InputParameterSelectionList id k n (opts_arg s opts) d p par r)
  | SUnit cls units => lift_ctor K_InputParameterUnit id
      (gen_InputParameterUnit___init__ K_InputParameterUnit id k n (QCls cls units) d p par r)
  end.

Theorem gen_construct_eq : forall id s par, gen_construct id s par = model_ctor id s par.
Proof.
  intros id s par. unfold gen_construct. cbv zeta. destruct (s_kind s) eqn:K.
  - apply gen_InputParameterMap___init___eq, K.
  - apply gen_InputParameterInt___init___eq, K.
  - apply gen_InputParameterFloat___init___eq, K.
  - apply gen_InputParameterStr___init___eq, K.
  - apply gen_InputParameterBool___init___eq, K.
  - apply gen_InputParameterQuantity___init___eq, K.
  - apply gen_InputParameterSelectionList___init___eq, K.
  - apply gen_InputParameterUnit___init___eq, K.
Qed.

(* the keyword defaults written in the source are what the check passes when it leaves an argument out *)
Theorem gen_ctor_defaults_eq :
  gen_InputParameterInt_default_min_value = NumOk (NF FNInf) /\ gen_InputParameterInt_default_max_value = NumOk (NF FPInf) /\
  gen_InputParameterFloat_default_min_value = NumOk (NF FNInf) /\ gen_InputParameterFloat_default_max_value = NumOk (NF FPInf) /\
  gen_InputParameterQuantity_default_min_si = NumOk (NF FNInf) /\ gen_InputParameterQuantity_default_max_si = NumOk (NF FPInf) /\
  gen_InputParameter_default_parent = None /\ gen_InputParameter_default_read_only = BoolOk false.
Proof. repeat split. Qed.

(* ====================================================================== *)
(* Histories: one operation of the check, with the generated functions      *)
(* ====================================================================== *)
(* root.get(pp) resp. root itself; a change made through that reference *)
Definition gen_parent (root : param) (pp : option string) : res param :=
  match pp with None => Val root | Some k => gen_InputParameterMap_get (fuel_of k) root k end.

Definition gen_update_at {A : Type} (pp : option string) (f : param -> mres param A) (root : param) : mres param A :=
  match pp with None => f root | Some k => gen_InputParameterMap_get__upd (fuel_of k) f root k end.

(* par.add(p) : only a map has the method *)
Definition gen_call_add (p par : param) : mres param unit :=
  match par with
  | Map _ _ => gen_InputParameterMap_add par p
  | Leaf _ _ _ _ _ => MExn AttributeError par
  end.

(* model.add_parameter(p) *)
Definition gen_call_model_add (p root : param) : mres param unit :=
  match root with
  | Map _ _ => gen_DSOLModel_add_parameter root p
  | Leaf _ _ _ _ _ => MExn AttributeError root
  end.

(* Cls(..., parent = par): what it does to par *)
Definition ctor_in_parent (id : nat) (s : pspec) (par : param) : mres param unit :=
  match gen_construct id s (Some par) with
  | MOk (Some par') _ => MOk par' tt
  | MOk None _ => MOk par tt
  | MExn e (Some par') => MExn e par'
  | MExn e None => MExn e par
  end.

Definition out_of {A : Type} (r : mres param A) (ok : A -> out) : param * out :=
  match r with MOk root' a => (root', ok a) | MExn e root' => (root', ORaise e) end.

Definition gen_step_root (id : nat) (root : param) (o : op) : param * out :=
  match o with
  | OSet path v =>
      out_of (gen_InputParameterMap_get__upd (fuel_of path) (fun p => gen_dispatch_set_value p v) root path) (fun _ => ONone)
  | OModelSet path v => out_of (gen_DSOLModel_set_parameter root path v) (fun _ => ONone)
  | OGet path =>
      match gen_InputParameterMap_get (fuel_of path) root path with
      | Val p => (root, OParam (pid p))
      | Raise e => (root, ORaise e)
      end
  | OModelGet path =>
      match gen_DSOLModel_get_parameter root path with
      | Val (RV v) => (root, OValue v)
      | Val (RDict ch) => (root, OMapKeys (map pkey ch))
      | Raise e => (root, ORaise e)
      end
  | OReAdd src dst =>
      (* p = root.get(src); par = root | root.get(dst); par.add(p) through the generated add *)
      match gen_InputParameterMap_get (fuel_of src) root src with
      | Raise e => (root, ORaise e)
      | Val p =>
          match gen_parent root dst with
          | Raise e => (root, ORaise e)
          | Val par =>
              match (match dst with None => gen_call_model_add p par | Some _ => gen_call_add p par end) with
              | MExn e _ => (root, ORaise e)
              | MOk _ _ => (root, OOutside)
              end
          end
      end
  | OInspect path =>
      match gen_InputParameterMap_get (fuel_of path) root path with
      | Val (Leaf h ro c _ _) => (root, ODecl ro (h_prio h) (Some c))
      | Val (Map h _) => (root, ODecl true (h_prio h) None)
      | Raise e => (root, ORaise e)
      end
  | ORemove path => out_of (gen_InputParameterMap_remove (fuel_of path) root path) (fun x => OParam (pid x))
  | OAddMeth pp s =>
      match gen_parent root pp with
      | Raise e => (root, ORaise e)
      | Val _ =>
          match gen_construct id s None with
          | MExn e _ => (root, ORaise e)
          | MOk _ p =>
              out_of (match pp with
                      | None => gen_call_model_add p root
                      | Some _ => gen_update_at pp (gen_call_add p) root
                      end) (fun _ => ONone)
          end
      end
  | OAddCtor pp s =>
      match gen_parent root pp with
      | Raise e => (root, ORaise e)
      | Val _ => out_of (gen_update_at pp (ctor_in_parent id s) root) (fun _ => ONone)
      end
  | ONew _ | OFree _ _ | OAttach _ _ => (root, OOutside)      (* operations on the forest: see gen_step *)
  end.

Lemma gen_parent_eq : forall root pp, gen_parent root pp = py_parent root pp.
Proof. intros root [k|]; [apply gen_InputParameterMap_get_eq | reflexivity]. Qed.

Lemma gen_update_at_eq : forall g f, (forall x, f x = mlift g x) ->
  forall pp root, gen_update_at pp f root = mres_of root (py_modify_at pp g root).
Proof.
  intros g f Hf [k|] root; cbn [gen_update_at py_modify_at].
  - apply (gen_InputParameterMap_get__upd_eq g f Hf).
  - apply Hf.
Qed.

Lemma gen_call_add_eq : forall p par, gen_call_add p par = mlift (map_add p) par.
Proof. intros p [h ro c d v | h ch]; [reflexivity | apply gen_InputParameterMap_add_eq]. Qed.

Lemma gen_call_model_add_eq : forall p root, gen_call_model_add p root = mlift (map_add p) root.
Proof. intros p [h ro c d v | h ch]; [reflexivity | apply gen_DSOLModel_add_parameter_eq]. Qed.

(* the checks and the registration of a constructor call, as one change of the parent *)
Definition ctor_on (id : nat) (s : pspec) (par : param) : res param :=
  match ctor_checks repaired s (Some par) with Some e => Raise e | None => map_add (node_of id s) par end.

Lemma ctor_in_parent_eq : forall id s par, ctor_in_parent id s par = mlift (ctor_on id s) par.
Proof.
  intros id s par. unfold ctor_in_parent, ctor_on, mlift. rewrite gen_construct_eq. unfold model_ctor.
  destruct (ctor_checks repaired s (Some par)); [reflexivity|].
  destruct (map_add (node_of id s) par); reflexivity.
Qed.

Lemma modify_ext_at : forall segs f f' p x,
  node_at p segs = Some x -> f x = f' x -> modify segs f p = modify segs f' p.
Proof.
  induction segs as [|k r IH]; simpl; intros f f' p x Hn Hf.
  - inversion Hn; subst. exact Hf.
  - destruct p as [|h ch]; [discriminate|].
    destruct (find_child k ch) as [c|]; [|discriminate].
    rewrite (IH f f' c x Hn Hf). reflexivity.
Qed.

Lemma ctor_on_modify : forall id s segs root par, node_at root segs = Some par ->
  modify segs (ctor_on id s) root =
  match ctor_checks repaired s (Some par) with
  | Some e => Raise e
  | None => modify segs (map_add (node_of id s)) root
  end.
Proof.
  intros id s segs root par Hn.
  destruct (ctor_checks repaired s (Some par)) as [e|] eqn:C.
  - apply (modify_raise_at segs _ root par e Hn). unfold ctor_on. rewrite C. reflexivity.
  - apply (modify_ext_at segs _ _ root par Hn). unfold ctor_on. rewrite C. reflexivity.
Qed.

Theorem gen_step_root_eq : forall id root o, gen_step_root id root o = step_root_lit repaired id root o.
Proof.
  intros id root o. destruct o as [path v | pp s | pp s | path | path | path v | path | src dst | path | s | i o' | i dst];
    unfold gen_step_root, step_root_lit; cbn [repaired q_model_set_attr q_register_first].
  - (* OSet *)
    rewrite (gen_InputParameterMap_get__upd_eq (set_value repaired v)) by (intro x; apply gen_dispatch_set_value_eq).
    unfold py_modify, fuel_of, fuel_for. destruct (modify_lit _ _ root path); reflexivity.
  - (* OAddCtor *)
    rewrite gen_parent_eq.
    rewrite (gen_update_at_eq (ctor_on id s)) by (intro x; apply ctor_in_parent_eq).
    rewrite py_parent_eq, !py_modify_at_eq.
    destruct (node_at root (psegs pp)) as [par|] eqn:Hn; [|reflexivity].
    rewrite (ctor_on_modify id s _ root par Hn).
    destruct (ctor_checks repaired s (Some par)); [reflexivity|].
    destruct (modify (psegs pp) (map_add (node_of id s)) root); reflexivity.
  - (* OAddMeth *)
    rewrite gen_parent_eq. destruct (py_parent root pp) as [par|e]; [|reflexivity].
    rewrite gen_construct_eq. unfold model_ctor.
    destruct (ctor_checks repaired s None); [reflexivity|].
    destruct pp as [k|].
    + rewrite (gen_update_at_eq (map_add (node_of id s))) by (intro x; apply gen_call_add_eq).
      destruct (py_modify_at (Some k) (map_add (node_of id s)) root); reflexivity.
    + rewrite gen_call_model_add_eq. unfold mlift. cbn [py_modify_at].
      destruct (map_add (node_of id s) root); reflexivity.
  - (* ORemove *)
    rewrite gen_InputParameterMap_remove_eq. unfold py_remove, fuel_of, fuel_for.
    destruct (remove_lit _ root path) as [[m x]|e]; reflexivity.
  - (* OGet *)
    rewrite gen_InputParameterMap_get_eq. reflexivity.
  - (* OModelSet *)
    rewrite gen_DSOLModel_set_parameter_eq. destruct (py_modify _ root path); reflexivity.
  - (* OModelGet *)
    rewrite gen_DSOLModel_get_parameter_eq. destruct (py_get root path) as [[h ro c d v | h ch]|e]; reflexivity.
  - (* OReAdd *)
    rewrite gen_InputParameterMap_get_eq. change (get_lit (fuel_of src) root src) with (py_get root src).
    destruct (py_get root src) as [p|e]; [|reflexivity].
    rewrite gen_parent_eq. destruct (py_parent root dst) as [par|e]; [|reflexivity].
    destruct dst as [k|]; [rewrite gen_call_add_eq | rewrite gen_call_model_add_eq];
      unfold mlift, mres_of; destruct (map_add p par); reflexivity.
  - (* OInspect *)
    rewrite gen_InputParameterMap_get_eq. reflexivity.
  - reflexivity.
  - reflexivity.
  - reflexivity.
Qed.

(* Cls(...) without parent, through the generated constructor *)
Definition gen_ctor_free (id : nat) (s : pspec) : res param :=
  match gen_construct id s None with MOk _ p => Val p | MExn e _ => Raise e end.

(* par = T | T.get(dst); par.add(t), through the generated get and add *)
Definition gen_attach (dst : option string) (t T : param) : res param :=
  match gen_update_at dst (gen_call_add t) T with MOk T' _ => Val T' | MExn e _ => Raise e end.

(* T.remove(key) through the generated remove: the tree that is left and the object handed back *)
Definition gen_remove (T : param) (key : string) : res (param * param) :=
  match gen_InputParameterMap_remove (fuel_of key) T key with
  | MOk T' x => Val (T', x)
  | MExn e _ => Raise e
  end.

Definition gen_step : state -> op -> state * out := step_with gen_step_root gen_remove gen_ctor_free gen_attach.

Fixpoint gen_run (st : state) (ops : list op) : state :=
  match ops with [] => st | o :: r => gen_run (fst (gen_step st o)) r end.

Lemma gen_ctor_free_eq : forall id s, gen_ctor_free id s = ctor_free repaired id s.
Proof.
  intros. unfold gen_ctor_free, ctor_free. rewrite gen_construct_eq. unfold model_ctor.
  destruct (ctor_checks repaired s None); reflexivity.
Qed.

Lemma gen_attach_eq : forall dst t T, gen_attach dst t T = attach_lit dst t T.
Proof.
  intros. unfold gen_attach, attach_lit.
  rewrite (gen_update_at_eq (map_add t)) by (intro x; apply gen_call_add_eq).
  unfold mres_of. destruct (py_modify_at dst (map_add t) T); reflexivity.
Qed.

Lemma gen_remove_eq : forall T key, gen_remove T key = py_remove T key.
Proof.
  intros. unfold gen_remove. rewrite gen_InputParameterMap_remove_eq. unfold py_remove, fuel_of, fuel_for.
  destruct (remove_lit _ T key) as [[m x]|e]; reflexivity.
Qed.

Theorem gen_step_eq : forall st o, gen_step st o = step repaired st o.
Proof.
  intros. unfold gen_step, step. apply step_with_ext;
    [intros; apply gen_step_root_eq | intros; apply gen_remove_eq | intros; apply gen_ctor_free_eq | intros; apply gen_attach_eq].
Qed.

Theorem gen_run_eq : forall ops st, gen_run st ops = run repaired st ops.
Proof.
  induction ops as [|o r IH]; intros st; [reflexivity|].
  cbn [gen_run run]. rewrite gen_step_eq. apply IH.
Qed.

(* the root map a model object creates: InputParamMap("root", <name>, 1) through the generated constructor *)
Theorem gen_root_map_eq :
  lift_ctor K_InputParameterMap 0
    (gen_InputParameterMap___init__ K_InputParameterMap 0 (KStr root_key) NameOk (PrioNum 1) None) = MOk None (st_root init).
Proof. reflexivity. Qed.

(* ====================================================================== *)
(* Summary quoted by Props/C18.v                                            *)
(* ====================================================================== *)
Theorem params_generated_agree :
  (forall p v, gen_dispatch_set_value p v = mres_of p (set_value repaired v p)) /\
  (forall h ch p, gen_InputParameterMap_add (Map h ch) p = mres_of (Map h ch) (map_add p (Map h ch))) /\
  (forall m key, gen_InputParameterMap_get (fuel_of key) m key = py_get m key) /\
  (forall m key, gen_InputParameterMap_remove (fuel_of key) m key = rm_of m (py_remove m key)) /\
  (forall g m key, gen_InputParameterMap_get__upd (fuel_of key) (mlift g) m key = mres_of m (py_modify g m key)) /\
  (forall id s par, gen_construct id s par = model_ctor id s par) /\
  (forall root key v, gen_DSOLModel_set_parameter root key v = mres_of root (py_modify (set_value repaired v) root key)) /\
  (forall root key, gen_DSOLModel_get_parameter root key =
     match py_get root key with
     | Val (Leaf _ _ _ _ v) => Val (RV v) | Val (Map _ ch) => Val (RDict ch) | Raise e => Raise e
     end) /\
  (forall root, ext_keys EmptyString root = ext_keys_anc [] root) /\
  (forall anc p, gen_InputParameter_extended_key (S (List.length anc)) anc p = Val (ek anc p)) /\
  (forall st o, gen_step st o = step repaired st o) /\
  (forall ops st, gen_run st ops = run repaired st ops).
Proof.
  split; [exact gen_dispatch_set_value_eq|].
  split; [exact gen_InputParameterMap_add_eq|].
  split; [intros; apply gen_InputParameterMap_get_eq|].
  split; [intros; apply gen_InputParameterMap_remove_eq|].
  split; [intros; apply gen_InputParameterMap_get__upd_eq; reflexivity|].
  split; [exact gen_construct_eq|].
  split; [exact gen_DSOLModel_set_parameter_eq|].
  split; [exact gen_DSOLModel_get_parameter_eq|].
  split; [intros; symmetry; apply (ext_keys_anc_eq root [])|].
  split; [exact gen_InputParameter_extended_key_eq|].
  split; [exact gen_step_eq | exact gen_run_eq].
Qed.

(* ====================================================================== *)
(* The main theorems, restated over the generated definitions               *)
(* ====================================================================== *)
Theorem gen_value_always_valid : forall ops p, In p (all_nodes (gen_run init ops)) -> leaf_ok p.
Proof. intros ops p. rewrite gen_run_eq. apply value_always_valid. Qed.

Theorem gen_rejected_unchanged : forall st o e,
  snd (gen_step st o) = ORaise e ->
  st_root (fst (gen_step st o)) = st_root st /\ st_free (fst (gen_step st o)) = st_free st.
Proof. intros st o e. rewrite gen_step_eq. apply rejected_unchanged. Qed.

Theorem gen_read_only_value_is_default : forall ops h c d v,
  In (Leaf h true c d v) (all_nodes (gen_run init ops)) -> v = d.
Proof. intros ops h c d v. rewrite gen_run_eq. apply read_only_value_is_default. Qed.

(* the generated set_value of the object's class accepts exactly the valid values of a writable parameter,
   and a refusal leaves the object as it was *)
Theorem gen_set_value_decides : forall h ro c d v0 v,
  (ro = false /\ valid_for c v = true ->
     gen_dispatch_set_value (Leaf h ro c d v0) v = MOk (Leaf h ro c d v) tt) /\
  (~ (ro = false /\ valid_for c v = true) ->
     exists e, gen_dispatch_set_value (Leaf h ro c d v0) v = MExn e (Leaf h ro c d v0)).
Proof.
  intros h ro c d v0 v. rewrite gen_dispatch_set_value_eq.
  destruct (set_value_decides h ro c d v0 v) as [A B]. split; intros H.
  - rewrite (A H). reflexivity.
  - destruct (B H) as [e E]. exists e. rewrite E. reflexivity.
Qed.

(* a generated constructor that raises leaves the parent map exactly as it was *)
Theorem gen_failed_construction_not_registered : forall id s par e par',
  gen_construct id s par = MExn e par' -> par' = par.
Proof.
  intros id s par e par'. rewrite gen_construct_eq. unfold model_ctor.
  destruct (ctor_checks repaired s par); [intros H; inversion H; reflexivity|].
  destruct par as [m|]; [|discriminate].
  destruct (map_add (node_of id s) m); [discriminate | intros H; inversion H; reflexivity].
Qed.

(* every descendant is found by the generated get under its extended key *)
Theorem gen_get_by_extended_key : forall n root ek x,
  wf n root -> has_dot (pkey root) = false ->
  In (ek, x) (ext_keys EmptyString root) -> ek <> pkey root ->
  gen_InputParameterMap_get (fuel_of (rel_key ek)) root (rel_key ek) = Val x.
Proof.
  intros n root k x W D I N. rewrite gen_InputParameterMap_get_eq.
  change (py_get root (rel_key k) = Val x). rewrite py_get_eq. exact (get_by_extended_key n root k x W D I N).
Qed.

(* model-level round trip through the generated set_parameter / get_parameter *)
Theorem gen_model_set_get_roundtrip : forall root path v root',
  gen_DSOLModel_set_parameter root path v = MOk root' tt ->
  gen_DSOLModel_get_parameter root' path = Val (RV v).
Proof.
  intros root path v root' H. rewrite gen_DSOLModel_set_parameter_eq in H.
  destruct (py_modify (set_value repaired v) root path) as [r|e] eqn:M; [|discriminate]. inversion H; subst r.
  assert (S1 : step_root repaired 0 root (OModelSet path v) = (root', ONone)).
  { rewrite <- step_root_lit_eq. cbn [step_root_lit repaired q_model_set_attr]. rewrite M. reflexivity. }
  pose proof (model_set_get_roundtrip 0 0 root path v root' S1) as S2.
  rewrite <- step_root_lit_eq in S2. cbn [step_root_lit] in S2.
  rewrite gen_DSOLModel_get_parameter_eq.
  destruct (py_get root' path) as [[h ro c d v1 | h ch]|e]; inversion S2; reflexivity.
Qed.
