(* StreamInformation: every information object created with the documented
   default holds a stream object of its own (a new MersenneTwister(10)); with the
   theorems of StreamProofs.v: their sequences are equal and independent. *)
From Coq Require Import ZArith List Bool Lia.
From PV Require Import Streams.Stream Streams.StreamProofs Streams.Info.
Import ListNotations.
Open Scope Z_scope.

Lemma nth_error_app_len {A} (l : list A) x r : nth_error (l ++ x :: r) (length l) = Some x.
Proof. induction l as [|y t IH]; [reflexivity|exact IH]. Qed.

Lemma nth_error_app_keep {A} (l r : list A) i x : nth_error l i = Some x -> nth_error (l ++ r) i = Some x.
Proof. intros H. rewrite nth_error_app1; [exact H|]. apply nth_error_Some. rewrite H. discriminate. Qed.

(* the constructor with the documented default: a NEW object at the end of the store, a fresh stream with seed 10,
   registered under "default"; every object that existed keeps its place and its state *)
Theorem info_init_default st :
  exists d, info_init st SNone = (st ++ [fresh default_seed], IVal d) /\
            info_stream d (KStr default_name) = IVal (length st) /\
            nth_error (st ++ [fresh default_seed]) (length st) = Some (fresh default_seed) /\
            (forall i m, nth_error st i = Some m -> nth_error (st ++ [fresh default_seed]) i = Some m).
Proof.
  eexists. split; [reflexivity|]. split; [reflexivity|]. split.
  - apply nth_error_app_len.
  - intros i m H. apply nth_error_app_keep. exact H.
Qed.

(* two information objects created with the default hold DIFFERENT objects, both fresh streams with seed 10 *)
Theorem two_default_infos_hold_distinct_fresh_streams st :
  let '(st1, r1) := info_init st SNone in
  let '(st2, r2) := info_init st1 SNone in
  exists d1 d2 i j, r1 = IVal d1 /\ r2 = IVal d2 /\
    info_stream d1 (KStr default_name) = IVal i /\ info_stream d2 (KStr default_name) = IVal j /\
    i <> j /\ nth_error st2 i = Some (fresh default_seed) /\ nth_error st2 j = Some (fresh default_seed) /\
    (forall k m, nth_error st k = Some m -> nth_error st2 k = Some m).
Proof.
  cbn [info_init]. do 4 eexists. repeat split; try reflexivity.
  - rewrite app_length. cbn. lia.
  - apply nth_error_app_keep. apply nth_error_app_len.
  - rewrite <- app_assoc. cbn [app].
    replace (length (st ++ [fresh default_seed])) with (S (length st)) by (rewrite app_length; cbn; lia).
    change (st ++ [fresh default_seed; fresh default_seed]) with (st ++ fresh default_seed :: [fresh default_seed]).
    replace (S (length st)) with (length (st ++ [fresh default_seed])) by (rewrite app_length; cbn; lia).
    replace (st ++ fresh default_seed :: [fresh default_seed]) with ((st ++ [fresh default_seed]) ++ [fresh default_seed])
      by (rewrite <- app_assoc; reflexivity).
    apply nth_error_app_len.
  - intros k m H. apply nth_error_app_keep, nth_error_app_keep. exact H.
Qed.

(* ... hence, for every generator and every interleaved history over the store: the default streams of the
   two information objects answer alike when asked alike (each replays seed 10), and what one of them is
   asked does not change what the other answers *)
Theorem default_streams_of_two_infos_are_twins raw nint st ops :
  let st2 := fst (info_init (fst (info_init st SNone)) SNone) in
  let i := length st in
  let j := S (length st) in
  proj i ops = proj j ops -> local_only (proj i ops) = true ->
  sel i ops (snd (srun raw nint st2 ops)) = sel j ops (snd (srun raw nint st2 ops)).
Proof.
  cbn [info_init fst]. intros Hp Hl.
  apply (twin_streams_equal raw nint ops _ (length st) (S (length st)) (fresh default_seed)); [| |exact Hp|exact Hl].
  - apply nth_error_app_keep, nth_error_app_len.
  - replace (S (length st)) with (length (st ++ [fresh default_seed])) by (rewrite app_length; cbn; lia).
    apply nth_error_app_len.
Qed.

Theorem default_streams_of_two_infos_are_independent raw nint st ops :
  let st2 := fst (info_init (fst (info_init st SNone)) SNone) in
  forall i, (i = length st \/ i = S (length st)) -> local_only (proj i ops) = true ->
  sel i ops (snd (srun raw nint st2 ops)) = snd (run raw nint (fresh default_seed) (proj i ops)).
Proof.
  cbn [info_init fst]. intros i Hi Hl.
  apply (streams_independent raw nint ops _ i (fresh default_seed)); [|exact Hl].
  destruct Hi as [->| ->].
  - apply nth_error_app_keep, nth_error_app_len.
  - replace (S (length st)) with (length (st ++ [fresh default_seed])) by (rewrite app_length; cbn; lia).
    apply nth_error_app_len.
Qed.

(* registering and looking up *)
Lemma name_eqb_refl n : name_eqb n n = true.
Proof. induction n as [|x t IH]; [reflexivity|]. cbn. rewrite Z.eqb_refl. exact IH. Qed.

Theorem info_get_set_same d n i : info_get (info_set d n i) n = Some i.
Proof.
  induction d as [|[k v] r IH]; cbn.
  - rewrite name_eqb_refl. reflexivity.
  - destruct (name_eqb k n) eqn:E; cbn; rewrite E; [reflexivity|exact IH].
Qed.

Theorem add_then_get d n i : info_stream (fst (info_add d (KStr n) (SObj i))) (KStr n) = IVal i.
Proof. cbn. rewrite info_get_set_same. reflexivity. Qed.
