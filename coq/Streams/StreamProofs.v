(* Theorems about the stream wrapper over an abstract generator: for every
   generator function [raw], every integer-draw function [nint], every store and
   every interleaved history. *)
From Coq Require Import ZArith List Bool Lia Arith QArith Qround.
From PV Require Import Streams.Stream.
Import ListNotations.
Open Scope Z_scope.

(* ---------- classification of operations ---------- *)
Definition is_draw (op : sop) : bool :=
  match op with NextFloat | NextInt _ _ | NextBool => true | _ => false end.

Definition draws_only (ops : list sop) : bool := forallb is_draw ops.

(* requests that need no other stream of the store *)
Definition is_local (op : sop) : bool :=
  match op with RestoreFrom _ _ => false | _ => true end.

Definition local_only (ops : list sop) : bool := forallb is_local ops.

Fixpoint nsaves (ops : list sop) : nat :=
  match ops with
  | [] => O
  | Save :: r => S (nsaves r)
  | _ :: r => nsaves r
  end.

(* An operation list that can be replayed on a stream with a different past:
   it does not ask for the original seed and every Restore refers to a state
   saved inside the list ([d] = number of such states at this point). *)
Fixpoint replayable (d : nat) (ops : list sop) : bool :=
  match ops with
  | [] => true
  | Save :: r => replayable (S d) r
  | Restore k :: r => Nat.ltb k d && replayable d r
  | QOrig :: r => false
  | RestoreFrom _ _ :: r => false
  | _ :: r => replayable d r
  end.

Lemma nth_error_firstn_lt {A} (l : list A) : forall d k, (k < d)%nat ->
  nth_error (firstn d l) k = nth_error l k.
Proof.
  induction l as [|x r IH]; intros d k Hk.
  - rewrite firstn_nil. reflexivity.
  - destruct d as [|d]; [lia|]. destruct k as [|k]; cbn; [reflexivity|].
    apply IH. lia.
Qed.

Lemma nth_error_upd_same st : forall i (m m' : stream),
  nth_error st i = Some m -> nth_error (upd st i m') i = Some m'.
Proof.
  induction st as [|x r IH]; intros [|i] m m' H; cbn in *; try discriminate.
  - reflexivity.
  - eapply IH; exact H.
Qed.

Lemma nth_error_upd_other st : forall i j (m' : stream),
  i <> j -> nth_error (upd st j m') i = nth_error st i.
Proof.
  induction st as [|x r IH]; intros i j m' H; [destruct j; reflexivity|].
  destruct j as [|j], i as [|i]; cbn; try reflexivity; try congruence.
  apply IH. congruence.
Qed.

Lemma upd_length st : forall i (m : stream), length (upd st i m) = length st.
Proof. induction st as [|x r IH]; intros [|i] m; cbn; auto. Qed.

Definition advance (m : stream) : stream :=
  mkS (mkG (gseed (gen m)) (S (gpos (gen m)))) (cur m) (orig m) (saved m).

Section Proofs.
  Variable raw : Z -> nat -> Z.
  Variable nint : Z -> Z -> Z -> out.

  Notation step := (step raw nint).
  Notation run := (run raw nint).
  Notation sstep := (sstep raw nint).
  Notation srun := (srun raw nint).

  Definition draw_out (op : sop) (k : Z) : out :=
    match op with
    | NextFloat => OFloat k
    | NextInt lo hi => nint lo hi k
    | NextBool => OBool (k <? two52)
    | _ => ONone
    end.

  (* ---------- one raw draw per call ---------- *)
  Lemma step_draw m op : is_draw op = true ->
    step m op = (advance m, draw_out op (raw (gseed (gen m)) (gpos (gen m)))).
  Proof. destruct op; cbn; intros H; try discriminate; reflexivity. Qed.

  Lemma step_nodraw_gen m op : is_draw op = false ->
    gen (fst (step m op)) = gen m \/ gpos (gen (fst (step m op))) = O
    \/ In (gen (fst (step m op))) (saved m).
  Proof.
    destruct op; cbn; intros H; try discriminate; auto.
    destruct (nth_error (saved m) k) eqn:E; cbn; auto.
    right; right. eapply nth_error_In; exact E.
  Qed.

  Fixpoint draw_outs (s : Z) (p : nat) (ds : list sop) : list out :=
    match ds with
    | [] => []
    | op :: r => draw_out op (raw s p) :: draw_outs s (S p) r
    end.

  (* n consecutive draws read raw s p, raw s (p+1), ... and nothing else *)
  Lemma draws_read_consecutive ds : forall m, draws_only ds = true ->
    run m ds = (mkS (mkG (gseed (gen m)) (gpos (gen m) + length ds)) (cur m) (orig m) (saved m),
                draw_outs (gseed (gen m)) (gpos (gen m)) ds).
  Proof.
    induction ds as [|op r IH]; intros m H.
    - cbn. rewrite Nat.add_0_r. destruct m as [[s p] c o sv]; reflexivity.
    - cbn in H. apply andb_true_iff in H as [Hop Hr].
      cbn [Stream.run]. rewrite (step_draw m op Hop). rewrite (IH (advance m) Hr).
      cbn. repeat f_equal. lia.
  Qed.

  (* ---------- histories ---------- *)
  Lemma run_app a : forall m b,
    run m (a ++ b) =
    (fst (run (fst (run m a)) b), snd (run m a) ++ snd (run (fst (run m a)) b)).
  Proof.
    induction a as [|op r IH]; intros m b; cbn [Stream.run app].
    - cbn. destruct (run m b); reflexivity.
    - destruct (step m op) as [m1 o]. rewrite IH.
      destruct (run m1 r) as [m2 os]. cbn. reflexivity.
  Qed.

  Lemma step_saved m op :
    saved (fst (step m op)) = (if match op with Save => true | _ => false end
                               then gen m :: saved m else saved m).
  Proof.
    destruct op; cbn; try reflexivity.
    destruct (nth_error (saved m) k); reflexivity.
  Qed.

  Lemma run_saved ops : forall m,
    exists new, saved (fst (run m ops)) = new ++ saved m /\ length new = nsaves ops.
  Proof.
    induction ops as [|op r IH]; intros m; cbn [Stream.run].
    - exists []. split; reflexivity.
    - pose proof (step_saved m op) as Hs.
      destruct (step m op) as [m1 o] eqn:E. cbn [fst] in Hs.
      destruct (IH m1) as [new [Hn Hl]].
      destruct (run m1 r) as [m2 os]. cbn [fst] in *.
      destruct op; cbn [nsaves];
        try (exists new; rewrite Hn, Hs; split; [reflexivity|exact Hl]).
      exists (new ++ [gen m]). rewrite Hn, Hs, <- app_assoc. split; [reflexivity|].
      rewrite app_length. cbn. lia.
  Qed.

  (* two streams whose generator and current seed agree, and whose [d] most
     recent saved states agree, answer every replayable history alike *)
  Definition sim (d : nat) (a b : stream) : Prop :=
    gen a = gen b /\ cur a = cur b /\ firstn d (saved a) = firstn d (saved b) /\
    (d <= length (saved a))%nat /\ (d <= length (saved b))%nat.

  Lemma sim_step d a b op r : sim d a b -> replayable d (op :: r) = true ->
    snd (step a op) = snd (step b op) /\
    exists d', sim d' (fst (step a op)) (fst (step b op)) /\ replayable d' r = true.
  Proof.
    intros [Hg [Hc [Hf [Hla Hlb]]]] Hr.
    destruct a as [ga ca oa sa], b as [gb cb ob sb]. cbn in Hg, Hc, Hf, Hla, Hlb. subst gb cb.
    destruct op; cbn [replayable] in Hr; try discriminate;
      cbn [Stream.step draw reseed gen cur orig saved gseed gpos fst snd].
    all: try (split; [reflexivity|]; exists d; split; [|exact Hr]; repeat split; cbn; auto).
    - (* Save *)
      split; [reflexivity|]. exists (S d). split; [|exact Hr].
      repeat split; cbn; auto; [congruence|lia|lia].
    - (* Restore *)
      apply andb_true_iff in Hr as [Hk Hr]. apply Nat.ltb_lt in Hk.
      assert (Hn : nth_error sa k = nth_error sb k).
      { rewrite <- (nth_error_firstn_lt sa d k Hk), <- (nth_error_firstn_lt sb d k Hk), Hf.
        reflexivity. }
      rewrite <- Hn.
      destruct (nth_error sa k) as [g|] eqn:E.
      + split; [reflexivity|]. exists d. split; [|exact Hr]. repeat split; cbn; auto.
      + exfalso. apply nth_error_None in E. lia.
  Qed.

  Lemma sim_run ops : forall d a b, sim d a b -> replayable d ops = true ->
    snd (run a ops) = snd (run b ops).
  Proof.
    induction ops as [|op r IH]; intros d a b Hs Hr; [reflexivity|].
    destruct (sim_step d a b op r Hs Hr) as [Ho [d' [Hs' Hr']]].
    specialize (IH d' _ _ Hs' Hr').
    cbn [Stream.run].
    destruct (step a op) as [a1 oa], (step b op) as [b1 ob]. cbn [fst snd] in *.
    destruct (run a1 r), (run b1 r). cbn [snd] in *. congruence.
  Qed.

  (* draws alone only need the generators to agree *)
  Lemma draws_same_gen ds : forall a b, draws_only ds = true -> gen a = gen b ->
    snd (run a ds) = snd (run b ds).
  Proof.
    intros a b H Hg. rewrite (draws_read_consecutive ds a H), (draws_read_consecutive ds b H).
    cbn. rewrite Hg. reflexivity.
  Qed.

  (* ---------- reset ---------- *)
  Theorem reset_replays_current_seed m ops : replayable 0 ops = true ->
    snd (run (fst (step m Reset)) ops) = snd (run (fresh (cur m)) ops).
  Proof.
    intros H. eapply sim_run; [|exact H].
    repeat split; cbn; auto; lia.
  Qed.

  Theorem set_seed_replays_seed m s ops : replayable 0 ops = true ->
    snd (run (fst (step m (SetSeed s))) ops) = snd (run (fresh s) ops).
  Proof.
    intros H. eapply sim_run; [|exact H].
    repeat split; cbn; auto; lia.
  Qed.

  (* ---------- save / restore ---------- *)
  Lemma restore_after_history m ops1 :
    let m1 := fst (step m Save) in
    let m2 := fst (run m1 ops1) in
    step m2 (Restore (nsaves ops1)) = (mkS (gen m) (cur m2) (orig m2) (saved m2), ONone).
  Proof.
    intros m1 m2. cbn [Stream.step].
    destruct (run_saved ops1 m1) as [new [Hn Hl]]. fold m2 in Hn.
    assert (Hnth : nth_error (saved m2) (nsaves ops1) = Some (gen m)).
    { rewrite Hn, <- Hl. rewrite nth_error_app2 by lia. rewrite Nat.sub_diag. reflexivity. }
    rewrite Hnth. reflexivity.
  Qed.

  Theorem restore_continues m ops1 ds : draws_only ds = true ->
    let m1 := fst (step m Save) in
    let m2 := fst (run m1 ops1) in
    snd (run (fst (step m2 (Restore (nsaves ops1)))) ds) = snd (run m1 ds).
  Proof.
    intros H m1 m2. unfold m2, m1. rewrite restore_after_history. cbn [fst].
    apply draws_same_gen; [exact H|reflexivity].
  Qed.

  (* with the current seed untouched in between, everything replayable continues alike *)
  Theorem restore_continues_general m ops1 ops2 :
    let m1 := fst (step m Save) in
    let m2 := fst (run m1 ops1) in
    cur m2 = cur m -> replayable 0 ops2 = true ->
    snd (run (fst (step m2 (Restore (nsaves ops1)))) ops2) = snd (run m1 ops2).
  Proof.
    intros m1 m2 Hc H. unfold m2, m1. rewrite restore_after_history. cbn [fst].
    eapply sim_run; [|exact H].
    repeat split; cbn; auto; lia.
  Qed.

  (* ---------- several streams ---------- *)
  Lemma sstep_frame st iop i : i <> fst iop ->
    nth_error (fst (sstep st iop)) i = nth_error st i.
  Proof.
    intros H. unfold Stream.sstep.
    assert (Hloc : nth_error (fst match nth_error st (fst iop) with
                   | Some m => let '(m', o) := step m (snd iop) in (upd st (fst iop) m', o)
                   | None => (st, ORaise ENoStream) end) i = nth_error st i).
    { destruct (nth_error st (fst iop)) as [m|]; [|reflexivity].
      destruct (step m (snd iop)) as [m' o]. cbn. apply nth_error_upd_other. exact H. }
    destruct (snd iop); try exact Hloc.
    destruct (nth_error st (fst iop)) as [m|]; [|reflexivity].
    destruct (nth_error st j) as [mj|]; [|reflexivity].
    destruct (nth_error (saved mj) k); [|reflexivity].
    cbn. apply nth_error_upd_other. exact H.
  Qed.

  Lemma sstep_length st iop : length (fst (sstep st iop)) = length st.
  Proof.
    unfold Stream.sstep.
    assert (Hloc : length (fst match nth_error st (fst iop) with
                   | Some m => let '(m', o) := step m (snd iop) in (upd st (fst iop) m', o)
                   | None => (st, ORaise ENoStream) end) = length st).
    { destruct (nth_error st (fst iop)) as [m|]; [|reflexivity].
      destruct (step m (snd iop)) as [m' o]. cbn. apply upd_length. }
    destruct (snd iop); try exact Hloc.
    destruct (nth_error st (fst iop)) as [m|]; [|reflexivity].
    destruct (nth_error st j) as [mj|]; [|reflexivity].
    destruct (nth_error (saved mj) k); [|reflexivity].
    cbn. apply upd_length.
  Qed.

  Lemma srun_cons st iop r :
    srun st (iop :: r) = (fst (srun (fst (sstep st iop)) r),
                          snd (sstep st iop) :: snd (srun (fst (sstep st iop)) r)).
  Proof.
    cbn [Stream.srun]. destruct (sstep st iop) as [st1 o]. cbn [fst snd].
    destruct (srun st1 r); reflexivity.
  Qed.

  Lemma run_cons m op r :
    run m (op :: r) = (fst (run (fst (step m op)) r),
                       snd (step m op) :: snd (run (fst (step m op)) r)).
  Proof.
    cbn [Stream.run]. destruct (step m op) as [m1 o]. cbn [fst snd].
    destruct (run m1 r); reflexivity.
  Qed.

  Lemma sstep_at st i op m : is_local op = true -> nth_error st i = Some m ->
    sstep st (i, op) = (upd st i (fst (step m op)), snd (step m op)).
  Proof.
    intros Hl H. unfold Stream.sstep. cbn [fst snd].
    destruct op; try discriminate; rewrite H; cbn [fst snd];
      try reflexivity; destruct (step m _); reflexivity.
  Qed.

  (* a state saved by stream j, restored into stream i *)
  Lemma sstep_cross st i j k m mj g :
    nth_error st i = Some m -> nth_error st j = Some mj -> nth_error (saved mj) k = Some g ->
    sstep st (i, RestoreFrom j k) = (upd st i (mkS g (cur m) (orig m) (saved m)), ONone).
  Proof. intros Hi Hj Hk. unfold Stream.sstep. cbn [fst snd]. rewrite Hi, Hj, Hk. reflexivity. Qed.

  (* What stream i returns, and the state it ends in, is what it would return
     and end in if its own operations were applied to it alone - whatever the
     other streams are asked to do, including restoring states saved by stream
     i.  (Stream i itself is not asked to take over a state of another stream:
     [local_only].) *)
  Theorem streams_independent ops : forall st i m, nth_error st i = Some m ->
    local_only (proj i ops) = true ->
    sel i ops (snd (srun st ops)) = snd (run m (proj i ops)) /\
    nth_error (fst (srun st ops)) i = Some (fst (run m (proj i ops))).
  Proof.
    induction ops as [|[j op] r IH]; intros st i m Hm Hloc; [cbn; auto|].
    rewrite srun_cons. cbn [proj sel fst snd]. cbn [proj] in Hloc.
    destruct (Nat.eqb j i) eqn:E.
    - apply Nat.eqb_eq in E. subst j.
      cbn [local_only forallb] in Hloc. apply andb_true_iff in Hloc as [Hop Hloc].
      rewrite (sstep_at st i op m Hop Hm). cbn [fst snd]. rewrite run_cons. cbn [fst snd].
      destruct (IH (upd st i (fst (step m op))) i (fst (step m op))
                   (nth_error_upd_same st i m _ Hm) Hloc) as [-> ->]. auto.
    - apply Nat.eqb_neq in E.
      pose proof (sstep_frame st (j, op) i (fun H => E (eq_sym H))) as Hf.
      rewrite Hm in Hf. exact (IH _ i m Hf Hloc).
  Qed.

  (* frame: a history that never addresses stream i leaves it as it was *)
  Corollary untouched_stream_unchanged ops st i m :
    nth_error st i = Some m -> proj i ops = [] ->
    nth_error (fst (srun st ops)) i = Some m.
  Proof.
    intros Hm Hp. destruct (streams_independent ops st i m Hm) as [_ H].
    { rewrite Hp. reflexivity. }
    rewrite Hp in H. exact H.
  Qed.

  (* two histories that treat stream i alike give it the same answers, whatever
     they do to the other streams *)
  Corollary other_streams_do_not_matter ops1 ops2 st1 st2 i m :
    nth_error st1 i = Some m -> nth_error st2 i = Some m -> proj i ops1 = proj i ops2 ->
    local_only (proj i ops1) = true ->
    sel i ops1 (snd (srun st1 ops1)) = sel i ops2 (snd (srun st2 ops2)).
  Proof.
    intros H1 H2 Hp Hl.
    destruct (streams_independent ops1 st1 i m H1 Hl) as [-> _].
    rewrite Hp in Hl.
    destruct (streams_independent ops2 st2 i m H2 Hl) as [-> _].
    rewrite Hp. reflexivity.
  Qed.

  (* twins: equal state (e.g. created with the same seed), equal requests,
     arbitrarily interleaved with each other and with other streams *)
  Theorem twin_streams_equal ops st i j m :
    nth_error st i = Some m -> nth_error st j = Some m -> proj i ops = proj j ops ->
    local_only (proj i ops) = true ->
    sel i ops (snd (srun st ops)) = sel j ops (snd (srun st ops)).
  Proof.
    intros Hi Hj Hp Hl.
    destruct (streams_independent ops st i m Hi Hl) as [-> _].
    rewrite Hp in Hl.
    destruct (streams_independent ops st j m Hj Hl) as [-> _].
    rewrite Hp. reflexivity.
  Qed.

  Corollary twin_fresh_streams_equal ops seeds i j s :
    nth_error seeds i = Some s -> nth_error seeds j = Some s -> proj i ops = proj j ops ->
    local_only (proj i ops) = true ->
    sel i ops (snd (srun (map fresh seeds) ops)) = sel j ops (snd (srun (map fresh seeds) ops)).
  Proof.
    intros Hi Hj. apply twin_streams_equal with (m := fresh s);
      apply map_nth_error; assumption.
  Qed.

  (* restoring into stream i a state saved by stream j: the draws that follow are
     the draws that followed the save on stream j (they read the generator from
     the saved seed and position on) *)
  Theorem cross_restore_continues st i j k mi mj g ds :
    nth_error st i = Some mi -> nth_error st j = Some mj -> nth_error (saved mj) k = Some g ->
    draws_only ds = true ->
    exists mi', nth_error (fst (sstep st (i, RestoreFrom j k))) i = Some mi' /\
      snd (sstep st (i, RestoreFrom j k)) = ONone /\
      cur mi' = cur mi /\ orig mi' = orig mi /\
      snd (run mi' ds) = draw_outs (gseed g) (gpos g) ds.
  Proof.
    intros Hi Hj Hk Hd. rewrite (sstep_cross st i j k mi mj g Hi Hj Hk). cbn [fst snd].
    eexists. split; [eapply nth_error_upd_same; exact Hi|].
    repeat split. rewrite (draws_read_consecutive ds _ Hd). reflexivity.
  Qed.

  (* ---------- ranges ---------- *)
  Definition unit_num (k : Z) : Prop := 0 <= k < two53.

  (* contract of the generator: random() returns k / 2^53 with 0 <= k < 2^53 *)
  Hypothesis raw_unit : forall s n, unit_num (raw s n).

  Definition valid_ops (n : nat) (ops : list (nat * sop)) : Prop :=
    Forall (fun iop => (fst iop < n)%nat) ops.

  (* every next_float call answers with a float k / 2^53, 0 <= k < 2^53 *)
  Fixpoint floats_in_unit (ops : list (nat * sop)) (outs : list out) : Prop :=
    match ops, outs with
    | (_, NextFloat) :: r, o :: os =>
        (exists k, o = OFloat k /\ unit_num k) /\ floats_in_unit r os
    | _ :: r, _ :: os => floats_in_unit r os
    | [], [] => True
    | _, _ => False
    end.

  Theorem float_in_unit ops : forall st, valid_ops (length st) ops ->
    floats_in_unit ops (snd (srun st ops)).
  Proof.
    induction ops as [|[i op] r IH]; intros st Hv; [exact I|].
    rewrite srun_cons. cbn [snd]. inversion Hv as [|x y Hi Hr]; subst. cbn [fst] in Hi.
    specialize (IH (fst (sstep st (i, op)))). rewrite sstep_length in IH. specialize (IH Hr).
    destruct (nth_error st i) as [m|] eqn:E; [|apply nth_error_None in E; lia].
    destruct (is_local op) eqn:Hloc.
    2: { destruct op; try discriminate. cbn [floats_in_unit]. exact IH. }
    rewrite (sstep_at st i op m Hloc E) in *. cbn [fst snd] in *.
    destruct op; cbn [floats_in_unit]; try exact IH.
    split; [|exact IH]. cbn. eexists; split; [reflexivity|apply raw_unit].
  Qed.

  (* contract of the integer-draw function *)
  Hypothesis nint_range : forall lo hi k r,
    lo <= hi -> unit_num k -> nint lo hi k = OInt r -> lo <= r <= hi.

  Theorem int_draws_in_range ops : forall st,
    ints_in_range ops (snd (srun st ops)) = true.
  Proof.
    induction ops as [|[i op] r IH]; intros st; [reflexivity|].
    rewrite srun_cons. cbn [snd].
    specialize (IH (fst (sstep st (i, op)))).
    set (os := snd (srun (fst (sstep st (i, op))) r)) in *. clearbody os.
    destruct (is_local op) eqn:Hloc.
    2: { destruct op; try discriminate. destruct (snd (sstep st (i, RestoreFrom j k))); exact IH. }
    destruct (nth_error st i) as [m|] eqn:E.
    - rewrite (sstep_at st i op m Hloc E). cbn [snd].
      destruct op; cbn [ints_in_range Stream.step draw snd]; try exact IH.
      destruct (nint lo hi (raw (gseed (gen m)) (gpos (gen m)))) eqn:En; try exact IH.
        rewrite IH, andb_true_r.
        destruct (hi <? lo) eqn:Hl; [reflexivity|]. apply Z.ltb_ge in Hl.
        pose proof (nint_range lo hi _ r0 Hl (raw_unit _ _) En) as [H1 H2].
        cbn. apply andb_true_iff. split; apply Z.leb_le; assumption.
    - unfold Stream.sstep. cbn [fst snd]. rewrite E. cbn [snd].
      destruct op; cbn [ints_in_range]; exact IH.
  Qed.

  (* stronger contract: a non-empty range is always answered by an integer of
     the range (no exception) *)
  Hypothesis nint_total : forall lo hi k,
    lo <= hi -> unit_num k -> exists r, nint lo hi k = OInt r /\ lo <= r <= hi.

  Fixpoint ints_answered (ops : list (nat * sop)) (outs : list out) : Prop :=
    match ops, outs with
    | (_, NextInt lo hi) :: r, o :: os =>
        (lo <= hi -> exists z, o = OInt z /\ lo <= z <= hi) /\ ints_answered r os
    | _ :: r, _ :: os => ints_answered r os
    | [], [] => True
    | _, _ => False
    end.

  Theorem int_draws_answered_in_range ops : forall st, valid_ops (length st) ops ->
    ints_answered ops (snd (srun st ops)).
  Proof.
    induction ops as [|[i op] r IH]; intros st Hv; [exact I|].
    rewrite srun_cons. cbn [snd]. inversion Hv as [|x y Hi Hr]; subst. cbn [fst] in Hi.
    specialize (IH (fst (sstep st (i, op)))). rewrite sstep_length in IH. specialize (IH Hr).
    destruct (nth_error st i) as [m|] eqn:E; [|apply nth_error_None in E; lia].
    destruct (is_local op) eqn:Hloc.
    2: { destruct op; try discriminate. cbn [ints_answered]. exact IH. }
    rewrite (sstep_at st i op m Hloc E) in *. cbn [fst snd] in *.
    destruct op; cbn [ints_answered]; try exact IH.
    split; [|exact IH]. intros Hl. cbn. apply nint_total; [exact Hl|apply raw_unit].
  Qed.
End Proofs.

(* operations that draw nothing do not look at the generator *)
Theorem nodraw_ignores_generator raw1 raw2 nint m op :
  is_draw op = false -> step raw1 nint m op = step raw2 nint m op.
Proof. destruct op; cbn; intros H; try discriminate; reflexivity. Qed.

Theorem one_raw_draw_per_call raw nint m op :
  (is_draw op = true ->
     step raw nint m op = (advance m, draw_out nint op (raw (gseed (gen m)) (gpos (gen m))))) /\
  (is_draw op = false -> forall raw', step raw nint m op = step raw' nint m op).
Proof.
  split; [apply step_draw|]. intros H raw'. apply nodraw_ignores_generator; exact H.
Qed.

(* ---------- next_int in exact arithmetic ---------- *)
Lemma two53_pos : 0 < two53. Proof. reflexivity. Qed.

Theorem next_int_exact_in_range lo hi k :
  lo <= hi -> 0 <= k < two53 -> lo <= next_int_exact lo hi k <= hi.
Proof.
  intros Hl [Hk0 Hk1]. unfold next_int_exact.
  pose proof two53_pos as Hp.
  assert (H0 : 0 <= (hi - lo + 1) * k / two53).
  { apply Z.div_pos; [|exact Hp]. apply Z.mul_nonneg_nonneg; lia. }
  assert (H1 : (hi - lo + 1) * k / two53 < hi - lo + 1).
  { apply Z.div_lt_upper_bound; [exact Hp|]. rewrite Z.mul_comm.
    apply Z.mul_lt_mono_pos_r; lia. }
  lia.
Qed.

(* the same statement over Q: u = k / 2^53 in [0,1), result lo + floor((hi-lo+1) * u) *)
Definition unit_Q (k : Z) : Q := k # 9007199254740992.

Lemma unit_Q_range k : 0 <= k < two53 <-> (0 <= unit_Q k /\ unit_Q k < 1)%Q.
Proof.
  unfold unit_Q, Qle, Qlt, two53. cbn [Qnum Qden]. split; intros [H1 H2]; split; lia.
Qed.

Lemma next_int_exact_is_floor lo hi k :
  next_int_exact lo hi k = lo + Qfloor (inject_Z (hi - lo + 1) * unit_Q k).
Proof.
  unfold next_int_exact, unit_Q, Qfloor, Qmult, inject_Z, two53. cbn [Qnum Qden].
  reflexivity.
Qed.

(* for every rational u in [0,1), dyadic or not *)
Theorem next_int_in_range lo hi (u : Q) :
  lo <= hi -> (0 <= u)%Q -> (u < 1)%Q ->
  lo <= lo + Qfloor (inject_Z (hi - lo + 1) * u) <= hi.
Proof.
  intros Hl H0 H1.
  set (w := hi - lo + 1). assert (Hw : 1 <= w) by (unfold w; lia).
  assert (Hwq : (0 < inject_Z w)%Q) by (unfold Qlt, inject_Z; cbn; lia).
  assert (Ha : 0 <= Qfloor (inject_Z w * u)).
  { rewrite <- (Qfloor_Z 0). apply Qfloor_resp_le.
    apply Qmult_le_0_compat; [apply Qlt_le_weak|]; assumption. }
  assert (Hb : Qfloor (inject_Z w * u) < w).
  { rewrite Zlt_Qlt. eapply Qle_lt_trans; [apply Qfloor_le|].
    rewrite <- (Qmult_1_r (inject_Z w)) at 2. apply Qmult_lt_l; assumption. }
  lia.
Qed.

(* ---------- the binary64 product stays in range for widths below 2^53 ---------- *)
Lemma bitlen_pos_spec n : 0 < n -> 2 ^ (bitlen n - 1) <= n < 2 ^ bitlen n.
Proof.
  intros H. unfold bitlen. destruct (n <=? 0) eqn:E; [apply Z.leb_le in E; lia|].
  replace (Z.log2 n + 1 - 1) with (Z.log2 n) by lia.
  replace (Z.log2 n + 1) with (Z.succ (Z.log2 n)) by lia.
  apply Z.log2_spec. exact H.
Qed.

Lemma bitlen_le_53 w : 0 <= w < two53 -> bitlen w <= 53.
Proof.
  intros H. unfold bitlen. destruct (w <=? 0) eqn:E; [lia|]. apply Z.leb_gt in E.
  assert (Z.log2 w < 53); [|lia].
  apply Z.log2_lt_pow2; [lia|]. change (2 ^ 53) with two53. lia.
Qed.

Lemma rne53_small n : bitlen n <= 53 -> rne53 n = n.
Proof.
  unfold rne53. intros H. destruct (bitlen n - 53 <=? 0) eqn:E; [reflexivity|].
  apply Z.leb_gt in E. lia.
Qed.

Lemma rne53_unfold n : 0 < bitlen n - 53 ->
  rne53 n =
  let s := bitlen n - 53 in
  let q := n / 2 ^ s in
  let r := n - q * 2 ^ s in
  (if (2 ^ (s - 1) <? r) || ((r =? 2 ^ (s - 1)) && Z.odd q) then q + 1 else q) * 2 ^ s.
Proof.
  intros Hs. unfold rne53. destruct (bitlen n - 53 <=? 0) eqn:Es; [apply Z.leb_le in Es; lia|].
  rewrite Z.shiftr_div_pow2 by lia.
  rewrite !Z.shiftl_mul_pow2 by lia. rewrite !Z.mul_1_l. reflexivity.
Qed.

Lemma rne53_nonneg n : 0 <= n -> 0 <= rne53 n.
Proof.
  intros H. destruct (Z_le_gt_dec (bitlen n - 53) 0) as [Hs|Hs].
  - rewrite rne53_small by lia. exact H.
  - rewrite rne53_unfold by lia. cbv zeta. set (s := bitlen n - 53) in *.
    assert (Hp : 0 < 2 ^ s) by (apply Z.pow_pos_nonneg; lia).
    assert (Hq : 0 <= n / 2 ^ s) by (apply Z.div_pos; lia).
    destruct (_ || _); apply Z.mul_nonneg_nonneg; lia.
Qed.

(* the rounded product w * u stays strictly below w: the distance w from
   w * 2^53 exceeds half a unit in the last place of the product *)
Lemma rne53_mul_lt w k : 1 <= w < two53 -> 0 <= k < two53 -> rne53 (w * k) < w * two53.
Proof.
  intros Hw Hk. set (x := w * k).
  assert (Hx : 0 <= x <= w * two53 - w) by (unfold x; nia).
  destruct (Z_le_gt_dec (bitlen x - 53) 0) as [Hs|Hs].
  { rewrite rne53_small by lia. lia. }
  rewrite rne53_unfold by lia. cbv zeta. set (s := bitlen x - 53) in *.
  assert (Hxpos : 0 < x).
  { destruct (Z.eq_dec x 0) as [E0|E0]; [|lia]. unfold s in Hs. rewrite E0 in Hs. cbn in Hs. lia. }
  pose proof (bitlen_pos_spec x Hxpos) as [Hlo _].
  replace (bitlen x - 1) with ((s - 1) + 53) in Hlo by (unfold s; lia).
  rewrite Z.pow_add_r in Hlo by lia. change (2 ^ 53) with two53 in Hlo.
  assert (H2s : 2 ^ s = 2 * 2 ^ (s - 1)).
  { replace s with (Z.succ (s - 1)) at 1 by lia. rewrite Z.pow_succ_r by lia. reflexivity. }
  rewrite H2s.
  assert (HP : 0 < 2 ^ (s - 1)) by (apply Z.pow_pos_nonneg; lia).
  set (P := 2 ^ (s - 1)) in *.
  assert (HPw : P < w) by nia.
  pose proof (Z.div_mod x (2 * P) ltac:(lia)) as Hdm.
  pose proof (Z.mod_pos_bound x (2 * P) ltac:(lia)) as Hmb.
  set (q := x / (2 * P)) in *.
  assert (Er : x - q * (2 * P) = x mod (2 * P)) by lia.
  rewrite Er. set (r := x mod (2 * P)) in *.
  destruct ((P <? r) || ((r =? P) && Z.odd q)) eqn:Eup.
  - assert (Hr : P <= r).
    { apply orb_true_iff in Eup as [E1|E1].
      - apply Z.ltb_lt in E1. lia.
      - apply andb_true_iff in E1 as [E1 _]. apply Z.eqb_eq in E1. lia. }
    nia.
  - nia.
Qed.

Lemma two53_lt_float_limit : two53 < float_limit.
Proof. reflexivity. Qed.

(* what the pinned code computes, for every non-empty range narrower than 2^53 *)
Theorem next_int_b64_in_range lo hi k :
  lo <= hi -> hi - lo + 1 < two53 -> 0 <= k < two53 ->
  exists r, next_int_b64 lo hi k = OInt r /\ lo <= r <= hi.
Proof.
  intros Hl Hw Hk. unfold next_int_b64. set (w := hi - lo + 1) in *.
  assert (Hw1 : 1 <= w < two53) by (unfold w; lia).
  assert (Ef : rne53s w = w).
  { unfold rne53s. assert (E : w <? 0 = false) by (apply Z.ltb_ge; lia). rewrite E.
    apply rne53_small, bitlen_le_53. lia. }
  rewrite Ef.
  assert (El : float_limit <=? Z.abs w = false).
  { apply Z.leb_gt. pose proof two53_lt_float_limit. lia. }
  rewrite El.
  assert (Ep : rne53s (w * k) = rne53 (w * k)).
  { unfold rne53s. assert (E : w * k <? 0 = false) by (apply Z.ltb_ge; nia). rewrite E. reflexivity. }
  rewrite Ep. eexists. split; [reflexivity|].
  pose proof (rne53_mul_lt w k Hw1 Hk) as Hlt.
  pose proof (rne53_nonneg (w * k) ltac:(nia)) as H0.
  pose proof two53_pos as Hp.
  assert (Ha : 0 <= rne53 (w * k) / two53) by (apply Z.div_pos; lia).
  assert (Hb : rne53 (w * k) / two53 < w).
  { apply Z.div_lt_upper_bound; [exact Hp|]. lia. }
  unfold w in *. lia.
Qed.

(* the repaired next_int: for EVERY non-empty range, whatever its width, an
   integer of the range is returned (no exception) *)
Theorem next_int_fixed_in_range lo hi k :
  lo <= hi -> 0 <= k < two53 ->
  exists r, next_int_fixed lo hi k = OInt r /\ lo <= r <= hi.
Proof.
  intros Hl Hk. unfold next_int_fixed.
  destruct (hi - lo + 1 <? two53) eqn:E.
  - apply Z.ltb_lt in E. apply next_int_b64_in_range; assumption.
  - eexists. split; [reflexivity|]. apply next_int_exact_in_range; assumption.
Qed.

Lemma next_int_fixed_contract lo hi k r :
  lo <= hi -> 0 <= k < two53 -> next_int_fixed lo hi k = OInt r -> lo <= r <= hi.
Proof.
  intros Hl Hk H. destruct (next_int_fixed_in_range lo hi k Hl Hk) as [r' [E Hr]].
  rewrite E in H. injection H as <-. exact Hr.
Qed.

(* ---------- both endpoints of the range are reached ---------- *)
(* a multiple of 2^t below x stays below the rounded x when the rounding grid of
   x is not coarser than 2^t *)
Lemma rne53_ge_grid x m t : 0 < x -> bitlen x - 53 <= t -> m * 2 ^ t <= x -> m * 2 ^ t <= rne53 x.
Proof.
  intros Hx Hs Hm. destruct (Z_le_gt_dec (bitlen x - 53) 0) as [Hs0|Hs0].
  { rewrite rne53_small by lia. exact Hm. }
  rewrite rne53_unfold by lia. cbv zeta. set (s := bitlen x - 53) in *.
  assert (Hp : 0 < 2 ^ s) by (apply Z.pow_pos_nonneg; lia).
  assert (Et : 2 ^ t = 2 ^ (t - s) * 2 ^ s).
  { rewrite <- Z.pow_add_r by lia. f_equal. lia. }
  assert (Hq : m * 2 ^ (t - s) <= x / 2 ^ s).
  { apply Z.div_le_lower_bound; [exact Hp|]. rewrite Et in Hm. lia. }
  set (q := x / 2 ^ s) in *. rewrite Et.
  destruct (_ || _); nia.
Qed.

Lemma bitlen_lt_pow2 x n : 0 < x -> 0 <= n -> x < 2 ^ n -> bitlen x <= n.
Proof.
  intros Hx Hn Hlt. pose proof (bitlen_pos_spec x Hx) as [Hlo _].
  assert (H : bitlen x - 1 < n); [|lia].
  apply (Z.pow_lt_mono_r_iff 2); [lia|lia|]. lia.
Qed.

Theorem next_int_b64_endpoints lo hi :
  lo <= hi -> hi - lo + 1 < two53 ->
  next_int_b64 lo hi 0 = OInt lo /\ next_int_b64 lo hi (two53 - 1) = OInt hi.
Proof.
  intros Hl Hw. unfold next_int_b64. set (w := hi - lo + 1) in *.
  assert (Hw1 : 1 <= w < two53) by (unfold w; lia).
  assert (Ef : rne53s w = w).
  { unfold rne53s. assert (E : w <? 0 = false) by (apply Z.ltb_ge; lia). rewrite E.
    apply rne53_small, bitlen_le_53. lia. }
  rewrite Ef.
  assert (El : float_limit <=? Z.abs w = false).
  { apply Z.leb_gt. pose proof two53_lt_float_limit. lia. }
  rewrite El. split.
  - rewrite Z.mul_0_r. cbn. f_equal. lia.
  - set (x := w * (two53 - 1)).
    assert (Hxpos : 0 < x) by (unfold x, two53 in *; nia).
    assert (Ep : rne53s x = rne53 x).
    { unfold rne53s. assert (E : x <? 0 = false) by (apply Z.ltb_ge; lia). rewrite E. reflexivity. }
    rewrite Ep.
    pose proof (rne53_mul_lt w (two53 - 1) Hw1 ltac:(unfold two53; lia)) as Hup. fold x in Hup.
    assert (Hb : bitlen x <= 106).
    { apply bitlen_lt_pow2; [exact Hxpos|lia|]. change (2 ^ 106) with (two53 * two53). unfold x. nia. }
    pose proof (rne53_ge_grid x (w - 1) 53 Hxpos ltac:(lia)) as Hlow.
    change (2 ^ 53) with two53 in Hlow.
    assert (Hle : (w - 1) * two53 <= x) by (unfold x; nia).
    specialize (Hlow Hle).
    assert (Ed : rne53 x / two53 = w - 1).
    { symmetry. apply (Z.div_unique _ _ _ (rne53 x - (w - 1) * two53)); [left; unfold two53 in *; lia|lia]. }
    rewrite Ed. f_equal. unfold w. lia.
Qed.

(* the repaired next_int reaches lo for u = 0 and, for ranges of up to 2^53
   values, hi for u = 1 - 2^-53 *)
Theorem next_int_fixed_endpoints lo hi :
  lo <= hi ->
  next_int_fixed lo hi 0 = OInt lo /\
  (hi - lo + 1 <= two53 -> next_int_fixed lo hi (two53 - 1) = OInt hi).
Proof.
  intros Hl. unfold next_int_fixed. destruct (hi - lo + 1 <? two53) eqn:E.
  - apply Z.ltb_lt in E. destruct (next_int_b64_endpoints lo hi Hl E) as [H0 H1]. split; [exact H0|intros _; exact H1].
  - apply Z.ltb_ge in E. unfold next_int_exact. split.
    + rewrite Z.mul_0_r. cbn. f_equal. lia.
    + intros Hle. assert (Ew : hi - lo + 1 = two53) by lia. rewrite Ew.
      replace (two53 * (two53 - 1) / two53) with (two53 - 1).
      * f_equal. lia.
      * symmetry. rewrite Z.mul_comm. apply Z.div_mul. discriminate.
Qed.

(* ---------- what the code computes differs from the exact formula ---------- *)
Lemma next_int_float_rounding_visible :
  exists lo hi k, 0 <= k < two53 /\
    next_int_b64 lo hi k = OInt 2 /\ next_int_exact lo hi k = 1.
Proof. exists 0, 2, 6004799503160661. vm_compute. repeat split; congruence. Qed.

(* huge widths: the int -> float conversion overflows, no value is returned *)
Lemma next_int_every_range_refuted :
  exists lo hi k, lo <= hi /\ 0 <= k < two53 /\ next_int_b64 lo hi k = ORaise EOverflow.
Proof.
  exists 0, (2 ^ 1024), 0. split; [|split]; [| |reflexivity].
  - apply Z.pow_nonneg. lia.
  - split; [lia|reflexivity].
Qed.
