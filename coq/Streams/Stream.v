(* Random streams: the MersenneTwister wrapper of streams.py over an ABSTRACT
   generator.

   random.Random is CPython, not pydsol-core: it is modelled as a function
       raw : seed -> nat -> Z
   "the numerator k of the n-th output u = k / 2^53 of random() after seeding
   with s" (every float that random() returns is such a dyadic number).  The
   state of the generator is therefore the pair (seed, position); getstate /
   setstate copy that pair.  The wrapper adds the current and the original
   seed.  A store holds several streams.

   next_int is given several times:
     next_int_exact  lo + floor((hi-lo+1) * k / 2^53) in exact arithmetic
                     (the documented formula),
     next_int_b64    what the PINNED code computes: int -> binary64 conversion
                     and the binary64 product, both round-to-nearest-even, written
                     in Z arithmetic so that it can be reasoned about
                     (OverflowError when the width is beyond the float range),
     next_int_fixed  the REPAIRED code (proposed_fixes/C12-next-int-wide-range):
                     the binary64 product for widths below 2^53 (unchanged
                     sequences), exact integer arithmetic from 2^53 on,
     next_int_pf     the binary64 product with Coq's primitive floats (executed
                     only; used by the correspondence to validate next_int_b64
                     against hardware binary64 on every case).

   Executable definitions only. *)
From Coq Require Import ZArith List Bool PrimFloat Uint63 FloatOps SpecFloat.
Import ListNotations.
Open Scope Z_scope.

Definition two53 : Z := 9007199254740992.
Definition two52 : Z := 4503599627370496.

Inductive exn := ETypeError | EOverflow | EBadState | ENoStream | EModelSplit.

Inductive sop :=
| NextFloat | NextInt (lo hi : Z) | NextBool
| SetSeed (s : Z) | Reset
| Save                 (* push getstate() on this stream's stack of saved states *)
| Restore (k : nat)    (* setstate(the k-th most recent state saved by this stream) *)
| RestoreFrom (j k : nat)  (* setstate(the k-th most recent state saved by stream j of the store) *)
| QSeed | QOrig        (* seed(), original_seed() *)
| NextIntIllTyped      (* next_int with a non-numeric bound: TypeError, no draw *)
| RestoreGarbage.      (* restore_state(object that is no generator state) *)

Inductive out :=
| OFloat (k : Z)       (* the float k / 2^53 *)
| OInt (r : Z) | OBool (b : bool) | ONone | OSeed (s : Z) | ORaise (e : exn).

Record gstate := mkG { gseed : Z; gpos : nat }.

Record stream := mkS {
  gen : gstate;          (* self._random *)
  cur : Z;               (* self._seed *)
  orig : Z;              (* self._original_seed *)
  saved : list gstate    (* objects handed out by save_state, most recent first *)
}.

Definition fresh (s : Z) : stream := mkS (mkG s 0) s s [].

(* ---------- next_int ---------- *)
Definition next_int_exact (lo hi k : Z) : Z := lo + ((hi - lo + 1) * k) / two53.

Definition bitlen (n : Z) : Z := if n <=? 0 then 0 else Z.log2 n + 1.

(* n >= 0 rounded to 53 significant bits, ties to even
   (shifts instead of divisions: the operands have up to 2000 bits) *)
Definition rne53 (n : Z) : Z :=
  let s := bitlen n - 53 in
  if s <=? 0 then n
  else
    let q := Z.shiftr n s in
    let p := Z.shiftl 1 s in
    let r := n - q * p in
    let h := Z.shiftl 1 (s - 1) in
    (if (h <? r) || ((r =? h) && Z.odd q) then q + 1 else q) * p.

Definition rne53s (n : Z) : Z := if n <? 0 then - rne53 (- n) else rne53 n.

Definition float_limit : Z := 2 ^ 1024.

(* (hi - lo + 1) * u as CPython evaluates it: the int is converted to the
   nearest double (OverflowError if that is not finite), the product of the
   two doubles is rounded, math.floor is exact. *)
Definition next_int_b64 (lo hi k : Z) : out :=
  let f := rne53s (hi - lo + 1) in
  if float_limit <=? Z.abs f then ORaise EOverflow
  else OInt (lo + rne53s (f * k) / two53).

(* the same with primitive floats *)
Definition float_of_pos (n : Z) : float :=      (* n > 0 with at most 53 significant bits *)
  let s := bitlen n - 53 in
  if s <=? 0 then SF2Prim (S754_finite false (Z.to_pos n) 0)
  else SF2Prim (S754_finite false (Z.to_pos (Z.shiftr n s)) s).

Definition float_of_repr (n : Z) : float :=
  if n =? 0 then 0%float
  else if n <? 0 then PrimFloat.opp (float_of_pos (- n)) else float_of_pos n.

Definition unit_float (k : Z) : float :=         (* k / 2^53 *)
  if k <=? 0 then 0%float else SF2Prim (S754_finite false (Z.to_pos k) (-53)).

Definition floor_float (f : float) : option Z :=
  match Prim2SF f with
  | S754_zero _ => Some 0
  | S754_finite sg m e =>
      let num := if sg then Zneg m else Zpos m in
      Some (if 0 <=? e then num * 2 ^ e else num / 2 ^ (- e))
  | _ => None
  end.

Definition next_int_pf (lo hi k : Z) : out :=
  let f := rne53s (hi - lo + 1) in
  if float_limit <=? Z.abs f then ORaise EOverflow
  else match floor_float (PrimFloat.mul (float_of_repr f) (unit_float k)) with
       | Some z => OInt (lo + z)
       | None => ORaise EModelSplit
       end.

Definition exn_eqb (a b : exn) : bool :=
  match a, b with
  | ETypeError, ETypeError | EOverflow, EOverflow | EBadState, EBadState
  | ENoStream, ENoStream | EModelSplit, EModelSplit => true
  | _, _ => false
  end.

Definition out_eqb (a b : out) : bool :=
  match a, b with
  | OFloat x, OFloat y => x =? y
  | OInt x, OInt y => x =? y
  | OBool x, OBool y => Bool.eqb x y
  | ONone, ONone => true
  | OSeed x, OSeed y => x =? y
  | ORaise x, ORaise y => exn_eqb x y
  | _, _ => false
  end.

(* both evaluations must agree; used by the correspondence check *)
Definition next_int_checked (lo hi k : Z) : out :=
  let a := next_int_b64 lo hi k in
  if out_eqb a (next_int_pf lo hi k) then a else ORaise EModelSplit.

(* the repaired next_int: widths from 2^53 on in integer arithmetic *)
Definition next_int_fixed (lo hi k : Z) : out :=
  if hi - lo + 1 <? two53 then next_int_b64 lo hi k else OInt (next_int_exact lo hi k).

Definition next_int_fixed_checked (lo hi k : Z) : out :=
  if hi - lo + 1 <? two53 then next_int_checked lo hi k else OInt (next_int_exact lo hi k).

(* ---------- the wrapper ---------- *)
Section Wrapper.
  Variable raw : Z -> nat -> Z.
  Variable nint : Z -> Z -> Z -> out.

  Definition draw (m : stream) : Z * stream :=
    (raw (gseed (gen m)) (gpos (gen m)),
     mkS (mkG (gseed (gen m)) (S (gpos (gen m)))) (cur m) (orig m) (saved m)).

  Definition reseed (m : stream) (s : Z) : stream := mkS (mkG s 0) s (orig m) (saved m).

  Definition step (m : stream) (op : sop) : stream * out :=
    match op with
    | NextFloat => let '(k, m') := draw m in (m', OFloat k)
    | NextInt lo hi => let '(k, m') := draw m in (m', nint lo hi k)
    | NextBool => let '(k, m') := draw m in (m', OBool (k <? two52))
    | SetSeed s => (reseed m s, ONone)
    | Reset => (reseed m (cur m), ONone)
    | Save => (mkS (gen m) (cur m) (orig m) (gen m :: saved m), ONone)
    | Restore k =>
        match nth_error (saved m) k with
        | Some g => (mkS g (cur m) (orig m) (saved m), ONone)
        | None => (m, ORaise EBadState)
        end
    | QSeed => (m, OSeed (cur m))
    | QOrig => (m, OSeed (orig m))
    | NextIntIllTyped => (m, ORaise ETypeError)
    | RestoreGarbage => (m, ORaise EBadState)
    | RestoreFrom _ _ => (m, ORaise ENoStream)   (* needs the store: see [sstep] *)
    end.

  Fixpoint run (m : stream) (ops : list sop) : stream * list out :=
    match ops with
    | [] => (m, [])
    | op :: r => let '(m1, o) := step m op in
                 let '(m2, os) := run m1 r in (m2, o :: os)
    end.

  (* ---------- a store of several streams ---------- *)
  Fixpoint upd (st : list stream) (i : nat) (m : stream) : list stream :=
    match st, i with
    | [], _ => []
    | _ :: r, O => m :: r
    | x :: r, S j => x :: upd r j m
    end.

  Definition sstep (st : list stream) (iop : nat * sop) : list stream * out :=
    match snd iop with
    | RestoreFrom j k =>
        match nth_error st (fst iop), nth_error st j with
        | Some m, Some mj =>
            match nth_error (saved mj) k with
            | Some g => (upd st (fst iop) (mkS g (cur m) (orig m) (saved m)), ONone)
            | None => (st, ORaise EBadState)
            end
        | _, _ => (st, ORaise ENoStream)
        end
    | _ =>
        match nth_error st (fst iop) with
        | Some m => let '(m', o) := step m (snd iop) in (upd st (fst iop) m', o)
        | None => (st, ORaise ENoStream)
        end
    end.

  Fixpoint srun (st : list stream) (ops : list (nat * sop)) : list stream * list out :=
    match ops with
    | [] => (st, [])
    | iop :: r => let '(st1, o) := sstep st iop in
                  let '(st2, os) := srun st1 r in (st2, o :: os)
    end.
End Wrapper.

(* the operations addressed to stream i, and the outputs they produced *)
Fixpoint proj (i : nat) (ops : list (nat * sop)) : list sop :=
  match ops with
  | [] => []
  | (j, op) :: r => if Nat.eqb j i then op :: proj i r else proj i r
  end.

Fixpoint sel (i : nat) (ops : list (nat * sop)) (outs : list out) : list out :=
  match ops, outs with
  | (j, _) :: r, o :: os => if Nat.eqb j i then o :: sel i r os else sel i r os
  | _, _ => []
  end.

(* ---------- the generator as a table (supplied by the harness) ---------- *)
Fixpoint lookup_seed (tbl : list (Z * list Z)) (s : Z) : option (list Z) :=
  match tbl with
  | [] => None
  | (s', l) :: r => if s' =? s then Some l else lookup_seed r s
  end.

(* -1 (outside the contract 0 <= k < 2^53) when the table has no entry *)
Definition raw_of (tbl : list (Z * list Z)) (s : Z) (n : nat) : Z :=
  match lookup_seed tbl s with
  | Some l => nth n l (-1)
  | None => -1
  end.

(* ---------- correspondence ---------- *)
Fixpoint outs_eqb (a b : list out) : bool :=
  match a, b with
  | [], [] => true
  | x :: r, y :: s => out_eqb x y && outs_eqb r s
  | _, _ => false
  end.

(* a case: the generator table, the seeds the streams are created with, the
   interleaved operations, what the implementation returned *)
Definition case := (list (Z * list Z) * list Z * list (nat * sop) * list out)%type.

Definition model_outs (nint : Z -> Z -> Z -> out) (c : case) : list out :=
  let '(tbl, seeds, ops, _) := c in
  snd (srun (raw_of tbl) nint (map fresh seeds) ops).

(* the repaired tree *)
Definition case_ok (c : case) : bool :=
  let '(_, _, _, outs) := c in outs_eqb (model_outs next_int_fixed_checked c) outs.

(* the pinned tree (float product for every width) *)
Definition case_ok_pinned (c : case) : bool :=
  let '(_, _, _, outs) := c in outs_eqb (model_outs next_int_checked c) outs.

(* every integer draw of the model lies in the requested non-empty range *)
Fixpoint ints_in_range (ops : list (nat * sop)) (outs : list out) : bool :=
  match ops, outs with
  | (_, NextInt lo hi) :: r, OInt z :: os =>
      ((hi <? lo) || ((lo <=? z) && (z <=? hi))) && ints_in_range r os
  | _ :: r, _ :: os => ints_in_range r os
  | _, _ => true
  end.

Fixpoint mismatches_from (i : nat) (check : case -> bool) (cases : list case) : list nat :=
  match cases with
  | [] => []
  | c :: r => if check c then mismatches_from (S i) check r
              else i :: mismatches_from (S i) check r
  end.
