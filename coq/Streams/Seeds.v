(* Seed management: SimpleStreamUpdater, StreamSeedUpdater and
   StreamUpdater.update_seeds of streams.py.

   A stream name is the list of the code points of the Python str.  What is
   modelled is the REPAIRED behaviour (proposed_fixes/C13-*.patch):
     - SimpleStreamUpdater mixes in a deterministic 32-bit polynomial hash of the
       code points ([str_hash]) instead of the per-process hash(str);
     - StreamSeedUpdater uses the fallback updater for a stream that is not in
       the seed table (the pinned tree raises KeyError).
   The pinned behaviour is kept as [simple_update] over an arbitrary hash
   function and [table_update_pinned], to state the refutations.

   Executable definitions only. *)
From Coq Require Import ZArith List Bool.
Import ListNotations.
Open Scope Z_scope.

Definition name := list Z.

Fixpoint name_eqb (a b : name) : bool :=
  match a, b with
  | [], [] => true
  | x :: r, y :: s => (x =? y) && name_eqb r s
  | _, _ => false
  end.

Inductive exn := ETypeError | EValueError | EKeyError.
Inductive res := Val (s : Z) | Raise (e : exn).

(* ---------- the string hash of the repair ---------- *)
Definition two32 : Z := 4294967296.

Definition hash_step (h c : Z) : Z := (31 * h + c) mod two32.
Definition str_hash (n : name) : Z := fold_left hash_step n 0.

(* ---------- SimpleStreamUpdater.update_seed ---------- *)
Definition simple_update (H : name -> Z) (n : name) (orig r : Z) : res :=
  if r <? 0 then Raise EValueError
  else Val (orig + r * (1000037 + H n)).

(* ---------- StreamSeedUpdater.update_seed ---------- *)
Fixpoint lookup (tbl : list (name * list Z)) (n : name) : option (list Z) :=
  match tbl with
  | [] => None
  | (k, v) :: r => if name_eqb k n then Some v else lookup r n
  end.

Definition table_update (tbl : list (name * list Z)) (fb : name -> Z -> Z -> res)
  (n : name) (orig r : Z) : res :=
  if r <? 0 then Raise EValueError
  else match lookup tbl n with
       | None => fb n orig r
       | Some seeds =>
           match nth_error seeds (Z.to_nat r) with
           | Some s => Val s
           | None => Raise EValueError
           end
       end.

(* pinned tree: self._stream_seeds[stream_id] is evaluated first *)
Definition table_update_pinned (tbl : list (name * list Z)) (fb : name -> Z -> Z -> res)
  (n : name) (orig r : Z) : res :=
  if r <? 0 then Raise EValueError
  else match lookup tbl n with
       | None => Raise EKeyError
       | Some seeds =>
           match nth_error seeds (Z.to_nat r) with
           | Some s => Val s
           | None => Raise EValueError
           end
       end.

(* ---------- StreamUpdater.update_seeds ---------- *)
Inductive ekind :=
| KStream       (* str key, StreamInterface value *)
| KBadKey       (* key is not a str *)
| KBadStream.   (* value is not a StreamInterface *)

Record entry := mkE { e_kind : ekind; e_name : name; e_orig : Z; e_cur : Z }.

Definition set_cur (e : entry) (s : Z) : entry := mkE (e_kind e) (e_name e) (e_orig e) s.

Definition update_entry (f : name -> Z -> Z -> res) (r : Z) (e : entry) : res :=
  match e_kind e with
  | KStream => f (e_name e) (e_orig e) r
  | _ => Raise ETypeError
  end.

(* the loop over streams.keys(): the first refusal ends it *)
Fixpoint update_list (f : name -> Z -> Z -> res) (r : Z) (l : list entry)
  : list entry * option exn :=
  match l with
  | [] => ([], None)
  | e :: t =>
      match update_entry f r e with
      | Raise x => (e :: t, Some x)
      | Val s => let '(t', x) := update_list f r t in (set_cur e s :: t', x)
      end
  end.

Inductive repl := RInt (r : Z) | RIllTyped.

Definition update_seeds (f : name -> Z -> Z -> res) (r : repl) (l : list entry)
  : list entry * option exn :=
  match r with
  | RIllTyped => (l, Some ETypeError)
  | RInt z => update_list f z l
  end.

(* ---------- configurations used by the correspondence ---------- *)
Inductive fbkind :=
| FSimple                 (* the default fallback: SimpleStreamUpdater() *)
| FCustom (a b : Z).      (* a harness-defined updater: seed = orig + a * r + b * len(name) *)

Inductive updater :=
| USimple
| UTable (tbl : list (name * list Z)) (fb : fbkind).

Definition fb_fun (H : name -> Z) (fb : fbkind) : name -> Z -> Z -> res :=
  match fb with
  | FSimple => simple_update H
  | FCustom a b => fun n orig r => Val (orig + a * r + b * Z.of_nat (length n))
  end.

Definition updater_fun (H : name -> Z) (u : updater) : name -> Z -> Z -> res :=
  match u with
  | USimple => simple_update H
  | UTable tbl fb => table_update tbl (fb_fun H fb)
  end.

(* ---------- correspondence ---------- *)
Definition exn_eqb (a b : exn) : bool :=
  match a, b with
  | ETypeError, ETypeError | EValueError, EValueError | EKeyError, EKeyError => true
  | _, _ => false
  end.

Definition oexn_eqb (a b : option exn) : bool :=
  match a, b with
  | None, None => true
  | Some x, Some y => exn_eqb x y
  | _, _ => false
  end.

Fixpoint seeds_eqb (l : list entry) (s : list Z) : bool :=
  match l, s with
  | [], [] => true
  | e :: r, z :: t => (e_cur e =? z) && seeds_eqb r t
  | _, _ => false
  end.

(* a case: the updater, the streams in dict order, the replication number;
   observed: seed() of every stream afterwards and the exception (if any) *)
Definition case := (updater * list entry * repl * list Z * option exn)%type.

Definition case_ok (c : case) : bool :=
  let '(u, l, r, seeds, ex) := c in
  let '(l', x) := update_seeds (updater_fun str_hash u) r l in
  seeds_eqb l' seeds && oexn_eqb x ex.

(* the pinned tree, given the hash function of one interpreter process *)
Definition updater_fun_pinned (H : name -> Z) (u : updater) : name -> Z -> Z -> res :=
  match u with
  | USimple => simple_update H
  | UTable tbl fb => table_update_pinned tbl (fb_fun H fb)
  end.

Fixpoint mismatches_from (i : nat) (cases : list case) : list nat :=
  match cases with
  | [] => []
  | c :: r => if case_ok c then mismatches_from (S i) r else i :: mismatches_from (S i) r
  end.
