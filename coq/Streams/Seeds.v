(* Seed management: SimpleStreamUpdater, StreamSeedUpdater and
   StreamUpdater.update_seeds of streams.py.

   A stream name is the list of the code points of the Python str.  What is
   modelled is the REPAIRED behaviour (proposed_fixes/C13-*.patch):
     - SimpleStreamUpdater mixes in a deterministic 32-bit polynomial hash of the
       code points ([str_hash]) instead of the per-process hash(str);
     - StreamSeedUpdater uses the fallback updater for a stream that is not in
       the seed table (the pinned tree raises KeyError).
   The pinned behaviour is kept as [simple_update] over an arbitrary hash
   function and [table_update_pinned], to state the refutations.

   Executable definitions only. *)
From Coq Require Import ZArith List Bool.
Import ListNotations.
Open Scope Z_scope.

Definition name := list Z.

Fixpoint name_eqb (a b : name) : bool :=
  match a, b with
  | [], [] => true
  | x :: r, y :: s => (x =? y) && name_eqb r s
  | _, _ => false
  end.

Inductive exn := ETypeError | EValueError | EKeyError.
Inductive res := Val (s : Z) | Raise (e : exn).

(* ---------- the string hash of the repair ---------- *)
Definition two32 : Z := 4294967296.

Definition hash_step (h c : Z) : Z := (31 * h + c) mod two32.
Definition str_hash (n : name) : Z := fold_left hash_step n 0.

(* ---------- SimpleStreamUpdater.update_seed ---------- *)
Definition simple_update (H : name -> Z) (n : name) (orig r : Z) : res :=
  if r <? 0 then Raise EValueError
  else Val (orig + r * (1000037 + H n)).

(* ---------- StreamSeedUpdater.update_seed ---------- *)
(* r >= 0; "if replication_nr >= len(seeds): raise ValueError", else seeds[r]
   (the length is tested first: r can be astronomically large) *)
Definition seed_at (seeds : list Z) (r : Z) : res :=
  if Z.of_nat (length seeds) <=? r then Raise EValueError
  else match nth_error seeds (Z.to_nat r) with
       | Some s => Val s
       | None => Raise EValueError
       end.

Fixpoint lookup (tbl : list (name * list Z)) (n : name) : option (list Z) :=
  match tbl with
  | [] => None
  | (k, v) :: r => if name_eqb k n then Some v else lookup r n
  end.

Definition table_update (tbl : list (name * list Z)) (fb : name -> Z -> Z -> res)
  (n : name) (orig r : Z) : res :=
  if r <? 0 then Raise EValueError
  else match lookup tbl n with
       | None => fb n orig r
       | Some seeds => seed_at seeds r
       end.

(* pinned tree: self._stream_seeds[stream_id] is evaluated first *)
Definition table_update_pinned (tbl : list (name * list Z)) (fb : name -> Z -> Z -> res)
  (n : name) (orig r : Z) : res :=
  if r <? 0 then Raise EValueError
  else match lookup tbl n with
       | None => Raise EKeyError
       | Some seeds => seed_at seeds r
       end.

(* ---------- StreamUpdater.update_seeds ---------- *)
Inductive ekind :=
| KStream       (* str key, StreamInterface value *)
| KBadKey       (* key is not a str *)
| KBadStream.   (* value is not a StreamInterface *)

Record entry := mkE { e_kind : ekind; e_name : name; e_orig : Z; e_cur : Z }.

Definition set_cur (e : entry) (s : Z) : entry := mkE (e_kind e) (e_name e) (e_orig e) s.

Definition update_entry (f : name -> Z -> Z -> res) (r : Z) (e : entry) : res :=
  match e_kind e with
  | KStream => f (e_name e) (e_orig e) r
  | _ => Raise ETypeError
  end.

(* the loop over streams.keys(): the first refusal ends it *)
Fixpoint update_list (f : name -> Z -> Z -> res) (r : Z) (l : list entry)
  : list entry * option exn :=
  match l with
  | [] => ([], None)
  | e :: t =>
      match update_entry f r e with
      | Raise x => (e :: t, Some x)
      | Val s => let '(t', x) := update_list f r t in (set_cur e s :: t', x)
      end
  end.

Inductive repl := RInt (r : Z) | RIllTyped.

Definition update_seeds (f : name -> Z -> Z -> res) (r : repl) (l : list entry)
  : list entry * option exn :=
  match r with
  | RIllTyped => (l, Some ETypeError)
  | RInt z => update_list f z l
  end.

(* updater.update_seed(key, stream, r) for the i-th entry alone: the type of r
   is tested after the key and the stream *)
Fixpoint replace_nth (l : list entry) (i : nat) (e : entry) : list entry :=
  match l, i with
  | [], _ => []
  | _ :: t, O => e :: t
  | x :: t, S j => x :: replace_nth t j e
  end.

Definition update_one (f : name -> Z -> Z -> res) (r : repl) (i : nat) (l : list entry)
  : list entry * option exn :=
  match nth_error l i with
  | None => (l, None)
  | Some e =>
      match e_kind e, r with
      | KStream, RInt z =>
          match f (e_name e) (e_orig e) z with
          | Val s => (replace_nth l i (set_cur e s), None)
          | Raise x => (l, Some x)
          end
      | _, _ => (l, Some ETypeError)
      end
  end.

(* CQuery: a read-only question about the configuration between two updates (get_seed_values(id),
   get_seeds()[id]); [listed] says whether the stream has a seed list at that moment: answered, or refused
   with KeyError -- either way nothing changes *)
Inductive call := CAll (r : repl) | COne (i : nat) (r : repl) | CQuery (listed : bool).

Definition do_call (f : name -> Z -> Z -> res) (c : call) (l : list entry)
  : list entry * option exn :=
  match c with
  | CAll r => update_seeds f r l
  | COne i r => update_one f r i l
  | CQuery listed => (l, if listed then None else Some EKeyError)
  end.

(* ---------- configurations used by the correspondence ---------- *)
Inductive fbkind :=
| FSimple                 (* the default fallback: SimpleStreamUpdater() *)
| FCustom (a b : Z)       (* a harness-defined updater: seed = orig + a * r + b * len(name) *)
| FNested (tbl : list (name * list Z)).   (* another StreamSeedUpdater with the default fallback *)

Inductive updater :=
| USimple
| UTable (tbl : list (name * list Z)) (fb : fbkind).

Definition fb_fun (tu : list (name * list Z) -> (name -> Z -> Z -> res) -> name -> Z -> Z -> res)
  (H : name -> Z) (fb : fbkind) : name -> Z -> Z -> res :=
  match fb with
  | FSimple => simple_update H
  | FCustom a b => fun n orig r => Val (orig + a * r + b * Z.of_nat (length n))
  | FNested tbl => tu tbl (simple_update H)
  end.

(* the repaired tree; [str_hash] for H *)
Definition updater_fun (H : name -> Z) (u : updater) : name -> Z -> Z -> res :=
  match u with
  | USimple => simple_update H
  | UTable tbl fb => table_update tbl (fb_fun table_update H fb)
  end.

(* the pinned tree, given the hash function of one interpreter process *)
Definition updater_fun_pinned (H : name -> Z) (u : updater) : name -> Z -> Z -> res :=
  match u with
  | USimple => simple_update H
  | UTable tbl fb => table_update_pinned tbl (fb_fun table_update_pinned H fb)
  end.

(* ---------- correspondence ---------- *)
Definition exn_eqb (a b : exn) : bool :=
  match a, b with
  | ETypeError, ETypeError | EValueError, EValueError | EKeyError, EKeyError => true
  | _, _ => false
  end.

Definition oexn_eqb (a b : option exn) : bool :=
  match a, b with
  | None, None => true
  | Some x, Some y => exn_eqb x y
  | _, _ => false
  end.

Fixpoint seeds_eqb (l : list entry) (s : list Z) : bool :=
  match l, s with
  | [], [] => true
  | e :: r, z :: t => (e_cur e =? z) && seeds_eqb r t
  | _, _ => false
  end.

(* a case: the updater, the streams in dict order, a sequence of calls; observed
   after every call: seed() of every stream and the exception (if any) *)
Definition obs := (call * list Z * option exn)%type.
Definition case := (updater * list entry * list obs)%type.

Fixpoint calls_ok (f : name -> Z -> Z -> res) (l : list entry) (os : list obs) : bool :=
  match os with
  | [] => true
  | (c, seeds, ex) :: t =>
      let '(l', x) := do_call f c l in
      seeds_eqb l' seeds && oexn_eqb x ex && calls_ok f l' t
  end.

Definition case_ok (c : case) : bool :=
  let '(u, l, os) := c in calls_ok (updater_fun str_hash u) l os.

(* the pinned table lookup and an externally supplied value of hash(name) per
   name (what one interpreter process computed) *)
Fixpoint hash_of (tbl : list (name * Z)) (n : name) : Z :=
  match tbl with
  | [] => 0
  | (k, v) :: r => if name_eqb k n then v else hash_of r n
  end.

Definition case_ok_pinned (htbl : list (name * Z)) (c : case) : bool :=
  let '(u, l, os) := c in calls_ok (updater_fun_pinned (hash_of htbl) u) l os.

Fixpoint mismatches_from (i : nat) (check : case -> bool) (cases : list case) : list nat :=
  match cases with
  | [] => []
  | c :: r => if check c then mismatches_from (S i) check r else i :: mismatches_from (S i) check r
  end.
