(* Theorems about seed updates, for every updater function, every set of
   streams and every replication number. *)
From Coq Require Import ZArith List Bool Lia Permutation.
From PV Require Import Streams.Seeds.
Import ListNotations.
Open Scope Z_scope.

Lemma name_eqb_eq a : forall b, name_eqb a b = true <-> a = b.
Proof.
  induction a as [|x r IH]; intros [|y s]; cbn; split; intros H; try discriminate; auto.
  - apply andb_true_iff in H as [H1 H2]. apply Z.eqb_eq in H1. apply IH in H2. congruence.
  - inversion H; subst. rewrite Z.eqb_refl. cbn. apply IH. reflexivity.
Qed.

Lemma name_eqb_refl a : name_eqb a a = true.
Proof. apply name_eqb_eq. reflexivity. Qed.

Definition is_val (x : res) : Prop := exists s, x = Val s.

(* what update_seeds does to one entry when it gets that far *)
Definition apply_update (f : name -> Z -> Z -> res) (r : Z) (e : entry) : entry :=
  match update_entry f r e with
  | Val s => set_cur e s
  | Raise _ => e
  end.

Section Updates.
  Variable f : name -> Z -> Z -> res.
  Variable r : Z.

  Lemma update_list_all_val l :
    (forall e, In e l -> is_val (update_entry f r e)) ->
    update_list f r l = (map (apply_update f r) l, None).
  Proof.
    induction l as [|e t IH]; intros H; [reflexivity|].
    cbn [update_list map]. unfold apply_update at 1.
    destruct (H e (or_introl eq_refl)) as [s Hs]. rewrite Hs.
    rewrite IH; [reflexivity|]. intros e' He'. apply H. right. exact He'.
  Qed.

  Lemma update_list_ok_inv l : forall l',
    update_list f r l = (l', None) ->
    (forall e, In e l -> is_val (update_entry f r e)) /\ l' = map (apply_update f r) l.
  Proof.
    induction l as [|e t IH]; intros l' H; cbn [update_list] in H.
    - inversion H; subst. split; [intros e []|reflexivity].
    - destruct (update_entry f r e) as [s|x] eqn:E; [|discriminate].
      destruct (update_list f r t) as [t' x] eqn:Et. inversion H; subst.
      destruct (IH t' eq_refl) as [Hv Hm]. split.
      + intros e' [<-|He']; [exists s; exact E|apply Hv; exact He'].
      + cbn [map]. unfold apply_update at 1. rewrite E, Hm. reflexivity.
  Qed.

  (* an update that goes through: every stream ends with the value of the
     updater function at (its name, its original seed, r); names and original
     seeds are untouched *)
  Theorem update_result l l' : update_list f r l = (l', None) ->
    Forall2 (fun e e' => e_kind e = KStream /\ e_kind e' = KStream /\
                         e_name e' = e_name e /\ e_orig e' = e_orig e /\
                         f (e_name e) (e_orig e) r = Val (e_cur e')) l l'.
  Proof.
    intros H. apply update_list_ok_inv in H as [Hv ->].
    induction l as [|e t IH]; cbn [map]; constructor.
    - destruct (Hv e (or_introl eq_refl)) as [s Hs].
      unfold apply_update. rewrite Hs. unfold update_entry in Hs.
      destruct (e_kind e) eqn:Ek; try discriminate. cbn. auto.
    - apply IH. intros e' He'. apply Hv. right. exact He'.
  Qed.

  (* The seed a stream gets depends only on its name, its original seed (and,
     through f, the configured seed lists) and r: not on its current seed, not
     on its position, not on the other streams of the configuration. *)
  Theorem seed_depends_only_on l1 l1' l2 l2' e1 e2 :
    update_list f r l1 = (l1', None) -> update_list f r l2 = (l2', None) ->
    In e1 l1' -> In e2 l2' ->
    e_name e1 = e_name e2 -> e_orig e1 = e_orig e2 ->
    e_cur e1 = e_cur e2.
  Proof.
    intros H1 H2 I1 I2 Hn Ho.
    assert (Hin : forall l l' e', update_list f r l = (l', None) -> In e' l' ->
                    f (e_name e') (e_orig e') r = Val (e_cur e')).
    { intros l l' e' H I. apply update_result in H.
      induction H as [|a a' t t' Ha Ht IH]; [destruct I|].
      destruct I as [<-|I]; [|apply IH; exact I].
      destruct Ha as [_ [_ [Hn' [Ho' Hf]]]]. rewrite Hn', Ho'. exact Hf. }
    pose proof (Hin _ _ _ H1 I1) as F1. pose proof (Hin _ _ _ H2 I2) as F2.
    rewrite Hn, Ho in F1. congruence.
  Qed.

  (* listing the streams in another order changes nothing *)
  Theorem order_independent l l2 l' :
    Permutation l l2 -> update_list f r l = (l', None) ->
    exists l2', update_list f r l2 = (l2', None) /\ Permutation l' l2'.
  Proof.
    intros Hp H. apply update_list_ok_inv in H as [Hv ->].
    exists (map (apply_update f r) l2). split.
    - apply update_list_all_val. intros e He. apply Hv.
      eapply Permutation_in; [symmetry; exact Hp|exact He].
    - apply Permutation_map. exact Hp.
  Qed.

  (* whether the update goes through does not depend on the order either *)
  Theorem refusal_order_independent l l2 :
    Permutation l l2 ->
    (snd (update_list f r l) = None <-> snd (update_list f r l2) = None).
  Proof.
    assert (Hdir : forall a b, Permutation a b ->
              snd (update_list f r a) = None -> snd (update_list f r b) = None).
    { intros a b Hp H. destruct (update_list f r a) as [a' x] eqn:E. cbn in H. subst x.
      destruct (order_independent a b a' Hp E) as [b' [Hb _]]. rewrite Hb. reflexivity. }
    intros Hp. split; apply Hdir; [exact Hp|symmetry; exact Hp].
  Qed.

  (* a refused update: the streams before the refused one are updated, the
     refused stream and all later ones are exactly as they were *)
  Theorem refused_unchanged l l' x : update_list f r l = (l', Some x) ->
    exists pre e post,
      l = pre ++ e :: post /\ update_entry f r e = Raise x /\
      (forall a, In a pre -> is_val (update_entry f r a)) /\
      l' = map (apply_update f r) pre ++ e :: post.
  Proof.
    revert l'. induction l as [|e t IH]; intros l' H; cbn [update_list] in H; [discriminate|].
    destruct (update_entry f r e) as [s|y] eqn:E.
    - destruct (update_list f r t) as [t' x'] eqn:Et. inversion H; subst.
      destruct (IH t' eq_refl) as [pre [e0 [post [Hl [He [Hv Hl']]]]]].
      exists (e :: pre), e0, post. split; [|split; [|split]].
      + cbn. rewrite Hl. reflexivity.
      + exact He.
      + intros a [<-|Ha]; [exists s; exact E|apply Hv; exact Ha].
      + cbn [map app]. unfold apply_update at 1. rewrite E, Hl'. reflexivity.
    - inversion H; subst. exists [], e, t. split; [|split; [|split]]; auto. intros a [].
  Qed.

  (* every stream of a refused update holds either its old seed or its value *)
  Corollary refused_partial l l' x : update_list f r l = (l', Some x) ->
    Forall2 (fun e e' => e' = e \/ e' = apply_update f r e) l l'.
  Proof.
    intros H. destruct (refused_unchanged l l' x H) as [pre [e [post [-> [_ [_ ->]]]]]].
    apply Forall2_app.
    - clear H. induction pre as [|a pre IH]; cbn; [constructor|].
      constructor; [right; reflexivity|exact IH].
    - clear H. constructor; [left; reflexivity|].
      induction post as [|a post IH]; [constructor|].
      constructor; [left; reflexivity|exact IH].
  Qed.
End Updates.

(* with distinct names, "the same per-stream result" can be read off by name *)
Fixpoint seed_of (n : name) (l : list entry) : option Z :=
  match l with
  | [] => None
  | e :: t => if name_eqb (e_name e) n then Some (e_cur e) else seed_of n t
  end.

Lemma seed_of_perm n l l2 :
  NoDup (map e_name l) -> Permutation l l2 -> seed_of n l = seed_of n l2.
Proof.
  intros Hnd Hp. induction Hp as [|e a b Hp IH|e1 e2 a|a b c H1 IH1 H2 IH2].
  - reflexivity.
  - cbn. inversion Hnd; subst. rewrite IH; auto.
  - cbn. destruct (name_eqb (e_name e1) n) eqn:E1, (name_eqb (e_name e2) n) eqn:E2; auto.
    apply name_eqb_eq in E1, E2. inversion Hnd as [|? ? Hni _]; subst.
    exfalso. apply Hni. left. congruence.
  - rewrite IH1 by exact Hnd. apply IH2.
    eapply Permutation_NoDup; [apply Permutation_map; exact H1|exact Hnd].
Qed.

Lemma map_name_apply f r l : map e_name (map (apply_update f r) l) = map e_name l.
Proof.
  rewrite map_map. apply map_ext. intros e. unfold apply_update.
  destruct (update_entry f r e); reflexivity.
Qed.

Theorem order_independent_by_name f r l l2 l' l2' n :
  NoDup (map e_name l) -> Permutation l l2 ->
  update_list f r l = (l', None) -> update_list f r l2 = (l2', None) ->
  seed_of n l' = seed_of n l2'.
Proof.
  intros Hnd Hp H1 H2.
  apply update_list_ok_inv in H1 as [_ ->]. apply update_list_ok_inv in H2 as [_ ->].
  apply seed_of_perm.
  - rewrite map_name_apply. exact Hnd.
  - apply Permutation_map. exact Hp.
Qed.

(* the order of the seed table does not matter either *)
Lemma lookup_perm n tbl tbl2 :
  NoDup (map fst tbl) -> Permutation tbl tbl2 -> lookup tbl n = lookup tbl2 n.
Proof.
  intros Hnd Hp. induction Hp as [|[k v] a b Hp IH|[k1 v1] [k2 v2] a|a b c H1 IH1 H2 IH2].
  - reflexivity.
  - cbn. inversion Hnd; subst. rewrite IH; auto.
  - cbn. destruct (name_eqb k1 n) eqn:E1, (name_eqb k2 n) eqn:E2; auto.
    apply name_eqb_eq in E1, E2. inversion Hnd as [|? ? Hni _]; subst.
    exfalso. apply Hni. left. reflexivity.
  - rewrite IH1 by exact Hnd. apply IH2.
    eapply Permutation_NoDup; [apply Permutation_map; exact H1|exact Hnd].
Qed.

Theorem table_order_independent tbl tbl2 fb n orig r :
  NoDup (map fst tbl) -> Permutation tbl tbl2 ->
  table_update tbl fb n orig r = table_update tbl2 fb n orig r.
Proof.
  intros Hnd Hp. unfold table_update. rewrite (lookup_perm n tbl tbl2 Hnd Hp). reflexivity.
Qed.

(* ---------- when an update is refused ---------- *)
Theorem simple_refuses_iff_negative H n orig r :
  (r < 0 -> simple_update H n orig r = Raise EValueError) /\
  (0 <= r -> simple_update H n orig r = Val (orig + r * (1000037 + H n))).
Proof.
  unfold simple_update. split; intros Hr.
  - apply Z.ltb_lt in Hr. rewrite Hr. reflexivity.
  - apply Z.ltb_ge in Hr. rewrite Hr. reflexivity.
Qed.

Lemma seed_at_beyond seeds r : Z.of_nat (length seeds) <= r -> seed_at seeds r = Raise EValueError.
Proof. intros H. unfold seed_at. apply Z.leb_le in H. rewrite H. reflexivity. Qed.

Lemma seed_at_within seeds r : 0 <= r < Z.of_nat (length seeds) ->
  seed_at seeds r = Val (nth (Z.to_nat r) seeds 0).
Proof.
  intros H. unfold seed_at.
  assert (E : Z.of_nat (length seeds) <=? r = false) by (apply Z.leb_gt; lia). rewrite E.
  destruct (nth_error seeds (Z.to_nat r)) as [s|] eqn:En.
  - f_equal. symmetry. apply nth_error_nth. exact En.
  - apply nth_error_None in En. lia.
Qed.

Theorem table_listed tbl fb n orig r seeds :
  lookup tbl n = Some seeds ->
  (r < 0 -> table_update tbl fb n orig r = Raise EValueError) /\
  (Z.of_nat (length seeds) <= r -> table_update tbl fb n orig r = Raise EValueError) /\
  (0 <= r < Z.of_nat (length seeds) ->
     table_update tbl fb n orig r = Val (nth (Z.to_nat r) seeds 0)).
Proof.
  intros Hl. unfold table_update. rewrite Hl. repeat split.
  - intros Hr. apply Z.ltb_lt in Hr. rewrite Hr. reflexivity.
  - intros Hr. assert (H0 : r <? 0 = false) by (apply Z.ltb_ge; lia). rewrite H0.
    apply seed_at_beyond. exact Hr.
  - intros Hr. assert (H0 : r <? 0 = false) by (apply Z.ltb_ge; lia). rewrite H0.
    apply seed_at_within. exact Hr.
Qed.

Theorem ill_typed_replication_refused f l :
  update_seeds f RIllTyped l = (l, Some ETypeError).
Proof. reflexivity. Qed.

Theorem negative_replication_changes_nothing H u l r e t :
  r < 0 -> l = e :: t -> exists x, update_seeds (updater_fun H u) (RInt r) l = (l, Some x).
Proof.
  intros Hr ->. cbn [update_seeds update_list]. unfold update_entry.
  destruct (e_kind e); try (eexists; reflexivity).
  assert (Hf : updater_fun H u (e_name e) (e_orig e) r = Raise EValueError).
  { apply Z.ltb_lt in Hr. destruct u; cbn; unfold simple_update, table_update; rewrite Hr; reflexivity. }
  rewrite Hf. eexists; reflexivity.
Qed.

(* ---------- fallback ---------- *)
Theorem fallback_used_for_unlisted tbl fb n orig r :
  0 <= r -> lookup tbl n = None -> table_update tbl fb n orig r = fb n orig r.
Proof.
  intros Hr Hl. unfold table_update. rewrite Hl.
  assert (H0 : r <? 0 = false) by (apply Z.ltb_ge; lia). rewrite H0. reflexivity.
Qed.

Theorem fallback_used_for_unlisted_pinned_refuted :
  exists tbl fb n orig r,
    0 <= r /\ lookup tbl n = None /\ is_val (fb n orig r) /\
    table_update_pinned tbl fb n orig r = Raise EKeyError.
Proof.
  exists [([97], [1; 2; 3])], (simple_update str_hash), [98], 2, 1.
  repeat split; try reflexivity; try lia. eexists; reflexivity.
Qed.

(* ---------- the hash ---------- *)
(* pinned tree: the seed depends on the hash function of the process *)
Theorem simple_update_hash_dependent_refuted :
  exists (H1 H2 : name -> Z) n orig r, simple_update H1 n orig r <> simple_update H2 n orig r.
Proof.
  exists (fun _ => 0), (fun _ => 1), [100], 10, 3. cbn. discriminate.
Qed.

(* more to the point: unless two processes hash the name alike, the seeds differ *)
Theorem simple_update_differs_iff_hash_differs H1 H2 n orig r :
  0 < r -> (simple_update H1 n orig r = simple_update H2 n orig r <-> H1 n = H2 n).
Proof.
  intros Hr. unfold simple_update.
  assert (H0 : r <? 0 = false) by (apply Z.ltb_ge; lia). rewrite H0. split.
  - intros E.
    assert (E' : orig + r * (1000037 + H1 n) = orig + r * (1000037 + H2 n)) by congruence.
    assert (E2 : r * (H1 n - H2 n) = 0) by nia.
    apply Z.mul_eq_0 in E2. lia.
  - intros ->. reflexivity.
Qed.

Lemma hash_step_range h c : 0 <= hash_step h c < two32.
Proof. unfold hash_step. apply Z.mod_pos_bound. reflexivity. Qed.

Theorem str_hash_range n : 0 <= str_hash n < two32.
Proof.
  unfold str_hash.
  assert (H : forall l h, 0 <= h < two32 -> 0 <= fold_left hash_step l h < two32).
  { induction l as [|c t IH]; intros h Hh; cbn; [exact Hh|]. apply IH. apply hash_step_range. }
  apply H. unfold two32. lia.
Qed.

(* ---------- the current seed plays no role ---------- *)
Definition same_ident (a b : entry) : Prop :=
  e_kind a = e_kind b /\ e_name a = e_name b /\ e_orig a = e_orig b.

Lemma update_entry_ident f r a b : same_ident a b -> update_entry f r a = update_entry f r b.
Proof. intros [Hk [Hn Ho]]. unfold update_entry. rewrite Hk, Hn, Ho. reflexivity. Qed.

Lemma set_cur_ident a b s : same_ident a b -> set_cur a s = set_cur b s.
Proof. intros [Hk [Hn Ho]]. unfold set_cur. rewrite Hk, Hn, Ho. reflexivity. Qed.

(* two configurations that differ only in the current seeds of the streams get
   exactly the same seeds *)
Theorem update_ignores_current_seeds f r la lb : Forall2 same_ident la lb ->
  forall la', update_list f r la = (la', None) -> update_list f r lb = (la', None).
Proof.
  induction 1 as [|a b ta tb Hab Ht IH]; intros la' H; [exact H|].
  cbn [update_list] in *. rewrite <- (update_entry_ident f r a b Hab).
  destruct (update_entry f r a) as [s|x]; [|discriminate].
  destruct (update_list f r ta) as [ta' xa] eqn:Ea. inversion H; subst.
  rewrite (IH ta' eq_refl). rewrite (set_cur_ident a b s Hab). reflexivity.
Qed.

Lemma update_list_ident f r l : forall l' x, update_list f r l = (l', x) -> Forall2 same_ident l l'.
Proof.
  assert (Hrefl : forall l0, Forall2 same_ident l0 l0).
  { induction l0; constructor; [repeat split|assumption]. }
  induction l as [|e t IH]; intros l' x H; cbn [update_list] in H.
  - inversion H. constructor.
  - destruct (update_entry f r e) as [s|y].
    + destruct (update_list f r t) as [t' x'] eqn:Et. inversion H; subst.
      constructor; [repeat split|eapply IH; reflexivity].
    + inversion H; subst. apply Hrefl.
Qed.

Lemma Forall2_same_ident_sym la lb : Forall2 same_ident la lb -> Forall2 same_ident lb la.
Proof.
  induction 1 as [|a b ta tb [H1 [H2 H3]] Ht IH]; constructor; [repeat split; congruence|exact IH].
Qed.

(* successive updates: what replication r2 assigns does not depend on the
   updates (successful or refused) made before it *)
Theorem update_history_free f r1 r2 l l1 x1 l2 :
  update_list f r1 l = (l1, x1) -> update_list f r2 l = (l2, None) ->
  update_list f r2 l1 = (l2, None).
Proof.
  intros H1 H2. eapply update_ignores_current_seeds; [|exact H2].
  eapply update_list_ident. exact H1.
Qed.

(* ---------- update_seed for one stream ---------- *)
Theorem update_one_refused_unchanged f r i l l' x :
  update_one f r i l = (l', Some x) -> l' = l.
Proof.
  unfold update_one. destruct (nth_error l i) as [e|]; [|intros H; inversion H].
  destruct (e_kind e), r; try (intros H; inversion H; reflexivity).
  destruct (f (e_name e) (e_orig e) r); intros H; inversion H. reflexivity.
Qed.

Theorem update_one_ill_typed_refused f i l e :
  nth_error l i = Some e -> update_one f RIllTyped i l = (l, Some ETypeError).
Proof. intros H. unfold update_one. rewrite H. destruct (e_kind e); reflexivity. Qed.

(* ---------- the repaired updaters, spelled out ---------- *)
Theorem repaired_updater_spec u n orig r : 0 <= r ->
  updater_fun str_hash u n orig r =
  match u with
  | USimple => Val (orig + r * (1000037 + str_hash n))
  | UTable tbl fb =>
      match lookup tbl n with
      | Some seeds => if r <? Z.of_nat (length seeds) then Val (nth (Z.to_nat r) seeds 0)
                      else Raise EValueError
      | None => fb_fun table_update str_hash fb n orig r
      end
  end.
Proof.
  intros Hr. assert (H0 : r <? 0 = false) by (apply Z.ltb_ge; lia).
  destruct u as [|tbl fb]; cbn [updater_fun].
  - unfold simple_update. rewrite H0. reflexivity.
  - unfold table_update. rewrite H0. destruct (lookup tbl n) as [seeds|]; [|reflexivity].
    destruct (r <? Z.of_nat (length seeds)) eqn:E.
    + apply Z.ltb_lt in E. apply seed_at_within. lia.
    + apply Z.ltb_ge in E. apply seed_at_beyond. exact E.
Qed.

(* a replication number beyond a stream's seed list: the update is refused at
   that stream, which keeps its seed (as do all streams after it) *)
Theorem beyond_list_refused_stream_unchanged tbl fb r pre e post seeds :
  e_kind e = KStream -> lookup tbl (e_name e) = Some seeds -> Z.of_nat (length seeds) <= r ->
  (forall a, In a pre -> is_val (update_entry (table_update tbl fb) r a)) ->
  update_list (table_update tbl fb) r (pre ++ e :: post) =
  (map (apply_update (table_update tbl fb) r) pre ++ e :: post, Some EValueError).
Proof.
  intros Hk Hl Hr. induction pre as [|a pre IH]; intros Hv.
  - cbn [app map update_list]. unfold update_entry. rewrite Hk.
    destruct (table_listed tbl fb (e_name e) (e_orig e) r seeds Hl) as [H1 [H2 _]].
    destruct (Z_lt_ge_dec r 0) as [Hneg|Hpos].
    + rewrite (H1 Hneg). reflexivity.
    + rewrite (H2 Hr). reflexivity.
  - cbn [app map update_list]. unfold apply_update at 1.
    destruct (Hv a (or_introl eq_refl)) as [s Hs]. rewrite Hs.
    rewrite IH; [reflexivity|]. intros a' Ha'. apply Hv. right. exact Ha'.
Qed.

(* a read-only query between two updates changes no stream, whatever it is asked and whatever it answers *)
Lemma query_changes_nothing (f : name -> Z -> Z -> res) (listed : bool) (l : list entry) :
  fst (do_call f (CQuery listed) l) = l /\
  (snd (do_call f (CQuery listed) l) = None <-> listed = true).
Proof. destruct listed; cbn; split; try reflexivity; split; intros H; try reflexivity; discriminate. Qed.
