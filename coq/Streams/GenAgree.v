(* C12 / C13 -- the model regenerated from the source IS the proved model.

   Streams/Gen_Streams.v is written by translator/py2gallina_streams.py from the
   text of src/pydsol/core/streams.py of the tree under test (Python's `ast`,
   fail-closed): module MT holds the method bodies of MersenneTwister over the
   abstract generator of Streams/Stream.v, module Upd those of
   SimpleStreamUpdater.update_seed, StreamSeedUpdater.update_seed and
   StreamUpdater.update_seeds over the types of Streams/Seeds.v, module Inf those
   of StreamInformation.__init__ / add_stream / get_stream and
   StreamSeedInformation.__init__ (with the default values of their parameters)
   over the store of stream objects of Streams/Info.v.

   This file proves, for every translated method, that the generated definition
   equals the hand-written model function -- for ALL states and arguments and for
   EVERY generator function raw -- and that whole histories computed with the
   generated definitions equal the histories of the models (gen_srun = srun,
   gen_case_ok = case_ok: the very relations the correspondence runs evaluate).
   One hypothesis appears, where the model itself relies on it: the wide-range
   branch of next_int scales the generator output u = k / 2^53 by 2^53 in
   binary64 and the model writes k; these agree for every k the generator can
   deliver (0 <= k < 2^53, the contract of random.Random.random).

   Every theorem of Props/C12.v and Props/C13.v is about the hand-written
   functions, hence -- by rewriting with the equalities below -- about the
   current source text.  The file is compiled against the generated file on
   every run of the checks; when a change of streams.py makes an equality false,
   it no longer compiles and the check reports the broken tie. *)
From Coq Require Import ZArith List Bool Lia.
From PV Require Streams.Stream Streams.StreamProofs Streams.Seeds Streams.SeedsProofs Streams.Info Streams.InfoProofs.
From PV Require Import Streams.Gen_Streams.
Import ListNotations.

(* ====================================================================== *)
(* C12: MersenneTwister                                                    *)
(* ====================================================================== *)
Module C12Agree.
Import Stream StreamProofs MT.
Local Open Scope Z_scope.

(* how the harness reads a method's answer: the model's observable [out] *)
Definition out_float (r : pyret Z) : out := match r with Ret k => OFloat k | Exc e => ORaise e end.
Definition out_int (r : pyret Z) : out := match r with Ret z => OInt z | Exc e => ORaise e end.
Definition out_bool (r : pyret bool) : out := match r with Ret b => OBool b | Exc e => ORaise e end.
Definition out_seed (r : pyret Z) : out := match r with Ret z => OSeed z | Exc e => ORaise e end.
Definition out_unit (r : pyret unit) : out := match r with Ret _ => ONone | Exc e => ORaise e end.
Definition obs {A} (f : pyret A -> out) (x : stream * pyret A) : stream * out := (fst x, f (snd x)).

(* the integer-draw formula of the generated next_int, as a function of the generator output *)
Definition gen_nint (lo hi k : Z) : out :=
  out_int (snd (gen_MersenneTwister_next_int (fun _ _ => k) (fresh 0) (BInt lo) (BInt hi))).

Theorem gen_MersenneTwister_next_float_eq : forall raw nint m,
  step raw nint m NextFloat = obs out_float (gen_MersenneTwister_next_float raw m).
Proof. reflexivity. Qed.

Theorem gen_MersenneTwister_next_bool_eq : forall raw nint m,
  step raw nint m NextBool = obs out_bool (gen_MersenneTwister_next_bool raw m).
Proof. reflexivity. Qed.

(* for every generator: one draw, then the generated formula applied to it *)
Theorem gen_MersenneTwister_next_int_eq : forall raw m lo hi,
  step raw gen_nint m (NextInt lo hi) = obs out_int (gen_MersenneTwister_next_int raw m (BInt lo) (BInt hi)).
Proof.
  intros raw m lo hi. unfold gen_nint, gen_MersenneTwister_next_int, obs, step, draw, g_random, py_bound_int.
  cbn [fst snd gen fresh gseed gpos cur orig saved].
  repeat match goal with
         | |- context [if ?c then _ else _] => destruct c
         | |- context [match py_mul_int_float ?a ?b with _ => _ end] => destruct (py_mul_int_float a b)
         end; reflexivity.
Qed.

Lemma rne53_two53_mul k : 0 <= k < two53 -> rne53 (two53 * k) = two53 * k.
Proof.
  intros Hk. set (x := two53 * k).
  destruct (Z_le_gt_dec (bitlen x - 53) 0) as [Hs|Hs]; [apply rne53_small; lia|].
  rewrite rne53_unfold by lia. cbv zeta. set (s := bitlen x - 53) in *.
  assert (Hx : 0 < x).
  { destruct (Z.eq_dec k 0) as [E|E]; [|unfold x, two53; lia].
    exfalso. unfold s, x in Hs. rewrite E, Z.mul_0_r in Hs. cbn in Hs. lia. }
  assert (Hs53 : s <= 53).
  { assert (bitlen x <= 106); [|lia]. apply bitlen_lt_pow2; [lia|lia|].
    unfold x. change (2 ^ 106) with (two53 * two53). unfold two53 in *. nia. }
  assert (Hdiv : x = 2 ^ s * (2 ^ (53 - s) * k)).
  { unfold x. rewrite Z.mul_assoc, <- Z.pow_add_r by lia.
    replace (s + (53 - s)) with 53 by lia. reflexivity. }
  assert (Hp : 0 < 2 ^ s) by (apply Z.pow_pos_nonneg; lia).
  assert (Hq : x / 2 ^ s = 2 ^ (53 - s) * k).
  { rewrite Hdiv at 1. rewrite Z.mul_comm, Z.div_mul by lia. reflexivity. }
  rewrite Hq. replace (x - 2 ^ (53 - s) * k * 2 ^ s) with 0 by (rewrite Hdiv at 1; ring).
  assert (Hh : 0 < 2 ^ (s - 1)) by (apply Z.pow_pos_nonneg; lia).
  destruct (2 ^ (s - 1) <? 0) eqn:E1; [apply Z.ltb_lt in E1; lia|].
  destruct (0 =? 2 ^ (s - 1)) eqn:E2; [apply Z.eqb_eq in E2; lia|].
  cbn [orb andb]. rewrite Hdiv. ring.
Qed.

(* the generated formula is the model's (repaired) next_int on every output the generator can deliver *)
Theorem gen_nint_eq : forall lo hi k, 0 <= k < two53 -> gen_nint lo hi k = next_int_fixed lo hi k.
Proof.
  intros lo hi k Hk. unfold gen_nint, gen_MersenneTwister_next_int, next_int_fixed, g_random, py_bound_int.
  cbn [fst snd gen fresh gseed gpos].
  change 9007199254740992 with two53.
  destruct (hi - lo + 1 <? two53).
  - unfold py_mul_int_float, next_int_b64, py_floor.
    destruct (float_limit <=? Z.abs (rne53s (hi - lo + 1))); reflexivity.
  - unfold py_mul_int_float.
    assert (E1 : rne53s two53 = two53) by reflexivity.
    rewrite E1.
    assert (E2 : (float_limit <=? Z.abs two53) = false) by reflexivity.
    rewrite E2.
    assert (E3 : rne53s (two53 * k) = two53 * k).
    { unfold rne53s. assert (E : (two53 * k <? 0) = false) by (apply Z.ltb_ge; unfold two53; lia).
      rewrite E. apply rne53_two53_mul. exact Hk. }
    rewrite E3. cbn [snd out_int]. unfold py_trunc, next_int_exact.
    rewrite (Z.mul_comm two53 k), Z.quot_mul by (unfold two53; lia).
    rewrite Z.shiftr_div_pow2 by lia. reflexivity.
Qed.

Theorem gen_MersenneTwister_next_int_ill_typed_eq : forall raw nint m a b,
  a = BNotNumber \/ b = BNotNumber ->
  step raw nint m NextIntIllTyped = obs out_int (gen_MersenneTwister_next_int raw m a b).
Proof.
  intros raw nint m a b [E|E]; subst; [destruct b | destruct a]; reflexivity.
Qed.

Theorem gen_MersenneTwister_seed_eq : forall raw nint m,
  step raw nint m QSeed = obs out_seed (gen_MersenneTwister_seed m).
Proof. reflexivity. Qed.

Theorem gen_MersenneTwister_original_seed_eq : forall raw nint m,
  step raw nint m QOrig = obs out_seed (gen_MersenneTwister_original_seed m).
Proof. reflexivity. Qed.

Theorem gen_MersenneTwister_set_seed_eq : forall raw nint m z,
  step raw nint m (SetSeed z) = obs out_unit (gen_MersenneTwister_set_seed m z).
Proof. reflexivity. Qed.

Theorem gen_MersenneTwister_reset_eq : forall raw nint m,
  step raw nint m Reset = obs out_unit (gen_MersenneTwister_reset m).
Proof. reflexivity. Qed.

(* save_state hands out the generator state; the model's Save remembers the object handed out *)
Definition remember (x : stream * pyret gstate) : stream * out :=
  match snd x with
  | Ret g => (mkS (gen (fst x)) (cur (fst x)) (orig (fst x)) (g :: saved (fst x)), ONone)
  | Exc e => (fst x, ORaise e)
  end.

Theorem gen_MersenneTwister_save_state_eq : forall raw nint m,
  step raw nint m Save = remember (gen_MersenneTwister_save_state m).
Proof. reflexivity. Qed.

Theorem gen_MersenneTwister_restore_state_eq : forall raw nint m k,
  step raw nint m (Restore k) =
  match nth_error (saved m) k with
  | Some g => obs out_unit (gen_MersenneTwister_restore_state m (StObj g))
  | None => (m, ORaise EBadState)
  end.
Proof. intros raw nint m k. cbn. destruct (nth_error (saved m) k); reflexivity. Qed.

Theorem gen_MersenneTwister_restore_garbage_eq : forall raw nint m,
  step raw nint m RestoreGarbage = obs out_unit (gen_MersenneTwister_restore_state m StGarbage).
Proof. reflexivity. Qed.

(* the constructor: whatever the new object held and whatever state Random() starts in, an int seed gives
   the model's fresh stream, None gives the fresh stream of the integer the clock supplies, anything else
   is refused *)
Theorem gen_MersenneTwister_init_eq : forall clock g0 m0 z,
  saved m0 = [] ->
  gen_MersenneTwister___init__ clock g0 m0 (SeedInt z) = (fresh z, Ret tt) /\
  gen_MersenneTwister___init__ clock g0 m0 SeedNone = (fresh clock, Ret tt) /\
  gen_MersenneTwister___init__ clock g0 m0 SeedOther = (m0, Exc ETypeError).
Proof.
  intros clock g0 m0 z H. unfold gen_MersenneTwister___init__, gen_MersenneTwister_set_seed, fresh.
  cbn. rewrite H. repeat split.
Qed.

(* ---------- whole histories ---------- *)
Definition gen_step (raw : Z -> nat -> Z) (m : stream) (op : sop) : stream * out :=
  match op with
  | NextFloat => obs out_float (gen_MersenneTwister_next_float raw m)
  | NextInt lo hi => obs out_int (gen_MersenneTwister_next_int raw m (BInt lo) (BInt hi))
  | NextBool => obs out_bool (gen_MersenneTwister_next_bool raw m)
  | SetSeed z => obs out_unit (gen_MersenneTwister_set_seed m z)
  | Reset => obs out_unit (gen_MersenneTwister_reset m)
  | Save => remember (gen_MersenneTwister_save_state m)
  | Restore k =>
      match nth_error (saved m) k with
      | Some g => obs out_unit (gen_MersenneTwister_restore_state m (StObj g))
      | None => (m, ORaise EBadState)
      end
  | QSeed => obs out_seed (gen_MersenneTwister_seed m)
  | QOrig => obs out_seed (gen_MersenneTwister_original_seed m)
  | NextIntIllTyped => obs out_int (gen_MersenneTwister_next_int raw m BNotNumber BNotNumber)
  | RestoreGarbage => obs out_unit (gen_MersenneTwister_restore_state m StGarbage)
  | RestoreFrom _ _ => (m, ORaise ENoStream)
  end.

Theorem gen_step_eq : forall raw m op, gen_step raw m op = step raw gen_nint m op.
Proof.
  intros raw m op. destruct op; unfold gen_step.
  - symmetry; apply gen_MersenneTwister_next_float_eq.
  - symmetry; apply gen_MersenneTwister_next_int_eq.
  - symmetry; apply gen_MersenneTwister_next_bool_eq.
  - symmetry; apply gen_MersenneTwister_set_seed_eq.
  - symmetry; apply gen_MersenneTwister_reset_eq.
  - symmetry; apply gen_MersenneTwister_save_state_eq.
  - symmetry; apply gen_MersenneTwister_restore_state_eq.
  - reflexivity.
  - symmetry; apply gen_MersenneTwister_seed_eq.
  - symmetry; apply gen_MersenneTwister_original_seed_eq.
  - symmetry; apply (gen_MersenneTwister_next_int_ill_typed_eq raw gen_nint m); left; reflexivity.
  - symmetry; apply gen_MersenneTwister_restore_garbage_eq.
Qed.

Fixpoint gen_run (raw : Z -> nat -> Z) (m : stream) (ops : list sop) : stream * list out :=
  match ops with
  | [] => (m, [])
  | op :: r => let '(m1, o) := gen_step raw m op in
               let '(m2, os) := gen_run raw m1 r in (m2, o :: os)
  end.

Theorem gen_run_eq : forall raw ops m, gen_run raw m ops = run raw gen_nint m ops.
Proof.
  intros raw ops. induction ops as [|op r IH]; intros m; [reflexivity|].
  cbn [gen_run run]. rewrite gen_step_eq. destruct (step raw gen_nint m op) as [m1 o].
  rewrite IH. reflexivity.
Qed.

(* a store of several objects; a state saved by stream j handed to restore_state of stream i *)
Definition gen_sstep (raw : Z -> nat -> Z) (st : list stream) (iop : nat * sop) : list stream * out :=
  match snd iop with
  | RestoreFrom j k =>
      match nth_error st (fst iop), nth_error st j with
      | Some m, Some mj =>
          match nth_error (saved mj) k with
          | Some g => let '(m', o) := obs out_unit (gen_MersenneTwister_restore_state m (StObj g)) in
                      (upd st (fst iop) m', o)
          | None => (st, ORaise EBadState)
          end
      | _, _ => (st, ORaise ENoStream)
      end
  | _ =>
      match nth_error st (fst iop) with
      | Some m => let '(m', o) := gen_step raw m (snd iop) in (upd st (fst iop) m', o)
      | None => (st, ORaise ENoStream)
      end
  end.

Theorem gen_sstep_eq : forall raw st iop, gen_sstep raw st iop = sstep raw gen_nint st iop.
Proof.
  intros raw st [i op]. unfold gen_sstep, sstep. cbn [fst snd].
  destruct op; try (destruct (nth_error st i) as [m|]; [rewrite gen_step_eq|]; reflexivity).
  destruct (nth_error st i) as [m|]; [|reflexivity].
  destruct (nth_error st j) as [mj|]; [|reflexivity].
  destruct (nth_error (saved mj) k); reflexivity.
Qed.

Fixpoint gen_srun (raw : Z -> nat -> Z) (st : list stream) (ops : list (nat * sop)) : list stream * list out :=
  match ops with
  | [] => (st, [])
  | iop :: r => let '(st1, o) := gen_sstep raw st iop in
                let '(st2, os) := gen_srun raw st1 r in (st2, o :: os)
  end.

Theorem gen_srun_eq : forall raw ops st, gen_srun raw st ops = srun raw gen_nint st ops.
Proof.
  intros raw ops. induction ops as [|iop r IH]; intros st; [reflexivity|].
  cbn [gen_srun srun]. rewrite gen_sstep_eq. destruct (sstep raw gen_nint st iop) as [st1 o].
  rewrite IH. reflexivity.
Qed.

(* two integer-draw formulas that agree on the outputs of the generator give the same histories *)
Lemma step_nint_ext raw n1 n2 :
  (forall lo hi s p, n1 lo hi (raw s p) = n2 lo hi (raw s p)) ->
  forall m op, step raw n1 m op = step raw n2 m op.
Proof. intros H m op. destruct op; try reflexivity. cbn. rewrite H. reflexivity. Qed.

Lemma sstep_nint_ext raw n1 n2 :
  (forall lo hi s p, n1 lo hi (raw s p) = n2 lo hi (raw s p)) ->
  forall st iop, sstep raw n1 st iop = sstep raw n2 st iop.
Proof.
  intros H st [i op]. unfold sstep. cbn [fst snd].
  destruct op; try reflexivity;
    (destruct (nth_error st i) as [m|]; [|reflexivity]; rewrite (step_nint_ext raw n1 n2 H); reflexivity).
Qed.

Lemma srun_nint_ext raw n1 n2 :
  (forall lo hi s p, n1 lo hi (raw s p) = n2 lo hi (raw s p)) ->
  forall ops st, srun raw n1 st ops = srun raw n2 st ops.
Proof.
  intros H ops. induction ops as [|iop r IH]; intros st; [reflexivity|].
  cbn [srun]. rewrite (sstep_nint_ext raw n1 n2 H). destruct (sstep raw n2 st iop) as [st1 o].
  rewrite IH. reflexivity.
Qed.

(* on a generator that keeps its contract the generated histories are the histories of the model the
   C12 theorems and the correspondence run are about *)
Theorem gen_srun_eq_model : forall raw,
  (forall s n, 0 <= raw s n < two53) ->
  forall ops st, gen_srun raw st ops = srun raw next_int_fixed st ops.
Proof.
  intros raw Hraw ops st. rewrite gen_srun_eq.
  apply srun_nint_ext. intros lo hi s p. apply gen_nint_eq, Hraw.
Qed.

Theorem mt_generated_agree :
  (forall raw nint m, step raw nint m NextFloat = obs out_float (gen_MersenneTwister_next_float raw m)) /\
  (forall raw nint m, step raw nint m NextBool = obs out_bool (gen_MersenneTwister_next_bool raw m)) /\
  (forall raw m lo hi, step raw gen_nint m (NextInt lo hi) =
                       obs out_int (gen_MersenneTwister_next_int raw m (BInt lo) (BInt hi))) /\
  (forall lo hi k, 0 <= k < two53 -> gen_nint lo hi k = next_int_fixed lo hi k) /\
  (forall raw nint m a b, a = BNotNumber \/ b = BNotNumber ->
     step raw nint m NextIntIllTyped = obs out_int (gen_MersenneTwister_next_int raw m a b)) /\
  (forall raw nint m, step raw nint m QSeed = obs out_seed (gen_MersenneTwister_seed m)) /\
  (forall raw nint m, step raw nint m QOrig = obs out_seed (gen_MersenneTwister_original_seed m)) /\
  (forall raw nint m z, step raw nint m (SetSeed z) = obs out_unit (gen_MersenneTwister_set_seed m z)) /\
  (forall raw nint m, step raw nint m Reset = obs out_unit (gen_MersenneTwister_reset m)) /\
  (forall raw nint m, step raw nint m Save = remember (gen_MersenneTwister_save_state m)) /\
  (forall raw nint m k, step raw nint m (Restore k) =
     match nth_error (saved m) k with
     | Some g => obs out_unit (gen_MersenneTwister_restore_state m (StObj g))
     | None => (m, ORaise EBadState)
     end) /\
  (forall raw nint m, step raw nint m RestoreGarbage = obs out_unit (gen_MersenneTwister_restore_state m StGarbage)) /\
  (forall clock g0 m0 z, saved m0 = [] ->
     gen_MersenneTwister___init__ clock g0 m0 (SeedInt z) = (fresh z, Ret tt) /\
     gen_MersenneTwister___init__ clock g0 m0 SeedNone = (fresh clock, Ret tt) /\
     gen_MersenneTwister___init__ clock g0 m0 SeedOther = (m0, Exc ETypeError)) /\
  (forall raw ops st, gen_srun raw st ops = srun raw gen_nint st ops) /\
  (forall raw, (forall s n, 0 <= raw s n < two53) ->
     forall ops st, gen_srun raw st ops = srun raw next_int_fixed st ops).
Proof.
  repeat match goal with |- _ /\ _ => split end.
  - exact gen_MersenneTwister_next_float_eq.
  - exact gen_MersenneTwister_next_bool_eq.
  - exact gen_MersenneTwister_next_int_eq.
  - exact gen_nint_eq.
  - exact gen_MersenneTwister_next_int_ill_typed_eq.
  - exact gen_MersenneTwister_seed_eq.
  - exact gen_MersenneTwister_original_seed_eq.
  - exact gen_MersenneTwister_set_seed_eq.
  - exact gen_MersenneTwister_reset_eq.
  - exact gen_MersenneTwister_save_state_eq.
  - exact gen_MersenneTwister_restore_state_eq.
  - exact gen_MersenneTwister_restore_garbage_eq.
  - exact gen_MersenneTwister_init_eq.
  - exact gen_srun_eq.
  - exact gen_srun_eq_model.
Qed.

End C12Agree.

(* ====================================================================== *)
(* C13: the seed updaters                                                  *)
(* ====================================================================== *)
Module C13Agree.
Import Seeds SeedsProofs Upd.
Local Open Scope Z_scope.

Definition oexn (r : pyret unit) : option exn := match r with Ret _ => None | Exc e => Some e end.
Definition to_model (x : list entry * pyret unit) : list entry * option exn := (fst x, oexn (snd x)).

(* what update_seed(id, stream, r) of an updater that computes the function f does, on ALL arguments:
   anything ill-typed is refused with TypeError, a refusal of f leaves the stream as it was, a value of f
   becomes the stream's seed *)
Definition upd_spec (f : name -> Z -> Z -> res) (k : pykey) (st : pystream) (r : repl) : pystream * pyret unit :=
  match k, st, r with
  | KeyStr n, StreamObj o c, RInt z =>
      match f n o z with
      | Val v => (StreamObj o v, Ret tt)
      | Raise x => (st, Exc x)
      end
  | _, _, _ => (st, Exc ETypeError)
  end.

(* ---- tactics that do not depend on the SHAPE of the generated text: case analysis on every condition the two
   sides test (whatever their nesting and order), boolean facts turned into arithmetic ones, lia ---- *)
Ltac b2p := repeat match goal with
  | H : negb _ = true |- _ => apply negb_true_iff in H
  | H : negb _ = false |- _ => apply negb_false_iff in H
  | H : (_ && _) = true |- _ => apply andb_true_iff in H; destruct H
  | H : (_ || _) = false |- _ => apply orb_false_iff in H; destruct H
  | H : (_ <? _) = true |- _ => apply Z.ltb_lt in H
  | H : (_ <? _) = false |- _ => apply Z.ltb_ge in H
  | H : (_ <=? _) = true |- _ => apply Z.leb_le in H
  | H : (_ <=? _) = false |- _ => apply Z.leb_gt in H
  | H : (_ =? _) = true |- _ => apply Z.eqb_eq in H
  | H : (_ =? _) = false |- _ => apply Z.eqb_neq in H
  end.
Ltac py_cbn :=
  cbn [py_key_is_str py_stream_is_stream py_repl_is_int py_repl_int py_key_name py_stream_orig py_stream_cur
       py_stream_set_seed negb andb orb fst snd]; cbv zeta.
Ltac split_step :=
  match goal with
  | |- context [if ?c then _ else _] =>
      lazymatch c with
      | context [if _ then _ else _] => fail
      | context [match _ with _ => _ end] => fail
      | _ => destruct c eqn:?
      end
  | |- context [match ?x with _ => _ end] =>
      lazymatch x with
      | context [if _ then _ else _] => fail
      | context [match _ with _ => _ end] => fail
      | _ => destruct x eqn:?
      end
  end.
Ltac split_all := py_cbn; repeat (split_step; py_cbn).

Lemma fold_left_ext {A B} (f g : A -> B -> A) : (forall a b, f a b = g a b) ->
  forall l a, fold_left f l a = fold_left g l a.
Proof. intros H l. induction l as [|b t IH]; intros a; [reflexivity|]. cbn. rewrite H. apply IH. Qed.

Lemma hash_step_range a c : 0 <= hash_step a c < two32.
Proof. unfold hash_step. apply Z.mod_pos_bound. reflexivity. Qed.

(* a loop over the characters of the name whose body does what hash_step does on every accumulator a 32-bit hash can
   take is the model's 32-bit polynomial hash -- whatever the body looks like *)
Lemma name_hash_fold (f : Z -> Z -> Z) n :
  (forall a c, 0 <= a < two32 -> f a c = hash_step a c) ->
  fold_left f (py_str_chars n) 0 = str_hash n.
Proof.
  intros H. unfold str_hash, py_str_chars.
  assert (G : forall l a, 0 <= a < two32 -> fold_left f l a = fold_left hash_step l a).
  { induction l as [|c t IH]; intros a Ha; [reflexivity|]. cbn [fold_left]. rewrite (H a c Ha).
    apply IH. apply hash_step_range. }
  apply G. unfold two32. lia.
Qed.

Lemma land_mask32 x : Z.land x 4294967295 = x mod two32.
Proof. change 4294967295 with (Z.ones 32). rewrite Z.land_ones by lia. reflexivity. Qed.

Ltac hash_body :=
  let a := fresh "a" in let c := fresh "c" in let Ha := fresh "Ha" in
  intros a c Ha; unfold hash_step; cbv zeta;
  repeat (split_step; cbv zeta); b2p;
  rewrite ?land_mask32; unfold two32 in *;
  first [reflexivity | lia | (f_equal; lia)].

Theorem gen_SimpleStreamUpdater_update_seed_eq : forall k st r,
  gen_SimpleStreamUpdater_update_seed k st r = upd_spec (simple_update str_hash) k st r.
Proof.
  intros [n|] [o c|] [z|]; unfold gen_SimpleStreamUpdater_update_seed, upd_spec, simple_update; py_cbn;
    try reflexivity.
  repeat match goal with
         | |- context [fold_left ?f (py_str_chars ?m) 0] => rewrite (name_hash_fold f m) by hash_body
         end.
  split_all; b2p; first [reflexivity | lia].
Qed.

Theorem gen_StreamSeedUpdater_update_seed_eq : forall s k st r,
  gen_StreamSeedUpdater_update_seed s k st r = upd_spec (table_update (ssu_seeds s) (ssu_fallback s)) k st r.
Proof.
  intros s [n|] [o c|] [z|]; unfold gen_StreamSeedUpdater_update_seed, upd_spec, table_update, seed_at, py_call_updater;
    py_cbn; try reflexivity;
    try solve [split_all; b2p; first [reflexivity | lia]].
  split_all; b2p;
    first [ reflexivity | lia
          | match goal with
            | H : nth_error ?l ?i = _ |- _ => rewrite (nth_error_nth' l 0) in H by lia; inversion H; subst; reflexivity
            end
          | match goal with
            | H : nth_error ?l ?i = None |- _ => apply nth_error_None in H; lia
            end ].
Qed.

(* an updater that does what f says, seen entry by entry *)
Lemma with_stream_same e : with_stream e (stream_of e) = e.
Proof. destruct e as [[| |] n o c]; reflexivity. Qed.

Lemma upd_spec_entry f z e :
  let '(st, r) := upd_spec f (key_of e) (stream_of e) (RInt z) in
  match update_entry f z e with
  | Val v => with_stream e st = set_cur e v /\ r = Ret tt
  | Raise x => with_stream e st = e /\ r = Exc x
  end.
Proof.
  destruct e as [[| |] n o c]; unfold update_entry, upd_spec, key_of, stream_of; cbn [e_kind e_name e_orig e_cur].
  - destruct (f n o z); split; reflexivity.
  - split; reflexivity.
  - split; reflexivity.
Qed.

Theorem gen_StreamUpdater_update_seeds_eq : forall upd f,
  (forall k st r, upd k st r = upd_spec f k st r) ->
  forall l r, to_model (gen_StreamUpdater_update_seeds upd l r) = update_seeds f r l.
Proof.
  intros upd f H l [z|]; [|reflexivity].
  unfold gen_StreamUpdater_update_seeds, update_seeds.
  cbn [py_repl_is_int negb].
  set (body := fun e_1 : entry => _).
  assert (L : forall l, to_model (py_for_entries body l) = update_list f z l).
  { induction l0 as [|e t IH]; [reflexivity|].
    cbn [py_for_entries update_list]. unfold body at 1. rewrite H.
    pose proof (upd_spec_entry f z e) as S.
    destruct (upd_spec f (key_of e) (stream_of e) (RInt z)) as [st r].
    destruct (update_entry f z e) as [v|x]; destruct S as [S1 S2]; subst r; rewrite S1.
    - unfold to_model in IH. destruct (py_for_entries body t) as [t' r'].
      destruct (update_list f z t) as [t2 x2]. cbn in IH. inversion IH; subst. reflexivity.
    - reflexivity. }
  specialize (L l). unfold to_model in *.
  destruct (py_for_entries body l) as [d r]. destruct r; exact L.
Qed.

(* update_seed for the i-th entry of the dict alone *)
Definition gen_update_one (upd : pykey -> pystream -> repl -> pystream * pyret unit) (r : repl) (i : nat)
  (l : list entry) : list entry * option exn :=
  match nth_error l i with
  | None => (l, None)
  | Some e => let '(st, x) := upd (key_of e) (stream_of e) r in (replace_nth l i (with_stream e st), oexn x)
  end.

Lemma replace_nth_same : forall l i e, nth_error l i = Some e -> replace_nth l i e = l.
Proof.
  induction l as [|x t IH]; intros [|i] e H; cbn in *; try discriminate.
  - inversion H; reflexivity.
  - rewrite IH by exact H. reflexivity.
Qed.

Theorem gen_update_one_eq : forall upd f,
  (forall k st r, upd k st r = upd_spec f k st r) ->
  forall r i l, gen_update_one upd r i l = update_one f r i l.
Proof.
  intros upd f H r i l. unfold gen_update_one, update_one.
  destruct (nth_error l i) as [e|] eqn:E; [|reflexivity]. rewrite H.
  destruct r as [z|].
  - pose proof (upd_spec_entry f z e) as S.
    destruct (upd_spec f (key_of e) (stream_of e) (RInt z)) as [st x].
    unfold update_entry in S.
    destruct (e_kind e) eqn:K.
    + destruct (f (e_name e) (e_orig e) z) as [v|y]; destruct S as [S1 S2]; subst x; rewrite S1; cbn [oexn].
      * reflexivity.
      * rewrite (replace_nth_same l i e E). reflexivity.
    + destruct S as [S1 S2]; subst x; rewrite S1, (replace_nth_same l i e E). reflexivity.
    + destruct S as [S1 S2]; subst x; rewrite S1, (replace_nth_same l i e E). reflexivity.
  - assert (X : upd_spec f (key_of e) (stream_of e) RIllTyped = (stream_of e, Exc ETypeError)).
    { unfold upd_spec. destruct (key_of e); destruct (stream_of e); reflexivity. }
    rewrite X, with_stream_same, (replace_nth_same l i e E). cbn [oexn].
    destruct (e_kind e); reflexivity.
Qed.

(* ---------- the updater configurations of the correspondence, built from the generated methods ---------- *)
(* an updater object used as a fallback, as the function py_call_updater applies *)
Definition fun_of_upd (upd : pykey -> pystream -> repl -> pystream * pyret unit) : name -> Z -> Z -> res :=
  fun n o r =>
    match upd (KeyStr n) (StreamObj o o) (RInt r) with
    | (StreamObj _ v, Ret _) => Val v
    | (_, Exc x) => Raise x
    | (StreamOther, Ret _) => Raise ETypeError
    end.

Lemma fun_of_upd_spec f n o r : fun_of_upd (upd_spec f) n o r = f n o r.
Proof. unfold fun_of_upd, upd_spec. destruct (f n o r); reflexivity. Qed.

Definition gen_simple_fun : name -> Z -> Z -> res := fun_of_upd gen_SimpleStreamUpdater_update_seed.

Definition gen_fb_fun (fb : fbkind) : name -> Z -> Z -> res :=
  match fb with
  | FSimple => gen_simple_fun
  | FCustom a b => fun n orig r => Val (orig + a * r + b * Z.of_nat (length n))
  | FNested tbl => fun_of_upd (gen_StreamSeedUpdater_update_seed (mkSSU tbl gen_simple_fun))
  end.

Definition gen_updater (u : updater) : pykey -> pystream -> repl -> pystream * pyret unit :=
  match u with
  | USimple => gen_SimpleStreamUpdater_update_seed
  | UTable tbl fb => gen_StreamSeedUpdater_update_seed (mkSSU tbl (gen_fb_fun fb))
  end.

Lemma gen_simple_fun_eq n o r : gen_simple_fun n o r = simple_update str_hash n o r.
Proof.
  unfold gen_simple_fun, fun_of_upd. rewrite gen_SimpleStreamUpdater_update_seed_eq.
  apply (fun_of_upd_spec (simple_update str_hash)).
Qed.

Lemma table_update_ext tbl f g : (forall n o r, f n o r = g n o r) ->
  forall n o r, table_update tbl f n o r = table_update tbl g n o r.
Proof. intros H n o r. unfold table_update. destruct (r <? 0); [reflexivity|]. destruct (lookup tbl n); [reflexivity|apply H]. Qed.

Lemma upd_spec_ext f g : (forall n o r, f n o r = g n o r) ->
  forall k st r, upd_spec f k st r = upd_spec g k st r.
Proof. intros H [n|] [o c|] [z|]; try reflexivity. unfold upd_spec. rewrite H. reflexivity. Qed.

Lemma gen_fb_fun_eq fb n o r : gen_fb_fun fb n o r = fb_fun table_update str_hash fb n o r.
Proof.
  destruct fb as [|a b|tbl]; cbn [gen_fb_fun fb_fun].
  - apply gen_simple_fun_eq.
  - reflexivity.
  - unfold fun_of_upd. rewrite gen_StreamSeedUpdater_update_seed_eq. cbn [ssu_seeds ssu_fallback].
    rewrite (upd_spec_ext _ _ (table_update_ext tbl _ _ gen_simple_fun_eq)).
    apply (fun_of_upd_spec (table_update tbl (simple_update str_hash))).
Qed.

Theorem gen_updater_eq : forall u k st r,
  gen_updater u k st r = upd_spec (updater_fun str_hash u) k st r.
Proof.
  intros [|tbl fb] k st r; cbn [gen_updater updater_fun].
  - apply gen_SimpleStreamUpdater_update_seed_eq.
  - rewrite gen_StreamSeedUpdater_update_seed_eq. cbn [ssu_seeds ssu_fallback].
    apply upd_spec_ext. apply table_update_ext. apply gen_fb_fun_eq.
Qed.

(* ---------- whole histories: the relation the correspondence run evaluates ---------- *)
Definition gen_do_call (upd : pykey -> pystream -> repl -> pystream * pyret unit) (c : call) (l : list entry)
  : list entry * option exn :=
  match c with
  | CAll r => to_model (gen_StreamUpdater_update_seeds upd l r)
  | COne i r => gen_update_one upd r i l
  | CQuery listed => (l, if listed then None else Some EKeyError)      (* the query methods are not translated *)
  end.

Theorem gen_do_call_eq : forall u c l, gen_do_call (gen_updater u) c l = do_call (updater_fun str_hash u) c l.
Proof.
  intros u [r|i r|b] l; cbn [gen_do_call do_call]; [| |reflexivity].
  - apply gen_StreamUpdater_update_seeds_eq. apply gen_updater_eq.
  - apply gen_update_one_eq. apply gen_updater_eq.
Qed.

Fixpoint gen_calls_ok (upd : pykey -> pystream -> repl -> pystream * pyret unit) (l : list entry) (os : list obs) : bool :=
  match os with
  | [] => true
  | (c, seeds, ex) :: t =>
      let '(l', x) := gen_do_call upd c l in
      seeds_eqb l' seeds && oexn_eqb x ex && gen_calls_ok upd l' t
  end.

Definition gen_case_ok (c : case) : bool :=
  let '(u, l, os) := c in gen_calls_ok (gen_updater u) l os.

Theorem gen_case_ok_eq : forall c, gen_case_ok c = case_ok c.
Proof.
  intros [[u l] os]. unfold gen_case_ok, case_ok. revert l.
  induction os as [|[[c seeds] ex] t IH]; intros l; [reflexivity|].
  cbn [gen_calls_ok calls_ok]. rewrite gen_do_call_eq.
  destruct (do_call (updater_fun str_hash u) c l) as [l' x]. rewrite IH. reflexivity.
Qed.

Theorem updaters_generated_agree :
  (forall k st r, gen_SimpleStreamUpdater_update_seed k st r = upd_spec (simple_update str_hash) k st r) /\
  (forall s k st r, gen_StreamSeedUpdater_update_seed s k st r =
                    upd_spec (table_update (ssu_seeds s) (ssu_fallback s)) k st r) /\
  (forall upd f, (forall k st r, upd k st r = upd_spec f k st r) ->
     forall l r, to_model (gen_StreamUpdater_update_seeds upd l r) = update_seeds f r l) /\
  (forall upd f, (forall k st r, upd k st r = upd_spec f k st r) ->
     forall r i l, gen_update_one upd r i l = update_one f r i l) /\
  (forall u k st r, gen_updater u k st r = upd_spec (updater_fun str_hash u) k st r) /\
  (forall u c l, gen_do_call (gen_updater u) c l = do_call (updater_fun str_hash u) c l) /\
  (forall c, gen_case_ok c = case_ok c).
Proof.
  repeat match goal with |- _ /\ _ => split end.
  - exact gen_SimpleStreamUpdater_update_seed_eq.
  - exact gen_StreamSeedUpdater_update_seed_eq.
  - exact gen_StreamUpdater_update_seeds_eq.
  - exact gen_update_one_eq.
  - exact gen_updater_eq.
  - exact gen_do_call_eq.
  - exact gen_case_ok_eq.
Qed.

End C13Agree.

(* ====================================================================== *)
(* C12: StreamInformation / StreamSeedInformation                          *)
(* ====================================================================== *)
Module InfoAgree.
Import Stream StreamProofs Info InfoProofs Inf.
Local Open Scope Z_scope.

Definition ires_of {A} (r : pyret A) : ires A := match r with Ret v => IVal v | Exc e => IRaise e end.

(* the default of the parameter is the immutable None: nothing is built at definition time *)
Theorem gen_StreamInformation_default_eq :
  gen_StreamInformation___init____default_default_stream = SNone /\
  gen_StreamSeedInformation___init____default_default_stream = SNone.
Proof. split; reflexivity. Qed.

(* the constructor, for every argument, every clock, every state Random() starts in and whatever the blank
   object held: the model's info_init -- with None a NEW fresh stream with seed 10 is appended to the store *)
Theorem gen_StreamInformation_init_eq : forall clock g0 g1 w s0 a,
  let '((w', s'), r) := gen_StreamInformation___init__ clock g0 g1 w s0 a in
  match info_init w a with
  | (w2, IVal d) => w' = w2 /\ i_streams s' = d /\ r = Ret tt
  | (w2, IRaise e) => w' = w2 /\ r = Exc e
  end.
Proof.
  intros clock g0 g1 w s0 [|i|]; [|cbn; repeat split|cbn; repeat split].
  unfold gen_StreamInformation___init__. cbn [py_obj_is_none].
  assert (E' : MT.gen_MersenneTwister___init__ clock g0 (mkS g1 0 0 []) (MT.SeedInt 10) = (fresh default_seed, MT.Ret tt)).
  { unfold MT.gen_MersenneTwister___init__, MT.gen_MersenneTwister_set_seed, fresh. reflexivity. }
  rewrite E'. cbn. repeat split.
Qed.

Theorem gen_StreamInformation_add_stream_eq : forall w s k a,
  let '((w', s'), r) := gen_StreamInformation_add_stream w s k a in
  w' = w /\ (i_streams s', ires_of r) = info_add (i_streams s) k a.
Proof. intros w [d] [n|] [|i|]; cbn; repeat split. Qed.

Theorem gen_StreamInformation_get_stream_eq : forall w s k,
  let '((w', s'), r) := gen_StreamInformation_get_stream w s k in
  w' = w /\ s' = s /\ ires_of r = info_stream (i_streams s) k.
Proof.
  intros w [d] [n|]; cbn; [|repeat split].
  unfold gen_StreamInformation_get_stream. cbn. destruct (info_get d n); repeat split.
Qed.

Theorem gen_StreamSeedInformation_init_eq : forall clock g0 g1 w s0 a,
  let '((w', s'), r) := gen_StreamSeedInformation___init__ clock g0 g1 w s0 a in
  match sinfo_init w a with
  | (w2, IVal si) => w' = w2 /\ mkSI (i_streams (sis_base s')) (sis_seeds s') = si /\ r = Ret tt
  | (w2, IRaise e) => w' = w2 /\ r = Exc e
  end.
Proof.
  intros clock g0 g1 w s0 a. unfold gen_StreamSeedInformation___init__, sinfo_init.
  pose proof (gen_StreamInformation_init_eq clock g0 g1 w (sis_base s0) a) as H.
  destruct (gen_StreamInformation___init__ clock g0 g1 w (sis_base s0) a) as [[w1 b1] r1].
  destruct (info_init w a) as [w2 [d|e]].
  - destruct H as [H1 [H2 H3]]. subst. cbn. repeat split.
  - destruct H as [H1 H2]. subst. cbn. repeat split.
Qed.

(* StreamInformation() twice, through the generated constructor and the generated default: the two objects
   hand out (generated get_stream) two DIFFERENT stream objects, both fresh streams with seed 10 *)
Definition gen_new_info (clock : Z) (g0 g1 : gstate) (w : list stream) : (list stream * istate) * pyret unit :=
  gen_StreamInformation___init__ clock g0 g1 w (mkI []) gen_StreamInformation___init____default_default_stream.

Theorem generated_default_infos_hold_distinct_fresh_streams : forall clock g0 g1 clock' g0' g1' w,
  let '((w1, s1), _) := gen_new_info clock g0 g1 w in
  let '((w2, s2), _) := gen_new_info clock' g0' g1' w1 in
  exists i j,
    snd (gen_StreamInformation_get_stream w2 s1 (KStr default_name)) = Ret i /\
    snd (gen_StreamInformation_get_stream w2 s2 (KStr default_name)) = Ret j /\
    i <> j /\ nth_error w2 i = Some (fresh default_seed) /\ nth_error w2 j = Some (fresh default_seed) /\
    w2 = fst (info_init (fst (info_init w SNone)) SNone).
Proof.
  intros clock g0 g1 clock' g0' g1' w. unfold gen_new_info.
  pose proof (gen_StreamInformation_init_eq clock g0 g1 w (mkI []) SNone) as H1.
  change gen_StreamInformation___init____default_default_stream with SNone.
  destruct (gen_StreamInformation___init__ clock g0 g1 w (mkI []) SNone) as [[w1 s1] r1].
  pose proof (gen_StreamInformation_init_eq clock' g0' g1' w1 (mkI []) SNone) as H2.
  destruct (gen_StreamInformation___init__ clock' g0' g1' w1 (mkI []) SNone) as [[w2 s2] r2].
  cbn [info_init] in H1, H2. destruct H1 as [E1 [D1 _]]. destruct H2 as [E2 [D2 _]]. subst w1 w2.
  pose proof (two_default_infos_hold_distinct_fresh_streams w) as T. cbn [info_init] in T.
  destruct T as [d1 [d2 [i [j [T1 [T2 [T3 [T4 [T5 [T6 [T7 _]]]]]]]]]]].
  inversion T1; inversion T2; subst d1 d2.
  exists i, j.
  pose proof (gen_StreamInformation_get_stream_eq (((w ++ [fresh default_seed]) ++ [fresh default_seed])) s1 (KStr default_name)) as G1.
  pose proof (gen_StreamInformation_get_stream_eq (((w ++ [fresh default_seed]) ++ [fresh default_seed])) s2 (KStr default_name)) as G2.
  destruct (gen_StreamInformation_get_stream _ s1 _) as [[wa sa] ra].
  destruct (gen_StreamInformation_get_stream _ s2 _) as [[wb sb] rb].
  destruct G1 as [_ [_ G1]]. destruct G2 as [_ [_ G2]]. rewrite D1 in G1. rewrite D2 in G2.
  rewrite T3 in G1. rewrite T4 in G2. cbn [snd].
  destruct ra; cbn in G1; inversion G1. destruct rb; cbn in G2; inversion G2. subst.
  repeat split; assumption.
Qed.

Theorem info_generated_agree :
  (gen_StreamInformation___init____default_default_stream = SNone /\
   gen_StreamSeedInformation___init____default_default_stream = SNone) /\
  (forall clock g0 g1 w s0 a,
     let '((w', s'), r) := gen_StreamInformation___init__ clock g0 g1 w s0 a in
     match info_init w a with
     | (w2, IVal d) => w' = w2 /\ i_streams s' = d /\ r = Ret tt
     | (w2, IRaise e) => w' = w2 /\ r = Exc e
     end) /\
  (forall w s k a,
     let '((w', s'), r) := gen_StreamInformation_add_stream w s k a in
     w' = w /\ (i_streams s', ires_of r) = info_add (i_streams s) k a) /\
  (forall w s k,
     let '((w', s'), r) := gen_StreamInformation_get_stream w s k in
     w' = w /\ s' = s /\ ires_of r = info_stream (i_streams s) k) /\
  (forall clock g0 g1 w s0 a,
     let '((w', s'), r) := gen_StreamSeedInformation___init__ clock g0 g1 w s0 a in
     match sinfo_init w a with
     | (w2, IVal si) => w' = w2 /\ mkSI (i_streams (sis_base s')) (sis_seeds s') = si /\ r = Ret tt
     | (w2, IRaise e) => w' = w2 /\ r = Exc e
     end).
Proof.
  split; [exact gen_StreamInformation_default_eq|].
  split; [exact gen_StreamInformation_init_eq|].
  split; [exact gen_StreamInformation_add_stream_eq|].
  split; [exact gen_StreamInformation_get_stream_eq|exact gen_StreamSeedInformation_init_eq].
Qed.

End InfoAgree.
