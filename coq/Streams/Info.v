(* StreamInformation / StreamSeedInformation of streams.py: the named streams a
   model is given.

   Stream objects live in a store (list stream, as in Streams/Stream.v); an
   information object maps names to INDICES of that store -- so that "two
   information objects hold the same stream object" and "they hold two different
   objects with the same seed" are different things.  A name is the list of the
   code points of the Python str.

   The documented constructor default: without an argument (None) a NEW stream
   MersenneTwister(10) is created for the name "default" at every call.

   Executable definitions only. *)
From Coq Require Import ZArith List Bool.
From PV Require Import Streams.Stream.
Import ListNotations.
Open Scope Z_scope.

Definition name := list Z.

Fixpoint name_eqb (a b : name) : bool :=
  match a, b with
  | [], [] => true
  | x :: r, y :: s => (x =? y) && name_eqb r s
  | _, _ => false
  end.

Definition default_name : name := [100; 101; 102; 97; 117; 108; 116].   (* "default" *)
Definition default_seed : Z := 10.

Inductive iexn := ITypeError | IKeyError | IOther.

(* a dict str -> stream object, in insertion order; assignment to an existing key keeps its place *)
Definition info := list (name * nat).

Fixpoint info_get (d : info) (n : name) : option nat :=
  match d with
  | [] => None
  | (k, v) :: r => if name_eqb k n then Some v else info_get r n
  end.

Fixpoint info_set (d : info) (n : name) (i : nat) : info :=
  match d with
  | [] => [(n, i)]
  | (k, v) :: r => if name_eqb k n then (k, i) :: r else (k, v) :: info_set r n i
  end.

(* arguments: a stream id (a str or not), a stream (None, a StreamInterface object of the store, anything else) *)
Inductive karg := KStr (n : name) | KOther.
Inductive sarg := SNone | SObj (i : nat) | SOther.

Inductive ires (A : Type) : Type := IVal (v : A) | IRaise (e : iexn).
Arguments IVal {A} v.
Arguments IRaise {A} e.

(* StreamInformation(default_stream) *)
Definition info_init (st : list stream) (a : sarg) : list stream * ires info :=
  match a with
  | SNone => (st ++ [fresh default_seed], IVal [(default_name, length st)])
  | SObj i => (st, IVal [(default_name, i)])
  | SOther => (st, IRaise ITypeError)
  end.

(* add_stream(stream_id, stream) *)
Definition info_add (d : info) (k : karg) (a : sarg) : info * ires unit :=
  match k, a with
  | KStr n, SObj i => (info_set d n i, IVal tt)
  | _, _ => (d, IRaise ITypeError)
  end.

(* get_stream(stream_id) *)
Definition info_stream (d : info) (k : karg) : ires nat :=
  match k with
  | KOther => IRaise ITypeError
  | KStr n => match info_get d n with Some i => IVal i | None => IRaise IKeyError end
  end.

(* StreamSeedInformation: the named streams and an (initially empty) table of seed lists *)
Record sinfo := mkSI { si_streams : info; si_seeds : list (name * list Z) }.

Definition sinfo_init (st : list stream) (a : sarg) : list stream * ires sinfo :=
  match info_init st a with
  | (st', IVal d) => (st', IVal (mkSI d []))
  | (st', IRaise e) => (st', IRaise e)
  end.

