(* C02 -- DEVS execution: each scheduled event runs exactly once, in
   time/priority order; clock discipline; illegal scheduling refused.

   Statements about the simulator model Sim/Model.v (tied to
   src/pydsol/core/simulator.py by harness/c02.py on every run), for every
   model program [p], every fuel and every reachable state / command sequence.
   Proofs: Sim/Order.v.  The pending list of the model is the sorted
   specification list; EventList/Refine.v (C01) shows the heap-backed list of
   the implementation answers exactly like it. *)
From Coq Require Import ZArith List Bool Sorting.Sorted Sorting.Permutation.
From PV Require Import EventList.Key Sim.Model Sim.Order Sim.OrderIds.
Import ListNotations.
Local Open Scope Z_scope.

(* ---- clause: "executes ... in non-decreasing time order with ties broken by
   higher priority and then by scheduling order" ------------------------------
   The right order statement is "each executed event is the key-minimum
   (time, -priority, id) of the pending set at the moment it is taken": a
   handler may schedule a same-time event of higher priority that then
   legitimately runs next.  [runs p s evs s'] is the sequence of events the run
   loop takes from s; [run_loop] is such a sequence followed by a loop exit. *)

Theorem C02_run_loop_is_a_sequence_of_takes : forall p fuel s,
  exists evs s1, runs p s evs s1 /\ loop_exit s1 (run_loop fuel p s).
Proof. exact run_loop_runs. Qed.
Print Assumptions C02_run_loop_is_a_sequence_of_takes.

Theorem C02_exec_is_minimum : forall p s evs s' a e b,
  Inv s -> runs p s evs s' -> evs = a ++ e :: b ->
  exists sm, runs p s a sm /\ In e (pend sm) /\ clock sm <= ev_time e
             /\ forall x, In x (pend sm) -> key_leb (ev_key e) (ev_key x) = true.
Proof. exact exec_is_minimum. Qed.
Print Assumptions C02_exec_is_minimum.

Theorem C02_step_takes_minimum : forall p s e r,
  Inv s -> step_checks s = true -> pend s = e :: r -> ev_time e <= end_time s ->
  let s' := fst (do_step p s) in
  executed s' = e :: executed s /\ clock s' = ev_time e
  /\ (forall x, In x (pend s) -> key_leb (ev_key e) (ev_key x) = true).
Proof. exact step_takes_minimum. Qed.
Print Assumptions C02_step_takes_minimum.

(* "... and then by scheduling order": ids grow in the order of creation, so among
   events of equal time and priority the smaller key is the one scheduled first *)
Theorem C02_scheduling_order_is_id_order : forall p s i j a b,
  reachable p s -> (i < j)%nat ->
  nth_error (created s) i = Some a -> nth_error (created s) j = Some b -> ev_id a < ev_id b.
Proof. exact scheduling_order_is_id_order. Qed.
Print Assumptions C02_scheduling_order_is_id_order.

(* the invariant the order statements rest on holds in every reachable state *)
Theorem C02_invariant_reachable : forall p s, reachable p s -> Inv s.
Proof. exact reachable_inv. Qed.
Print Assumptions C02_invariant_reachable.

Theorem C02_pending_sorted_never_in_past : forall p s,
  reachable p s ->
  StronglySorted (fun a b => ev_ltb a b = true) (pend s)
  /\ Forall (fun e => clock s <= ev_time e) (pend s).
Proof.
  intros p s H. split; [apply (proj1 (pending_sorted_unique p s H))|apply (pending_ge_clock p s H)].
Qed.
Print Assumptions C02_pending_sorted_never_in_past.

(* ---- clause: "While a handler runs the simulator clock equals that event's
   time, and the clock never moves backwards" ----------------------------------
   Every log entry (e, c) records the clock c at which the handler of e was
   entered; handler code leaves the clock alone; and over any sequence of
   commands without re-initialisation the clock does not decrease and the new
   log entries carry non-decreasing clocks between the old and the new clock. *)

Theorem C02_clock_at_exec : forall p s,
  reachable p s -> Forall (fun ec => snd ec = ev_time (fst ec)) (trace s).
Proof. exact clock_at_exec. Qed.
Print Assumptions C02_clock_at_exec.

Theorem C02_clock_constant_in_handler : forall md acts s,
  clock (fst (exec_actions md s acts)) = clock s.
Proof. exact handler_clock_const. Qed.
Print Assumptions C02_clock_constant_in_handler.

Theorem C02_clock_monotone_times_nondecreasing : forall p fuel cs s,
  Inv s -> forallb (fun c => negb (is_init c)) cs = true ->
  let s' := fst (run_cmds fuel p s cs) in
  clock s <= clock s' /\
  exists new, trace s' = new ++ trace s
    /\ Forall (fun ec => clock s <= snd ec <= clock s') new
    /\ StronglySorted (fun a b : ev * Z => snd b <= snd a) new.
Proof. exact run_cmds_mono. Qed.
Print Assumptions C02_clock_monotone_times_nondecreasing.

(* ---- clause: "executes exactly the events that were scheduled, not
   cancelled, and lie within the run horizon, each exactly once" ---------------- *)

(* at most once, for every fuel *)
Theorem C02_at_most_once : forall p s, reachable p s -> NoDup (map ev_id (executed s)).
Proof. exact at_most_once. Qed.
Print Assumptions C02_at_most_once.

(* pending, executed and cancelled events are different events *)
Theorem C02_pending_executed_cancelled_disjoint : forall s e,
  Inv s ->
  (In e (pend s) -> ~ In e (executed s) /\ ~ In e (cancelled s))
  /\ (In e (executed s) -> ~ In e (cancelled s)).
Proof. exact Inv_disjoint. Qed.
Print Assumptions C02_pending_executed_cancelled_disjoint.

(* nothing is lost: without end_replication, every event created in the
   replication is pending, executed or cancelled *)
Theorem C02_accounting : forall p fuel cs s,
  Inv s -> List.incl (created s) (pend s ++ executed s ++ cancelled s) ->
  forallb (fun c => negb (is_endrepl c)) cs = true ->
  let s' := fst (run_cmds fuel p s cs) in
  List.incl (created s') (pend s' ++ executed s' ++ cancelled s').
Proof. exact run_cmds_acct. Qed.
Print Assumptions C02_accounting.

(* exactly: a start that reaches the end of the replication executed precisely
   the events pending at the start or scheduled during the run that were not
   cancelled while pending and are not later than the end *)
Theorem C02_exactly_the_scheduled_uncancelled_in_horizon : forall p fuel s r,
  Inv s -> Acct s -> rep s = Some r -> ps s <> PEnded ->
  let s' := fst (do_cmd fuel p s CStart) in
  ps s' = PEnded ->
  exists evs newc,
    executed s' = rev evs ++ executed s
    /\ created s' = created s ++ newc
    /\ clock s' = r_end r
    /\ (forall e, In e evs -> In e (pend s) \/ In e newc)
    /\ (forall e, In e (pend s) \/ In e newc ->
          (In e evs <-> (~ In e (cancelled s') /\ ev_time e <= r_end r)))
    /\ (forall e, In e (pend s') -> r_end r < ev_time e).
Proof. exact start_complete. Qed.
Print Assumptions C02_exactly_the_scheduled_uncancelled_in_horizon.

(* the same for the run loop with any bound (bounded runs: C03) *)
Theorem C02_run_loop_complete : forall p fuel s,
  Inv s -> Acct s -> running s = true -> ps s = PStarted ->
  ps (run_loop fuel p s) = PEnding ->
  let s' := run_loop fuel p s in
  exists evs newc,
    executed s' = rev evs ++ executed s
    /\ created s' = created s ++ newc
    /\ clock s' = bound s /\ end_time s <= bound s
    /\ (forall e, In e evs -> In e (pend s) \/ In e newc)
    /\ (forall e, In e (pend s) \/ In e newc ->
          (In e evs <-> (~ In e (cancelled s') /\ beyond s e = false)))
    /\ (forall e, In e (pend s') -> beyond s e = true).
Proof. exact run_loop_complete. Qed.
Print Assumptions C02_run_loop_complete.

(* cancelling: an executed, already cancelled, absent or unknown event is a
   no-op on the whole state; a pending one is exactly removed *)
Theorem C02_cancel_executed_or_cancelled_noop : forall s k e,
  Inv s -> nth_error (created s) k = Some e -> In e (executed s) \/ In e (cancelled s) ->
  do_cancel s k = s.
Proof. exact cancel_done_noop. Qed.
Print Assumptions C02_cancel_executed_or_cancelled_noop.

Theorem C02_cancel_absent_noop : forall s k e,
  Inv s -> Acct s -> nth_error (created s) k = Some e -> ~ In e (pend s) -> do_cancel s k = s.
Proof. exact cancel_absent_noop. Qed.
Print Assumptions C02_cancel_absent_noop.

Theorem C02_cancel_unknown_noop : forall s k, nth_error (created s) k = None -> do_cancel s k = s.
Proof. exact cancel_unknown_noop. Qed.
Print Assumptions C02_cancel_unknown_noop.

Theorem C02_cancel_pending_removes_it : forall s k e,
  Inv s -> Acct s -> nth_error (created s) k = Some e -> In e (pend s) ->
  Permutation (pend s) (e :: pend (do_cancel s k)) /\ cancelled (do_cancel s k) = e :: cancelled s.
Proof. exact cancel_pending_removes. Qed.
Print Assumptions C02_cancel_pending_removes_it.

(* ---- clause: "A request to schedule an event in the past, with a negative
   delay, or at a time that is not a number is refused with an error and
   leaves the pending events unchanged" ---------------------------------------- *)

Theorem C02_illegal_refused : forall s m prio h,
  match m with
  | MNow => False
  | MRel (TNum d) => d < 0
  | MRel TNaN => True
  | MAbs (TNum t) => t < clock s
  | MAbs TNaN => True
  end ->
  do_sched s m prio h = out ORefused s
  /\ pend (do_sched s m prio h) = pend s /\ nid (do_sched s m prio h) = nid s.
Proof.
  intros s m prio h H. rewrite (illegal_refused_eq s m prio h H). repeat split.
Qed.
Print Assumptions C02_illegal_refused.

(* and only those are refused *)
Theorem C02_legal_accepted : forall s m prio h,
  ~ illegal s m ->
  exists t, sched_time s m = Some t /\ clock s <= t /\
    do_sched s m prio h = out OAccepted (add_event t prio (HUser h) s).
Proof.
  intros s m prio h H. destruct (legal_accepted s m prio h H) as [t [H1 H2]].
  exists t. repeat split; auto. eapply sched_time_some; eauto.
Qed.
Print Assumptions C02_legal_accepted.

(* ---- non-vacuity: a concrete program with a time tie broken by priority, a
   zero-delay child, a cancelled event, an event beyond the end and an illegal
   request; the hypotheses of the theorems above hold and the run completes. ---- *)
Definition ex_prog : program :=
  [ [ASched (MAbs (TNum 4)) 5 1; ASched (MAbs (TNum 4)) 7 2; ASched (MRel (TNum 8)) 5 2;
     ASched (MAbs (TNum 100)) 5 1; ASched (MAbs (TNum 12)) 5 2];
    [ASched MNow 5 2; ACancel 2; ASched (MRel (TNum (-1))) 5 1; ASched (MAbs TNaN) 5 1];
    [] ].
Definition ex_s1 : sim := fst (do_cmd 100 ex_prog (init_sim SWarnPause) (CInit (mkRepl 0 0 40))).
Definition ex_s2 : sim := fst (do_cmd 100 ex_prog ex_s1 CStart).

Example ex_reachable : reachable ex_prog ex_s1 /\ reachable ex_prog ex_s2.
Proof. split; repeat constructor. Qed.

Example ex_hypotheses :
  Inv ex_s1 /\ Acct ex_s1 /\ rep ex_s1 = Some (mkRepl 0 0 40) /\ ps ex_s1 <> PEnded /\ ps ex_s2 = PEnded.
Proof.
  split; [apply (reachable_inv ex_prog), ex_reachable|].
  split; [apply (do_cmd_acct ex_prog 100 _ (CInit (mkRepl 0 0 40)) eq_refl (Inv_init _) (Acct_init _))|].
  split; [reflexivity|]. split; [discriminate|]. vm_compute. reflexivity.
Qed.

(* executed: warm-up@0, h2@4 (priority 7) before h1@4 (priority 5), the
   zero-delay child h2@4, h2@12; cancelled: the event at 8; left pending: the
   event at 100; two refused requests *)
Example ex_trace :
  map (fun ec => (ev_h (fst ec), snd ec)) (rev (trace ex_s2))
    = [(HWarm, 0); (HUser 2%nat, 4); (HUser 1%nat, 4); (HUser 2%nat, 4); (HUser 2%nat, 12)]
  /\ map ev_time (cancelled ex_s2) = [8] /\ map ev_time (pend ex_s2) = [100]
  /\ filter (fun o => match o with ORefused => true | _ => false end) (outs ex_s2) = [ORefused; ORefused]
  /\ clock ex_s2 = 40 /\ flag ex_s2 = false.
Proof. vm_compute. repeat split. Qed.

(* ---- the model regenerated from the source IS the proved model ------------------
   Sim/Gen_Sim.v is regenerated on every run by translator/py2gallina_sim.py from
   the text of src/pydsol/core/simulator.py of the tree under test (Python ast,
   fail-closed): schedule_event / _now / _rel / _abs with their time tests,
   cancel_event, the run loop _run, _step_impl and step, _start_impl / start /
   run_up_to / run_up_to_including, stop, end_replication, cleanup, initialize and
   one wake-up of the worker thread's run().  Sim/GenAgree.v proves every generated
   definition equal to the function of Sim/Model.v the theorems above are about --
   for all states, arguments, model programs and fuel; [sim_wf] / [rep s <> None]
   is the representation invariant of the Python object (an initialised simulator
   has a replication and a worker thread), which holds in every reachable state.
   So the theorems above are theorems about what simulator.py says now; the main
   ones are restated over the generated definitions below. ---- *)
From PV Require Import Sim.Gen_Sim Sim.GenAgree.

Theorem C02_generated_model_is_the_proved_model :
  (forall s m prio h, gen_sched s m prio h = do_sched s m prio h) /\
  (forall s k, gen_cancel s k = do_cancel s k) /\
  (forall w s, gen_Simulator_stop w s =
               if running s then GRet RNone w (set_rs RStopping (emit NStopping s)) else GExc EDSOL w s) /\
  (forall md p s e, gen_exec_event md p s e = exec_event md p s e) /\
  (forall p w s, (rs s <> RNotInit -> rep s <> None) -> gen_Simulator_step p w s = gres_of w (do_step p s)) /\
  (forall p fuel w s, rep s <> None -> gen_DEVSSimulator__run fuel p w s = GRet RNone w (run_loop fuel p s)) /\
  (forall fuel p w s, rep s <> None -> gen_SimulatorWorkerThread_run fuel p w s = GRet RNone w (worker_run fuel p s)) /\
  (forall fuel p s t i, (rs s <> RNotInit -> worker s <> WNone) ->
     gen_settle fuel p (gen_Simulator__start_impl false s t i) = do_start fuel p s t i) /\
  (forall fuel p s c, sim_wf s -> gen_do_cmd fuel p s c = do_cmd fuel p s c) /\
  (forall fuel p cs s, sim_wf s -> gen_run_cmds fuel p s cs = run_cmds fuel p s cs) /\
  (forall p s, reachable p s -> sim_wf s).
Proof. exact sim_generated_agree. Qed.
Print Assumptions C02_generated_model_is_the_proved_model.

(* the states the generated commands reach from a fresh simulator are exactly the model's *)
Theorem C02_generated_reachable_states : forall p s, gen_reachable p s <-> reachable p s.
Proof. exact gen_reachable_iff. Qed.
Print Assumptions C02_generated_reachable_states.

Theorem C02_generated_invariant_reachable : forall p s, gen_reachable p s -> Inv s.
Proof. exact gen_invariant_reachable. Qed.
Print Assumptions C02_generated_invariant_reachable.

(* order: the generated run loop is a sequence of takes of the first pending event (C02_exec_is_minimum
   says each of them is the key-minimum) followed by a loop exit *)
Theorem C02_generated_run_loop_is_a_sequence_of_takes : forall p fuel w s, rep s <> None ->
  exists evs s1 s2, runs p s evs s1 /\ loop_exit s1 s2 /\ gen_DEVSSimulator__run fuel p w s = GRet RNone w s2.
Proof. exact gen_run_loop_is_a_sequence_of_takes. Qed.
Print Assumptions C02_generated_run_loop_is_a_sequence_of_takes.

Theorem C02_generated_at_most_once : forall p s, gen_reachable p s -> NoDup (map ev_id (executed s)).
Proof. exact gen_at_most_once. Qed.
Print Assumptions C02_generated_at_most_once.

Theorem C02_generated_exactly_the_scheduled_uncancelled_in_horizon : forall p fuel s r,
  sim_wf s -> Inv s -> Acct s -> rep s = Some r -> ps s <> PEnded ->
  let s' := fst (gen_do_cmd fuel p s CStart) in
  ps s' = PEnded ->
  exists evs newc,
    executed s' = rev evs ++ executed s
    /\ created s' = created s ++ newc
    /\ clock s' = r_end r
    /\ (forall e, In e evs -> In e (pend s) \/ In e newc)
    /\ (forall e, In e (pend s) \/ In e newc ->
          (In e evs <-> (~ In e (cancelled s') /\ ev_time e <= r_end r)))
    /\ (forall e, In e (pend s') -> r_end r < ev_time e).
Proof. exact gen_start_complete. Qed.
Print Assumptions C02_generated_exactly_the_scheduled_uncancelled_in_horizon.

Theorem C02_generated_clock_monotone_times_nondecreasing : forall p fuel cs s,
  sim_wf s -> Inv s -> forallb (fun c => negb (is_init c)) cs = true ->
  let s' := fst (gen_run_cmds fuel p s cs) in
  clock s <= clock s' /\
  exists new, trace s' = new ++ trace s
    /\ Forall (fun ec => clock s <= snd ec <= clock s') new
    /\ StronglySorted (fun a b : ev * Z => snd b <= snd a) new.
Proof. exact gen_run_cmds_mono. Qed.
Print Assumptions C02_generated_clock_monotone_times_nondecreasing.

Theorem C02_generated_cancel_pending_removes_it : forall s k e,
  Inv s -> Acct s -> nth_error (created s) k = Some e -> In e (pend s) ->
  Permutation (pend s) (e :: pend (gen_cancel s k)) /\ cancelled (gen_cancel s k) = e :: cancelled s.
Proof. exact gen_cancel_pending_removes. Qed.
Print Assumptions C02_generated_cancel_pending_removes_it.

Theorem C02_generated_cancel_executed_or_cancelled_noop : forall s k e,
  Inv s -> nth_error (created s) k = Some e -> In e (executed s) \/ In e (cancelled s) -> gen_cancel s k = s.
Proof. exact gen_cancel_done_noop. Qed.
Print Assumptions C02_generated_cancel_executed_or_cancelled_noop.

Theorem C02_generated_illegal_refused : forall s m prio h,
  match m with
  | MNow => False
  | MRel (TNum d) => d < 0
  | MRel TNaN => True
  | MAbs (TNum t) => t < clock s
  | MAbs TNaN => True
  end ->
  gen_sched s m prio h = out ORefused s
  /\ pend (gen_sched s m prio h) = pend s /\ nid (gen_sched s m prio h) = nid s.
Proof. exact gen_illegal_refused. Qed.
Print Assumptions C02_generated_illegal_refused.

Theorem C02_generated_legal_accepted : forall s m prio h,
  ~ illegal s m ->
  exists t, sched_time s m = Some t /\ clock s <= t /\
    gen_sched s m prio h = out OAccepted (add_event t prio (HUser h) s).
Proof. exact gen_legal_accepted. Qed.
Print Assumptions C02_generated_legal_accepted.

(* the example program, run through the generated commands, ends in the same state *)
Example ex_generated_run :
  fst (gen_run_cmds 100 ex_prog (init_sim SWarnPause) [CInit (mkRepl 0 0 40); CStart]) = ex_s2
  /\ sim_wf ex_s1 /\ gen_reachable ex_prog ex_s2.
Proof.
  split; [vm_compute; reflexivity|]. split; [apply (reachable_wf ex_prog), ex_reachable|].
  apply gen_reachable_iff, ex_reachable.
Qed.
