(* C02 placeholder while proofs are being written; replaced below. *)
From PV Require Import Sim.Model.
Theorem C02_placeholder : True. Proof. exact I. Qed.
Print Assumptions C02_placeholder.
