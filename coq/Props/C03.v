(* C03 -- run horizon: bounded runs execute exactly the events up to the bound,
   nothing runs later than the replication end, the simulation stays resumable,
   and any segmentation equals the uninterrupted run.

   Statements about the simulator model Sim/Model.v (tied to simulator.py by
   harness/c03.py on every run), for every model program, every fuel, every
   bound and every sequence of run commands.  Proofs: Sim/Horizon.v (on top of
   Sim/Order.v). *)
From Coq Require Import ZArith List Bool.
From PV Require Import EventList.Key Sim.Model Sim.Order Sim.Horizon.
Import ListNotations.
Local Open Scope Z_scope.

(* ---- clause: "Running up to a time t executes exactly the pending events
   with time earlier than t (up to and including t for the inclusive variant,
   and for a plain start whose bound is the replication end), leaves the clock
   at the bound" ----------------------------------------------------------------
   [do_start fuel p s (TNum bz) i] is run_up_to (i = false) / run_up_to_including
   (i = true) / start (bz = end, i = true); [clamp] cuts a bound beyond the end
   back to the end (inclusive).  [calm]: the program does not interrupt the run
   (no stop() from a handler, no failing handler under WARN_AND_PAUSE) --
   interrupted runs are what the segmentation theorem is about.  [flag = false]
   excludes fuel exhaustion. *)
Theorem C03_bounded_run_exact : forall p fuel s bz i,
  Inv s -> Acct s -> worker s = WAlive -> calm (strat s) p ->
  start_checks s = true -> clock s <= bz ->
  let s' := fst (do_start fuel p s (TNum bz) i) in
  let b := fst (clamp s bz i) in let ic := snd (clamp s bz i) in
  flag s' = false ->
  exists evs newc,
    executed s' = rev evs ++ executed s
    /\ created s' = created s ++ newc
    /\ clock s' = b
    /\ (forall e, In e evs -> In e (pend s) \/ In e newc)
    /\ (forall e, In e (pend s) \/ In e newc ->
          (In e evs <-> (~ In e (cancelled s') /\ (if ic then ev_time e <= b else ev_time e < b))))
    /\ (forall e, In e (pend s') -> if ic then b < ev_time e else b <= ev_time e).
Proof. exact bounded_run_exact. Qed.
Print Assumptions C03_bounded_run_exact.

(* the events are taken in C02 order: the loop is a sequence of takes of the
   key-minimum (C02_exec_is_minimum), all of them within the horizon *)
Theorem C03_run_takes_only_within_bound : forall p s evs s',
  runs p s evs s' -> Forall (fun e => beyond s e = false) evs.
Proof. intros p s evs s' H. apply (rw_within _ _ _ (runs_flow _ _ _ _ H)). Qed.
Print Assumptions C03_run_takes_only_within_bound.

(* ---- clause: "no command ever executes an event later than the replication
   end" -------------------------------------------------------------------------- *)
Theorem C03_never_past_end : forall p fuel s c,
  Inv s ->
  exists new, trace (fst (do_cmd fuel p s c)) = new ++ trace s
              /\ Forall (fun ec => snd ec <= end_time s) new.
Proof. exact never_past_end. Qed.
Print Assumptions C03_never_past_end.

(* ---- clause: "Unless the bound reached the replication end the simulation
   stays resumable" -------------------------------------------------------------- *)
Theorem C03_resumable : forall p fuel s bz i,
  worker s = WAlive -> start_checks s = true -> clock s <= bz -> bz < end_time s ->
  let s' := fst (do_start fuel p s (TNum bz) i) in
  ps s' = PStarted
  /\ (running s' = false /\ (ps s' = PInit \/ ps s' = PStarted) /\ worker s' = WAlive)
  /\ clock s' <= bz /\ start_checks s' = true.
Proof. exact resumable. Qed.
Print Assumptions C03_resumable.

(* the boundary, stated: a bound at (or beyond) the end ends the replication *)
Theorem C03_bound_at_end_ends_or_pauses : forall p fuel s b i a,
  Entered s b i a -> b <= end_time s ->
  let s' := after_loop (run_loop fuel p a) in
  (ps s' = PStarted /\ Live s') \/ (ps s' = PEnded /\ Over s' /\ b = end_time s).
Proof. exact started_quiet. Qed.
Print Assumptions C03_bound_at_end_ends_or_pauses.

(* ---- clause: "splitting a replication into any sequence of bounded runs,
   single steps and stop/start pauses produces exactly the same sequence of
   executed events and the same final clock as one uninterrupted run" ----------
   [is_runcmd]: start, step, stop, run_up_to t, run_up_to_including t (any t,
   also NaN / past / beyond the end: refused or clamped), refused initialize.
   Pauses are stop() calls inside handlers and failing handlers under
   WARN_AND_PAUSE: [prog_equiv p p'] says p and p' have the same handler code
   up to commands and to whatever follows a failure -- in particular p' may be
   p with every stop() removed, or p itself.  [Quiet]: a quiescent state with
   the replication not yet over (e.g. right after initialize) or over.
   [ps = PEnded /\ incl = true]: the replication ended through an inclusive
   bound (a cut exactly at the end with run_up_to leaves the events at the end
   unexecuted and cannot be resumed: that boundary is excluded, not hidden). *)
Theorem C03_segmentation : forall p p' fuel fuel' cs cs' s t,
  prog_equiv p p' -> core_eq s t -> Quiet s -> Quiet t ->
  forallb is_runcmd cs = true -> forallb is_runcmd cs' = true ->
  let s1 := fst (run_cmds fuel p s cs) in
  let t1 := fst (run_cmds fuel' p' t cs') in
  ps s1 = PEnded -> incl s1 = true -> ps t1 = PEnded -> incl t1 = true ->
  (pend s1 = pend t1 /\ nid s1 = nid t1 /\ created s1 = created t1 /\ trace s1 = trace t1
   /\ cancelled s1 = cancelled t1 /\ rep s1 = rep t1)
  /\ clock s1 = clock t1.
Proof. exact segmentation. Qed.
Print Assumptions C03_segmentation.

(* the uninterrupted run is the instance cs' = [CStart] *)
Theorem C03_segmentation_vs_uninterrupted : forall p p' fuel fuel' cs s,
  prog_equiv p p' -> Quiet s -> forallb is_runcmd cs = true ->
  let s1 := fst (run_cmds fuel p s cs) in
  let t1 := fst (do_cmd fuel' p' s CStart) in
  ps s1 = PEnded -> incl s1 = true -> ps t1 = PEnded -> incl t1 = true ->
  trace s1 = trace t1 /\ clock s1 = clock t1.
Proof.
  intros p p' fuel fuel' cs s PE Q Hc s1 t1 P1 I1 P2 I2.
  pose proof (segmentation p p' fuel fuel' cs [CStart] s s PE (core_eq_refl s) Q Q Hc eq_refl) as H.
  cbv zeta in H. cbn [run_cmds] in H.
  destruct (do_cmd fuel' p' s CStart) as [t2 res] eqn:E. cbn [fst] in *.
  destruct (H P1 I1 P2 I2) as [(_&_&_&T&_) K]. auto.
Qed.
Print Assumptions C03_segmentation_vs_uninterrupted.

(* p' may be p with every command (every stop()) removed from its handlers *)
Theorem C03_stripping_stops_is_equivalent : forall p, prog_equiv p (strip_cmds p).
Proof. exact prog_equiv_strip. Qed.
Print Assumptions C03_stripping_stops_is_equivalent.

(* and the uninterrupted start of a program that does not interrupt runs does
   reach the inclusive end unless the model ran out of fuel: its hypotheses in
   the segmentation theorem are then met *)
Theorem C03_uninterrupted_start_completes : forall p fuel s r,
  worker s = WAlive -> rep s = Some r -> start_checks s = true -> calm (strat s) p ->
  let s' := fst (do_cmd fuel p s CStart) in
  flag s' = false -> ps s' = PEnded /\ incl s' = true /\ clock s' = r_end r.
Proof. exact calm_start_completes. Qed.
Print Assumptions C03_uninterrupted_start_completes.

(* the whole replication: initialize + any cuts, against initialize + one start
   of an equivalent program (e.g. strip_cmds p, or p itself) *)
Theorem C03_segmentation_from_initialize : forall p p' fuel fuel' r cs s,
  running s = false -> prog_equiv p p' -> forallb is_runcmd cs = true ->
  let s1 := fst (run_cmds fuel p s (CInit r :: cs)) in
  let t1 := fst (run_cmds fuel' p' s [CInit r; CStart]) in
  ps s1 = PEnded -> incl s1 = true -> ps t1 = PEnded -> incl t1 = true ->
  trace s1 = trace t1 /\ clock s1 = clock t1.
Proof. exact segmentation_from_init. Qed.
Print Assumptions C03_segmentation_from_initialize.

(* however far a segmented run got, it executed a prefix of the completed run *)
Theorem C03_segmentation_prefix : forall p p' fuel fuel' cs cs' s t,
  prog_equiv p p' -> core_eq s t -> Quiet s -> Quiet t ->
  forallb is_runcmd cs = true -> forallb is_runcmd cs' = true ->
  let s1 := fst (run_cmds fuel p s cs) in
  let t1 := fst (run_cmds fuel' p' t cs') in
  ps t1 = PEnded -> incl t1 = true ->
  exists k, trace t1 = k ++ trace s1.
Proof. exact segmentation_prefix. Qed.
Print Assumptions C03_segmentation_prefix.

(* every run command keeps the state quiescent and moves its core along one
   canonical sequence of states (the lemma behind both theorems) *)
Theorem C03_run_cmds_follow_canonical_sequence : forall p fuel cs s,
  forallb is_runcmd cs = true -> Quiet s ->
  let s' := fst (run_cmds fuel p s cs) in
  Quiet s' /\ exists n, core_eq s' (citer n (end_time s) true p s).
Proof. exact run_cmds_citer. Qed.
Print Assumptions C03_run_cmds_follow_canonical_sequence.

(* run_until b2 (run_until b1 s) = run_until b2 s for b1 <= b2 *)
Theorem C03_run_split : forall p f1 f2 f3 b1 i1 b2 i2 s,
  calm (strat s) p ->
  (forall e, beyondb b2 i2 e = true -> beyondb b1 i1 e = true) ->
  let s1 := run_until f1 p b1 i1 s in
  let s2 := run_until f2 p b2 i2 s1 in
  let s3 := run_until f3 p b2 i2 s in
  flag s1 = false -> flag s2 = false -> flag s3 = false ->
  core_eq s2 s3 /\ clock s2 = clock s3.
Proof. exact run_split. Qed.
Print Assumptions C03_run_split.

Theorem C03_bound_order : forall b1 i1 b2 i2,
  b1 < b2 \/ (b1 = b2 /\ (i1 = true -> i2 = true)) ->
  forall e, beyondb b2 i2 e = true -> beyondb b1 i1 e = true.
Proof. exact hz_le_spec. Qed.
Print Assumptions C03_bound_order.

(* the state right after an initialize that returned is quiescent-and-live; an initialize aborted
   by a raising construct_model leaves the simulator not initialised (no run command is accepted) *)
Theorem C03_after_initialize_live : forall p s r, snd (do_init p s r) = ResOk -> Live (fst (do_init p s r)).
Proof. exact do_init_live. Qed.
Print Assumptions C03_after_initialize_live.

Theorem C03_after_aborted_initialize_nothing_runs : forall p fuel s r cs,
  snd (do_init p s r) = ResRaised -> forallb is_runcmd cs = true ->
  fst (run_cmds fuel p (fst (do_init p s r)) cs) = fst (do_init p s r).
Proof.
  intros p fuel s r cs H Hc. apply notinit_run_cmds; auto. apply (proj1 (do_init_raised p s r H)).
Qed.
Print Assumptions C03_after_aborted_initialize_nothing_runs.

(* the guard at the end time: refuted for the pinned code ("refuse when clock >=
   end": a pause exactly at the end time with events at that time still pending
   could never be resumed or ended), holds for the repaired guard the model
   describes (the resuming start runs the rest and ends with the uninterrupted
   run's trace) *)
Theorem C03_pause_at_end_refuted_for_pinned_guard :
  ps end_s1 = PStarted /\ rs end_s1 = RStopped /\ clock end_s1 = end_time end_s1
  /\ length (pend end_s1) = 1%nat /\ length (trace end_s1) = 3%nat /\ length (trace end_t1) = 4%nat
  /\ start_checks_pinned end_s1 = false
  /\ start_checks end_s1 = true /\ ps end_s2 = PEnded /\ trace end_s2 = trace end_t1 /\ clock end_s2 = clock end_t1.
Proof. exact pause_at_end_refuted_for_pinned_guard. Qed.
Print Assumptions C03_pause_at_end_refuted_for_pinned_guard.

(* ---- non-vacuity: a program with a stop() in a handler, run in pieces
   (run_up_to 4, step, run_up_to_including 10, start (paused by the stop),
   start) and uninterrupted with the stop removed; both reach the end and the
   hypotheses of the segmentation theorem hold. ---- *)
Definition ex_prog : program :=
  [ [ASched (MAbs (TNum 4)) 5 1; ASched (MAbs (TNum 4)) 7 2; ASched (MRel (TNum 8)) 5 2;
     ASched (MAbs (TNum 20)) 5 3; ASched (MAbs (TNum 12)) 5 2];
    [ASched MNow 5 2; ACancel 2];
    [];
    [ACmd CStop; ASched (MRel (TNum 4)) 5 2] ].
Definition ex_prog' : program :=
  [ [ASched (MAbs (TNum 4)) 5 1; ASched (MAbs (TNum 4)) 7 2; ASched (MRel (TNum 8)) 5 2;
     ASched (MAbs (TNum 20)) 5 3; ASched (MAbs (TNum 12)) 5 2];
    [ASched MNow 5 2; ACancel 2];
    [];
    [ASched (MRel (TNum 4)) 5 2] ].
Definition ex_s0 : sim := fst (do_cmd 100 ex_prog (init_sim SWarnPause) (CInit (mkRepl 0 0 40))).
Definition ex_cuts : list cmd :=
  [CRunUpTo (TNum 4); CStep; CRunUpToIncl (TNum 10); CStart; CStart].
Definition ex_s1 : sim := fst (run_cmds 100 ex_prog ex_s0 ex_cuts).
Definition ex_t1 : sim := fst (do_cmd 100 ex_prog' ex_s0 CStart).

Example ex_hypotheses :
  prog_equiv ex_prog ex_prog' /\ Quiet ex_s0 /\ forallb is_runcmd ex_cuts = true
  /\ ps ex_s1 = PEnded /\ incl ex_s1 = true /\ ps ex_t1 = PEnded /\ incl ex_t1 = true.
Proof.
  split.
  { intros h. do 5 (destruct h as [|h]; [reflexivity|]). destruct h; reflexivity. }
  split; [left; apply do_init_live; reflexivity|].
  vm_compute. repeat split.
Qed.

Example ex_traces :
  map (fun ec => (ev_h (fst ec), snd ec)) (rev (trace ex_s1))
    = [(HWarm, 0); (HUser 2%nat, 4); (HUser 1%nat, 4); (HUser 2%nat, 4); (HUser 2%nat, 12);
       (HUser 3%nat, 20); (HUser 2%nat, 24)]
  /\ trace ex_s1 = trace ex_t1 /\ clock ex_s1 = 40 /\ flag ex_s1 = false /\ flag ex_t1 = false.
Proof. vm_compute. repeat split. Qed.

Example ex_bounded_hypotheses :
  Inv ex_s0 /\ Acct ex_s0 /\ worker ex_s0 = WAlive /\ calm (strat ex_s0) ex_prog'
  /\ start_checks ex_s0 = true /\ clock ex_s0 <= 12
  /\ flag (fst (do_start 100 ex_prog' ex_s0 (TNum 12) false)) = false.
Proof.
  split; [apply (do_cmd_inv ex_prog 100 _ (CInit (mkRepl 0 0 40)) (Inv_init _))|].
  split; [apply (do_cmd_acct ex_prog 100 _ (CInit (mkRepl 0 0 40)) eq_refl (Inv_init _) (Acct_init _))|].
  split; [reflexivity|]. split.
  { intros h. do 5 (destruct h as [|h]; [reflexivity|]). destruct h; reflexivity. }
  vm_compute. repeat split; discriminate.
Qed.

(* ---- the model regenerated from the source IS the proved model ------------------
   Sim/Gen_Sim.v is regenerated on every run by translator/py2gallina_sim.py from
   simulator.py of the tree under test; Sim/GenAgree.v proves the generated methods
   equal to the functions of Sim/Model.v the theorems above are about.  For C03 the
   relevant ones are _start_impl (the refusals in their order, the bound in the
   past, the capping of the bound at the replication end with the inclusive flag,
   the bound stored only after the checks), the run loop _run (three-way stop test
   against the bound, ENDING only when the bound reached the end) and _step_impl
   (no event later than the end).  [start_prepared s bz i] is the state _start_impl
   leaves before the woken worker runs. ---- *)
From PV Require Import Sim.Gen_Sim Sim.GenAgree.

Theorem C03_generated_model_is_the_proved_model :
  (forall w s t i, (rs s <> RNotInit -> worker s <> WNone) ->
     gen_Simulator__start_impl w s t i =
     if start_checks s then
       match t with
       | TNaN => GExc EDSOL w s
       | TNum bz => if bz <? clock s then GExc EDSOL w s else GRet RNone true (start_prepared s bz i)
       end
     else GExc EDSOL w s) /\
  (forall fuel p s t i, (rs s <> RNotInit -> worker s <> WNone) ->
     gen_settle fuel p (gen_Simulator__start_impl false s t i) = do_start fuel p s t i) /\
  (forall p fuel w s, rep s <> None -> gen_DEVSSimulator__run fuel p w s = GRet RNone w (run_loop fuel p s)) /\
  (forall p w s, (rs s <> RNotInit -> rep s <> None) -> gen_Simulator_step p w s = gres_of w (do_step p s)) /\
  (forall fuel p s c, sim_wf s -> gen_do_cmd fuel p s c = do_cmd fuel p s c) /\
  (forall fuel p cs s, sim_wf s -> gen_run_cmds fuel p s cs = run_cmds fuel p s cs).
Proof.
  exact (conj gen_start_impl_eq (conj settle_start_eq (conj (fun p fuel w s => gen_run_eq p fuel w s)
          (conj gen_step_eq (conj gen_do_cmd_eq gen_run_cmds_eq))))).
Qed.
Print Assumptions C03_generated_model_is_the_proved_model.

(* the bounded-run theorem over the generated _start_impl followed by the woken worker *)
Theorem C03_generated_bounded_run_exact : forall p fuel s bz i,
  Inv s -> Acct s -> worker s = WAlive -> calm (strat s) p ->
  start_checks s = true -> clock s <= bz ->
  let s' := fst (gen_settle fuel p (gen_Simulator__start_impl false s (TNum bz) i)) in
  let b := fst (clamp s bz i) in let ic := snd (clamp s bz i) in
  flag s' = false ->
  exists evs newc,
    executed s' = rev evs ++ executed s
    /\ created s' = created s ++ newc
    /\ clock s' = b
    /\ (forall e, In e evs -> In e (pend s) \/ In e newc)
    /\ (forall e, In e (pend s) \/ In e newc ->
          (In e evs <-> (~ In e (cancelled s') /\ (if ic then ev_time e <= b else ev_time e < b))))
    /\ (forall e, In e (pend s') -> if ic then b < ev_time e else b <= ev_time e).
Proof.
  intros p fuel s bz i HI HA Hw. rewrite settle_start_eq by (intros _; rewrite Hw; discriminate).
  apply bounded_run_exact; assumption.
Qed.
Print Assumptions C03_generated_bounded_run_exact.

Theorem C03_generated_never_past_end : forall p fuel s c,
  sim_wf s -> Inv s ->
  exists new, trace (fst (gen_do_cmd fuel p s c)) = new ++ trace s
              /\ Forall (fun ec => snd ec <= end_time s) new.
Proof. intros p fuel s c Hwf. rewrite gen_do_cmd_eq by exact Hwf. apply never_past_end. Qed.
Print Assumptions C03_generated_never_past_end.

Theorem C03_generated_resumable : forall p fuel s bz i,
  worker s = WAlive -> start_checks s = true -> clock s <= bz -> bz < end_time s ->
  let s' := fst (gen_settle fuel p (gen_Simulator__start_impl false s (TNum bz) i)) in
  ps s' = PStarted
  /\ (running s' = false /\ (ps s' = PInit \/ ps s' = PStarted) /\ worker s' = WAlive)
  /\ clock s' <= bz /\ start_checks s' = true.
Proof.
  intros p fuel s bz i Hw. rewrite settle_start_eq by (intros _; rewrite Hw; discriminate).
  apply resumable; assumption.
Qed.
Print Assumptions C03_generated_resumable.

(* a refused start / run_up_to leaves the simulator object -- bound included -- as it was *)
Theorem C03_generated_refused_start_changes_nothing : forall w s t i k w' s',
  (rs s <> RNotInit -> worker s <> WNone) -> gen_Simulator__start_impl w s t i = GExc k w' s' -> s' = s /\ k = EDSOL.
Proof.
  intros w s t i k w' s' Hw. rewrite gen_start_impl_eq by exact Hw.
  destruct (start_checks s); [destruct t as [bz|]; [destruct (bz <? clock s)|]|]; intros H; inversion H; auto.
Qed.
Print Assumptions C03_generated_refused_start_changes_nothing.

(* the bounded example, run through the generated commands *)
Example ex_generated_bounded :
  fst (gen_settle 100 ex_prog' (gen_Simulator__start_impl false ex_s0 (TNum 12) false))
  = fst (do_start 100 ex_prog' ex_s0 (TNum 12) false)
  /\ fst (gen_run_cmds 100 ex_prog ex_s0 ex_cuts) = ex_s1.
Proof. split; vm_compute; reflexivity. Qed.
