(* C03 placeholder while proofs are being written; replaced below. *)
From PV Require Import Sim.Model.
Theorem C03_placeholder : True. Proof. exact I. Qed.
Print Assumptions C03_placeholder.
