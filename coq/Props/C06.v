(* C06 -- replications are isolated: re-initialising gives a fresh, reproducible run.

   Statements about the simulator model Sim/Model.v (tied to simulator.py on
   every run by harness/c02.py ... c06.py) and about the model object with its
   output-statistics map (Sim/Reinit.v, section 4; tied by harness/c06.py).
   Proofs: Sim/ReinitProofs.v.

   [logs_of s]: everything the model logs -- executed events with the clock at
   execution, cancellations, scheduling / command outcomes, the notification
   stream, the statistics feed (every observation handed to a statistic, every
   WARMUP and END_REPLICATION) -- newest first, event ids erased: an event is
   identified by (time, priority, handler, creation rank in its replication).
   [lapp n b]: the logs n on top of the earlier logs b.

   Random streams are not part of Sim/Model.v: for its theorems "with the same
   seeds" is "the same model program".  The composed model of C07 (Sim/Repro.v)
   has the streams (as their raw output sequences, re-seeded by
   construct_model), listeners and statistics: C06_composed_reinit_fresh is the
   isolation theorem for it.  That a re-seeded MersenneTwister repeats its
   sequence is C12 (Streams/). *)
From Coq Require Import ZArith List Bool.
From PV Require Import EventList.Key Sim.Model Sim.Case Sim.Order Sim.Horizon Sim.Reinit Sim.ReinitProofs
  Sim.Repro Sim.ReproProofs.
Import ListNotations.
Local Open Scope Z_scope.

(* ---- clause: "Initialising a simulator again, from a freshly initialised,
   paused or ended state, resets the clock to the replication start, discards
   every event still pending from the previous replication" --------------------
   s: ANY state satisfying the invariant of reachable states (hreach: reached
   by any commands with any model programs taking turns) that is not running.
   [live s]: every event that is pending, was executed or was cancelled. *)
Theorem C06_reinit_clears_pending : forall p s r,
  Inv s -> running s = false ->
  let s' := fst (do_init p s r) in
  clock s' = r_start r
  /\ (forall e, In e (pend s') -> nid s <= ev_id e)
  /\ (forall e, In e (created s') -> nid s <= ev_id e)
  /\ (forall e, In e (live s) -> ~ In e (pend s')).
Proof. exact reinit_clears_pending. Qed.
Print Assumptions C06_reinit_clears_pending.

Theorem C06_every_history_satisfies_the_invariant : forall s, hreach s -> Inv s.
Proof. exact hreach_inv. Qed.
Print Assumptions C06_every_history_satisfies_the_invariant.

(* ---- clause: "and schedules exactly one warm-up" -----------------------------
   An initialize whose construct_model raises is aborted (ResRaised): the
   exception leaves initialize before the warm-up is scheduled, no warm-up event
   is pending and the simulator is not initialised. *)
Theorem C06_exactly_one_warmup_scheduled : forall p s r,
  running s = false -> r_start r <= r_warm r ->
  (snd (do_init p s r) = ResOk
   /\ exists n, nid s <= n /\ warmups (fst (do_init p s r)) = [mkEv (r_warm r) 10 n HWarm 0])
  \/ (snd (do_init p s r) = ResRaised /\ warmups (fst (do_init p s r)) = []).
Proof. exact exactly_one_warmup_scheduled. Qed.
Print Assumptions C06_exactly_one_warmup_scheduled.

(* ---- clause: "rebuilds the model through its construction method (including
   models that create their statistics there, as the documentation instructs)" --
   [x_init true]: initialize as repaired in /repo 530d336 (the output-statistics
   map is emptied before construct_model); [x_init false]: the pinned code. *)
Theorem C06_initialize_never_already_registered : forall xp x r,
  NoDup (keys_of (xp_stats xp)) -> running (x_sim x) = false ->
  snd (x_init true xp x r) = (match snd (do_init (xp_prog xp) (x_sim x) r) with ResRaised => XRaised | _ => XOk end)
  /\ snd (x_init true xp x r) <> XAlreadyRegistered /\ snd (x_init true xp x r) <> XRefused.
Proof. exact x_init_never_already_registered. Qed.
Print Assumptions C06_initialize_never_already_registered.

(* after initialize the map holds exactly the statistics of this
   construct_model, in construction order, all of them new objects that are fed
   from this moment on; the older objects are cut off at this moment *)
Theorem C06_initialize_rebuilds_statistics : forall xp x r,
  NoDup (keys_of (xp_stats xp)) -> running (x_sim x) = false ->
  let x' := fst (x_init true xp x r) in
  let N := length (m_objs (x_mdl x)) in
  m_map (x_mdl x') = combine (keys_of (xp_stats xp)) (seq N (length (xp_stats xp)))
  /\ skipn N (m_objs (x_mdl x'))
     = map (fun q => mkObj (fst (fst q)) (snd (fst q)) (snd q) (length (obs (x_sim x))) None) (xp_stats xp)
  /\ firstn N (m_objs (x_mdl x')) = map (cut_obj (length (obs (x_sim x)))) (m_objs (x_mdl x)).
Proof. exact x_init_rebuilds_statistics. Qed.
Print Assumptions C06_initialize_rebuilds_statistics.

(* the pinned code refuses the second initialize of a model with one SimTally *)
Theorem C06_pinned_second_initialize_refuted :
  let x1 := fst (x_init false pinned_witness_prog (x0 SWarnPause) pinned_witness_repl) in
  NoDup (keys_of (xp_stats pinned_witness_prog))
  /\ snd (x_init false pinned_witness_prog (x0 SWarnPause) pinned_witness_repl) = XOk
  /\ running (x_sim x1) = false
  /\ snd (x_init false pinned_witness_prog x1 pinned_witness_repl) = XAlreadyRegistered
  /\ snd (x_init true pinned_witness_prog x1 pinned_witness_repl) = XOk.
Proof. exact x_init_pinned_already_registered_refuted. Qed.
Print Assumptions C06_pinned_second_initialize_refuted.

(* ---- clause: "Two replications of the same model with the same seeds then
   execute identical event sequences and report identical statistics whatever
   happened in the replication before" ------------------------------------------
   s: any state that is not running (no reachability needed).  Both simulators
   are initialised for replication r of program p and then given the same
   further commands cs (any commands, further initialisations included).
   The initialize is never refused; it is accepted (ResOk) on both or - when
   construct_model raises - aborted (ResRaised) on both, and the theorem holds
   in either case, also for histories and continuations that contain aborted
   initialisations. *)
Theorem C06_reinit_fresh : forall p r s fuel cs,
  running s = false ->
  let a := fst (do_init p s r) in
  let b := fst (do_init p (init_sim (strat s)) r) in
  let ra := run_cmds fuel p a cs in
  let rb := run_cmds fuel p b cs in
  (snd (do_init p s r) = snd (do_init p (init_sim (strat s)) r) /\ snd (do_init p s r) <> ResRefused)
  /\ snd ra = snd rb
  /\ logs_of (fst ra) = lapp (logs_of (fst rb)) (logs_of s).
Proof. exact reinit_fresh. Qed.
Print Assumptions C06_reinit_fresh.

(* several models taking turns on the simulator after the re-initialisation *)
Theorem C06_reinit_fresh_models_taking_turns : forall p r s fuel h,
  running s = false ->
  let a := run_hist fuel (fst (do_init p s r)) h in
  let b := run_hist fuel (fst (do_init p (init_sim (strat s)) r)) h in
  logs_of a = lapp (logs_of b) (logs_of s).
Proof. exact reinit_fresh_models_taking_turns. Qed.
Print Assumptions C06_reinit_fresh_models_taking_turns.

(* with the model object: the statistics reported under each key (kind and
   everything the statistic was fed) equal those of the brand-new simulator and
   model, after any further commands *)
Theorem C06_reinit_statistics_fresh : forall xp r x fuel cs,
  NoDup (keys_of (xp_stats xp)) -> running (x_sim x) = false ->
  let xa := x_run fuel xp (fst (x_init true xp x r)) cs in
  let xb := x_run fuel xp (fst (x_init true xp (x0 (strat (x_sim x))) r)) cs in
  reported xa = reported xb
  /\ logs_of (x_sim xa) = lapp (logs_of (x_sim xb)) (logs_of (x_sim x)).
Proof. exact reinit_statistics_fresh. Qed.
Print Assumptions C06_reinit_statistics_fresh.

(* isolation in the other direction: a statistic of the previous replication
   keeps exactly what it had been fed *)
Theorem C06_old_statistics_frozen : forall xp r x fuel cs i o,
  Inv (x_sim x) -> running (x_sim x) = false ->
  nth_error (m_objs (x_mdl x)) i = Some o -> so_upto o = None ->
  let x' := x_run fuel xp (fst (x_init true xp x r)) cs in
  exists o', nth_error (m_objs (x_mdl x')) i = Some o'
             /\ so_key o' = so_key o /\ so_kind o' = so_kind o
             /\ feed (x_sim x') o' = feed (x_sim x) o.
Proof. exact old_statistics_frozen. Qed.
Print Assumptions C06_old_statistics_frozen.

(* what reinit_fresh rests on: the simulator looks at event ids only through
   [<] and [=] among pending / referenced events.  [ren_sim f n' s]: s with
   every event id sent through f and the id counter at n'; [MonoOn]: f is
   strictly monotone on the ids of the pending and referenced events and stays
   below n'. *)
Theorem C06_run_id_monotone_invariant : forall f n' s fuel p cs,
  (forall a, In a (dom s) -> a < nid s) -> MonoOn f n' s ->
  let ra := run_cmds fuel p s cs in
  let rb := run_cmds fuel p (ren_sim f n' s) cs in
  snd rb = snd ra /\ logs_of (fst rb) = logs_of (fst ra).
Proof. exact run_id_monotone_invariant. Qed.
Print Assumptions C06_run_id_monotone_invariant.

(* the same for the composed model of C07 (Sim/Repro.v): handlers and listeners
   that fire, subscribe / unsubscribe, draw delays and observed values from
   seeded streams which construct_model re-seeds, statistics built in
   construct_model.  y: ANY state that is not running; h: any further commands
   with any models taking turns.  The re-initialised simulator and a brand-new
   one give the same snapshots, and the former logs on top of its earlier logs
   exactly what the latter logs -- executed events, outcomes, notifications,
   statistics feed, deliveries to listeners, random draws; producer, streams
   and reported statistics are equal ("with the same seeds": the streams are
   part of this model). *)
Theorem C06_composed_reinit_fresh : forall nint M r y pre' g fuel hf h,
  running (y_sim y) = false -> NoDup (keys_of (ym_stats M)) ->
  (* SimEvent objects built before initialize and handed to schedule_event(event)
     later keep their ids: [y_pre y] in the old process state, [pre'] those of
     the brand-new model -- only their order and "below the id counter" matter *)
  map g (y_pre y) = pre' ->
  (forall a b, In a (y_pre y) -> In b (y_pre y) -> a < b -> g a < g b) ->
  (forall a, In a (y_pre y) -> a < nid (y_sim y)) -> (forall a, In a (y_pre y) -> g a < 0) ->
  let a := fst (fst (ydo_init nint M hf y r)) in
  let b := fst (fst (ydo_init nint M hf (y0p (strat (y_sim y)) pre') r)) in
  let ra := y_hist nint fuel hf a h in
  let rb := y_hist nint fuel hf b h in
  let ya := fst (fst ra) in let yb := fst (fst rb) in
  (snd (fst (ydo_init nint M hf y r)) = snd (fst (ydo_init nint M hf (y0p (strat (y_sim y)) pre') r))
   /\ snd (fst (ydo_init nint M hf y r)) <> ResRefused)
  /\ snd (fst ra) = snd (fst rb) /\ snd ra = snd rb
  /\ logs_of (y_sim ya) = lapp (logs_of (y_sim yb)) (logs_of (y_sim y))
  /\ y_dlv ya = y_dlv yb ++ y_dlv y
  /\ y_drw ya = y_drw yb ++ y_drw y
  /\ y_subm ya = y_subm yb /\ y_str ya = y_str yb /\ y_ser ya = y_ser yb
  /\ yreported ya = yreported yb.
Proof. exact y_reinit_fresh. Qed.
Print Assumptions C06_composed_reinit_fresh.

(* ---- clause: "initialising while running is refused" ------------------------- *)
Theorem C06_initialize_refused_while_running : forall p s r,
  running s = true -> do_init p s r = (s, ResRefused).
Proof. exact initialize_refused_while_running. Qed.
Print Assumptions C06_initialize_refused_while_running.

Theorem C06_initialize_from_handler_refused : forall md s r,
  md <> InConstruct -> running s = true -> inner_cmd md s (CInit r) = out OCmdRefused s.
Proof. exact initialize_from_handler_refused. Qed.
Print Assumptions C06_initialize_from_handler_refused.

Theorem C06_model_initialize_refused_while_running : forall clr xp x r,
  running (x_sim x) = true -> x_init clr xp x r = (x, XRefused).
Proof. exact x_init_refused_while_running. Qed.
Print Assumptions C06_model_initialize_refused_while_running.

(* ---- non-vacuity: a history with two different model programs -- a bounded
   run, a step, a handler fault under WARN_AND_PAUSE, events left pending beyond
   the cut -- followed by a shorter replication of the first model ------------- *)
Definition ex_p1 : program :=
  [ [ASched (MAbs (TNum 4)) 5 1; ASched (MAbs (TNum 4)) 7 2; ASched (MRel (TNum 8)) 5 2;
     ASched (MAbs (TNum 60)) 5 3; AObs 0 3];
    [ASched MNow 5 2; ACancel 2; AObs 0 7];
    [AObs 1 1];
    [AFail] ].
Definition ex_p2 : program :=
  [ [ASched (MRel (TNum 12)) 5 1; ASched (MRel (TNum 12)) 9 1]; [AFail; AObs 0 1] ].
Definition ex_hist : list (program * cmd) :=
  [(ex_p1, CInit (mkRepl 0 8 80)); (ex_p1, CRunUpTo (TNum 10)); (ex_p1, CStep);
   (ex_p2, CInit (mkRepl 8 8 40)); (ex_p2, CStart)].
Definition ex_s : sim := run_hist 100 (init_sim SWarnPause) ex_hist.
Definition ex_r : repl := mkRepl 0 4 20.
Definition ex_cs : list cmd := [CStep; CRunUpToIncl (TNum 4); CStart].

Example ex_history_is_nontrivial :
  hreach ex_s /\ running ex_s = false /\ rs ex_s = RStopped /\ ps ex_s = PStarted
  /\ length (pend ex_s) = 1%nat /\ length (trace ex_s) = 7%nat /\ nid ex_s = 9 /\ clock ex_s = 20 /\ flag ex_s = false.
Proof.
  split; [apply run_hist_hreach; constructor|]. vm_compute. repeat split.
Qed.

Example ex_reinit_equals_fresh :
  let ra := run_cmds 100 ex_p1 (fst (do_init ex_p1 ex_s ex_r)) ex_cs in
  let rb := run_cmds 100 ex_p1 (fst (do_init ex_p1 (init_sim SWarnPause) ex_r)) ex_cs in
  length (l_tr (logs_of (fst rb))) = 4%nat /\ ps (fst rb) = PEnded
  /\ logs_of (fst ra) = lapp (logs_of (fst rb)) (logs_of ex_s).
Proof. vm_compute. repeat split. Qed.

Definition ex_xp : xprog := mkXProg [(0%nat, KTally, 0%nat); (1%nat, KPersistent, 1%nat)] ex_p1.
Definition ex_x : xsim := x_run 100 ex_xp (x0 SWarnPause) [CInit (mkRepl 0 8 80); CRunUpTo (TNum 10); CStep].

Example ex_statistics_rebuilt :
  running (x_sim ex_x) = false /\ length (m_objs (x_mdl ex_x)) = 2%nat
  /\ reported (x_run 100 ex_xp (fst (x_init true ex_xp ex_x ex_r)) ex_cs)
     = reported (x_run 100 ex_xp (fst (x_init true ex_xp (x0 SWarnPause) ex_r)) ex_cs)
  /\ map fst (reported (x_run 100 ex_xp (fst (x_init true ex_xp ex_x ex_r)) ex_cs)) = [0%nat; 1%nat].
Proof. vm_compute. repeat split. Qed.

(* an ABORTED initialise in the history (construct_model of ex_pf raises after
   having scheduled an event): the simulator is left not initialised with that
   event pending and a live worker; initialising it for ex_p1 afterwards still
   equals the brand-new simulator -- and initialising it for ex_pf again is
   aborted on both alike *)
Definition ex_pf : program := [ [ASched (MAbs (TNum 4)) 5 1; AObs 0 5; AFail; ASched (MAbs (TNum 8)) 5 1]; [AObs 0 1] ].
Definition ex_sa : sim := run_hist 100 ex_s [(ex_pf, CInit (mkRepl 0 0 40)); (ex_pf, CStart)].

Example ex_aborted_initialise_in_history :
  snd (do_init ex_pf ex_s (mkRepl 0 0 40)) = ResRaised
  /\ rs ex_sa = RNotInit /\ ps ex_sa = PNotInit /\ worker ex_sa = WAlive /\ length (pend ex_sa) = 1%nat
  /\ flag ex_sa = false /\ running ex_sa = false
  /\ (let ra := run_cmds 100 ex_p1 (fst (do_init ex_p1 ex_sa ex_r)) ex_cs in
      let rb := run_cmds 100 ex_p1 (fst (do_init ex_p1 (init_sim SWarnPause) ex_r)) ex_cs in
      ps (fst rb) = PEnded /\ logs_of (fst ra) = lapp (logs_of (fst rb)) (logs_of ex_sa))
  /\ snd (do_init ex_pf ex_sa ex_r) = ResRaised /\ snd (do_init ex_pf (init_sim SWarnPause) ex_r) = ResRaised.
Proof. vm_compute. repeat split. Qed.
