(* C10 -- weighted and time-weighted tallies compute weight / time integrals
   of their input.  Property-level theorems only; each is closed by [exact] of
   a lemma of Stats/WeightedProofs.v or Stats/TimestampProofs.v and followed by
   Print Assumptions.

   Setting as in C09: one model text (Stats/Weighted.v, Stats/Timestamp.v) over
   a record [Num] of arithmetic operations; theorems about the exact-rational
   instance [NumQ sq] ([sq] = math.sqrt, any function respecting equality), the
   binary64 instance of the same text is executed bit-for-bit against /repo by
   the correspondence check.  Accuracy in binary64 is measured, not proved.

   An observation is a pair (weight, value); a history [ops] is any list of
   [WReg ow ov] (each argument a number, NaN, a non-number or an int beyond
   the float range) and [WInit]; [weffective [] ops] are the valid observations
   (both numbers, weight >= 0) since the last initialize, [wpos] selects the
   positively weighted ones; [sw], [swx], [wmean_def], [wcen2], [wvar_def],
   [wsamvar_def] are the textbook weighted sums (top of WeightedProofs.v). *)
From Coq Require Import ZArith QArith List.
From PV Require Import Stats.Num Stats.Tally Stats.TallyProofs Stats.Weighted Stats.WeightedProofs
                       Stats.Timestamp Stats.TimestampProofs Stats.GenericTotal.
Import ListNotations.
Local Open Scope Q_scope.

Definition sqrt_respects_eq (sq : Q -> Q) : Prop := forall a b, a == b -> sq a == sq b.

(* ---------------------------------------------------------------------- *)
(* 1. Weighted sum, mean and weight-times-variance equal their definitions
      over the POSITIVELY weighted observations; n, min and max range over
      ALL valid observations (so zero weights touch only those).           *)
Theorem C10_weighted_accumulators_are_textbook_sums :
  forall (sq : Q -> Q) (ops : list (wop (NumQ sq))),
    let NQ := NumQ sq in
    let obs := weffective sq [] ops in
    let P := wpos obs in
    let s := wrun NQ (winit NQ) ops in
    wn s = Z.of_nat (length obs) /\
    wnz s = Z.of_nat (length P) /\
    wsw s == sw P /\ wsum s == swx P /\
    wmean s == swx P / sw P /\
    wwtv s == wcen2 (swx P / sw P) P /\
    match wmin s with XNaN => obs = [] | XFin m => is_min m (map snd obs) | _ => False end /\
    match wmax s with XNaN => obs = [] | XFin m => is_max m (map snd obs) | _ => False end.
Proof.
  intros sq ops. destruct (weighted_accumulators sq ops) as [A [B [C [D [E [F [G H]]]]]]].
  cbv zeta. repeat split; try assumption.
  - destruct (wmin (wrun (NumQ sq) (winit (NumQ sq)) ops)); cbn in G; try assumption.
    destruct (weffective sq [] ops); [reflexivity | discriminate].
  - destruct (wmax (wrun (NumQ sq) (winit (NumQ sq)) ops)); cbn in H; try assumption.
    destruct (weffective sq [] ops); [reflexivity | discriminate].
Qed.
Print Assumptions C10_weighted_accumulators_are_textbook_sums.

(* a zero-weight observation, step by step: only n (and min / max) move *)
Theorem C10_zero_weight_touches_only_n_min_max :
  forall (sq : Q -> Q) (s : wstate (NumQ sq)) (w x : Q), w == 0 ->
    exists s', wregister (NumQ sq) s (@ONum (F (NumQ sq)) w) (@ONum (F (NumQ sq)) x) = Ok s' /\
      wn s' = (wn s + 1)%Z /\ wnz s' = wnz s /\ wsw s' = wsw s /\ wmean s' = wmean s /\
      wwtv s' = wwtv s /\ wsum s' = wsum s.
Proof. exact zero_weight_step. Qed.
Print Assumptions C10_zero_weight_touches_only_n_min_max.

(* ---------------------------------------------------------------------- *)
(* 2. The getters equal their definitions: weighted mean; population
      variance Sum w (x - mean)^2 / Sum w; sample variance with the
      M / (M - 1) correction (M = number of non-zero weights); stdev = sqrt. *)
Theorem C10_weighted_getters_equal_definitions :
  forall sq, sqrt_respects_eq sq -> forall ops : list (wop (NumQ sq)),
    let NQ := NumQ sq in
    let obs := weffective sq [] ops in
    let P := wpos obs in
    let s := wrun NQ (winit NQ) ops in
    (obs <> [] -> res_is (gw_mean NQ s) (wmean_def P)) /\
    (P <> [] -> res_is (gw_variance NQ true s) (wvar_def P) /\
                res_is (gw_stdev NQ true s) (sq (wvar_def P))) /\
    ((2 <= length P)%nat -> res_is (gw_variance NQ false s) (wsamvar_def P) /\
                            res_is (gw_stdev NQ false s) (sq (wsamvar_def P))).
Proof. exact weighted_getters_equal_definitions. Qed.
Print Assumptions C10_weighted_getters_equal_definitions.

Theorem C10_weighted_definitions_are_the_documented_ones :
  forall P : list (Q * Q),
    wmean_def P = swx P / sw P /\
    wvar_def P = wcen2 (wmean_def P) P / sw P /\
    wsamvar_def P = wvar_def P * lenQ P / (lenQ P - 1).
Proof. intros. repeat split; reflexivity. Qed.
Print Assumptions C10_weighted_definitions_are_the_documented_ones.

(* ---------------------------------------------------------------------- *)
(* 3. Every query returns a value or NaN and never raises, in every
      reachable state -- including after only zero-weight observations
      (the repair of /repo commit 58d98fe); NaN exactly when undefined.    *)
Theorem C10_weighted_getters_total :
  forall sq, sqrt_respects_eq sq -> forall ops : list (wop (NumQ sq)),
    let NQ := NumQ sq in
    let s := wrun NQ (winit NQ) ops in
    no_raise (gw_mean NQ s) /\
    (forall b, no_raise (gw_variance NQ b s)) /\
    (forall b, no_raise (gw_stdev NQ b s)).
Proof. exact weighted_getters_total. Qed.
Print Assumptions C10_weighted_getters_total.

Theorem C10_weighted_nan_exactly_when_undefined :
  forall sq, sqrt_respects_eq sq -> forall ops : list (wop (NumQ sq)),
    let NQ := NumQ sq in
    let obs := weffective sq [] ops in
    let P := wpos obs in
    let s := wrun NQ (winit NQ) ops in
    (gw_mean NQ s = NaNres <-> obs = []) /\
    (gw_variance NQ true s = NaNres <-> P = []) /\
    (gw_stdev NQ true s = NaNres <-> P = []) /\
    (gw_variance NQ false s = NaNres <-> (length P < 2)%nat) /\
    (gw_stdev NQ false s = NaNres <-> (length P < 2)%nat).
Proof. exact weighted_nan_structure. Qed.
Print Assumptions C10_weighted_nan_exactly_when_undefined.

(* ---------------------------------------------------------------------- *)
(* 4. Rejected arguments (NaN value or weight, negative weight, non-number,
      int beyond the float range) change nothing; initialize forgets the
      past.  For EVERY arithmetic instance, incl. the executed binary64.   *)
Theorem C10_weighted_rejected_changes_nothing :
  forall (N : Num) (s : wstate N) ow ov,
    wrejected N ow ov = true ->
    (exists k, wregister N s ow ov = Exn k s) /\ state_of (wstep N s (WReg ow ov)) = s.
Proof. exact weighted_rejected_unchanged. Qed.
Print Assumptions C10_weighted_rejected_changes_nothing.

Theorem C10_weighted_initialize_resets :
  forall (N : Num) pre post (s : wstate N),
    wrun N s (pre ++ WInit :: post) = wrun N (winit N) post.
Proof. exact weighted_initialize_resets. Qed.
Print Assumptions C10_weighted_initialize_resets.

(* ---------------------------------------------------------------------- *)
(* 5. Timestamped variant.  Fed (time, value) pairs with non-decreasing
      times t0 <= t1 <= ... and closed with an end time T >= the last time:
      the total weight is the span T - t0, the weighted sum is the integral
      of the piecewise-constant signal ([integ_from]: the value given at a
      time holds until the next time; at a repeated time the last value
      wins), and the weighted mean is the time average (NaN for an empty
      span).                                                               *)
Theorem C10_time_average :
  forall sq t0 v0 rest T, nondecr_from t0 rest T ->
    let NQ := NumQ sq in
    let s := tsrun NQ (tsinit NQ) (map (tsreg sq) ((t0, v0) :: rest) ++ [tsend sq T]) in
    ts_active s = false /\
    wsw (ts_w s) == T - t0 /\
    gw_sum NQ (ts_w s) == integ_from t0 v0 rest T /\
    (t0 < T -> res_is (gw_mean NQ (ts_w s)) (integ_from t0 v0 rest T / (T - t0))) /\
    (T == t0 -> gw_mean NQ (ts_w s) = NaNres).
Proof. exact time_average. Qed.
Print Assumptions C10_time_average.

Theorem C10_step_integral_is_the_documented_one :
  forall tl vl t v r T,
    integ_from tl vl [] T = (T - tl) * vl /\
    integ_from tl vl ((t, v) :: r) T = (t - tl) * vl + integ_from t v r T.
Proof. intros. split; reflexivity. Qed.
Print Assumptions C10_step_integral_is_the_documented_one.

(* in every reachable state of the timestamped tally no getter raises *)
Theorem C10_timestamp_getters_total :
  forall sq, sqrt_respects_eq sq -> forall ops : list (tsop (NumQ sq)),
    let NQ := NumQ sq in
    let w := ts_w (tsrun NQ (tsinit NQ) ops) in
    no_raise (gw_mean NQ w) /\
    (forall b, no_raise (gw_variance NQ b w)) /\
    (forall b, no_raise (gw_stdev NQ b w)).
Proof. exact ts_getters_total. Qed.
Print Assumptions C10_timestamp_getters_total.

(* an earlier timestamp is rejected without any change (open or closed);
   so are NaN / non-number arguments.  Every arithmetic instance.          *)
Theorem C10_earlier_timestamp_rejected_unchanged :
  forall (N : Num) (s : tsstate N) (t v l : F N),
    ts_last s = Some l -> isnan t = false -> isnan v = false -> ltb t l = true ->
    tsregister N s (ONum t) (ONum v) = Exn ValueError s.
Proof. exact ts_earlier_rejected. Qed.
Print Assumptions C10_earlier_timestamp_rejected_unchanged.

Theorem C10_timestamp_rejected_changes_nothing :
  forall (N : Num) (s : tsstate N) ot ov,
    tsrejected N ot ov = true -> exists k, tsregister N s ot ov = Exn k s.
Proof. exact ts_rejected_unchanged. Qed.
Print Assumptions C10_timestamp_rejected_changes_nothing.

(* observations after closing are ignored until the next initialisation:
   any sequence of register / end_observations calls (whatever arguments)
   leaves every statistic, the start and the latest time untouched and the
   tally closed; initialize reopens and forgets.  Every arithmetic instance.
   (last_value keeps tracking the last registered value, as documented.)   *)
Theorem C10_ignored_after_closing :
  forall (N : Num) (ops : list (tsop N)) (s : tsstate N),
    ts_active s = false -> Forall (fun op => op <> TsInit) ops ->
    let s' := tsrun N s ops in
    ts_w s' = ts_w s /\ ts_start s' = ts_start s /\ ts_last s' = ts_last s /\ ts_active s' = false.
Proof. exact ts_closed_ignores_run. Qed.
Print Assumptions C10_ignored_after_closing.

Theorem C10_initialize_reopens_and_resets :
  forall (N : Num) pre post (s : tsstate N),
    tsrun N s (pre ++ TsInit :: post) = tsrun N (tsinit N) post /\
    ts_active (tsinit N) = true.
Proof. intros. split; [apply ts_initialize_resets | reflexivity]. Qed.
Print Assumptions C10_initialize_reopens_and_resets.

(* ---------------------------------------------------------------------- *)
(* 6. The accumulator before the max(.., 0.0) repair (wregister_gen false)
      is refuted IN BINARY64 by execution: two positively weighted
      observations leave a negative weight-times-variance, so weighted_stdev
      raises; the repaired accumulator answers 0.0 on the same input.
      (In exact arithmetic the increment is never negative, so this defect
      is invisible to the rational theorems above: it is a rounding defect,
      found by the bit-exact tie plus the never-raises oracle.)            *)
Theorem C10_pinned_weighted_stdev_total_refuted :
  exists ops, Forall (fun p => PrimFloat.ltb PrimFloat.zero (fst p) = true) ops /\
    gw_stdev NumF true (wrun_pinned ops) = Raise ValueError.
Proof. exact pinned_weighted_stdev_raises. Qed.
Print Assumptions C10_pinned_weighted_stdev_total_refuted.

(* ---------------------------------------------------------------------- *)
(* 7. Why the repaired code cannot raise in binary64 either: for EVERY
      arithmetic instance satisfying the elementary order laws [NumLaws]
      (proved for the rationals; IEEE-754 sign rules and exactness of small
      integers for binary64 -- assumed, not proved), the clamped
      weight-times-variance accumulator is never negative in any reachable
      state, every division is guarded, and so no getter of a weighted or a
      timestamped tally raises after any history shorter than [bound].     *)
Theorem C10_getters_total_for_any_lawful_arithmetic :
  forall (N : Num) (bound : Z), NumLaws N bound ->
  forall ops : list (wop N), (Z.of_nat (length ops) < bound)%Z ->
    let s := wrun N (winit N) ops in
    no_raise (gw_mean N s) /\
    (forall b, no_raise (gw_variance N b s)) /\
    (forall b, no_raise (gw_stdev N b s)).
Proof. exact weighted_getters_total_any_arithmetic. Qed.
Print Assumptions C10_getters_total_for_any_lawful_arithmetic.

Theorem C10_timestamp_getters_total_for_any_lawful_arithmetic :
  forall (N : Num) (bound : Z), NumLaws N bound ->
  forall ops : list (tsop N), (Z.of_nat (length ops) < bound)%Z ->
    let w := ts_w (tsrun N (tsinit N) ops) in
    no_raise (gw_mean N w) /\
    (forall b, no_raise (gw_variance N b w)) /\
    (forall b, no_raise (gw_stdev N b w)).
Proof. exact timestamp_getters_total_any_arithmetic. Qed.
Print Assumptions C10_timestamp_getters_total_for_any_lawful_arithmetic.

Theorem C10_laws_hold_in_exact_arithmetic : forall sq bound, NumLaws (NumQ sq) bound.
Proof. exact NumQ_laws. Qed.
Print Assumptions C10_laws_hold_in_exact_arithmetic.

(* ---------------------------------------------------------------------- *)
(* Non-vacuity *)
Example C10_weighted_hypotheses_satisfiable :
  let NQ := NumQ sq_id in
  let r (w x : Q) : wop NQ := wreg sq_id (w, x) in
  let ops : list (wop NQ) :=
    [r 1 5; @WInit NQ; r 2 1; r 0 9; @WReg NQ (@ONaN (F NQ)) (@ONum (F NQ) 1); r (-1) 3; r 1 4; r 3 2] in
  let obs := weffective sq_id [] ops in
  obs = [(2, 1); (0, 9); (1, 4); (3, 2)] /\ wpos obs = [(2, 1); (1, 4); (3, 2)] /\
  sqrt_respects_eq sq_id /\ res_is (gw_mean NQ (wrun NQ (winit NQ) ops)) 2.
Proof.
  cbv zeta. split; [vm_compute; reflexivity |]. split; [vm_compute; reflexivity |].
  split; [exact sq_id_proper |]. eexists; split; vm_compute; reflexivity.
Qed.

Example C10_time_average_hypotheses_satisfiable :
  (* times 0, 1, 1 (repeat), 3, closed at 5: integral = 1*7 + 0*2 + 2*4 + 2*1 = 17, average 17/5 *)
  nondecr_from 0 [(1, 2); (1, 4); (3, 1)] 5 /\ 0 < 5 /\
  integ_from 0 7 [(1, 2); (1, 4); (3, 1)] 5 == 17.
Proof. split; [cbn; repeat split; discriminate |]. split; [reflexivity | vm_compute; reflexivity]. Qed.

(* ---------------------------------------------------------------------- *)
(* 7. The tie to the source TEXT (as in Props/C09.v, section 8).
      Stats/Gen_Stats.v is regenerated on every run by
      translator/py2gallina_stats.py from the method bodies of WeightedTally
      and TimestampWeightedTally in src/pydsol/core/statistics.py of the tree
      under test, and Stats/GenAgree.v proves every generated definition equal
      to the hand-written model function the theorems above are about -- for
      all states and arguments and EVERY arithmetic instance, without any
      hypothesis.  Hence every theorem above is a theorem about what the
      source says now; three are restated over the generated functions.     *)
From PV Require Import Stats.Gen_Stats Stats.GenAgree.

Theorem C10_generated_model_is_the_proved_model : forall N : Num,
  (forall s ow ov, gen_WeightedTally_register N s ow ov = wregister N s ow ov) /\
  (forall s, gen_WeightedTally_initialize N s = Ok (winit N)) /\
  (forall s, gen_WeightedTally___init__ N s NameStr = Ok (winit N) /\
             gen_WeightedTally___init__ N s NameOther = Exn TypeError s) /\
  (forall s, gen_WeightedTally_n N s = gw_n N s /\ gen_WeightedTally_min N s = gw_min N s /\
             gen_WeightedTally_max N s = gw_max N s /\ gen_WeightedTally_weighted_sum N s = gw_sum N s /\
             gen_WeightedTally_weighted_mean N s = gw_mean N s) /\
  (forall s b, gen_WeightedTally_weighted_variance N s b = gw_variance N b s /\
               gen_WeightedTally_weighted_stdev N s b = gw_stdev N b s) /\
  (forall s ot ov, gen_TimestampWeightedTally_register N s ot ov = tsregister N s ot ov) /\
  (forall s ot, gen_TimestampWeightedTally_end_observations N s ot = ts_end N s ot) /\
  (forall s, gen_TimestampWeightedTally_initialize N s = Ok (tsinit N)) /\
  (forall s, gen_TimestampWeightedTally_isactive N s = gts_isactive N s /\
             gen_TimestampWeightedTally_last_value N s = gts_last_value N s) /\
  (forall ops s, gen_wrun N s ops = wrun N s ops) /\
  (forall ops s, gen_tsrun N s ops = tsrun N s ops).
Proof. exact weighted_timestamp_generated_agree. Qed.
Print Assumptions C10_generated_model_is_the_proved_model.

(* C10_weighted_accumulators_are_textbook_sums, for a WeightedTally made by the
   generated __init__ and driven through the generated register / initialize *)
Theorem C10_generated_weighted_accumulators_are_textbook_sums :
  forall (sq : Q -> Q) (ops : list (wop (NumQ sq))) (fresh : wstate (NumQ sq)),
    let NQ := NumQ sq in
    let obs := weffective sq [] ops in
    let P := wpos obs in
    let s := gen_wrun NQ (state_of (gen_WeightedTally___init__ NQ fresh NameStr)) ops in
    gen_WeightedTally_n NQ s = Z.of_nat (length obs) /\
    wnz s = Z.of_nat (length P) /\
    wsw s == sw P /\ gen_WeightedTally_weighted_sum NQ s == swx P /\
    wmean s == swx P / sw P /\
    wwtv s == wcen2 (swx P / sw P) P /\
    match gen_WeightedTally_min NQ s with XNaN => obs = [] | XFin m => is_min m (map snd obs) | _ => False end /\
    match gen_WeightedTally_max NQ s with XNaN => obs = [] | XFin m => is_max m (map snd obs) | _ => False end.
Proof.
  intros sq ops fresh. cbv zeta. rewrite gen_wrun_eq.
  exact (C10_weighted_accumulators_are_textbook_sums sq ops).
Qed.
Print Assumptions C10_generated_weighted_accumulators_are_textbook_sums.

(* C10_weighted_getters_total, for the generated getters *)
Theorem C10_generated_weighted_getters_total :
  forall sq, sqrt_respects_eq sq -> forall (ops : list (wop (NumQ sq))) (fresh : wstate (NumQ sq)),
    let NQ := NumQ sq in
    let s := gen_wrun NQ (state_of (gen_WeightedTally___init__ NQ fresh NameStr)) ops in
    no_raise (gen_WeightedTally_weighted_mean NQ s) /\
    (forall b, no_raise (gen_WeightedTally_weighted_variance NQ s b)) /\
    (forall b, no_raise (gen_WeightedTally_weighted_stdev NQ s b)).
Proof.
  intros sq S ops fresh. cbv zeta. rewrite gen_wrun_eq.
  destruct (C10_weighted_getters_total sq S ops) as [A [B C]].
  repeat split; intros;
    rewrite ?gen_WeightedTally_weighted_mean_eq, ?gen_WeightedTally_weighted_variance_eq,
            ?gen_WeightedTally_weighted_stdev_eq;
    [exact A | exact (B b) | exact (C b)].
Qed.
Print Assumptions C10_generated_weighted_getters_total.

(* C10_time_average, for the generated register / end_observations of the
   timestamped tally (initialised by the generated initialize) *)
Theorem C10_generated_time_average :
  forall sq t0 v0 rest T, nondecr_from t0 rest T ->
  forall fresh : tsstate (NumQ sq),
    let NQ := NumQ sq in
    let s := gen_tsrun NQ (state_of (gen_TimestampWeightedTally_initialize NQ fresh))
                       (map (tsreg sq) ((t0, v0) :: rest) ++ [tsend sq T]) in
    gen_TimestampWeightedTally_isactive NQ s = false /\
    wsw (ts_w s) == T - t0 /\
    gen_WeightedTally_weighted_sum NQ (ts_w s) == integ_from t0 v0 rest T /\
    (t0 < T -> res_is (gen_WeightedTally_weighted_mean NQ (ts_w s)) (integ_from t0 v0 rest T / (T - t0))) /\
    (T == t0 -> gen_WeightedTally_weighted_mean NQ (ts_w s) = NaNres).
Proof.
  intros sq t0 v0 rest T H fresh. cbv zeta. rewrite gen_tsrun_eq.
  exact (C10_time_average sq t0 v0 rest T H).
Qed.
Print Assumptions C10_generated_time_average.
