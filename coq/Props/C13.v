(* C13 - seed updates depend only on stream name, seed and replication number.
   Property-level theorems only; each is closed by [exact] of a lemma proved in
   Streams/SeedsProofs.v and followed by Print Assumptions.

   A stream name is the list of the code points of the Python str.  An updater
   is a function f : name -> original seed -> replication number -> res; the
   history theorems hold for EVERY such function, the concrete updaters of
   streams.py are [updater_fun str_hash u] (repaired tree: deterministic name
   hash [str_hash], fallback for unlisted streams) and [updater_fun_pinned H u]
   (pinned tree: H is the hash function of one interpreter process). *)
From Coq Require Import ZArith List Bool Permutation.
From PV Require Import Streams.Seeds Streams.SeedsProofs.
Import ListNotations.
Open Scope Z_scope.

(* An update that goes through gives every stream the value of the updater
   function at (its name, its original seed, r); names and original seeds are
   untouched.  The updater function has no other argument: no current seed, no
   position in the dict, no other stream, no process state. *)
Theorem C13_update_result :
  forall (f : name -> Z -> Z -> res) (r : Z) (l l' : list entry),
    update_list f r l = (l', None) ->
    Forall2 (fun e e' => e_kind e = KStream /\ e_kind e' = KStream /\
                         e_name e' = e_name e /\ e_orig e' = e_orig e /\
                         f (e_name e) (e_orig e) r = Val (e_cur e')) l l'.
Proof. exact update_result. Qed.
Print Assumptions C13_update_result.

(* ... so two streams with the same name and original seed get the same seed
   for replication r in any two configurations (other streams, other current
   seeds, other positions). *)
Theorem C13_seed_depends_only_on_name_seed_replication :
  forall (f : name -> Z -> Z -> res) (r : Z) (l1 l1' l2 l2' : list entry) (e1 e2 : entry),
    update_list f r l1 = (l1', None) -> update_list f r l2 = (l2', None) ->
    In e1 l1' -> In e2 l2' ->
    e_name e1 = e_name e2 -> e_orig e1 = e_orig e2 ->
    e_cur e1 = e_cur e2.
Proof. exact seed_depends_only_on. Qed.
Print Assumptions C13_seed_depends_only_on_name_seed_replication.

(* The concrete (repaired) updaters spelled out: a closed function of the code
   points of the name, the original seed or the configured seed list, and r. *)
Theorem C13_repaired_updater_spec :
  forall (u : updater) (n : name) (orig r : Z), 0 <= r ->
    updater_fun str_hash u n orig r =
    match u with
    | USimple => Val (orig + r * (1000037 + str_hash n))
    | UTable tbl fb =>
        match lookup tbl n with
        | Some seeds => if r <? Z.of_nat (length seeds) then Val (nth (Z.to_nat r) seeds 0)
                        else Raise EValueError
        | None => fb_fun table_update str_hash fb n orig r
        end
    end.
Proof. exact repaired_updater_spec. Qed.
Print Assumptions C13_repaired_updater_spec.

Theorem C13_name_hash_is_32_bit :
  forall n : name, 0 <= str_hash n < two32.
Proof. exact str_hash_range. Qed.
Print Assumptions C13_name_hash_is_32_bit.

(* current seeds play no role, and successive updates do not build on each
   other: what replication r2 assigns is the same after any earlier update *)
Theorem C13_update_ignores_current_seeds :
  forall (f : name -> Z -> Z -> res) (r : Z) (la lb : list entry),
    Forall2 same_ident la lb ->
    forall la', update_list f r la = (la', None) -> update_list f r lb = (la', None).
Proof. exact update_ignores_current_seeds. Qed.
Print Assumptions C13_update_ignores_current_seeds.

Theorem C13_update_history_free :
  forall (f : name -> Z -> Z -> res) (r1 r2 : Z) (l l1 : list entry) (x1 : option exn) (l2 : list entry),
    update_list f r1 l = (l1, x1) -> update_list f r2 l = (l2, None) ->
    update_list f r2 l1 = (l2, None).
Proof. exact update_history_free. Qed.
Print Assumptions C13_update_history_free.

(* regardless of the order in which the streams are listed *)
Theorem C13_order_independent :
  forall (f : name -> Z -> Z -> res) (r : Z) (l l2 l' : list entry),
    Permutation l l2 -> update_list f r l = (l', None) ->
    exists l2', update_list f r l2 = (l2', None) /\ Permutation l' l2'.
Proof. exact order_independent. Qed.
Print Assumptions C13_order_independent.

Theorem C13_order_independent_by_name :
  forall (f : name -> Z -> Z -> res) (r : Z) (l l2 l' l2' : list entry) (n : name),
    NoDup (map e_name l) -> Permutation l l2 ->
    update_list f r l = (l', None) -> update_list f r l2 = (l2', None) ->
    seed_of n l' = seed_of n l2'.
Proof. exact order_independent_by_name. Qed.
Print Assumptions C13_order_independent_by_name.

Theorem C13_refusal_order_independent :
  forall (f : name -> Z -> Z -> res) (r : Z) (l l2 : list entry),
    Permutation l l2 ->
    (snd (update_list f r l) = None <-> snd (update_list f r l2) = None).
Proof. exact refusal_order_independent. Qed.
Print Assumptions C13_refusal_order_independent.

(* ... nor does the order of the seed table matter *)
Theorem C13_table_order_independent :
  forall (tbl tbl2 : list (name * list Z)) (fb : name -> Z -> Z -> res) (n : name) (orig r : Z),
    NoDup (map fst tbl) -> Permutation tbl tbl2 ->
    table_update tbl fb n orig r = table_update tbl2 fb n orig r.
Proof. exact table_order_independent. Qed.
Print Assumptions C13_table_order_independent.

Example C13_order_nonvacuous :
  let l := [mkE KStream [100; 101] 10 10; mkE KStream [97] 3 77; mkE KStream [] (-4) 0] in
  let l2 := [mkE KStream [] (-4) 0; mkE KStream [100; 101] 10 10; mkE KStream [97] 3 77] in
  Permutation l l2 /\ NoDup (map e_name l) /\
  update_list (updater_fun str_hash (UTable [([97], [5; 6; 7])] FSimple)) 2 l =
    ([mkE KStream [100; 101] 10 2006486; mkE KStream [97] 3 7; mkE KStream [] (-4) 2000070], None).
Proof.
  cbv zeta. split; [|split].
  - apply Permutation_sym. apply (Permutation_cons_app [_; _] [] _). cbn. apply Permutation_refl.
  - repeat constructor; cbn; intuition discriminate.
  - reflexivity.
Qed.

(* streams without a configured seed list are served by the fallback updater *)
Theorem C13_fallback_used_for_unlisted :
  forall (tbl : list (name * list Z)) (fb : name -> Z -> Z -> res) (n : name) (orig r : Z),
    0 <= r -> lookup tbl n = None -> table_update tbl fb n orig r = fb n orig r.
Proof. exact fallback_used_for_unlisted. Qed.
Print Assumptions C13_fallback_used_for_unlisted.

(* listed streams: the r-th element of the list; refused when negative or beyond *)
Theorem C13_table_listed :
  forall (tbl : list (name * list Z)) (fb : name -> Z -> Z -> res) (n : name) (orig r : Z) (seeds : list Z),
    lookup tbl n = Some seeds ->
    (r < 0 -> table_update tbl fb n orig r = Raise EValueError) /\
    (Z.of_nat (length seeds) <= r -> table_update tbl fb n orig r = Raise EValueError) /\
    (0 <= r < Z.of_nat (length seeds) ->
       table_update tbl fb n orig r = Val (nth (Z.to_nat r) seeds 0)).
Proof. exact table_listed. Qed.
Print Assumptions C13_table_listed.

(* a refused replication number leaves the refused stream (and every stream
   after it) exactly as it was; the streams before it hold their new seeds *)
Theorem C13_refused_unchanged :
  forall (f : name -> Z -> Z -> res) (r : Z) (l l' : list entry) (x : exn),
    update_list f r l = (l', Some x) ->
    exists pre e post,
      l = pre ++ e :: post /\ update_entry f r e = Raise x /\
      (forall a, In a pre -> is_val (update_entry f r a)) /\
      l' = map (apply_update f r) pre ++ e :: post.
Proof. exact refused_unchanged. Qed.
Print Assumptions C13_refused_unchanged.

Theorem C13_negative_replication_changes_nothing :
  forall (H : name -> Z) (u : updater) (l : list entry) (r : Z) (e : entry) (t : list entry),
    r < 0 -> l = e :: t -> exists x, update_seeds (updater_fun H u) (RInt r) l = (l, Some x).
Proof. exact negative_replication_changes_nothing. Qed.
Print Assumptions C13_negative_replication_changes_nothing.

Theorem C13_ill_typed_replication_refused :
  forall (f : name -> Z -> Z -> res) (l : list entry),
    update_seeds f RIllTyped l = (l, Some ETypeError).
Proof. exact ill_typed_replication_refused. Qed.
Print Assumptions C13_ill_typed_replication_refused.

Theorem C13_beyond_list_refused_stream_unchanged :
  forall (tbl : list (name * list Z)) (fb : name -> Z -> Z -> res) (r : Z)
         (pre : list entry) (e : entry) (post : list entry) (seeds : list Z),
    e_kind e = KStream -> lookup tbl (e_name e) = Some seeds -> Z.of_nat (length seeds) <= r ->
    (forall a, In a pre -> is_val (update_entry (table_update tbl fb) r a)) ->
    update_list (table_update tbl fb) r (pre ++ e :: post) =
    (map (apply_update (table_update tbl fb) r) pre ++ e :: post, Some EValueError).
Proof. exact beyond_list_refused_stream_unchanged. Qed.
Print Assumptions C13_beyond_list_refused_stream_unchanged.

(* update_seed for a single stream: refused means unchanged *)
Theorem C13_update_one_refused_unchanged :
  forall (f : name -> Z -> Z -> res) (r : repl) (i : nat) (l l' : list entry) (x : exn),
    update_one f r i l = (l', Some x) -> l' = l.
Proof. exact update_one_refused_unchanged. Qed.
Print Assumptions C13_update_one_refused_unchanged.

(* read-only queries about the configuration (get_seed_values, get_seeds()[id]) between two updates: answered
   or refused, no stream changes *)
Theorem C13_queries_change_nothing :
  forall (f : name -> Z -> Z -> res) (listed : bool) (l : list entry),
    fst (do_call f (CQuery listed) l) = l /\
    (snd (do_call f (CQuery listed) l) = None <-> listed = true).
Proof. exact query_changes_nothing. Qed.
Print Assumptions C13_queries_change_nothing.

(* ---------- the pinned tree ---------- *)
(* hash(str) is a parameter of the interpreter process: the seed is NOT a
   function of (name, original seed, r) alone ... *)
Theorem C13_simple_update_hash_dependent_refuted :
  exists (H1 H2 : name -> Z) n orig r, simple_update H1 n orig r <> simple_update H2 n orig r.
Proof. exact simple_update_hash_dependent_refuted. Qed.
Print Assumptions C13_simple_update_hash_dependent_refuted.

(* ... two processes agree on a stream's seed for r > 0 exactly when they hash
   its name alike *)
Theorem C13_simple_update_differs_iff_hash_differs :
  forall (H1 H2 : name -> Z) (n : name) (orig r : Z),
    0 < r -> (simple_update H1 n orig r = simple_update H2 n orig r <-> H1 n = H2 n).
Proof. exact simple_update_differs_iff_hash_differs. Qed.
Print Assumptions C13_simple_update_differs_iff_hash_differs.

(* the pinned table updater raises KeyError for an unlisted stream although the
   fallback updater would have served it *)
Theorem C13_fallback_used_for_unlisted_pinned_refuted :
  exists tbl fb n orig r,
    0 <= r /\ lookup tbl n = None /\ is_val (fb n orig r) /\
    table_update_pinned tbl fb n orig r = Raise EKeyError.
Proof. exact fallback_used_for_unlisted_pinned_refuted. Qed.
Print Assumptions C13_fallback_used_for_unlisted_pinned_refuted.

(* ---------------------------------------------------------------------- *)
(* The tie to the source TEXT.  Streams/Gen_Streams.v is regenerated on every
   run by translator/py2gallina_streams.py from src/pydsol/core/streams.py of the
   tree under test (Python `ast`, fail-closed: the bodies of
   SimpleStreamUpdater.update_seed -- including the loop over the characters of
   the name --, StreamSeedUpdater.update_seed and StreamUpdater.update_seeds),
   and Streams/GenAgree.v proves every generated definition equal to the
   hand-written model function on ALL arguments (ill-typed ones included).  This
   section is compiled against the regenerated file: the theorems above
   therefore speak about the current source text.  A change of a method's
   meaning makes GenAgree.v fail to compile: the check then searches for a
   failing input and reports the broken tie. *)
From PV Require Import Streams.Gen_Streams Streams.GenAgree.
Import Upd C13Agree.

Theorem C13_generated_model_is_the_proved_model :
  (forall k st r, gen_SimpleStreamUpdater_update_seed k st r = upd_spec (simple_update str_hash) k st r) /\
  (forall s k st r, gen_StreamSeedUpdater_update_seed s k st r =
                    upd_spec (table_update (ssu_seeds s) (ssu_fallback s)) k st r) /\
  (forall upd f, (forall k st r, upd k st r = upd_spec f k st r) ->
     forall l r, to_model (gen_StreamUpdater_update_seeds upd l r) = update_seeds f r l) /\
  (forall upd f, (forall k st r, upd k st r = upd_spec f k st r) ->
     forall r i l, gen_update_one upd r i l = update_one f r i l) /\
  (forall u k st r, gen_updater u k st r = upd_spec (updater_fun str_hash u) k st r) /\
  (forall u c l, gen_do_call (gen_updater u) c l = do_call (updater_fun str_hash u) c l) /\
  (forall c, gen_case_ok c = case_ok c).
Proof. exact updaters_generated_agree. Qed.
Print Assumptions C13_generated_model_is_the_proved_model.

(* the generated update_seeds, driven by the generated update_seed of any updater
   configuration, IS update_list of the closed updater function *)
Theorem C13_generated_update_is_update_list :
  forall (u : updater) (r : Z) (l : list entry),
    to_model (gen_StreamUpdater_update_seeds (gen_updater u) l (RInt r)) =
    update_list (updater_fun str_hash u) r l.
Proof.
  intros u r l.
  exact (gen_StreamUpdater_update_seeds_eq (gen_updater u) (updater_fun str_hash u) (gen_updater_eq u) l (RInt r)).
Qed.
Print Assumptions C13_generated_update_is_update_list.

(* C13_seed_depends_only_on_name_seed_replication, for the generated methods *)
Theorem C13_generated_seed_depends_only_on_name_seed_replication :
  forall (u : updater) (r : Z) (l1 l1' l2 l2' : list entry) (e1 e2 : entry),
    gen_StreamUpdater_update_seeds (gen_updater u) l1 (RInt r) = (l1', Ret tt) ->
    gen_StreamUpdater_update_seeds (gen_updater u) l2 (RInt r) = (l2', Ret tt) ->
    In e1 l1' -> In e2 l2' ->
    e_name e1 = e_name e2 -> e_orig e1 = e_orig e2 ->
    e_cur e1 = e_cur e2.
Proof.
  intros u r l1 l1' l2 l2' e1 e2 H1 H2.
  apply (C13_seed_depends_only_on_name_seed_replication (updater_fun str_hash u) r l1 l1' l2 l2').
  - rewrite <- C13_generated_update_is_update_list, H1. reflexivity.
  - rewrite <- C13_generated_update_is_update_list, H2. reflexivity.
Qed.
Print Assumptions C13_generated_seed_depends_only_on_name_seed_replication.

(* C13_order_independent_by_name, for the generated methods *)
Theorem C13_generated_order_independent_by_name :
  forall (u : updater) (r : Z) (l l2 l' l2' : list entry) (n : name),
    NoDup (map e_name l) -> Permutation l l2 ->
    gen_StreamUpdater_update_seeds (gen_updater u) l (RInt r) = (l', Ret tt) ->
    gen_StreamUpdater_update_seeds (gen_updater u) l2 (RInt r) = (l2', Ret tt) ->
    seed_of n l' = seed_of n l2'.
Proof.
  intros u r l l2 l' l2' n Hn Hp H1 H2.
  apply (C13_order_independent_by_name (updater_fun str_hash u) r l l2 l' l2' n Hn Hp).
  - rewrite <- C13_generated_update_is_update_list, H1. reflexivity.
  - rewrite <- C13_generated_update_is_update_list, H2. reflexivity.
Qed.
Print Assumptions C13_generated_order_independent_by_name.

(* C13_refused_unchanged, for the generated methods: an exception out of the generated
   update_seeds leaves the refused stream and every later one exactly as it was *)
Theorem C13_generated_refused_unchanged :
  forall (u : updater) (r : Z) (l l' : list entry) (x : exn),
    gen_StreamUpdater_update_seeds (gen_updater u) l (RInt r) = (l', Exc x) ->
    exists pre e post,
      l = pre ++ e :: post /\ update_entry (updater_fun str_hash u) r e = Raise x /\
      (forall a, In a pre -> is_val (update_entry (updater_fun str_hash u) r a)) /\
      l' = map (apply_update (updater_fun str_hash u) r) pre ++ e :: post.
Proof.
  intros u r l l' x H.
  apply (C13_refused_unchanged (updater_fun str_hash u) r l l' x).
  rewrite <- C13_generated_update_is_update_list, H. reflexivity.
Qed.
Print Assumptions C13_generated_refused_unchanged.

(* the closed form of the repaired SimpleStreamUpdater, for the generated method *)
Theorem C13_generated_simple_updater_spec :
  forall (n : name) (orig cur r : Z), 0 <= r ->
    gen_SimpleStreamUpdater_update_seed (KeyStr n) (StreamObj orig cur) (RInt r) =
    (StreamObj orig (orig + r * (1000037 + str_hash n)), Ret tt).
Proof.
  intros n orig cur r Hr. rewrite gen_SimpleStreamUpdater_update_seed_eq.
  unfold upd_spec, simple_update. destruct (r <? 0) eqn:E; [apply Z.ltb_lt in E; exfalso; exact (proj1 (Z.lt_nge r 0) E Hr)|reflexivity].
Qed.
Print Assumptions C13_generated_simple_updater_spec.

Example C13_generated_nonvacuous :
  let l := [mkE KStream [100; 101] 10 10; mkE KStream [97] 3 77; mkE KStream [] (-4) 0] in
  gen_StreamUpdater_update_seeds (gen_updater (UTable [([97], [5; 6; 7])] FSimple)) l (RInt 2) =
    ([mkE KStream [100; 101] 10 2006486; mkE KStream [97] 3 7; mkE KStream [] (-4) 2000070], Ret tt) /\
  snd (gen_StreamUpdater_update_seeds (gen_updater (UTable [([97], [5; 6; 7])] FSimple)) l (RInt 3)) = Exc EValueError.
Proof. cbv zeta. split; vm_compute; reflexivity. Qed.
