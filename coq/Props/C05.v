(* C05 -- fault containment: a failing handler never loses, duplicates or
   reorders events.

   Statements about the simulator model Sim/Model.v (tied to simulator.py by
   harness/c05.py on every run), for every model program with any choice of
   failing handlers ([AFail] anywhere in any handler body), every fuel and every
   command sequence.  [truncate p] is p with every handler cut (returning
   normally) at its first failure point.  Proofs: Sim/Faults.v. *)
From Coq Require Import ZArith List Bool.
From PV Require Import EventList.Key Sim.Model Sim.Order Sim.Horizon Sim.Faults.
Import ListNotations.
Local Open Scope Z_scope.

(* ---- clause: "under the log-and-continue and warn-and-continue strategies
   every other event is still executed exactly once and in order, as if the
   failing handlers had returned normally" -------------------------------------
   Stronger: the whole state after any command sequence without initialize
   (trace, clocks, pending, notifications, outcomes, run / replication state) is
   the one of the truncated program; so all of C02 / C03 carries over. *)
Theorem C05_continue_transparent : forall p fuel cs s,
  strat s <> SWarnPause -> forallb (fun c => negb (is_init c)) cs = true ->
  run_cmds fuel (truncate p) s cs = run_cmds fuel p s cs.
Proof. exact continue_transparent_cmds. Qed.
Print Assumptions C05_continue_transparent.

Theorem C05_continue_transparent_cmd : forall p fuel s c,
  strat s <> SWarnPause -> is_init c = false ->
  do_cmd fuel (truncate p) s c = do_cmd fuel p s c.
Proof. exact continue_transparent. Qed.
Print Assumptions C05_continue_transparent_cmd.

(* a handler fails exactly when its body has a failure point; up to that point
   the truncated handler does exactly the same *)
Theorem C05_truncation_is_the_failure_point : forall md acts s,
  snd (exec_actions md s acts) = fails acts
  /\ fst (exec_actions md s (trunc acts)) = fst (exec_actions md s acts)
  /\ fails (trunc acts) = false.
Proof.
  intros. split; [apply exec_actions_failed|]. split; [apply exec_actions_trunc|apply trunc_no_fail].
Qed.
Print Assumptions C05_truncation_is_the_failure_point.

(* ---- clause: "Under warn-and-pause the run stops immediately after the
   failing event, nothing later runs until the simulator is started again" ------ *)
Theorem C05_pause_stops_immediately : forall p fuel s e r,
  running s = true -> pend s = e :: r -> beyond s e = false ->
  strat s = SWarnPause -> handler_fails p e = true ->
  let s' := run_loop (S fuel) p s in
  s' = take_event p s e r
  /\ rs s' = RStopping /\ ps s' = ps s
  /\ trace s' = (e, ev_time e) :: trace s /\ clock s' = ev_time e.
Proof. exact pause_stops_immediately. Qed.
Print Assumptions C05_pause_stops_immediately.

Theorem C05_pause_leaves_stopped_started_resumable : forall p fuel s b i a,
  Entered s b i a -> b <= end_time s ->
  ps (run_loop fuel p a) <> PEnding ->
  let s' := after_loop (run_loop fuel p a) in
  rs s' = RStopped /\ ps s' = PStarted
  /\ (running s' = false /\ (ps s' = PInit \/ ps s' = PStarted) /\ worker s' = WAlive).
Proof. exact pause_leaves_resumable. Qed.
Print Assumptions C05_pause_leaves_stopped_started_resumable.

(* ---- clause: "resuming executes exactly the remaining events" ---------------
   Any way of driving the replication to its (inclusive) end -- under
   WARN_AND_PAUSE: a start after every pause; also bounded runs and steps --
   executes the events of the uninterrupted run of the truncated program, with
   the same clocks, and ends at the same clock with the same events pending and
   cancelled. *)
Theorem C05_pause_resume : forall p fuel fuel' cs s,
  Quiet s -> forallb is_runcmd cs = true ->
  let s1 := fst (run_cmds fuel p s cs) in
  let t1 := fst (do_cmd fuel' (truncate p) s CStart) in
  ps s1 = PEnded -> incl s1 = true -> ps t1 = PEnded -> incl t1 = true ->
  trace s1 = trace t1 /\ clock s1 = clock t1 /\ pend s1 = pend t1 /\ cancelled s1 = cancelled t1.
Proof. exact pause_resume. Qed.
Print Assumptions C05_pause_resume.

(* before the end: a prefix of that run *)
Theorem C05_paused_run_is_prefix : forall p fuel fuel' cs s,
  Quiet s -> forallb is_runcmd cs = true ->
  let s1 := fst (run_cmds fuel p s cs) in
  let t1 := fst (run_cmds fuel' (truncate p) s [CStart]) in
  ps t1 = PEnded -> incl t1 = true ->
  exists k, trace t1 = k ++ trace s1.
Proof.
  intros p fuel fuel' cs s Q Hc.
  apply (segmentation_prefix p (truncate p) fuel fuel' cs [CStart] s s (prog_equiv_truncate p)
           (core_eq_refl s) Q Q Hc eq_refl).
Qed.
Print Assumptions C05_paused_run_is_prefix.

(* ---- clause: "A failure during a single step is reported without escaping as
   an unrelated error and leaves the simulator stopped, consistent and usable" -- *)
Theorem C05_step_fault_contained : forall p s,
  do_step (truncate p) s = do_step p s
  /\ (step_checks s = true ->
      let s' := fst (do_step p s) in
      snd (do_step p s) = ResOk /\ rs s' = RStopped /\ ps s' = PStarted
      /\ exists t, ntfs s' = NStop t :: tl (ntfs s') /\ t = clock s').
Proof. exact step_fault_contained. Qed.
Print Assumptions C05_step_fault_contained.

(* ---- non-vacuity: handler 1 fails after scheduling a child, handler 2 fails
   at once; under PAUSE three starts are needed, under LOG one; both give the
   trace of the truncated program ---- *)
Definition ex_prog : program :=
  [ [ASched (MAbs (TNum 4)) 5 1; ASched (MAbs (TNum 4)) 7 3; ASched (MRel (TNum 8)) 5 2;
     ASched (MAbs (TNum 12)) 5 3];
    [ASched MNow 5 3; AFail; ASched (MRel (TNum 1)) 5 3];
    [AFail; ASched MNow 5 3];
    [] ].
Definition ex_s0 (st : strategy) : sim := fst (do_cmd 100 ex_prog (init_sim st) (CInit (mkRepl 0 0 40))).
Definition ex_pause : sim := fst (run_cmds 100 ex_prog (ex_s0 SWarnPause) [CStart; CStart; CStart]).
Definition ex_log : sim := fst (run_cmds 100 ex_prog (ex_s0 SLog) [CStart]).
Definition ex_ref : sim := fst (do_cmd 100 (truncate ex_prog) (ex_s0 SWarnPause) CStart).

Example ex_hypotheses :
  Quiet (ex_s0 SWarnPause) /\ ps ex_pause = PEnded /\ incl ex_pause = true
  /\ ps ex_ref = PEnded /\ incl ex_ref = true
  /\ ps (fst (run_cmds 100 ex_prog (ex_s0 SWarnPause) [CStart; CStart])) = PStarted
  /\ strat (ex_s0 SLog) <> SWarnPause.
Proof.
  split; [left; apply do_init_live; reflexivity|]. vm_compute. repeat split; discriminate.
Qed.

Example ex_traces :
  map (fun ec => (ev_h (fst ec), snd ec)) (rev (trace ex_pause))
    = [(HWarm, 0); (HUser 3%nat, 4); (HUser 1%nat, 4); (HUser 3%nat, 4); (HUser 2%nat, 8); (HUser 3%nat, 12)]
  /\ trace ex_pause = trace ex_ref /\ trace ex_log = trace ex_ref
  /\ clock ex_pause = 40 /\ flag ex_pause = false /\ flag ex_log = false.
Proof. vm_compute. repeat split. Qed.

(* ---- the model regenerated from the source IS the proved model ------------------
   Sim/Gen_Sim.v is regenerated on every run by translator/py2gallina_sim.py from
   simulator.py of the tree under test; Sim/GenAgree.v proves the generated methods
   equal to the functions of Sim/Model.v the theorems above are about.  For C05 the
   relevant ones are the try / except around event.execute() in the run loop _run
   with its error-strategy branches (WARN_AND_PAUSE writes STOPPING, the others go
   on), and step() with its except / finally (a failing handler is reported, STOP is
   fired, the state is STOPPED). ---- *)
From PV Require Import Sim.Gen_Sim Sim.GenAgree.

Theorem C05_generated_model_is_the_proved_model :
  (forall p fuel w s, rep s <> None -> gen_DEVSSimulator__run fuel p w s = GRet RNone w (run_loop fuel p s)) /\
  (forall p w s, (rs s <> RNotInit -> rep s <> None) -> gen_Simulator_step p w s = gres_of w (do_step p s)) /\
  (forall md p s e, gen_exec_event md p s e = exec_event md p s e) /\
  (forall fuel p s c, sim_wf s -> gen_do_cmd fuel p s c = do_cmd fuel p s c) /\
  (forall fuel p cs s, sim_wf s -> gen_run_cmds fuel p s cs = run_cmds fuel p s cs).
Proof.
  exact (conj (fun p fuel w s => gen_run_eq p fuel w s) (conj gen_step_eq (conj gen_exec_event_eq
          (conj gen_do_cmd_eq gen_run_cmds_eq)))).
Qed.
Print Assumptions C05_generated_model_is_the_proved_model.

Theorem C05_generated_continue_transparent_cmd : forall p fuel s c,
  sim_wf s -> strat s <> SWarnPause -> is_init c = false ->
  gen_do_cmd fuel (truncate p) s c = gen_do_cmd fuel p s c.
Proof.
  intros p fuel s c Hwf Hs Hc. rewrite !gen_do_cmd_eq by exact Hwf. apply continue_transparent; assumption.
Qed.
Print Assumptions C05_generated_continue_transparent_cmd.

Theorem C05_generated_pause_stops_immediately : forall p fuel w s e r,
  rep s <> None -> running s = true -> pend s = e :: r -> beyond s e = false ->
  strat s = SWarnPause -> handler_fails p e = true ->
  exists s', gen_DEVSSimulator__run (S fuel) p w s = GRet RNone w s'
  /\ s' = take_event p s e r
  /\ rs s' = RStopping /\ ps s' = ps s
  /\ trace s' = (e, ev_time e) :: trace s /\ clock s' = ev_time e.
Proof.
  intros p fuel w s e r Hr R Hp B Hs Hf. exists (run_loop (S fuel) p s).
  split; [apply gen_run_eq; exact Hr|]. apply (pause_stops_immediately p fuel s e r R Hp B Hs Hf).
Qed.
Print Assumptions C05_generated_pause_stops_immediately.

Theorem C05_generated_step_fault_contained : forall p w s,
  (rs s <> RNotInit -> rep s <> None) ->
  gen_Simulator_step (truncate p) w s = gen_Simulator_step p w s
  /\ (step_checks s = true ->
      exists s', gen_Simulator_step p w s = GRet RNone w s'
      /\ rs s' = RStopped /\ ps s' = PStarted
      /\ exists t, ntfs s' = NStop t :: tl (ntfs s') /\ t = clock s').
Proof.
  intros p w s Hwf. rewrite !gen_step_eq by exact Hwf.
  destruct (step_fault_contained p s) as [H1 H2]. split; [rewrite H1; reflexivity|].
  intros Ck. destruct (H2 Ck) as (Hres & Hrs & Hps & Hn). exists (fst (do_step p s)).
  unfold gres_of. rewrite Hres. auto.
Qed.
Print Assumptions C05_generated_step_fault_contained.
