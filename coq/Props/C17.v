(* C17 -- unit conversion is faithful for every declared unit of every quantity.

   [gen_module] / [gen_classes] / [gen_compounds] are REGENERATED from the
   current pydsol/core/units.py on every run.  Table facts: kernel evaluation
   over them (Units/GenFacts17.v) lifted to quantified statements
   (Units/TableProofs.v).  General theorems: about the Gallina transcription of
   Quantity.__new__/__init__, displayvalue, as_unit, _val, the unary and binary
   operators and __str__ (Units/Dispatch.v), for every number structure
   satisfying [num_laws]; binary64 runs are tied by the bit-exact
   correspondence check over every (class, unit). *)
From Coq Require Import ZArith List Bool String PrimFloat.
From PV Require Import Units.Tables Units.SIString Units.Dispatch Units.TableProofs Units.DispatchProofs
                       Units.Pinned.
From PV Require Import Units.Gen_Tables Units.Gen_Compound Units.GenFacts17.
Import ListNotations.
Local Open Scope string_scope.

(* ---------------------------------------------------------------- construction, display value, unit *)

(* cls(value, unit) for a declared unit: SI value = value * factor(unit), unit = the chosen unit *)
Theorem C17_construction_stores_value_times_factor :
  forall N c q u f n d x,
    get_class gen_classes c = Some q -> glookup u (qc_units q) = Some (GFac f n d) ->
    mk N gen_module c (VNum x) (Some u) = Val (VNamed c (fmul N x (ffac N f n d)) u) /\
    get N gen_module GUnit (VNamed c (fmul N x (ffac N f n d)) u) = Val (OText u) /\
    get N gen_module GSi (VNamed c (fmul N x (ffac N f n d)) u) = Val (ONum (fmul N x (ffac N f n d))).
Proof.
  intros N c q u f n d x Hc Hu. split; [|split; reflexivity].
  exact (mk_stores_value_times_factor N gen_module c q u f n d x Hc Hu).
Qed.
Print Assumptions C17_construction_stores_value_times_factor.

(* an undeclared unit, or a value that is not a number, is refused *)
Theorem C17_construction_refuses_unknown_unit_and_non_numbers :
  forall N c q u x, get_class gen_classes c = Some q ->
    (glookup u (qc_units q) = None -> mk N gen_module c x (Some u) = Raise ValueError) /\
    ((forall k, x <> VNum k) -> mk N gen_module c x (Some u) = Raise ValueError).
Proof.
  intros N c q u x Hc. split.
  - exact (mk_unknown_unit_refused N gen_module c q u x Hc).
  - exact (mk_non_number_refused N gen_module c q u x Hc).
Qed.
Print Assumptions C17_construction_refuses_unknown_unit_and_non_numbers.

(* the display value is the value the quantity was built from (exact under the
   number laws, i.e. up to the two roundings of (x*f)/f in binary64) *)
Theorem C17_display_value_is_the_original_value :
  forall N, num_laws N -> forall c q u f n d x,
    get_class gen_classes c = Some q -> glookup u (qc_units q) = Some (GFac f n d) -> n <> 0%Z ->
    displayvalue N gen_module (VNamed c (fmul N x (ffac N f n d)) u) = Val x.
Proof. intros N L. exact (displayvalue_of_mk N gen_module L). Qed.
Print Assumptions C17_display_value_is_the_original_value.

(* ---------------------------------------------------------------- re-expression *)
Theorem C17_reexpression_preserves_si :
  forall N, num_laws N -> forall c q a u u',
    get_class gen_classes c = Some q ->
    (gmem u' (qc_units q) = true -> as_unit N gen_module (VNamed c a u) u' = Val (VNamed c a u')) /\
    (gmem u' (qc_units q) = false -> as_unit N gen_module (VNamed c a u) u' = Raise ValueError).
Proof.
  intros N L c q a u u' Hc. split.
  - exact (as_unit_preserves_si N gen_module L gen_base_factor_one17 c q a u u' Hc).
  - exact (as_unit_unknown_refused N gen_module c q a u u' Hc).
Qed.
Print Assumptions C17_reexpression_preserves_si.

(* ---------------------------------------------------------------- operators *)
(* ==, !=, <, <=, >, >=, +, - of two quantities of one class are functions of
   the SI values alone; + and - carry the left operand's unit *)
Theorem C17_ops_depend_only_on_si_values :
  forall N, num_laws N -> forall c q a b u v, get_class gen_classes c = Some q ->
    binop_eval N gen_module Add (VNamed c a u) (VNamed c b v) = Val (OVal (VNamed c (fadd N a b) u)) /\
    binop_eval N gen_module Sub (VNamed c a u) (VNamed c b v) = Val (OVal (VNamed c (fsub N a b) u)) /\
    (forall o, binop_eval N gen_module (Cmp o) (VNamed c a u) (VNamed c b v) = Val (OBool (cmp_nums N o a b))).
Proof. intros N L c q a b u v Hc. exact (same_type_named N gen_module L gen_base_factor_one17 c a u b v q Hc). Qed.
Print Assumptions C17_ops_depend_only_on_si_values.

Theorem C17_units_of_operands_do_not_matter :
  forall N, num_laws N -> forall c q a b u v u' v', get_class gen_classes c = Some q ->
    (forall o, binop_eval N gen_module (Cmp o) (VNamed c a u) (VNamed c b v) =
               binop_eval N gen_module (Cmp o) (VNamed c a u') (VNamed c b v')) /\
    (forall op r, op = Add \/ op = Sub ->
       binop_eval N gen_module op (VNamed c a u) (VNamed c b v) = Val (OVal r) ->
       exists x, r = VNamed c x u /\
                 binop_eval N gen_module op (VNamed c a u') (VNamed c b v') = Val (OVal (VNamed c x u'))).
Proof. intros N L c q a b u v u' v' Hc. exact (ops_depend_only_on_si N gen_module L gen_base_factor_one17 c q a b u v u' v' Hc). Qed.
Print Assumptions C17_units_of_operands_do_not_matter.

(* negation, absolute value, unary plus act on the SI value and keep the unit *)
Theorem C17_unary_ops_on_si_value_keep_unit :
  forall N, num_laws N -> forall c q a u, get_class gen_classes c = Some q ->
    unop_eval N gen_module Neg (VNamed c a u) = Val (OVal (VNamed c (fneg N a) u)) /\
    unop_eval N gen_module Abs (VNamed c a u) = Val (OVal (VNamed c (fabs N a) u)) /\
    unop_eval N gen_module Pos (VNamed c a u) = Val (OVal (VNamed c a u)).
Proof. intros N L c q a u Hc. exact (unary_named N gen_module L gen_base_factor_one17 c q a u Hc). Qed.
Print Assumptions C17_unary_ops_on_si_value_keep_unit.

(* math.floor / math.ceil / math.trunc / round of a quantity work on the REPORTED DISPLAY VALUE and keep the
   unit: whatever the four roundings are, the result is the quantity built from the rounded display value in the
   same unit, and its display value is that rounded value (exact under the number laws) *)
Theorem C17_rounding_helpers_act_on_display_value :
  forall N, num_laws N -> forall (X : mathops N) k c q a u f n d dv r,
    get_class gen_classes c = Some q -> glookup u (qc_units q) = Some (GFac f n d) -> n <> 0%Z ->
    displayvalue N gen_module (VNamed c a u) = Val dv -> round_with X k dv = Val r ->
    q_round N gen_module X k c a u = Val (VNamed c (fmul N r (ffac N f n d)) u) /\
    displayvalue N gen_module (VNamed c (fmul N r (ffac N f n d)) u) = Val r.
Proof. intros N L. exact (round_on_display_value N gen_module L). Qed.
Print Assumptions C17_rounding_helpers_act_on_display_value.

(* the binary64 roundings the check executes are the integer roundings (half to even for round) *)
Example C17_float_roundings :
  float_int_round RFloor 2.5%float = Val 2%float /\ float_int_round RCeil 2.5%float = Val 3%float /\
  float_int_round RTrunc (-2.5)%float = Val (-2)%float /\ float_int_round RRound 2.5%float = Val 2%float /\
  float_int_round RRound 3.5%float = Val 4%float /\ float_int_round RFloor (-0.5)%float = Val (-1)%float.
Proof. repeat split; vm_compute; reflexivity. Qed.

(* ---------------------------------------------------------------- tables *)
(* every unit key is a string with a finite non-zero factor, and the float
   literal of each factor denotes exactly the rational the checks compute with *)
Theorem C17_units_well_formed :
  (forall a ca, get_class gen_classes a = Some ca -> forall k v, In (k, v) (qc_units ca) ->
     exists u f n d, k = GStr u /\ v = GFac f n d /\ n <> 0%Z) /\
  factor_ratio_consistent gen_classes = true.
Proof. exact (conj (units_wf_spec gen_classes gen_units_wf) gen_factor_ratio_consistent). Qed.
Print Assumptions C17_units_well_formed.

Theorem C17_base_unit_has_factor_one :
  forall a ca, get_class gen_classes a = Some ca ->
    exists b f, qc_base ca = GStr b /\ glookup b (qc_units ca) = Some (GFac f 1 1).
Proof. exact (base_factor_one_spec gen_classes gen_base_factor_one17). Qed.
Print Assumptions C17_base_unit_has_factor_one.

Theorem C17_every_unit_described :
  forall a ca, get_class gen_classes a = Some ca -> forall k v, In (k, v) (qc_units ca) ->
    exists u d, k = GStr u /\ glookup u (qc_descr ca) = Some (GStr d) /\ d <> "".
Proof. exact (every_unit_described_spec gen_classes gen_every_unit_described). Qed.
Print Assumptions C17_every_unit_described.

(* display-unit tables map declared units to strings ... *)
Theorem C17_display_units_are_strings_naming_declared_units :
  forall a ca, get_class gen_classes a = Some ca -> forall k v, In (k, v) (qc_display ca) ->
    exists u d, k = GStr u /\ v = GStr d /\ gmem u (qc_units ca) = true.
Proof. exact (display_units_spec gen_classes gen_display_units_ok). Qed.
Print Assumptions C17_display_units_are_strings_naming_declared_units.

(* ... hence str(q) is total on every declared unit: it never raises, and the
   text after the number is the display spelling of the unit *)
Theorem C17_str_total :
  forall N, num_laws N -> forall c q a u f n d,
    get_class gen_classes c = Some q -> glookup u (qc_units q) = Some (GFac f n d) -> n <> 0%Z ->
    exists s, str_suffix N gen_module (VNamed c a u) = Val s /\ display_of q u = GStr s.
Proof. intros N L c q a u f n d. exact (str_total N gen_module L c q a u f n d gen_display_units_ok). Qed.
Print Assumptions C17_str_total.

(* alias spellings (same display text, or same description) share one exact factor *)
Theorem C17_aliases_share_factor :
  forall a ca, get_class gen_classes a = Some ca ->
    forall u fu v fv, In (GStr u, fu) (qc_units ca) -> In (GStr v, fv) (qc_units ca) ->
      same_display ca u v = true \/ same_descr ca u v = true ->
      unit_ratio ca u = unit_ratio ca v /\ unit_ratio ca u <> None.
Proof. exact (aliases_share_factor_spec gen_classes gen_aliases_share_factor). Qed.
Print Assumptions C17_aliases_share_factor.

(* compound units agree with their components: for every unit name that can be
   read as a product / quotient / power of units declared by (other) classes with
   the right dimension, the declared factor equals the combination of the
   component factors within 1e-12 relative (exact rational arithmetic) *)
Theorem C17_compound_units_agree :
  forall cp, In cp gen_compounds ->
    cp_readings cp <> [] /\
    forall r, In r (cp_readings cp) ->
      exists c fn fd pn pd,
        get_class gen_classes (cp_cls cp) = Some c /\
        render_reading r = cp_unit cp /\
        reading_sig gen_classes (signed_atoms false r) = Some (cls_sig c) /\
        unit_ratio c (cp_unit cp) = Some (fn, fd) /\
        reading_product gen_classes (signed_atoms false r) = Some (pn, pd) /\
        pd <> 0%Z /\
        (Z.abs (fn * pd - pn * Zpos fd) * 1000000000000 <= Z.abs (pn * Zpos fd))%Z.
Proof.
  intros cp Hcp.
  destruct (compound_units_agree_spec gen_classes gen_compounds gen_compound_units_agree cp Hcp) as [H1 H2].
  split; [exact H1|]. intros r Hr. exact (reading_ok_spec gen_classes cp r (H2 r Hr)).
Qed.
Print Assumptions C17_compound_units_agree.

(* every name in __all__ exists in the module *)
Theorem C17_all_public_names_exist :
  forall g, In g (qm_all gen_module) -> exists n, g = GStr n /\ In n (qm_dir gen_module).
Proof. exact (all_names_exist_spec gen_module gen_all_names_exist). Qed.
Print Assumptions C17_all_public_names_exist.

(* ---------------------------------------------------------------- the pinned tree's tables (Units/Pinned.v) *)
(* numeric display table: the table check fails and str() raises TypeError *)
Theorem C17_numeric_display_table_refuted :
  display_units_ok pinned_classes = false /\
  str_suffix float_ops pinned_module (@VNamed float_ops 0 1%float "kg/m^3") = Raise TypeError.
Proof. split; vm_compute; reflexivity. Qed.
Print Assumptions C17_numeric_display_table_refuted.

(* missing comma: an advertised name does not exist *)
Theorem C17_fused_public_name_refuted :
  exists g, In g (qm_all pinned_module) /\ forall n, g = GStr n -> ~ In n (qm_dir pinned_module).
Proof.
  exists (GStr "LinearDensityLuminousFlux"). split; [simpl; tauto|].
  intros n H. inversion H; subst. simpl. intros [E|[E|[E|[E|[]]]]]; discriminate.
Qed.
Print Assumptions C17_fused_public_name_refuted.

(* per-angstrom with the factor of the angstrom *)
Theorem C17_per_angstrom_factor_refuted :
  compound_units_agree pinned_classes pinned_compounds = false.
Proof. vm_compute. reflexivity. Qed.
Print Assumptions C17_per_angstrom_factor_refuted.

(* ---------------------------------------------------------------- non-vacuity *)
Example C17_number_laws_satisfiable : num_laws qc_ops.
Proof. exact qc_ops_laws. Qed.

(* Length(14, 'cm') in exact rationals: SI value 14 * (1/100), display value 14, unit cm *)
Example C17_length_14_cm :
  match find_class gen_classes "Length" with
  | Some le =>
      match mk qc_ops gen_module le (@VNum qc_ops (Qcanon.Q2Qc (QArith_base.Qmake 14 1))) (Some "cm") with
      | Val q => match displayvalue qc_ops gen_module q, get qc_ops gen_module GUnit q with
                 | Val dv, Val (OText u) => Qcanon.Qc_eq_bool dv (Qcanon.Q2Qc (QArith_base.Qmake 14 1)) && String.eqb u "cm"
                 | _, _ => false
                 end
      | Raise _ => false
      end
  | None => false
  end = true.
Proof. vm_compute. reflexivity. Qed.

(* ---------------------------------------------------------------- the methods regenerated from the source *)
(* Units/Gen_Methods.v is regenerated on every run by translator/py2gallina_units.py from the text of
   src/pydsol/core/units.py of the tree under test (Python `ast`, fail-closed): Quantity.__new__ /
   __init__, displayvalue, si, unit, as_unit, _val, __neg__ / __abs__ / __pos__, __add__ / __sub__, the six
   comparisons and __str__ (and the SI class).  Units/GenAgree.v proves every generated definition equal
   to the hand-written function the theorems above are about, for all arguments ([conc] is the object of
   the generated code a value of the model stands for; a constructor is given a number or a str, not a
   quantity).  The main theorems are restated over the generated definitions below.  A change of the
   source that changes the meaning of a method (e.g. a _val that rebuilds the value through the unit
   factor) makes GenAgree.v fail to compile: the check then reports the broken tie. *)
From PV Require Import Units.Gen_Methods Units.GenAgree.

Theorem C17_generated_model_is_the_proved_model : forall N,
  (forall c v unit, is_quantity N v = false ->
     gen_Quantity_construct N gen_module c (conc v) unit = rmap conc (mk N gen_module c v unit)) /\
  (forall c a u, gen_Quantity_displayvalue N gen_module (GNamed c a u) = displayvalue N gen_module (VNamed c a u)) /\
  (forall c a u nu, gen_Quantity_as_unit N gen_module (GNamed c a u) nu = rmap conc (as_unit N gen_module (VNamed c a u) nu)) /\
  (forall c a x u, gen_Quantity__val N gen_module (GNamed c a u) x = rmap conc (q_val N gen_module c x u)) /\
  (forall c a u, gen_Quantity___neg__ N gen_module (GNamed c a u) = rmap conc (q_val N gen_module c (fneg N a) u)) /\
  (forall c a u, gen_Quantity___abs__ N gen_module (GNamed c a u) = rmap conc (q_val N gen_module c (fabs N a) u)) /\
  (forall v : pyval N, gen_Quantity___pos__ N gen_module (conc v) = Val (conc v)) /\
  (forall c a u, gen_Quantity___str__ N gen_module (GNamed c a u) =
     match displayvalue N gen_module (VNamed c a u) with
     | Raise e => Raise e
     | Val d => rmap (fun s => [PNum d; PStr " "; PStr s]) (str_suffix N gen_module (VNamed c a u))
     end) /\
  (forall v u, is_quantity N v = false -> gen_SI_construct N gen_module (conc v) u = rmap conc (mk_si N v u)) /\
  (forall op x, gen_unop_eval N gen_module op x = unop_eval N gen_module op x) /\
  (forall op c a u y, match op with Add | Sub | Cmp _ => True | _ => False end ->
     gen_binop_eval N gen_module op (VNamed c a u) y = binop_eval N gen_module op (VNamed c a u) y) /\
  (forall X k x, gen_round_eval N gen_module X k x = round_eval N gen_module X k x).
Proof. intros N. exact (conversion_generated_agree N gen_module). Qed.
Print Assumptions C17_generated_model_is_the_proved_model.

(* the generated __new__ + __init__: SI value = value * factor(unit), unit = the chosen unit *)
Theorem C17_generated_construction_stores_value_times_factor :
  forall N c q u f n d x,
    get_class gen_classes c = Some q -> glookup u (qc_units q) = Some (GFac f n d) ->
    gen_Quantity_construct N gen_module c (GNum x) (Some u) = Val (GNamed c (fmul N x (ffac N f n d)) u).
Proof. intros N. exact (gen_construction_stores_value_times_factor N gen_module). Qed.
Print Assumptions C17_generated_construction_stores_value_times_factor.

Theorem C17_generated_construction_refuses_unknown_unit_and_non_numbers :
  forall N c q u (x : pyval N), get_class gen_classes c = Some q -> is_quantity N x = false ->
    (glookup u (qc_units q) = None -> gen_Quantity_construct N gen_module c (conc x) (Some u) = Raise ValueError) /\
    ((forall k, x <> VNum k) -> gen_Quantity_construct N gen_module c (conc x) (Some u) = Raise ValueError).
Proof. intros N. exact (gen_construction_refuses N gen_module). Qed.
Print Assumptions C17_generated_construction_refuses_unknown_unit_and_non_numbers.

Theorem C17_generated_display_value_is_the_original_value :
  forall N, num_laws N -> forall c q u f n d x,
    get_class gen_classes c = Some q -> glookup u (qc_units q) = Some (GFac f n d) -> n <> 0%Z ->
    gen_Quantity_displayvalue N gen_module (GNamed c (fmul N x (ffac N f n d)) u) = Val x.
Proof. intros N L. exact (gen_displayvalue_of_construct N gen_module L). Qed.
Print Assumptions C17_generated_display_value_is_the_original_value.

(* the generated as_unit keeps the SI value bit for bit and only replaces the unit *)
Theorem C17_generated_reexpression_preserves_si :
  forall N, num_laws N -> forall c q a u u', get_class gen_classes c = Some q ->
    (gmem u' (qc_units q) = true -> gen_Quantity_as_unit N gen_module (GNamed c a u) u' = Val (GNamed c a u')) /\
    (gmem u' (qc_units q) = false -> gen_Quantity_as_unit N gen_module (GNamed c a u) u' = Raise ValueError).
Proof. intros N L. exact (gen_as_unit_preserves_si N gen_module L gen_base_factor_one17). Qed.
Print Assumptions C17_generated_reexpression_preserves_si.

Theorem C17_generated_ops_depend_only_on_si_values :
  forall N, num_laws N -> forall c a u b v q, get_class gen_classes c = Some q ->
    gen_binop_eval N gen_module Add (VNamed c a u) (VNamed c b v) = Val (OVal (VNamed c (fadd N a b) u)) /\
    gen_binop_eval N gen_module Sub (VNamed c a u) (VNamed c b v) = Val (OVal (VNamed c (fsub N a b) u)) /\
    (forall o, gen_binop_eval N gen_module (Cmp o) (VNamed c a u) (VNamed c b v) = Val (OBool (cmp_nums N o a b))).
Proof. intros N L. exact (gen_same_type_named N gen_module L gen_base_factor_one17). Qed.
Print Assumptions C17_generated_ops_depend_only_on_si_values.

Theorem C17_generated_unary_ops_on_si_value_keep_unit :
  forall N, num_laws N -> forall c q a u, get_class gen_classes c = Some q ->
    gen_unop_eval N gen_module Neg (VNamed c a u) = Val (OVal (VNamed c (fneg N a) u)) /\
    gen_unop_eval N gen_module Abs (VNamed c a u) = Val (OVal (VNamed c (fabs N a) u)) /\
    gen_unop_eval N gen_module Pos (VNamed c a u) = Val (OVal (VNamed c a u)).
Proof. intros N L. exact (gen_unary_named N gen_module L gen_base_factor_one17). Qed.
Print Assumptions C17_generated_unary_ops_on_si_value_keep_unit.

(* the generated __floor__ / __ceil__ / __trunc__ / __round__ work on the display value and keep the unit *)
Theorem C17_generated_rounding_helpers_act_on_display_value :
  forall N, num_laws N -> forall (X : mathops N) k c q a u f n d dv r,
    get_class gen_classes c = Some q -> glookup u (qc_units q) = Some (GFac f n d) -> n <> 0%Z ->
    gen_Quantity_displayvalue N gen_module (GNamed c a u) = Val dv -> round_with X k dv = Val r ->
    gen_round_eval N gen_module X k (VNamed c a u) = Val (OVal (VNamed c (fmul N r (ffac N f n d)) u)) /\
    gen_Quantity_displayvalue N gen_module (GNamed c (fmul N r (ffac N f n d)) u) = Val r.
Proof. intros N L. exact (gen_round_on_display_value N gen_module L). Qed.
Print Assumptions C17_generated_rounding_helpers_act_on_display_value.

(* the generated __str__ is total on every declared unit: str(displayvalue), a blank, the display spelling *)
Theorem C17_generated_str_total :
  forall N, num_laws N -> forall c q a u f n d,
    get_class gen_classes c = Some q -> glookup u (qc_units q) = Some (GFac f n d) -> n <> 0%Z ->
    exists dv s, gen_Quantity___str__ N gen_module (GNamed c a u) = Val [PNum dv; PStr " "; PStr s] /\ display_of q u = GStr s.
Proof. intros N L c q a u f n d. exact (gen_str_total N gen_module L c q a u f n d gen_display_units_ok). Qed.
Print Assumptions C17_generated_str_total.

(* Length(14, 'cm') built by the generated constructor, in exact rationals *)
Example C17_generated_length_14_cm :
  match find_class gen_classes "Length" with
  | Some le =>
      match gen_Quantity_construct qc_ops gen_module le (@GNum qc_ops (Qcanon.Q2Qc (QArith_base.Qmake 14 1))) (Some "cm") with
      | Val g => match gen_Quantity_displayvalue qc_ops gen_module g, gen_Quantity_unit qc_ops gen_module g with
                 | Val dv, Val u => Qcanon.Qc_eq_bool dv (Qcanon.Q2Qc (QArith_base.Qmake 14 1)) && String.eqb u "cm"
                 | _, _ => false
                 end
      | Raise _ => false
      end
  | None => false
  end = true.
Proof. vm_compute. reflexivity. Qed.
