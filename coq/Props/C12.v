(* C12 - random streams are reproducible, resettable, restorable, independent,
   in range.  Property-level theorems only; each is closed by [exact] of a lemma
   proved in Streams/StreamProofs.v and followed by Print Assumptions.

   The generator (random.Random, CPython) is abstract: [raw s n] is the
   numerator k of the n-th output k / 2^53 of random() after seeding with s; the
   theorems hold for every such function.  [nint] is the integer-draw formula;
   the history theorems hold for every [nint], the range theorems are stated for
   the formula of the code. *)
From Coq Require Import ZArith List Bool QArith Qround.
From PV Require Import Streams.Stream Streams.StreamProofs.
Import ListNotations.
Open Scope Z_scope.

(* Two streams created with the same seed answer alike for every interleaving:
   streams i and j of one store get the same requests (proj), interleaved
   arbitrarily with each other and with requests to any other stream.
   [local_only]: the twins themselves are not asked to take over a state saved
   by another stream (see C12_restore_from_other_stream_continues for that). *)
Theorem C12_twin_streams_equal :
  forall (raw : Z -> nat -> Z) (nint : Z -> Z -> Z -> out)
         (ops : list (nat * sop)) (seeds : list Z) (i j : nat) (s : Z),
    nth_error seeds i = Some s -> nth_error seeds j = Some s ->
    proj i ops = proj j ops -> local_only (proj i ops) = true ->
    sel i ops (snd (srun raw nint (map fresh seeds) ops)) =
    sel j ops (snd (srun raw nint (map fresh seeds) ops)).
Proof. exact twin_fresh_streams_equal. Qed.
Print Assumptions C12_twin_streams_equal.

(* ... and also when the twins live in different stores with different company
   and different interleavings. *)
Theorem C12_twin_streams_equal_across_runs :
  forall (raw : Z -> nat -> Z) (nint : Z -> Z -> Z -> out)
         (ops1 ops2 : list (nat * sop)) (st1 st2 : list stream) (i : nat) (m : stream),
    nth_error st1 i = Some m -> nth_error st2 i = Some m ->
    proj i ops1 = proj i ops2 -> local_only (proj i ops1) = true ->
    sel i ops1 (snd (srun raw nint st1 ops1)) = sel i ops2 (snd (srun raw nint st2 ops2)).
Proof. exact other_streams_do_not_matter. Qed.
Print Assumptions C12_twin_streams_equal_across_runs.

Example C12_twin_nonvacuous :
  let ops := [(0%nat, NextFloat); (2%nat, NextBool); (1%nat, NextFloat); (0%nat, SetSeed 7);
              (0%nat, NextInt 1 6); (1%nat, SetSeed 7); (2%nat, Reset); (1%nat, NextInt 1 6)] in
  nth_error [5; 5; 9] 0 = Some 5 /\ nth_error [5; 5; 9] 1 = Some 5 /\ proj 0 ops = proj 1 ops
  /\ local_only (proj 0 ops) = true /\ length (proj 0 ops) = 3%nat.
Proof. repeat split. Qed.

(* reset replays the sequence of the CURRENT seed: after reset() a stream
   answers every further history like a new stream created with that seed
   (histories that ask for the original seed or restore states saved before
   the reset are excluded by [replayable 0]). *)
Theorem C12_reset_replays_current_seed :
  forall (raw : Z -> nat -> Z) (nint : Z -> Z -> Z -> out) (m : stream) (ops : list sop),
    replayable 0 ops = true ->
    snd (run raw nint (fst (step raw nint m Reset)) ops) =
    snd (run raw nint (fresh (cur m)) ops).
Proof. exact reset_replays_current_seed. Qed.
Print Assumptions C12_reset_replays_current_seed.

Theorem C12_set_seed_replays_seed :
  forall (raw : Z -> nat -> Z) (nint : Z -> Z -> Z -> out) (m : stream) (s : Z) (ops : list sop),
    replayable 0 ops = true ->
    snd (run raw nint (fst (step raw nint m (SetSeed s))) ops) =
    snd (run raw nint (fresh s) ops).
Proof. exact set_seed_replays_seed. Qed.
Print Assumptions C12_set_seed_replays_seed.

Example C12_reset_nonvacuous :
  replayable 0 [NextFloat; Save; NextInt 0 9; NextBool; Restore 0; NextFloat; Reset; QSeed] = true.
Proof. reflexivity. Qed.

(* restoring a state saved at any point continues exactly as it did after the
   save: whatever happened in between (draws, reseeding, reset, further saves
   and restores: ops1), the draws after the restore are the draws that followed
   the save. *)
Theorem C12_restore_continues :
  forall (raw : Z -> nat -> Z) (nint : Z -> Z -> Z -> out) (m : stream) (ops1 ds : list sop),
    draws_only ds = true ->
    let m1 := fst (step raw nint m Save) in
    let m2 := fst (run raw nint m1 ops1) in
    snd (run raw nint (fst (step raw nint m2 (Restore (nsaves ops1)))) ds) =
    snd (run raw nint m1 ds).
Proof. exact restore_continues. Qed.
Print Assumptions C12_restore_continues.

(* the same for every replayable continuation (including reset, set_seed,
   further save / restore), provided the current seed is what it was *)
Theorem C12_restore_continues_general :
  forall (raw : Z -> nat -> Z) (nint : Z -> Z -> Z -> out) (m : stream) (ops1 ops2 : list sop),
    let m1 := fst (step raw nint m Save) in
    let m2 := fst (run raw nint m1 ops1) in
    cur m2 = cur m -> replayable 0 ops2 = true ->
    snd (run raw nint (fst (step raw nint m2 (Restore (nsaves ops1)))) ops2) =
    snd (run raw nint m1 ops2).
Proof. exact restore_continues_general. Qed.
Print Assumptions C12_restore_continues_general.

Example C12_restore_nonvacuous :
  draws_only [NextFloat; NextInt (-3) 3; NextBool] = true /\
  nsaves [NextFloat; Save; SetSeed 4; NextBool; Reset; Save; Restore 1] = 2%nat.
Proof. split; reflexivity. Qed.

(* a state saved by one stream restored into ANOTHER stream: the receiving
   stream keeps its seeds, and its draws continue as the saving stream's draws
   did after the save (the generator outputs from the saved position on) *)
Theorem C12_restore_from_other_stream_continues :
  forall (raw : Z -> nat -> Z) (nint : Z -> Z -> Z -> out)
         (st : list stream) (i j k : nat) (mi mj : stream) (g : gstate) (ds : list sop),
    nth_error st i = Some mi -> nth_error st j = Some mj -> nth_error (saved mj) k = Some g ->
    draws_only ds = true ->
    exists mi', nth_error (fst (sstep raw nint st (i, RestoreFrom j k))) i = Some mi' /\
      snd (sstep raw nint st (i, RestoreFrom j k)) = ONone /\
      cur mi' = cur mi /\ orig mi' = orig mi /\
      snd (run raw nint mi' ds) = draw_outs raw nint (gseed g) (gpos g) ds.
Proof. exact cross_restore_continues. Qed.
Print Assumptions C12_restore_from_other_stream_continues.

(* draws from one stream never alter the sequence of another: what stream i
   returns in an interleaved history over a store, and the state it ends in, is
   what it returns and ends in when its own requests are applied to it alone -
   whatever the other streams are asked to do (draws, reseeding, restoring
   states, even states saved by stream i). *)
Theorem C12_streams_independent :
  forall (raw : Z -> nat -> Z) (nint : Z -> Z -> Z -> out)
         (ops : list (nat * sop)) (st : list stream) (i : nat) (m : stream),
    nth_error st i = Some m -> local_only (proj i ops) = true ->
    sel i ops (snd (srun raw nint st ops)) = snd (run raw nint m (proj i ops)) /\
    nth_error (fst (srun raw nint st ops)) i = Some (fst (run raw nint m (proj i ops))).
Proof. exact streams_independent. Qed.
Print Assumptions C12_streams_independent.

(* every next_* call consumes exactly one output of the generator (the one at
   the current position, which then moves on by one) and the answer is a
   function of that output only; no other call looks at the generator. *)
Theorem C12_one_raw_draw_per_call :
  forall (raw : Z -> nat -> Z) (nint : Z -> Z -> Z -> out) (m : stream) (op : sop),
    (is_draw op = true ->
       step raw nint m op =
       (advance m, draw_out nint op (raw (gseed (gen m)) (gpos (gen m))))) /\
    (is_draw op = false -> forall raw', step raw nint m op = step raw' nint m op).
Proof. exact one_raw_draw_per_call. Qed.
Print Assumptions C12_one_raw_draw_per_call.

(* n consecutive draws of any kinds read positions p, p+1, ..., p+n-1 *)
Theorem C12_draws_read_consecutive_positions :
  forall (raw : Z -> nat -> Z) (nint : Z -> Z -> Z -> out) (ds : list sop) (m : stream),
    draws_only ds = true ->
    run raw nint m ds =
    (mkS (mkG (gseed (gen m)) (gpos (gen m) + length ds)) (cur m) (orig m) (saved m),
     draw_outs raw nint (gseed (gen m)) (gpos (gen m)) ds).
Proof. exact draws_read_consecutive. Qed.
Print Assumptions C12_draws_read_consecutive_positions.

(* floats lie in [0,1), given that the generator's outputs do (contract of
   random.Random: k / 2^53 with 0 <= k < 2^53) *)
Theorem C12_floats_in_unit_interval :
  forall (raw : Z -> nat -> Z) (nint : Z -> Z -> Z -> out),
    (forall s n, 0 <= raw s n < two53) ->
    forall (ops : list (nat * sop)) (st : list stream),
      valid_ops (length st) ops ->
      floats_in_unit ops (snd (srun raw nint st ops)).
Proof. exact float_in_unit. Qed.
Print Assumptions C12_floats_in_unit_interval.

(* integer draws, documented formula, exact arithmetic, EVERY range and every
   rational u in [0,1) *)
Theorem C12_next_int_in_range_exact :
  forall (lo hi : Z) (u : Q),
    lo <= hi -> (0 <= u)%Q -> (u < 1)%Q ->
    lo <= lo + Qfloor (inject_Z (hi - lo + 1) * u) <= hi.
Proof. exact next_int_in_range. Qed.
Print Assumptions C12_next_int_in_range_exact.

(* integer draws, what the code computes in binary64 arithmetic (int -> double
   conversion, rounded product, floor) for every range narrower than 2^53 and
   every generator output, including u = 1 - 2^-53 *)
Theorem C12_next_int_in_range_binary64 :
  forall lo hi k : Z,
    lo <= hi -> hi - lo + 1 < two53 -> 0 <= k < two53 ->
    exists r, next_int_b64 lo hi k = OInt r /\ lo <= r <= hi.
Proof. exact next_int_b64_in_range. Qed.
Print Assumptions C12_next_int_in_range_binary64.

(* integer draws of the (repaired) code: EVERY non-empty range, whatever its
   width, is answered by an integer of the range - in every history over
   every store *)
Theorem C12_next_int_in_range_every_range :
  forall lo hi k : Z,
    lo <= hi -> 0 <= k < two53 ->
    exists r, next_int_fixed lo hi k = OInt r /\ lo <= r <= hi.
Proof. exact next_int_fixed_in_range. Qed.
Print Assumptions C12_next_int_in_range_every_range.

Theorem C12_int_draws_in_range_in_every_history :
  forall (raw : Z -> nat -> Z),
    (forall s n, 0 <= raw s n < two53) ->
    forall (ops : list (nat * sop)) (st : list stream),
      valid_ops (length st) ops ->
      ints_answered ops (snd (srun raw next_int_fixed st ops)).
Proof.
  exact (fun raw Hraw => int_draws_answered_in_range raw next_int_fixed Hraw next_int_fixed_in_range).
Qed.
Print Assumptions C12_int_draws_in_range_in_every_history.

(* "inclusive": both ends of the range are reached - lo for u = 0 and, for
   ranges of up to 2^53 values, hi for the largest generator output 1 - 2^-53 *)
Theorem C12_next_int_endpoints_reached :
  forall lo hi : Z, lo <= hi ->
    next_int_fixed lo hi 0 = OInt lo /\
    (hi - lo + 1 <= two53 -> next_int_fixed lo hi (two53 - 1) = OInt hi).
Proof. exact next_int_fixed_endpoints. Qed.
Print Assumptions C12_next_int_endpoints_reached.

(* The pinned tree computes the float product for every width: for a range
   wider than the largest float no integer is returned at all (OverflowError),
   so "in the requested range for every range" is false of it. *)
Theorem C12_next_int_every_range_pinned_refuted :
  exists lo hi k, lo <= hi /\ 0 <= k < two53 /\ next_int_b64 lo hi k = ORaise EOverflow.
Proof. exact next_int_every_range_refuted. Qed.
Print Assumptions C12_next_int_every_range_pinned_refuted.
