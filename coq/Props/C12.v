(* C12 - random streams are reproducible, resettable, restorable, independent,
   in range.  Property-level theorems only; each is closed by [exact] of a lemma
   proved in Streams/StreamProofs.v and followed by Print Assumptions.

   The generator (random.Random, CPython) is abstract: [raw s n] is the
   numerator k of the n-th output k / 2^53 of random() after seeding with s; the
   theorems hold for every such function.  [nint] is the integer-draw formula;
   the history theorems hold for every [nint], the range theorems are stated for
   the formula of the code. *)
From Coq Require Import ZArith List Bool QArith Qround.
From PV Require Import Streams.Stream Streams.StreamProofs.
Import ListNotations.
Open Scope Z_scope.

(* Two streams created with the same seed answer alike for every interleaving:
   streams i and j of one store get the same requests (proj), interleaved
   arbitrarily with each other and with requests to any other stream.
   [local_only]: the twins themselves are not asked to take over a state saved
   by another stream (see C12_restore_from_other_stream_continues for that). *)
Theorem C12_twin_streams_equal :
  forall (raw : Z -> nat -> Z) (nint : Z -> Z -> Z -> out)
         (ops : list (nat * sop)) (seeds : list Z) (i j : nat) (s : Z),
    nth_error seeds i = Some s -> nth_error seeds j = Some s ->
    proj i ops = proj j ops -> local_only (proj i ops) = true ->
    sel i ops (snd (srun raw nint (map fresh seeds) ops)) =
    sel j ops (snd (srun raw nint (map fresh seeds) ops)).
Proof. exact twin_fresh_streams_equal. Qed.
Print Assumptions C12_twin_streams_equal.

(* ... and also when the twins live in different stores with different company
   and different interleavings. *)
Theorem C12_twin_streams_equal_across_runs :
  forall (raw : Z -> nat -> Z) (nint : Z -> Z -> Z -> out)
         (ops1 ops2 : list (nat * sop)) (st1 st2 : list stream) (i : nat) (m : stream),
    nth_error st1 i = Some m -> nth_error st2 i = Some m ->
    proj i ops1 = proj i ops2 -> local_only (proj i ops1) = true ->
    sel i ops1 (snd (srun raw nint st1 ops1)) = sel i ops2 (snd (srun raw nint st2 ops2)).
Proof. exact other_streams_do_not_matter. Qed.
Print Assumptions C12_twin_streams_equal_across_runs.

Example C12_twin_nonvacuous :
  let ops := [(0%nat, NextFloat); (2%nat, NextBool); (1%nat, NextFloat); (0%nat, SetSeed 7);
              (0%nat, NextInt 1 6); (1%nat, SetSeed 7); (2%nat, Reset); (1%nat, NextInt 1 6)] in
  nth_error [5; 5; 9] 0 = Some 5 /\ nth_error [5; 5; 9] 1 = Some 5 /\ proj 0 ops = proj 1 ops
  /\ local_only (proj 0 ops) = true /\ length (proj 0 ops) = 3%nat.
Proof. repeat split. Qed.

(* reset replays the sequence of the CURRENT seed: after reset() a stream
   answers every further history like a new stream created with that seed
   (histories that ask for the original seed or restore states saved before
   the reset are excluded by [replayable 0]). *)
Theorem C12_reset_replays_current_seed :
  forall (raw : Z -> nat -> Z) (nint : Z -> Z -> Z -> out) (m : stream) (ops : list sop),
    replayable 0 ops = true ->
    snd (run raw nint (fst (step raw nint m Reset)) ops) =
    snd (run raw nint (fresh (cur m)) ops).
Proof. exact reset_replays_current_seed. Qed.
Print Assumptions C12_reset_replays_current_seed.

Theorem C12_set_seed_replays_seed :
  forall (raw : Z -> nat -> Z) (nint : Z -> Z -> Z -> out) (m : stream) (s : Z) (ops : list sop),
    replayable 0 ops = true ->
    snd (run raw nint (fst (step raw nint m (SetSeed s))) ops) =
    snd (run raw nint (fresh s) ops).
Proof. exact set_seed_replays_seed. Qed.
Print Assumptions C12_set_seed_replays_seed.

Example C12_reset_nonvacuous :
  replayable 0 [NextFloat; Save; NextInt 0 9; NextBool; Restore 0; NextFloat; Reset; QSeed] = true.
Proof. reflexivity. Qed.

(* restoring a state saved at any point continues exactly as it did after the
   save: whatever happened in between (draws, reseeding, reset, further saves
   and restores: ops1), the draws after the restore are the draws that followed
   the save. *)
Theorem C12_restore_continues :
  forall (raw : Z -> nat -> Z) (nint : Z -> Z -> Z -> out) (m : stream) (ops1 ds : list sop),
    draws_only ds = true ->
    let m1 := fst (step raw nint m Save) in
    let m2 := fst (run raw nint m1 ops1) in
    snd (run raw nint (fst (step raw nint m2 (Restore (nsaves ops1)))) ds) =
    snd (run raw nint m1 ds).
Proof. exact restore_continues. Qed.
Print Assumptions C12_restore_continues.

(* the same for every replayable continuation (including reset, set_seed,
   further save / restore), provided the current seed is what it was *)
Theorem C12_restore_continues_general :
  forall (raw : Z -> nat -> Z) (nint : Z -> Z -> Z -> out) (m : stream) (ops1 ops2 : list sop),
    let m1 := fst (step raw nint m Save) in
    let m2 := fst (run raw nint m1 ops1) in
    cur m2 = cur m -> replayable 0 ops2 = true ->
    snd (run raw nint (fst (step raw nint m2 (Restore (nsaves ops1)))) ops2) =
    snd (run raw nint m1 ops2).
Proof. exact restore_continues_general. Qed.
Print Assumptions C12_restore_continues_general.

Example C12_restore_nonvacuous :
  draws_only [NextFloat; NextInt (-3) 3; NextBool] = true /\
  nsaves [NextFloat; Save; SetSeed 4; NextBool; Reset; Save; Restore 1] = 2%nat.
Proof. split; reflexivity. Qed.

(* a state saved by one stream restored into ANOTHER stream: the receiving
   stream keeps its seeds, and its draws continue as the saving stream's draws
   did after the save (the generator outputs from the saved position on) *)
Theorem C12_restore_from_other_stream_continues :
  forall (raw : Z -> nat -> Z) (nint : Z -> Z -> Z -> out)
         (st : list stream) (i j k : nat) (mi mj : stream) (g : gstate) (ds : list sop),
    nth_error st i = Some mi -> nth_error st j = Some mj -> nth_error (saved mj) k = Some g ->
    draws_only ds = true ->
    exists mi', nth_error (fst (sstep raw nint st (i, RestoreFrom j k))) i = Some mi' /\
      snd (sstep raw nint st (i, RestoreFrom j k)) = ONone /\
      cur mi' = cur mi /\ orig mi' = orig mi /\
      snd (run raw nint mi' ds) = draw_outs raw nint (gseed g) (gpos g) ds.
Proof. exact cross_restore_continues. Qed.
Print Assumptions C12_restore_from_other_stream_continues.

(* draws from one stream never alter the sequence of another: what stream i
   returns in an interleaved history over a store, and the state it ends in, is
   what it returns and ends in when its own requests are applied to it alone -
   whatever the other streams are asked to do (draws, reseeding, restoring
   states, even states saved by stream i). *)
Theorem C12_streams_independent :
  forall (raw : Z -> nat -> Z) (nint : Z -> Z -> Z -> out)
         (ops : list (nat * sop)) (st : list stream) (i : nat) (m : stream),
    nth_error st i = Some m -> local_only (proj i ops) = true ->
    sel i ops (snd (srun raw nint st ops)) = snd (run raw nint m (proj i ops)) /\
    nth_error (fst (srun raw nint st ops)) i = Some (fst (run raw nint m (proj i ops))).
Proof. exact streams_independent. Qed.
Print Assumptions C12_streams_independent.

(* every next_* call consumes exactly one output of the generator (the one at
   the current position, which then moves on by one) and the answer is a
   function of that output only; no other call looks at the generator. *)
Theorem C12_one_raw_draw_per_call :
  forall (raw : Z -> nat -> Z) (nint : Z -> Z -> Z -> out) (m : stream) (op : sop),
    (is_draw op = true ->
       step raw nint m op =
       (advance m, draw_out nint op (raw (gseed (gen m)) (gpos (gen m))))) /\
    (is_draw op = false -> forall raw', step raw nint m op = step raw' nint m op).
Proof. exact one_raw_draw_per_call. Qed.
Print Assumptions C12_one_raw_draw_per_call.

(* n consecutive draws of any kinds read positions p, p+1, ..., p+n-1 *)
Theorem C12_draws_read_consecutive_positions :
  forall (raw : Z -> nat -> Z) (nint : Z -> Z -> Z -> out) (ds : list sop) (m : stream),
    draws_only ds = true ->
    run raw nint m ds =
    (mkS (mkG (gseed (gen m)) (gpos (gen m) + length ds)) (cur m) (orig m) (saved m),
     draw_outs raw nint (gseed (gen m)) (gpos (gen m)) ds).
Proof. exact draws_read_consecutive. Qed.
Print Assumptions C12_draws_read_consecutive_positions.

(* floats lie in [0,1), given that the generator's outputs do (contract of
   random.Random: k / 2^53 with 0 <= k < 2^53) *)
Theorem C12_floats_in_unit_interval :
  forall (raw : Z -> nat -> Z) (nint : Z -> Z -> Z -> out),
    (forall s n, 0 <= raw s n < two53) ->
    forall (ops : list (nat * sop)) (st : list stream),
      valid_ops (length st) ops ->
      floats_in_unit ops (snd (srun raw nint st ops)).
Proof. exact float_in_unit. Qed.
Print Assumptions C12_floats_in_unit_interval.

(* integer draws, documented formula, exact arithmetic, EVERY range and every
   rational u in [0,1) *)
Theorem C12_next_int_in_range_exact :
  forall (lo hi : Z) (u : Q),
    lo <= hi -> (0 <= u)%Q -> (u < 1)%Q ->
    lo <= lo + Qfloor (inject_Z (hi - lo + 1) * u) <= hi.
Proof. exact next_int_in_range. Qed.
Print Assumptions C12_next_int_in_range_exact.

(* integer draws, what the code computes in binary64 arithmetic (int -> double
   conversion, rounded product, floor) for every range narrower than 2^53 and
   every generator output, including u = 1 - 2^-53 *)
Theorem C12_next_int_in_range_binary64 :
  forall lo hi k : Z,
    lo <= hi -> hi - lo + 1 < two53 -> 0 <= k < two53 ->
    exists r, next_int_b64 lo hi k = OInt r /\ lo <= r <= hi.
Proof. exact next_int_b64_in_range. Qed.
Print Assumptions C12_next_int_in_range_binary64.

(* integer draws of the (repaired) code: EVERY non-empty range, whatever its
   width, is answered by an integer of the range - in every history over
   every store *)
Theorem C12_next_int_in_range_every_range :
  forall lo hi k : Z,
    lo <= hi -> 0 <= k < two53 ->
    exists r, next_int_fixed lo hi k = OInt r /\ lo <= r <= hi.
Proof. exact next_int_fixed_in_range. Qed.
Print Assumptions C12_next_int_in_range_every_range.

Theorem C12_int_draws_in_range_in_every_history :
  forall (raw : Z -> nat -> Z),
    (forall s n, 0 <= raw s n < two53) ->
    forall (ops : list (nat * sop)) (st : list stream),
      valid_ops (length st) ops ->
      ints_answered ops (snd (srun raw next_int_fixed st ops)).
Proof.
  exact (fun raw Hraw => int_draws_answered_in_range raw next_int_fixed Hraw next_int_fixed_in_range).
Qed.
Print Assumptions C12_int_draws_in_range_in_every_history.

(* "inclusive": both ends of the range are reached - lo for u = 0 and, for
   ranges of up to 2^53 values, hi for the largest generator output 1 - 2^-53 *)
Theorem C12_next_int_endpoints_reached :
  forall lo hi : Z, lo <= hi ->
    next_int_fixed lo hi 0 = OInt lo /\
    (hi - lo + 1 <= two53 -> next_int_fixed lo hi (two53 - 1) = OInt hi).
Proof. exact next_int_fixed_endpoints. Qed.
Print Assumptions C12_next_int_endpoints_reached.

(* The pinned tree computes the float product for every width: for a range
   wider than the largest float no integer is returned at all (OverflowError),
   so "in the requested range for every range" is false of it. *)
Theorem C12_next_int_every_range_pinned_refuted :
  exists lo hi k, lo <= hi /\ 0 <= k < two53 /\ next_int_b64 lo hi k = ORaise EOverflow.
Proof. exact next_int_every_range_refuted. Qed.
Print Assumptions C12_next_int_every_range_pinned_refuted.

(* ---------------------------------------------------------------------- *)
(* The tie to the source TEXT.  Streams/Gen_Streams.v is regenerated on every
   run by translator/py2gallina_streams.py from src/pydsol/core/streams.py of the
   tree under test (Python `ast`, fail-closed: the bodies of
   MersenneTwister.__init__ / next_bool / next_float / next_int / seed /
   original_seed / set_seed / reset / save_state / restore_state over the abstract
   generator), and Streams/GenAgree.v proves every generated definition equal to
   the hand-written model function.  This section is compiled against the
   regenerated file: the theorems above therefore speak about the current source
   text.  A change of a method's meaning makes GenAgree.v fail to compile: the
   check then searches for a failing input and reports the broken tie. *)
From PV Require Import Streams.Gen_Streams Streams.GenAgree.
Import MT C12Agree.

Theorem C12_generated_model_is_the_proved_model :
  (forall raw nint m, step raw nint m NextFloat = obs out_float (gen_MersenneTwister_next_float raw m)) /\
  (forall raw nint m, step raw nint m NextBool = obs out_bool (gen_MersenneTwister_next_bool raw m)) /\
  (forall raw m lo hi, step raw gen_nint m (NextInt lo hi) =
                       obs out_int (gen_MersenneTwister_next_int raw m (BInt lo) (BInt hi))) /\
  (forall lo hi k, 0 <= k < two53 -> gen_nint lo hi k = next_int_fixed lo hi k) /\
  (forall raw nint m a b, a = BNotNumber \/ b = BNotNumber ->
     step raw nint m NextIntIllTyped = obs out_int (gen_MersenneTwister_next_int raw m a b)) /\
  (forall raw nint m, step raw nint m QSeed = obs out_seed (gen_MersenneTwister_seed m)) /\
  (forall raw nint m, step raw nint m QOrig = obs out_seed (gen_MersenneTwister_original_seed m)) /\
  (forall raw nint m z, step raw nint m (SetSeed z) = obs out_unit (gen_MersenneTwister_set_seed m z)) /\
  (forall raw nint m, step raw nint m Reset = obs out_unit (gen_MersenneTwister_reset m)) /\
  (forall raw nint m, step raw nint m Save = remember (gen_MersenneTwister_save_state m)) /\
  (forall raw nint m k, step raw nint m (Restore k) =
     match nth_error (saved m) k with
     | Some g => obs out_unit (gen_MersenneTwister_restore_state m (StObj g))
     | None => (m, ORaise EBadState)
     end) /\
  (forall raw nint m, step raw nint m RestoreGarbage = obs out_unit (gen_MersenneTwister_restore_state m StGarbage)) /\
  (forall clock g0 m0 z, saved m0 = [] ->
     gen_MersenneTwister___init__ clock g0 m0 (SeedInt z) = (fresh z, Ret tt) /\
     gen_MersenneTwister___init__ clock g0 m0 SeedNone = (fresh clock, Ret tt) /\
     gen_MersenneTwister___init__ clock g0 m0 SeedOther = (m0, Exc ETypeError)) /\
  (forall raw ops st, gen_srun raw st ops = srun raw gen_nint st ops) /\
  (forall raw, (forall s n, 0 <= raw s n < two53) ->
     forall ops st, gen_srun raw st ops = srun raw next_int_fixed st ops).
Proof. exact mt_generated_agree. Qed.
Print Assumptions C12_generated_model_is_the_proved_model.

(* the objects a history starts from are made by the generated constructor *)
Definition gen_new (clock : Z) (g0 : gstate) (s : Z) : stream :=
  fst (gen_MersenneTwister___init__ clock g0 (mkS g0 0 0 []) (SeedInt s)).

Theorem C12_generated_constructor_makes_fresh_streams :
  forall clock g0 seeds, map (gen_new clock g0) seeds = map fresh seeds.
Proof.
  intros clock g0 seeds. apply map_ext. intros s. unfold gen_new.
  destruct (gen_MersenneTwister_init_eq clock g0 (mkS g0 0 0 []) s eq_refl) as [E _]. rewrite E. reflexivity.
Qed.
Print Assumptions C12_generated_constructor_makes_fresh_streams.

(* C12_twin_streams_equal, for histories run by the generated methods on objects
   made by the generated constructor: every generator, every interleaving *)
Theorem C12_generated_twin_streams_equal :
  forall (raw : Z -> nat -> Z) (clock : Z) (g0 : gstate)
         (ops : list (nat * sop)) (seeds : list Z) (i j : nat) (s : Z),
    nth_error seeds i = Some s -> nth_error seeds j = Some s ->
    proj i ops = proj j ops -> local_only (proj i ops) = true ->
    sel i ops (snd (gen_srun raw (map (gen_new clock g0) seeds) ops)) =
    sel j ops (snd (gen_srun raw (map (gen_new clock g0) seeds) ops)).
Proof.
  intros raw clock g0 ops seeds i j s Hi Hj Hp Hl.
  rewrite C12_generated_constructor_makes_fresh_streams, gen_srun_eq.
  exact (C12_twin_streams_equal raw gen_nint ops seeds i j s Hi Hj Hp Hl).
Qed.
Print Assumptions C12_generated_twin_streams_equal.

(* C12_reset_replays_current_seed, for the generated reset and generated histories *)
Theorem C12_generated_reset_replays_current_seed :
  forall (raw : Z -> nat -> Z) (m : stream) (ops : list sop),
    replayable 0 ops = true ->
    snd (gen_run raw (fst (gen_MersenneTwister_reset m)) ops) =
    snd (gen_run raw (fresh (cur m)) ops).
Proof.
  intros raw m ops H. rewrite !gen_run_eq.
  exact (C12_reset_replays_current_seed raw gen_nint m ops H).
Qed.
Print Assumptions C12_generated_reset_replays_current_seed.

(* C12_restore_continues, for the generated save_state / restore_state *)
Theorem C12_generated_restore_continues :
  forall (raw : Z -> nat -> Z) (m : stream) (ops1 ds : list sop),
    draws_only ds = true ->
    let m1 := fst (gen_step raw m Save) in
    let m2 := fst (gen_run raw m1 ops1) in
    snd (gen_run raw (fst (gen_step raw m2 (Restore (nsaves ops1)))) ds) =
    snd (gen_run raw m1 ds).
Proof.
  intros raw m ops1 ds H. cbv zeta. rewrite !gen_run_eq, !gen_step_eq.
  exact (C12_restore_continues raw gen_nint m ops1 ds H).
Qed.
Print Assumptions C12_generated_restore_continues.

(* C12_streams_independent, for generated histories *)
Theorem C12_generated_streams_independent :
  forall (raw : Z -> nat -> Z) (ops : list (nat * sop)) (st : list stream) (i : nat) (m : stream),
    nth_error st i = Some m -> local_only (proj i ops) = true ->
    sel i ops (snd (gen_srun raw st ops)) = snd (gen_run raw m (proj i ops)) /\
    nth_error (fst (gen_srun raw st ops)) i = Some (fst (gen_run raw m (proj i ops))).
Proof.
  intros raw ops st i m Hm Hl. rewrite gen_srun_eq, gen_run_eq.
  exact (C12_streams_independent raw gen_nint ops st i m Hm Hl).
Qed.
Print Assumptions C12_generated_streams_independent.

(* the range theorems, for the integer-draw formula of the generated next_int and for
   every generated history over a generator that keeps its contract *)
Theorem C12_generated_next_int_in_range_every_range :
  forall lo hi k : Z,
    lo <= hi -> 0 <= k < two53 ->
    exists r, gen_nint lo hi k = OInt r /\ lo <= r <= hi.
Proof.
  intros lo hi k Hr Hk. rewrite (gen_nint_eq lo hi k Hk).
  exact (C12_next_int_in_range_every_range lo hi k Hr Hk).
Qed.
Print Assumptions C12_generated_next_int_in_range_every_range.

Theorem C12_generated_int_draws_in_range_in_every_history :
  forall (raw : Z -> nat -> Z),
    (forall s n, 0 <= raw s n < two53) ->
    forall (ops : list (nat * sop)) (st : list stream),
      valid_ops (length st) ops ->
      ints_answered ops (snd (gen_srun raw st ops)) /\
      floats_in_unit ops (snd (gen_srun raw st ops)).
Proof.
  intros raw Hraw ops st Hv. rewrite (gen_srun_eq_model raw Hraw). split.
  - exact (C12_int_draws_in_range_in_every_history raw Hraw ops st Hv).
  - exact (C12_floats_in_unit_interval raw next_int_fixed Hraw ops st Hv).
Qed.
Print Assumptions C12_generated_int_draws_in_range_in_every_history.

Example C12_generated_nonvacuous :
  let raw := fun (s : Z) (n : nat) => (s * 1000003 + Z.of_nat n * 7919 + two53 - 1) mod two53 in
  let ops := [(0%nat, NextInt 1 6); (1%nat, NextFloat); (0%nat, Save); (0%nat, NextInt 0 (2 ^ 70));
              (1%nat, SetSeed 9); (0%nat, Restore 0); (0%nat, NextInt 0 (2 ^ 70)); (1%nat, Reset); (1%nat, NextBool)] in
  snd (gen_srun raw (map (gen_new 0 (mkG 0 0)) [5; 5]) ops) =
  snd (srun raw next_int_fixed (map fresh [5; 5]) ops) /\
  nth 3 (snd (gen_srun raw (map (gen_new 0 (mkG 0 0)) [5; 5]) ops)) ONone = OInt 656399794176 /\
  nth 6 (snd (gen_srun raw (map (gen_new 0 (mkG 0 0)) [5; 5]) ops)) ONone = OInt 656399794176.
Proof. cbv zeta. vm_compute. repeat split. Qed.

(* ---------------------------------------------------------------------- *)
(* StreamInformation / StreamSeedInformation: the named streams a model is given
   (Streams/Info.v: stream objects are indices of a store, an information object
   maps names to indices).  Every information object created with the documented
   default (no argument: "default" = MersenneTwister(10)) gets a stream object of
   its OWN; hence, by the theorems above, the default streams of two models replay
   the same sequence and do not disturb each other.  The generated part: the
   bodies of StreamInformation.__init__ / add_stream / get_stream and
   StreamSeedInformation.__init__ AND the default value of their parameter as the
   source text has it (a default is evaluated once, at definition time: the
   translator accepts the immutable None only). *)
From PV Require Import Streams.Info Streams.InfoProofs.
Import Inf InfoAgree.

Theorem C12_information_objects_hold_streams_of_their_own :
  forall st : list stream,
  let '(st1, r1) := info_init st SNone in
  let '(st2, r2) := info_init st1 SNone in
  exists d1 d2 i j, r1 = IVal d1 /\ r2 = IVal d2 /\
    info_stream d1 (KStr default_name) = IVal i /\ info_stream d2 (KStr default_name) = IVal j /\
    i <> j /\ nth_error st2 i = Some (fresh default_seed) /\ nth_error st2 j = Some (fresh default_seed) /\
    (forall k m, nth_error st k = Some m -> nth_error st2 k = Some m).
Proof. exact two_default_infos_hold_distinct_fresh_streams. Qed.
Print Assumptions C12_information_objects_hold_streams_of_their_own.

Theorem C12_default_streams_of_two_information_objects_are_twins :
  forall (raw : Z -> nat -> Z) (nint : Z -> Z -> Z -> out) (st : list stream) (ops : list (nat * sop)),
  let st2 := fst (info_init (fst (info_init st SNone)) SNone) in
  let i := length st in
  let j := S (length st) in
  proj i ops = proj j ops -> local_only (proj i ops) = true ->
  sel i ops (snd (srun raw nint st2 ops)) = sel j ops (snd (srun raw nint st2 ops)).
Proof. exact default_streams_of_two_infos_are_twins. Qed.
Print Assumptions C12_default_streams_of_two_information_objects_are_twins.

Theorem C12_default_streams_of_two_information_objects_are_independent :
  forall (raw : Z -> nat -> Z) (nint : Z -> Z -> Z -> out) (st : list stream) (ops : list (nat * sop)),
  let st2 := fst (info_init (fst (info_init st SNone)) SNone) in
  forall i, (i = length st \/ i = S (length st)) -> local_only (proj i ops) = true ->
  sel i ops (snd (srun raw nint st2 ops)) = snd (run raw nint (fresh default_seed) (proj i ops)).
Proof. exact default_streams_of_two_infos_are_independent. Qed.
Print Assumptions C12_default_streams_of_two_information_objects_are_independent.

Theorem C12_information_add_then_get :
  forall (d : info) (n : name) (i : nat), info_stream (fst (info_add d (KStr n) (SObj i))) (KStr n) = IVal i.
Proof. exact add_then_get. Qed.
Print Assumptions C12_information_add_then_get.

Theorem C12_generated_information_model_is_the_proved_model :
  (gen_StreamInformation___init____default_default_stream = SNone /\
   gen_StreamSeedInformation___init____default_default_stream = SNone) /\
  (forall clock g0 g1 w s0 a,
     let '((w', s'), r) := gen_StreamInformation___init__ clock g0 g1 w s0 a in
     match info_init w a with
     | (w2, IVal d) => w' = w2 /\ i_streams s' = d /\ r = Ret tt
     | (w2, IRaise e) => w' = w2 /\ r = Exc e
     end) /\
  (forall w s k a,
     let '((w', s'), r) := gen_StreamInformation_add_stream w s k a in
     w' = w /\ (i_streams s', ires_of r) = info_add (i_streams s) k a) /\
  (forall w s k,
     let '((w', s'), r) := gen_StreamInformation_get_stream w s k in
     w' = w /\ s' = s /\ ires_of r = info_stream (i_streams s) k) /\
  (forall clock g0 g1 w s0 a,
     let '((w', s'), r) := gen_StreamSeedInformation___init__ clock g0 g1 w s0 a in
     match sinfo_init w a with
     | (w2, IVal si) => w' = w2 /\ mkSI (i_streams (sis_base s')) (sis_seeds s') = si /\ r = Ret tt
     | (w2, IRaise e) => w' = w2 /\ r = Exc e
     end).
Proof. exact info_generated_agree. Qed.
Print Assumptions C12_generated_information_model_is_the_proved_model.

(* StreamInformation() twice, as the source text defines constructor and default: two different stream
   objects, each a fresh stream with seed 10, in the store the twin / independence theorems above are about *)
Theorem C12_generated_default_information_objects_do_not_share_a_stream :
  forall clock g0 g1 clock' g0' g1' (w : list stream),
  let '((w1, s1), _) := gen_new_info clock g0 g1 w in
  let '((w2, s2), _) := gen_new_info clock' g0' g1' w1 in
  exists i j,
    snd (gen_StreamInformation_get_stream w2 s1 (KStr default_name)) = Ret i /\
    snd (gen_StreamInformation_get_stream w2 s2 (KStr default_name)) = Ret j /\
    i <> j /\ nth_error w2 i = Some (fresh default_seed) /\ nth_error w2 j = Some (fresh default_seed) /\
    w2 = fst (info_init (fst (info_init w SNone)) SNone).
Proof. exact generated_default_infos_hold_distinct_fresh_streams. Qed.
Print Assumptions C12_generated_default_information_objects_do_not_share_a_stream.
