(* C11 -- simulation statistics honour warm-up and replication end; publish
   true values.  Property-level theorems only; each is closed by [exact] of a
   lemma of Stats/SimStatsProofs.v and followed by Print Assumptions.

   Model (Stats/SimStats.v, tied to /repo by harness/c11.py on every run):
   the simulator model Sim/Model.v logs every data event a handler fires
   ([ObsV channel payload-index clock]), the execution of the warm-up event
   ([ObsWarm clock]) and the END_REPLICATION notification ([ObsEnd clock]);
   [stat_run N cfg pl sid d log] is statistic number [sid] (declaration [d]:
   kind, key, channels, subscriber) fed that log: a data event on a channel it
   listens to -> register (unless an earlier subscriber of the channel raised),
   WARMUP -> initialize, END_REPLICATION -> end_observations(clock) for the
   persistent; after every accepted observation the statistic publishes its
   events one by one to its subscriber, which is a program that may register
   further observations from inside notify.  One model text over [N : Num];
   the theorems hold for every arithmetic instance unless a rational instance
   [NumQ sq] is named; binary64 is the instance executed against /repo.

   The ordinary statistics are the models of C09 / C10: [crun], [trun],
   [wrun], [tsrun] (Stats/Tally.v, Weighted.v, Timestamp.v). *)
From Coq Require Import ZArith QArith List Bool Sorting.Sorted.
From PV Require Import EventList.Key Sim.Model Sim.Order Sim.Case.
From PV Require Import Stats.Num Stats.Tally Stats.Weighted Stats.Timestamp
                       Stats.TallyProofs Stats.WeightedProofs Stats.TimestampProofs
                       Stats.SimStats Stats.SimStatsProofs.
Import ListNotations.

(* ---------------------------------------------------------------------- *)
(* 1. "at the end of a replication a simulation counter, tally or weighted
      tally reports exactly what an ordinary statistic reports when fed only
      the observations made at or after the warm-up ..."
      [filtered sid log]: the observations of the log delivered to the
      statistic after the LAST warm-up marker (all of them when there is
      none).  Subscriber without re-entrant registrations; no exception
      escaped a notification.  Every arithmetic instance.                   *)
Theorem C11_simstat_filtered :
  forall (N : Num) cfg pl sid d log,
    no_reentry d -> ps_raised (stat_run N cfg pl sid d log) = false ->
    let obs := filtered N cfg pl sid log in
    match d_kind d with
    | KCounter => ps_state (stat_run N cfg pl sid d log)
                  = SC (crun cinit (map (fun tp => CReg (p_c (snd tp))) obs))
    | KTally => ps_state (stat_run N cfg pl sid d log)
                = ST (trun N (tinit N) (map (fun tp => TReg (p_v (snd tp))) obs))
    | KWeighted => ps_state (stat_run N cfg pl sid d log)
                   = SW (wrun N (winit N) (map (fun tp => WReg (p_w (snd tp)) (p_v (snd tp))) obs))
    | KPersistent => True
    end.
Proof. exact simstat_filtered. Qed.
Print Assumptions C11_simstat_filtered.

(* The same for ANY subscriber, re-entrant registrations included: the state
   is that of the ordinary statistic fed every operation performed on the
   statistic since its last initialize ([ops_of]: ghost log of the data events
   delivered and of the registrations made from inside notifications).       *)
Theorem C11_simstat_state_is_plain_run :
  forall (N : Num) cfg pl sid d log,
    let x := stat_run N cfg pl sid d log in
    let ops := after_last_init N [] (ops_of N x) in
    ps_state x = srun N (sinit N (d_kind d)) ops /\
    match d_kind d with
    | KCounter => ps_state x = SC (crun cinit (cops N ops))
    | KTally => ps_state x = ST (trun N (tinit N) (tops N ops))
    | KWeighted => ps_state x = SW (wrun N (winit N) (wops N ops))
    | KPersistent => True
    end.
Proof. exact simstat_state_is_plain_run. Qed.
Print Assumptions C11_simstat_state_is_plain_run.

(* the statistic in the simulation follows the ordinary statistic entry by
   entry of the log (all four kinds; the persistent closes at the END marker) *)
Theorem C11_stat_run_is_plain_fold :
  forall (N : Num) cfg pl sid d log,
    no_reentry d -> ps_raised (stat_run N cfg pl sid d log) = false ->
    ps_state (stat_run N cfg pl sid d log)
    = fold_left (plain_feed N cfg pl sid) log (sinit N (d_kind d)).
Proof. exact stat_run_is_plain_fold. Qed.
Print Assumptions C11_stat_run_is_plain_fold.

(* while the warm-up event has not run nothing is discarded *)
Theorem C11_warmup_not_reached_no_reset :
  forall (N : Num) cfg pl sid log,
    has_warm log = false -> filtered N cfg pl sid log = delivered N cfg pl sid log.
Proof. exact warmup_not_reached_no_reset. Qed.
Print Assumptions C11_warmup_not_reached_no_reset.

(* ---------------------------------------------------------------------- *)
(* 2. "... at or after the warm-up time (the warm-up reset precedes
      normal-priority model events scheduled for the same instant)".
      One replication of the simulator model: an accepted initialize, then
      any commands but initialize; any program, any fuel.  [l]: the events
      executed in the replication, newest first; W: the warm-up event that
      initialize scheduled.  If W was executed, it ran at the warm-up time,
      and an executed event of priority below W's ran after W exactly when its
      time is at or after the warm-up time.  (From C02's order: Sim/Order.v.) *)
Theorem C11_after_warmup_iff_time :
  forall p fuel s0 r cs,
    Inv s0 -> running s0 = false ->
    let s1 := fst (do_init p s0 r) in
    flag s1 = false ->
    forallb (fun c => negb (is_init c)) cs = true ->
    let s' := fst (run_cmds fuel p s1 cs) in
    let W := warm_event p s0 r in
    exists l, trace s' = l ++ trace s0 /\
      forall l2 c l1, l = l2 ++ (W, c) :: l1 ->
        c = r_warm r /\
        forall e ce, In (e, ce) l -> e <> W -> (ev_prio e < 10)%Z ->
          (In (e, ce) l2 <-> (r_warm r <= ev_time e)%Z).
Proof. exact after_warmup_iff_time. Qed.
Print Assumptions C11_after_warmup_iff_time.

(* The same at the level of the observation log: the log of the replication
   (END marker aside, newest first) is the concatenation, in execution order,
   of what each executed event's handler observed ([ev_obs]: its data events up
   to a failing action; the WARMUP marker for the warm-up event); if W was
   executed, everything logged after the WARMUP marker comes from the events
   executed after W -- those of priority below W's have time >= warm-up time --
   and everything before it from construct_model and the events before W --
   those of priority below W's have time < warm-up time.                      *)
Theorem C11_observations_split_at_warmup :
  forall p fuel s0 r cs,
    Inv s0 -> running s0 = false ->
    let s1 := fst (do_init p s0 r) in
    flag s1 = false ->
    forallb (fun c => negb (is_init c)) cs = true ->
    let s' := fst (run_cmds fuel p s1 cs) in
    let W := warm_event p s0 r in
    let f := fun ec => rev (ev_obs p ec) in
    exists l, trace s' = l ++ trace s0
      /\ nonend (obs s') = flat_map f l ++ nonend (obs s1)
      /\ forall l2 c l1, l = l2 ++ (W, c) :: l1 ->
           nonend (obs s') = flat_map f l2 ++ [ObsWarm (r_warm r)] ++ flat_map f l1 ++ nonend (obs s1)
           /\ (forall e ce, In (e, ce) l2 -> (ev_prio e < 10)%Z -> (r_warm r <= ev_time e)%Z)
           /\ (forall e ce, In (e, ce) l1 -> (ev_prio e < 10)%Z -> (ev_time e < r_warm r)%Z).
Proof. exact observations_split_at_warmup. Qed.
Print Assumptions C11_observations_split_at_warmup.

(* the observation log of a replication is chronological: construct_model's
   observations at the start time, then non-decreasing times up to the clock *)
Theorem C11_replication_log_chronological :
  forall p fuel s0 r cs,
    Inv s0 -> running s0 = false ->
    let s1 := fst (do_init p s0 r) in
    forallb (fun c => negb (is_init c)) cs = true ->
    let s' := fst (run_cmds fuel p s1 cs) in
    clock s1 = r_start r /\
    exists newl, obs s' = newl ++ obs s0
      /\ StronglySorted olater newl
      /\ Forall (fun o => (r_start r <= otime o <= clock s')%Z) newl.
Proof. exact replication_log_chronological. Qed.
Print Assumptions C11_replication_log_chronological.

(* ---------------------------------------------------------------------- *)
(* 3. "a persistent statistic reports the time average of its signal from
      its first observation after warm-up to the replication end, being
      closed automatically when the replication ends".
      (a) whenever a replication has ended, the newest log entry is the END
          marker at the final clock -- so the persistent was closed there;   *)
Theorem C11_ended_log_has_end_marker :
  forall p s, reachable p s -> ps s = PEnded -> exists rest, obs s = ObsEnd (clock s) :: rest.
Proof. exact ended_log_has_end_marker. Qed.
Print Assumptions C11_ended_log_has_end_marker.

(*    (b) exact arithmetic: after the last warm-up reset the log consists of
          chronological observations [body] and the END marker at T; the valid
          (time, value) pairs delivered to the persistent are (t0, v0) :: rest.
          Then it is closed, total weight = T - t0, weighted sum = integral of
          the step signal, weighted mean = time average (C10_time_average).  *)
Theorem C11_persistent_closed_at_end :
  forall sq cfg pl sid d log body T t0 v0 rest,
    let NQ := NumQ sq in
    d_kind d = KPersistent -> no_reentry d -> ps_raised (stat_run NQ cfg pl sid d log) = false ->
    after_last_warm [] log = body ++ [ObsEnd T] -> only_obs body -> chrono (body ++ [ObsEnd T]) ->
    series sq cfg pl sid body = (t0, v0) :: rest ->
    exists q, ps_state (stat_run NQ cfg pl sid d log) = SP q
      /\ ts_active q = false
      /\ wsw (ts_w q) == tq sq T - t0
      /\ gw_sum NQ (ts_w q) == integ_from t0 v0 rest (tq sq T)
      /\ (t0 < tq sq T -> res_is (gw_mean NQ (ts_w q)) (integ_from t0 v0 rest (tq sq T) / (tq sq T - t0)))
      /\ (tq sq T == t0 -> gw_mean NQ (ts_w q) = NaNres).
Proof. exact persistent_closed_at_end. Qed.
Print Assumptions C11_persistent_closed_at_end.

(* ---------------------------------------------------------------------- *)
(* 4. "Statistics created during model construction are retrievable from the
      model under their key": with distinct keys, construct_model leaves
      exactly the declared statistics in the dictionary, each under its key;
      and every accepted initialize rebuilds the dictionary from scratch.    *)
Theorem C11_registered_under_key :
  forall cfg, NoDup (map d_key cfg) ->
    exists r, reg_build cfg = Some r /\ length r = length cfg
      /\ forall sid d, nth_error cfg sid = Some d -> reg_get (d_key d) r = Some sid.
Proof. exact registered_under_key. Qed.
Print Assumptions C11_registered_under_key.

Theorem C11_registry_rebuilt_by_every_initialize :
  forall cfg fuel p cs s base reg,
    let '(s', base', reg') := run_marks cfg fuel p s cs base reg in
    reg' = reg \/ reg' = reg_build cfg.
Proof. exact run_marks_registry. Qed.
Print Assumptions C11_registry_rebuilt_by_every_initialize.

(* ---------------------------------------------------------------------- *)
(* 5. "every value a statistic publishes to its own subscribers equals what
      its query methods return at that moment": every delivery [r] recorded in
      the run -- event index, payload, state of the statistic when notify was
      entered -- satisfies [pub_ok]: INITIALIZED carries the freshly reset
      statistic; for every other event with a query method ([getter]) the
      payload is that method applied to the state at that moment.  Any
      arithmetic, any subscriber program incl. re-entrant registrations.     *)
Theorem C11_published_equals_getters :
  forall (N : Num) cfg pl sid d log r,
    In r (ps_tr (stat_run N cfg pl sid d log)) ->
    match pr_j r with
    | O => pr_v r = PVSelf /\ pr_at r = sinit N (kind_of N (pr_at r))
    | S _ => forall g, getter N (pr_at r) (pr_j r) = Some g -> pr_v r = g
    end.
Proof.
  intros N cfg pl sid d log r H.
  exact (proj1 (Forall_forall _ _) (published_equals_getters N cfg pl sid d log) r H).
Qed.
Print Assumptions C11_published_equals_getters.

(* a publisher that evaluated all getters before the first fire would violate
   it under a re-entrant subscriber *)
Theorem C11_precomputed_payloads_refuted :
  forall N : Num,
    exists x, ~ Forall (pub_ok N)
                (ps_tr (fire_all_stale N [2; 3]%nat (plain_reenter N zero) (one N) x)).
Proof. exact stale_publication_refuted. Qed.
Print Assumptions C11_precomputed_payloads_refuted.

(* ---------------------------------------------------------------------- *)
(* Non-vacuity.  A model whose construct_model schedules handler 1 (which
   fires payload 1 on channel 0) at t = 1 (priority 5), at t = 2 = warm-up
   time with priority 10 (created before the warm-up event: runs before it)
   and with priority 5 (runs after it), and at t = 3; replication 0 .. 4.   *)
Definition ex_prog : program :=
  [[ASched (MAbs (TNum 4)) 5 1; ASched (MAbs (TNum 8)) 10 1; ASched (MAbs (TNum 8)) 5 1;
    ASched (MAbs (TNum 12)) 5 1];
   [AObs 0 1]].
Definition ex_repl : repl := mkRepl 0 8 16.

Example C11_order_hypotheses_satisfiable :
  Inv (init_sim SWarnPause) /\ running (init_sim SWarnPause) = false /\
  flag (fst (do_init ex_prog (init_sim SWarnPause) ex_repl)) = false /\
  let s' := fst (run_cmds 100 ex_prog (fst (do_init ex_prog (init_sim SWarnPause) ex_repl)) [CStart]) in
  ps s' = PEnded /\
  map (fun ec => (ev_h (fst ec), ev_prio (fst ec), snd ec)) (trace s')
  = [(HUser 1, 5, 12); (HUser 1, 5, 8); (HWarm, 10, 8); (HUser 1, 10, 8); (HUser 1, 5, 4)]%Z /\
  rev (obs s') = [ObsV 0 1 4; ObsV 0 1 8; ObsWarm 8; ObsV 0 1 8; ObsV 0 1 12; ObsEnd 16]%Z.
Proof.
  split; [apply Inv_init|]. split; [reflexivity|]. split; [reflexivity|].
  vm_compute. repeat split.
Qed.

(* on that log a tally on channel 0 holds the two observations after the
   warm-up marker, a persistent the time average 7 from t = 2 to the end t = 4 *)
Example C11_filtered_example :
  let NQ := NumQ sq_id in
  let pl := [@mkP NQ (CInt 0) (@ONum (F NQ) 1) (@ONum (F NQ) 5); @mkP NQ (CInt 1) (@ONum (F NQ) 1) (@ONum (F NQ) 7)] in
  let cfg := [mkDecl KTally 3 [0%nat] [] []; mkDecl KPersistent 4 [0%nat] [] []] in
  let log := [ObsV 0 1 4; ObsV 0 1 8; ObsWarm 8; ObsV 0 1 8; ObsV 0 1 12; ObsEnd 16]%Z in
  map snd (filtered NQ cfg pl 0 log) = [nth 1 pl (pl_default NQ); nth 1 pl (pl_default NQ)]
  /\ (exists t, ps_state (stat_run NQ cfg pl 0 (mkDecl KTally 3 [0%nat] [] []) log) = ST t /\ tn t = 2%Z)
  /\ after_last_warm [] log = [ObsV 0 1 8; ObsV 0 1 12]%Z ++ [ObsEnd 16%Z]
  /\ series sq_id cfg pl 1 [ObsV 0 1 8; ObsV 0 1 12]%Z = [(tq sq_id 8, 7); (tq sq_id 12, 7)]
  /\ (exists q, ps_state (stat_run NQ cfg pl 1 (mkDecl KPersistent 4 [0%nat] [] []) log) = SP q
                /\ ts_active q = false /\ res_is (gw_mean NQ (ts_w q)) 7).
Proof.
  cbv zeta. split; [vm_compute; reflexivity|]. split; [eexists; split; vm_compute; reflexivity|].
  split; [reflexivity|]. split; [vm_compute; reflexivity|].
  eexists. split; [vm_compute; reflexivity|]. split; [vm_compute; reflexivity|].
  eexists. split; [vm_compute; reflexivity|]. vm_compute. reflexivity.
Qed.

(* ====================================================================== *)
(* 6. The tie to the source TEXT                                           *)
(* ====================================================================== *)
(* Stats/Gen_SimStats.v is regenerated on every run by
   translator/py2gallina_simstats.py from the method bodies of the EventBased*
   and Sim* classes in src/pydsol/core/statistics.py, of the dictionary methods
   of DSOLModel in model.py and of the statements of Simulator.initialize about
   the model in simulator.py of the tree under test (Python `ast`, fail-closed;
   method resolution from the class statements; one definition per concrete
   class and method).  A generated object [gst N S] carries the attributes of
   the ordinary statistic (S = cstate / tstate / wstate / tsstate), the
   subscriber's pending reactions, everything delivered, "raised" and "out of
   budget"; [emb inj x regs] is the model state [pst] it stands for and [er]
   erases the model's ghost log of operations, which the source does not have.
   Stats/SimGenAgree.v proves every generated definition equal to the
   hand-written model function the theorems above are about -- for all states,
   arguments, subscriber programs, nesting budgets and arithmetic instances --
   and that [stat_run] is these methods composed over the listener tables the
   constructors build.  With these equalities every theorem above is a theorem
   about what the source says now; the main ones are restated below.  A change
   of the sources that changes the meaning of a method makes SimGenAgree.v fail
   to compile: the check then reports the broken tie.

   Premises of the whole-log statements: [chan_et] gives every channel of the
   model's producer its event type, different channels different types, none of
   them WARMUP / END_REPLICATION (otherwise a statistic would take the
   simulator's events for data); the declared keys are distinct (a duplicate
   key makes construct_model raise, outside the model).                      *)
From PV Require Import Stats.Gen_SimStats Stats.SimGenAgree.

(* (a) publishing: register first, then publish, each payload the getter at that
       moment; (b) the dispatch of notify on the event type -- method by method  *)
Theorem C11_generated_publishing_is_the_proved_model : forall N : Num,
  (* class EventBasedCounter *)
  (forall (E : genv N cstate) re p x r, react_rel N cstate SC re (e_react E) -> g_raised x = false ->
     er (fire_all N (e_lsub E) re p (emb SC x r)) = emb SC (gen_EventBasedCounter__fire_events N E x (p_c p)) []) /\
  (forall (E : genv N cstate) re tm ext p x r, react_rel N cstate SC re (e_react E) -> g_raised x = false ->
     er (reg_body N (e_lsub E) tm re ext (emb SC x r) p) = emb SC (gen_EventBasedCounter_register N E x (p_c p)) []) /\
  (forall (E : genv N cstate) fuel tm x r,
     react_rel N cstate SC (fun y q => preg N fuel (e_lsub E) tm false y q) (e_react E) -> g_raised x = false ->
     er (pinit N fuel (e_lsub E) tm (emb SC x r)) = emb SC (gen_EventBasedCounter_initialize N E x) []) /\
  (forall (E : genv N cstate) re tm ext e x r, react_rel N cstate SC re (e_react E) -> g_raised x = false ->
     er (eb_notify N KCounter (e_lsub E) tm re ext (emb SC x r) e) = emb SC (gen_EventBasedCounter_notify N E x e) []) /\
  (* class SimCounter *)
  (forall (E : genv N cstate) re p x r, react_rel N cstate SC re (e_react E) -> g_raised x = false ->
     er (fire_all N (e_lsub E) re p (emb SC x r)) = emb SC (gen_SimCounter__fire_events N E x (p_c p)) []) /\
  (forall (E : genv N cstate) re tm ext p x r, react_rel N cstate SC re (e_react E) -> g_raised x = false ->
     er (reg_body N (e_lsub E) tm re ext (emb SC x r) p) = emb SC (gen_SimCounter_register N E x (p_c p)) []) /\
  (forall (E : genv N cstate) fuel tm x r,
     react_rel N cstate SC (fun y q => preg N fuel (e_lsub E) tm false y q) (e_react E) -> g_raised x = false ->
     er (pinit N fuel (e_lsub E) tm (emb SC x r)) = emb SC (gen_SimCounter_initialize N E x) []) /\
  (forall (E : genv N cstate) re tm ext e x r, react_rel N cstate SC re (e_react E) -> g_raised x = false ->
     er (eb_notify N KCounter (e_lsub E) tm re ext (emb SC x r) e) = emb SC (gen_SimCounter_super_EventBasedCounter_notify N E x e) []) /\
  (forall (E : genv N cstate) f e x r,
     react_rel N cstate SC (react N f (e_lsub E) (e_tm E)) (e_react E) -> g_raised x = false ->
     er (snotify N KCounter f (e_lsub E) (e_types E) (e_tm E) (emb SC x r) e) = emb SC (gen_SimCounter_notify N E x e) []) /\
  (* class EventBasedTally *)
  (forall (E : genv N (tstate N)) re p x r, react_rel N (tstate N) ST re (e_react E) -> g_raised x = false ->
     er (fire_all N (e_lsub E) re p (emb ST x r)) = emb ST (gen_EventBasedTally__fire_events N E x (p_v p)) []) /\
  (forall (E : genv N (tstate N)) re tm ext p x r, react_rel N (tstate N) ST re (e_react E) -> g_raised x = false ->
     er (reg_body N (e_lsub E) tm re ext (emb ST x r) p) = emb ST (gen_EventBasedTally_register N E x (p_v p)) []) /\
  (forall (E : genv N (tstate N)) fuel tm x r,
     react_rel N (tstate N) ST (fun y q => preg N fuel (e_lsub E) tm false y q) (e_react E) -> g_raised x = false ->
     er (pinit N fuel (e_lsub E) tm (emb ST x r)) = emb ST (gen_EventBasedTally_initialize N E x) []) /\
  (forall (E : genv N (tstate N)) re tm ext e x r, react_rel N (tstate N) ST re (e_react E) -> g_raised x = false ->
     er (eb_notify N KTally (e_lsub E) tm re ext (emb ST x r) e) = emb ST (gen_EventBasedTally_notify N E x e) []) /\
  (* class SimTally *)
  (forall (E : genv N (tstate N)) re p x r, react_rel N (tstate N) ST re (e_react E) -> g_raised x = false ->
     er (fire_all N (e_lsub E) re p (emb ST x r)) = emb ST (gen_SimTally__fire_events N E x (p_v p)) []) /\
  (forall (E : genv N (tstate N)) re tm ext p x r, react_rel N (tstate N) ST re (e_react E) -> g_raised x = false ->
     er (reg_body N (e_lsub E) tm re ext (emb ST x r) p) = emb ST (gen_SimTally_register N E x (p_v p)) []) /\
  (forall (E : genv N (tstate N)) fuel tm x r,
     react_rel N (tstate N) ST (fun y q => preg N fuel (e_lsub E) tm false y q) (e_react E) -> g_raised x = false ->
     er (pinit N fuel (e_lsub E) tm (emb ST x r)) = emb ST (gen_SimTally_initialize N E x) []) /\
  (forall (E : genv N (tstate N)) re tm ext e x r, react_rel N (tstate N) ST re (e_react E) -> g_raised x = false ->
     er (eb_notify N KTally (e_lsub E) tm re ext (emb ST x r) e) = emb ST (gen_SimTally_super_EventBasedTally_notify N E x e) []) /\
  (forall (E : genv N (tstate N)) f e x r,
     react_rel N (tstate N) ST (react N f (e_lsub E) (e_tm E)) (e_react E) -> g_raised x = false ->
     er (snotify N KTally f (e_lsub E) (e_types E) (e_tm E) (emb ST x r) e) = emb ST (gen_SimTally_notify N E x e) []) /\
  (* class EventBasedWeightedTally *)
  (forall (E : genv N (wstate N)) re p x r, react_rel N (wstate N) SW re (e_react E) -> g_raised x = false ->
     er (fire_all N (e_lsub E) re p (emb SW x r)) = emb SW (gen_EventBasedWeightedTally__fire_events N E x (p_v p)) []) /\
  (forall (E : genv N (wstate N)) re tm ext p x r, react_rel N (wstate N) SW re (e_react E) -> g_raised x = false ->
     er (reg_body N (e_lsub E) tm re ext (emb SW x r) p) = emb SW (gen_EventBasedWeightedTally_register N E x (p_w p) (p_v p)) []) /\
  (forall (E : genv N (wstate N)) fuel tm x r,
     react_rel N (wstate N) SW (fun y q => preg N fuel (e_lsub E) tm false y q) (e_react E) -> g_raised x = false ->
     er (pinit N fuel (e_lsub E) tm (emb SW x r)) = emb SW (gen_EventBasedWeightedTally_initialize N E x) []) /\
  (forall (E : genv N (wstate N)) re tm ext e x r, react_rel N (wstate N) SW re (e_react E) -> g_raised x = false ->
     er (eb_notify N KWeighted (e_lsub E) tm re ext (emb SW x r) e) = emb SW (gen_EventBasedWeightedTally_notify N E x e) []) /\
  (* class SimWeightedTally *)
  (forall (E : genv N (wstate N)) re p x r, react_rel N (wstate N) SW re (e_react E) -> g_raised x = false ->
     er (fire_all N (e_lsub E) re p (emb SW x r)) = emb SW (gen_SimWeightedTally__fire_events N E x (p_v p)) []) /\
  (forall (E : genv N (wstate N)) re tm ext p x r, react_rel N (wstate N) SW re (e_react E) -> g_raised x = false ->
     er (reg_body N (e_lsub E) tm re ext (emb SW x r) p) = emb SW (gen_SimWeightedTally_register N E x (p_w p) (p_v p)) []) /\
  (forall (E : genv N (wstate N)) fuel tm x r,
     react_rel N (wstate N) SW (fun y q => preg N fuel (e_lsub E) tm false y q) (e_react E) -> g_raised x = false ->
     er (pinit N fuel (e_lsub E) tm (emb SW x r)) = emb SW (gen_SimWeightedTally_initialize N E x) []) /\
  (forall (E : genv N (wstate N)) re tm ext e x r, react_rel N (wstate N) SW re (e_react E) -> g_raised x = false ->
     er (eb_notify N KWeighted (e_lsub E) tm re ext (emb SW x r) e) = emb SW (gen_SimWeightedTally_super_EventBasedWeightedTally_notify N E x e) []) /\
  (forall (E : genv N (wstate N)) f e x r,
     react_rel N (wstate N) SW (react N f (e_lsub E) (e_tm E)) (e_react E) -> g_raised x = false ->
     er (snotify N KWeighted f (e_lsub E) (e_types E) (e_tm E) (emb SW x r) e) = emb SW (gen_SimWeightedTally_notify N E x e) []) /\
  (* class EventBasedTimestampWeightedTally *)
  (forall (E : genv N (tsstate N)) re p ts x r, react_rel N (tsstate N) SP re (e_react E) -> g_raised x = false ->
     er (fire_all N (e_lsub E) re p (emb SP x r)) = emb SP (gen_EventBasedTimestampWeightedTally__fire_events N E x ts (p_v p)) []) /\
  (forall (E : genv N (tsstate N)) re tm ext p x r, react_rel N (tsstate N) SP re (e_react E) -> g_raised x = false ->
     er (reg_body N (e_lsub E) tm re ext (emb SP x r) p) = emb SP (gen_EventBasedTimestampWeightedTally_register N E x (ONum tm) (p_v p)) []) /\
  (forall (E : genv N (tsstate N)) fuel tm x r,
     react_rel N (tsstate N) SP (fun y q => preg N fuel (e_lsub E) tm false y q) (e_react E) -> g_raised x = false ->
     er (pinit N fuel (e_lsub E) tm (emb SP x r)) = emb SP (gen_EventBasedTimestampWeightedTally_initialize N E x) []) /\
  (forall (E : genv N (tsstate N)) re tm ext e x r, react_rel N (tsstate N) SP re (e_react E) -> g_raised x = false ->
     er (eb_notify N KPersistent (e_lsub E) tm re ext (emb SP x r) e) = emb SP (gen_EventBasedTimestampWeightedTally_notify N E x e) []) /\
  (forall (E : genv N (tsstate N)) f tm x r,
     react_rel N (tsstate N) SP (fun y q => preg N f (e_lsub E) tm false y q) (e_react E) -> g_raised x = false ->
     er (pclose N (S f) (e_lsub E) tm (emb SP x r)) = emb SP (gen_EventBasedTimestampWeightedTally_end_observations N E x (ONum tm)) []) /\
  (* class SimPersistent *)
  (forall (E : genv N (tsstate N)) re p ts x r, react_rel N (tsstate N) SP re (e_react E) -> g_raised x = false ->
     er (fire_all N (e_lsub E) re p (emb SP x r)) = emb SP (gen_SimPersistent__fire_events N E x ts (p_v p)) []) /\
  (forall (E : genv N (tsstate N)) re tm ext p x r, react_rel N (tsstate N) SP re (e_react E) -> g_raised x = false ->
     er (reg_body N (e_lsub E) tm re ext (emb SP x r) p) = emb SP (gen_SimPersistent_register N E x (ONum tm) (p_v p)) []) /\
  (forall (E : genv N (tsstate N)) fuel tm x r,
     react_rel N (tsstate N) SP (fun y q => preg N fuel (e_lsub E) tm false y q) (e_react E) -> g_raised x = false ->
     er (pinit N fuel (e_lsub E) tm (emb SP x r)) = emb SP (gen_SimPersistent_initialize N E x) []) /\
  (forall (E : genv N (tsstate N)) re tm ext e x r, react_rel N (tsstate N) SP re (e_react E) -> g_raised x = false ->
     er (eb_notify N KPersistent (e_lsub E) tm re ext (emb SP x r) e) = emb SP (gen_SimPersistent_super_EventBasedTimestampWeightedTally_notify N E x e) []) /\
  (forall (E : genv N (tsstate N)) f tm x r,
     react_rel N (tsstate N) SP (fun y q => preg N f (e_lsub E) tm false y q) (e_react E) -> g_raised x = false ->
     er (pclose N (S f) (e_lsub E) tm (emb SP x r)) = emb SP (gen_SimPersistent_end_observations N E x (ONum tm)) []) /\
  (forall (E : genv N (tsstate N)) f e x r,
     react_rel N (tsstate N) SP (react N f (e_lsub E) (e_tm E)) (e_react E) -> g_raised x = false ->
     er (snotify N KPersistent f (e_lsub E) (e_types E) (e_tm E) (emb SP x r) e) = emb SP (gen_SimPersistent_notify N E x e) []).
Proof. exact simstats_publishing_agree. Qed.
Print Assumptions C11_generated_publishing_is_the_proved_model.

(* (c) constructors: WARMUP for all four, END_REPLICATION for the persistent,
       the data event at the producer, registration under the key (duplicate key
       -> DSOLError); (d) output_statistics() hands out the dictionary itself and
       initialize empties it before construct_model                              *)
Theorem C11_generated_construction_is_the_proved_model :
  (forall k sid key nm sm pr et c, gen_ctor k sid key nm sm pr et c = m_ctor k sid key nm sm pr et c) /\
  (forall k sid pr et c, gen_listen k sid pr et c = m_listen_to sid pr et c) /\
  (forall d sm, gen_DSOLModel___init__ d sm = match sm with SimObj _ => DOk [] | NotSim => DExn CDSOLError d end) /\
  (forall d, gen_DSOLModel_output_statistics d = DSelf) /\
  (forall d k st, gen_DSOLModel_add_output_statistic d k st = m_add_output_statistic d k st) /\
  (forall d k, gen_DSOLModel_get_output_statistic d k = reg_get k d) /\
  (forall cm d, gen_Simulator_initialize__model cm d = cm []).
Proof. exact simstats_construction_agree. Qed.
Print Assumptions C11_generated_construction_is_the_proved_model.

(* the whole log: the statistic of the model ([stat_run]) is the object the
   generated constructors, notify, register, initialize, _fire_events and
   end_observations produce when fed the log entry by entry *)
Theorem C11_generated_model_is_the_proved_model :
  forall (N : Num) chan_et cfg pl sid d log,
    (forall a b, chan_et a = chan_et b -> a = b) ->
    (forall c, etype_eqb (chan_et c) ETWarmup = false /\ etype_eqb (chan_et c) ETEndRepl = false) ->
    NoDup (map d_key cfg) -> nth_error cfg sid = Some d ->
    pst_view N (stat_run N cfg pl sid d log)
    = match d_kind d with
      | KCounter => gen_view N SC (gen_stat_run_SimCounter N chan_et cfg pl sid d log)
      | KTally => gen_view N ST (gen_stat_run_SimTally N chan_et cfg pl sid d log)
      | KWeighted => gen_view N SW (gen_stat_run_SimWeightedTally N chan_et cfg pl sid d log)
      | KPersistent => gen_view N SP (gen_stat_run_SimPersistent N chan_et cfg pl sid d log)
      end.
Proof. intros N chan_et cfg pl sid d log Hi Hd Hk. exact (gen_stat_run_eq N chan_et Hi Hd cfg pl Hk sid d log). Qed.
Print Assumptions C11_generated_model_is_the_proved_model.

(* C11_simstat_filtered for the generated methods *)
Theorem C11_generated_simstat_filtered :
  forall (N : Num) chan_et cfg pl sid d log,
    (forall a b, chan_et a = chan_et b -> a = b) ->
    (forall c, etype_eqb (chan_et c) ETWarmup = false /\ etype_eqb (chan_et c) ETEndRepl = false) ->
    NoDup (map d_key cfg) -> nth_error cfg sid = Some d -> no_reentry d ->
    let obs := filtered N cfg pl sid log in
    match d_kind d with
    | KCounter => let x := gen_stat_run_SimCounter N chan_et cfg pl sid d log in
                  g_raised x = false -> g_state x = crun cinit (map (fun tp => CReg (p_c (snd tp))) obs)
    | KTally => let x := gen_stat_run_SimTally N chan_et cfg pl sid d log in
                g_raised x = false -> g_state x = trun N (tinit N) (map (fun tp => TReg (p_v (snd tp))) obs)
    | KWeighted => let x := gen_stat_run_SimWeightedTally N chan_et cfg pl sid d log in
                   g_raised x = false ->
                   g_state x = wrun N (winit N) (map (fun tp => WReg (p_w (snd tp)) (p_v (snd tp))) obs)
    | KPersistent => True
    end.
Proof. intros N chan_et cfg pl sid d log Hi Hd Hk. exact (gen_simstat_filtered N chan_et Hi Hd cfg pl Hk sid d log). Qed.
Print Assumptions C11_generated_simstat_filtered.

(* C11_persistent_closed_at_end for the generated methods *)
Theorem C11_generated_persistent_closed_at_end :
  forall sq chan_et cfg pl sid d log body T t0 v0 rest,
    let NQ := NumQ sq in
    (forall a b, chan_et a = chan_et b -> a = b) ->
    (forall c, etype_eqb (chan_et c) ETWarmup = false /\ etype_eqb (chan_et c) ETEndRepl = false) ->
    NoDup (map d_key cfg) -> nth_error cfg sid = Some d -> d_kind d = KPersistent -> no_reentry d ->
    let x := gen_stat_run_SimPersistent NQ chan_et cfg pl sid d log in
    g_raised x = false ->
    after_last_warm [] log = body ++ [ObsEnd T] -> only_obs body -> chrono (body ++ [ObsEnd T]) ->
    series sq cfg pl sid body = (t0, v0) :: rest ->
    let q := g_state x in
    ts_active q = false
    /\ wsw (ts_w q) == tq sq T - t0
    /\ gw_sum NQ (ts_w q) == integ_from t0 v0 rest (tq sq T)
    /\ (t0 < tq sq T -> res_is (gw_mean NQ (ts_w q)) (integ_from t0 v0 rest (tq sq T) / (tq sq T - t0)))
    /\ (tq sq T == t0 -> gw_mean NQ (ts_w q) = NaNres).
Proof.
  intros sq chan_et cfg pl sid d log body T t0 v0 rest NQ Hi Hd Hk.
  exact (gen_persistent_closed_at_end sq chan_et Hi Hd cfg pl Hk sid d log body T t0 v0 rest).
Qed.
Print Assumptions C11_generated_persistent_closed_at_end.

(* C11_published_equals_getters for the generated methods: every delivery the
   generated _fire_events / _fire_initialized made carries the getter's answer
   on the state at that moment *)
Theorem C11_generated_published_equals_getters :
  forall (N : Num) chan_et cfg pl sid d log,
    (forall a b, chan_et a = chan_et b -> a = b) ->
    (forall c, etype_eqb (chan_et c) ETWarmup = false /\ etype_eqb (chan_et c) ETEndRepl = false) ->
    NoDup (map d_key cfg) -> nth_error cfg sid = Some d ->
    Forall (pub_ok N)
      (match d_kind d with
       | KCounter => g_tr (gen_stat_run_SimCounter N chan_et cfg pl sid d log)
       | KTally => g_tr (gen_stat_run_SimTally N chan_et cfg pl sid d log)
       | KWeighted => g_tr (gen_stat_run_SimWeightedTally N chan_et cfg pl sid d log)
       | KPersistent => g_tr (gen_stat_run_SimPersistent N chan_et cfg pl sid d log)
       end).
Proof. intros N chan_et cfg pl sid d log Hi Hd Hk. exact (gen_published_equals_getters N chan_et Hi Hd cfg pl Hk sid d log). Qed.
Print Assumptions C11_generated_published_equals_getters.

(* what the generated constructors subscribe to: every statistic hears WARMUP,
   exactly the persistent ones hear END_REPLICATION, the listeners of a channel
   are the declared ones in creation order *)
Theorem C11_generated_subscriptions :
  forall chan_et cfg,
    (forall a b, chan_et a = chan_et b -> a = b) -> NoDup (map d_key cfg) ->
    let tb := res_obj (build_from chan_et gen_ctor gen_listen 0 cfg co_empty) in
    (forall sid d, nth_error cfg sid = Some d ->
       sub_mem ETWarmup sid (co_sim tb) = true
       /\ sub_mem ETEndRepl sid (co_sim tb) = skind_eqb (d_kind d) KPersistent)
    /\ (forall c, subs_of (co_prod tb) (chan_et c) = chan_subs cfg c).
Proof. intros chan_et cfg Hi Hk. exact (gen_subscriptions chan_et Hi cfg Hk). Qed.
Print Assumptions C11_generated_subscriptions.

(* C11_registered_under_key for the generated methods: whatever the dictionary
   held before, after initialize every declared statistic is what
   get_output_statistic(key) returns *)
Theorem C11_generated_registered_under_key :
  forall chan_et cfg before, NoDup (map d_key cfg) ->
    exists c, gen_Simulator_initialize__model (construct_model_by chan_et cfg gen_ctor gen_listen) before = COk c
      /\ length (co_dict c) = length cfg
      /\ forall sid d, nth_error cfg sid = Some d -> gen_DSOLModel_get_output_statistic (co_dict c) (d_key d) = Some sid.
Proof. intros chan_et cfg before Hk. exact (gen_registered_under_key chan_et cfg Hk before). Qed.
Print Assumptions C11_generated_registered_under_key.

(* the hypotheses are satisfiable, and the example log of the non-vacuity section
   fed through the GENERATED methods: the tally holds the two observations after
   the warm-up marker, the persistent is closed with time average 7 *)
Example C11_generated_example :
  let NQ := NumQ sq_id in
  let pl := [@mkP NQ (CInt 0) (@ONum (F NQ) 1) (@ONum (F NQ) 5); @mkP NQ (CInt 1) (@ONum (F NQ) 1) (@ONum (F NQ) 7)] in
  let cfg := [mkDecl KTally 3 [0%nat] [2; 6]%nat []; mkDecl KPersistent 4 [0%nat] [] []] in
  let log := [ObsV 0 1 4; ObsV 0 1 8; ObsWarm 8; ObsV 0 1 8; ObsV 0 1 12; ObsEnd 16]%Z in
  (forall a b, ETUser a = ETUser b -> a = b)
  /\ (forall c, etype_eqb (ETUser c) ETWarmup = false /\ etype_eqb (ETUser c) ETEndRepl = false)
  /\ NoDup (map d_key cfg)
  /\ tn (g_state (gen_stat_run_SimTally NQ ETUser cfg pl 0 (mkDecl KTally 3 [0%nat] [2; 6]%nat []) log)) = 2%Z
  /\ map (fun r => pr_j r) (g_tr (gen_stat_run_SimTally NQ ETUser cfg pl 0 (mkDecl KTally 3 [0%nat] [2; 6]%nat []) log))
     = [6; 2; 6; 2; 6; 2; 6; 2]%nat
  /\ (let q := g_state (gen_stat_run_SimPersistent NQ ETUser cfg pl 1 (mkDecl KPersistent 4 [0%nat] [] []) log) in
      ts_active q = false /\ res_is (gw_mean NQ (ts_w q)) 7).
Proof.
  cbv zeta. split; [intros a b H; injection H; auto|]. split; [intros c; split; reflexivity|].
  split; [repeat constructor; cbn; intuition discriminate|].
  split; [vm_compute; reflexivity|]. split; [vm_compute; reflexivity|].
  split; [vm_compute; reflexivity|]. eexists. split; vm_compute; reflexivity.
Qed.
