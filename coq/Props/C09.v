(* C09 -- Tally and Counter report the textbook statistics of the registered
   observations.  Property-level theorems only; each is closed by [exact] of a
   lemma of Stats/TallyProofs.v and followed by Print Assumptions.

   Setting.  The model Stats/Tally.v is written once over a record [Num] of
   arithmetic operations.  The theorems below are about its exact-rational
   instance [NumQ sq]; the binary64 instance of the SAME text is what the
   correspondence check runs bit-for-bit against /repo.  "To floating-point
   accuracy" is therefore proved in exact arithmetic only (rounding is measured
   by the harness, not bounded here) -- hence C09 is claimed partial on accuracy.

   [sq] stands for math.sqrt: any function with [sq_proper] and [sq_pos];
   [icdf] stands for statistics.NormalDist(0,1).inv_cdf: any function that
   answers on the open unit interval.  A history [ops] is any list of
   [TReg o] (o a float / int, NaN, a non-number, or an int beyond the float
   range) and [TInit]; [effective [] ops] are the valid observations since the
   last initialize; [mean], [central k], [popvar], [samvar], [skew_b], ... are
   the textbook definitions at the top of TallyProofs.v. *)
From Coq Require Import ZArith QArith Qminmax List.
From PV Require Import Stats.Num Stats.Tally Stats.TallyProofs Stats.GenericTotal.
Import ListNotations.
Local Open Scope Q_scope.

Definition sqrt_contract (sq : Q -> Q) : Prop :=
  (forall a b, a == b -> sq a == sq b) /\ (forall a, 0 < a -> 0 < sq a).
Definition icdf_contract (icdf : Q -> res Q) : Prop :=
  forall p, 0 < p -> p < 1 -> exists z, icdf p = Val z.

(* ---------------------------------------------------------------------- *)
(* 1. The streaming accumulators equal the textbook sums over exactly the
      observations registered since the last initialize: n = |xs|,
      sum = Sum x, m1 = mean, m2..m4 = Sum (x - mean)^k, min / max are
      elements of xs bounding all of xs (NaN iff xs is empty).             *)
Theorem C09_accumulators_are_textbook_sums :
  forall (sq : Q -> Q) (ops : list (top (NumQ sq))),
    let xs := effective sq [] ops in
    let s := trun (NumQ sq) (tinit (NumQ sq)) ops in
    tn s = Z.of_nat (length xs) /\
    tsum s == sum1 xs /\
    tm1 s == mean xs /\
    tm2 s == central 2 xs /\ tm3 s == central 3 xs /\ tm4 s == central 4 xs /\
    match tmin s with XNaN => xs = [] | XFin m => is_min m xs | _ => False end /\
    match tmax s with XNaN => xs = [] | XFin m => is_max m xs | _ => False end.
Proof.
  intros sq ops. destruct (history_ok sq ops) as [A B C D E F G H].
  exact (conj A (conj B (conj C (conj D (conj E (conj F (conj G H))))))).
Qed.
Print Assumptions C09_accumulators_are_textbook_sums.

(* the one-step identity behind it, for the fourth moment (Pebay eq. 2.16 in
   raw power sums p1..p4 of the n old observations) *)
Theorem C09_fourth_moment_update_identity :
  forall n p1 p2 p3 p4 x m1 M2 M3 M4, ~ n == 0 -> ~ n + 1 == 0 ->
  m1 == p1 / n ->
  M2 == p2 - 2 * (p1 / n) * p1 + n * (p1 / n) * (p1 / n) ->
  M3 == p3 - 3 * (p1 / n) * p2 + 3 * (p1 / n) * (p1 / n) * p1 - n * (p1 / n) * (p1 / n) * (p1 / n) ->
  M4 == p4 - 4 * (p1 / n) * p3 + 6 * (p1 / n) * (p1 / n) * p2
        - 4 * (p1 / n) * (p1 / n) * (p1 / n) * p1 + n * (p1 / n) * (p1 / n) * (p1 / n) * (p1 / n) ->
  let c := (p1 + x) / (n + 1) in
  let d := x - m1 in
  let N := n + 1 in
  M4 + ((-4) * M3 * d / N + 6 * M2 * d * d / N / N
        + (N - 1) * (N * N - 3 * N + 3) * d * d * d * d / N / N / N)
  == (p4 + x ^ 4) - 4 * c * (p3 + x ^ 3) + 6 * c * c * (p2 + x ^ 2)
     - 4 * c * c * c * (p1 + x) + (n + 1) * c * c * c * c.
Proof. exact step_m4. Qed.
Print Assumptions C09_fourth_moment_update_identity.

(* ---------------------------------------------------------------------- *)
(* 2. Every getter equals its documented formula ([res_is g v]: g returns a
      value equal to v).                                                   *)
Theorem C09_getters_equal_definitions :
  forall sq, sqrt_contract sq -> forall ops : list (top (NumQ sq)),
    let NQ := NumQ sq in
    let xs := effective sq [] ops in
    let s := trun NQ (tinit NQ) ops in
    ((1 <= length xs)%nat ->
       res_is (g_mean NQ s) (mean xs) /\
       res_is (g_variance NQ true s) (popvar xs) /\
       res_is (g_stdev NQ true s) (sq (popvar xs))) /\
    ((2 <= length xs)%nat ->
       res_is (g_variance NQ false s) (samvar xs) /\
       res_is (g_stdev NQ false s) (sq (samvar xs))) /\
    ((2 <= length xs)%nat -> 0 < popvar xs ->
       res_is (g_skewness NQ true s) (skew_b sq xs)) /\
    ((3 <= length xs)%nat -> 0 < popvar xs ->
       res_is (g_skewness NQ false s) (skew_u sq xs) /\
       res_is (g_kurtosis NQ true s) (kurt_b xs) /\
       res_is (g_excess_kurtosis NQ true s) (exkurt_b xs)) /\
    ((4 <= length xs)%nat -> 0 < popvar xs ->
       res_is (g_kurtosis NQ false s) (kurt_u xs) /\
       res_is (g_excess_kurtosis NQ false s) (exkurt_u xs)).
Proof. intros sq [P1 P2] ops. exact (getters_equal_definitions sq P1 P2 ops). Qed.
Print Assumptions C09_getters_equal_definitions.

(* the formulas, unfolded once so that the statement above can be read here *)
Theorem C09_definitions_are_the_documented_ones :
  forall sq xs,
    mean xs = sum1 xs / nQ xs /\
    popvar xs = central 2 xs / nQ xs /\
    samvar xs = central 2 xs / (nQ xs - 1) /\
    skew_b sq xs = (central 3 xs / nQ xs) / (popvar xs * sq (popvar xs)) /\
    skew_u sq xs = skew_b sq xs * sq (nQ xs * (nQ xs - 1)) / (nQ xs - 2) /\
    kurt_b xs = central 4 xs / nQ xs / popvar xs / popvar xs /\
    kurt_u xs = central 4 xs / (nQ xs - 1) / samvar xs / samvar xs /\
    exkurt_b xs = kurt_b xs - 3 /\
    exkurt_u xs = ((nQ xs - 1) / (nQ xs - 2) / (nQ xs - 3)) * ((nQ xs + 1) * exkurt_b xs + 6).
Proof. intros. repeat split; reflexivity. Qed.
Print Assumptions C09_definitions_are_the_documented_ones.

(* confidence interval: mean -+ z * sqrt(S^2 / n) clipped to [min, max], with
   z = inv_cdf(1 - alpha/2); alpha = 0 gives the observed range (repaired
   behaviour, /repo commit 4855114) *)
Theorem C09_confidence_interval_definition :
  forall sq, sqrt_contract sq -> forall icdf, icdf_contract icdf ->
  forall (ops : list (top (NumQ sq))) (a : Q),
    let NQ := NumQ sq in
    let xs := effective sq [] ops in
    let s := trun NQ (tinit NQ) ops in
    0 <= a -> a <= 1 -> (2 <= length xs)%nat ->
    exists mn mx, tmin s = XFin mn /\ tmax s = XFin mx /\ is_min mn xs /\ is_max mx xs /\
      (a == 0 -> g_confidence_interval NQ icdf s (@ANum NQ a) = Val (XFin mn, XFin mx)) /\
      (0 < a -> exists z lo hi,
         icdf (1 - a / 2) = Val z /\
         g_confidence_interval NQ icdf s (@ANum NQ a) = Val (XFin lo, XFin hi) /\
         lo == Qmax mn (mean xs - z * sq (samvar xs / nQ xs)) /\
         hi == Qmin mx (mean xs + z * sq (samvar xs / nQ xs))).
Proof.
  intros sq [P1 P2] icdf I ops a. exact (confidence_interval_definition sq P1 icdf I ops a).
Qed.
Print Assumptions C09_confidence_interval_definition.

(* ---------------------------------------------------------------------- *)
(* 3. Every query is total: a value or NaN, never an exception, in every
      reachable state (this is where the repaired zero-variance guards of
      /repo commits ba185d6 and 4855114 matter).                           *)
Theorem C09_getters_total :
  forall sq, sqrt_contract sq -> forall icdf, icdf_contract icdf ->
  forall ops : list (top (NumQ sq)),
    let NQ := NumQ sq in
    let s := trun NQ (tinit NQ) ops in
    no_raise (g_mean NQ s) /\
    (forall b, no_raise (g_variance NQ b s)) /\
    (forall b, no_raise (g_stdev NQ b s)) /\
    (forall b, no_raise (g_skewness NQ b s)) /\
    (forall b, no_raise (g_kurtosis NQ b s)) /\
    (forall b, no_raise (g_excess_kurtosis NQ b s)) /\
    (forall a : Q, 0 <= a -> a <= 1 -> no_raise (g_confidence_interval NQ icdf s (@ANum NQ a))).
Proof. intros sq [P1 P2] icdf I ops. exact (getters_total sq P1 P2 icdf I ops). Qed.
Print Assumptions C09_getters_total.

(* an alpha outside [0,1] or not a float is refused as documented *)
Theorem C09_confidence_interval_invalid_alpha :
  forall sq icdf (ops : list (top (NumQ sq))),
    let NQ := NumQ sq in
    let s := trun NQ (tinit NQ) ops in
    g_confidence_interval NQ icdf s (@ANotFloat NQ) = Raise TypeError /\
    (forall a : Q, ~ (0 <= a /\ a <= 1) -> g_confidence_interval NQ icdf s (@ANum NQ a) = Raise ValueError).
Proof. intros sq icdf ops. exact (confidence_interval_invalid_alpha sq icdf ops). Qed.
Print Assumptions C09_confidence_interval_invalid_alpha.

(* Beyond exact arithmetic: mean, variance, skewness, kurtosis and excess
   kurtosis are total in EVERY state (reachable or not, any accumulator
   contents, count below [bound]) of EVERY arithmetic instance that satisfies
   the elementary order laws [NumLaws] -- each division of the repaired code is
   guarded by a test 0 < divisor or divides by a small positive integer.  The
   laws are proved for the rationals; for binary64 they are IEEE-754 facts
   (small integers exact, sign rules) that are assumed, not proved.  stdev and
   the confidence interval are not covered by this theorem (their sqrt needs
   the accumulator M2 >= 0, a rounding fact).                               *)
Theorem C09_moment_getters_total_for_any_lawful_arithmetic :
  forall (N : Num) (bound : Z), NumLaws N bound ->
  forall s : tstate N, (0 <= tn s < bound)%Z ->
    no_raise (g_mean N s) /\
    (forall b, no_raise (g_variance N b s)) /\
    (forall b, no_raise (g_skewness N b s)) /\
    (forall b, no_raise (g_kurtosis N b s)) /\
    (forall b, no_raise (g_excess_kurtosis N b s)).
Proof. exact tally_moment_getters_total_any_state. Qed.
Print Assumptions C09_moment_getters_total_for_any_lawful_arithmetic.

Theorem C09_laws_hold_in_exact_arithmetic : forall sq bound, NumLaws (NumQ sq) bound.
Proof. exact NumQ_laws. Qed.
Print Assumptions C09_laws_hold_in_exact_arithmetic.

(* ---------------------------------------------------------------------- *)
(* 4. NaN exactly when the statistic is undefined: too few observations or
      zero variance; and zero variance means all observations are equal.   *)
Theorem C09_nan_exactly_when_undefined :
  forall sq, sqrt_contract sq -> forall icdf, icdf_contract icdf ->
  forall ops : list (top (NumQ sq)),
    let NQ := NumQ sq in
    let xs := effective sq [] ops in
    let s := trun NQ (tinit NQ) ops in
    (g_mean NQ s = NaNres <-> xs = []) /\
    (g_variance NQ true s = NaNres <-> xs = []) /\
    (g_stdev NQ true s = NaNres <-> xs = []) /\
    (g_variance NQ false s = NaNres <-> (length xs < 2)%nat) /\
    (g_stdev NQ false s = NaNres <-> (length xs < 2)%nat) /\
    (g_skewness NQ true s = NaNres <-> (length xs < 2)%nat \/ popvar xs == 0) /\
    (g_skewness NQ false s = NaNres <-> (length xs < 3)%nat \/ popvar xs == 0) /\
    (g_kurtosis NQ true s = NaNres <-> (length xs < 3)%nat \/ popvar xs == 0) /\
    (g_excess_kurtosis NQ true s = NaNres <-> (length xs < 3)%nat \/ popvar xs == 0) /\
    (g_kurtosis NQ false s = NaNres <-> (length xs < 4)%nat \/ popvar xs == 0) /\
    (g_excess_kurtosis NQ false s = NaNres <-> (length xs < 4)%nat \/ popvar xs == 0) /\
    (forall a : Q, 0 <= a -> a <= 1 ->
       (g_confidence_interval NQ icdf s (@ANum NQ a) = NaNres <-> (length xs < 2)%nat)).
Proof. intros sq [P1 P2] icdf I ops. exact (nan_structure sq P1 P2 icdf I ops). Qed.
Print Assumptions C09_nan_exactly_when_undefined.

Theorem C09_zero_variance_iff_all_equal :
  forall xs, xs <> [] -> (popvar xs == 0 <-> Forall (fun x => x == mean xs) xs).
Proof. exact popvar_zero_iff_all_equal. Qed.
Print Assumptions C09_zero_variance_iff_all_equal.

(* ---------------------------------------------------------------------- *)
(* 5. Invalid observations are rejected without changing anything, and
      initialize forgets the past.  Both hold for EVERY instance of the
      arithmetic, in particular for the executed binary64 one.             *)
Theorem C09_rejected_observation_changes_nothing :
  forall (N : Num) (s : tstate N) (o : pyarg (F N)),
    rejected N o = true ->
    (exists k, tregister N s o = Exn k s) /\ state_of (tstep N s (TReg o)) = s.
Proof. exact rejected_unchanged. Qed.
Print Assumptions C09_rejected_observation_changes_nothing.

Theorem C09_rejected_observations_have_no_influence :
  forall (N : Num) ops (s : tstate N),
    trun N s ops =
    trun N s (filter (fun op => match op with TReg o => negb (rejected N o) | TInit => true end) ops).
Proof. exact rejected_have_no_influence. Qed.
Print Assumptions C09_rejected_observations_have_no_influence.

Theorem C09_initialize_resets :
  forall (N : Num) pre post (s : tstate N),
    trun N s (pre ++ TInit :: post) = trun N (tinit N) post.
Proof. exact initialize_resets. Qed.
Print Assumptions C09_initialize_resets.

(* every reachable state is the state of a fresh tally fed exactly the
   effective observations *)
Theorem C09_state_depends_only_on_effective_observations :
  forall sq (ops : list (top (NumQ sq))),
    trun (NumQ sq) (tinit (NumQ sq)) ops = tally_of sq (effective sq [] ops).
Proof. exact run_effective. Qed.
Print Assumptions C09_state_depends_only_on_effective_observations.

(* ---------------------------------------------------------------------- *)
(* 6. Counter: exactly the sum and the number of the integer increments
      since the last initialize; a non-int is refused, state unchanged.    *)
Theorem C09_counter_exact :
  forall ops,
    ccount (crun cinit ops) = zsum (ceffective [] ops) /\
    cn (crun cinit ops) = Z.of_nat (length (ceffective [] ops)).
Proof. exact counter_exact. Qed.
Print Assumptions C09_counter_exact.

Theorem C09_counter_rejects_non_int : forall s, cregister s CNotInt = Exn TypeError s.
Proof. exact counter_rejects_non_int. Qed.
Print Assumptions C09_counter_rejects_non_int.

(* ---------------------------------------------------------------------- *)
(* 7. The getters of the PINNED tree (before the repairs) are not total:
      all-equal data divides by the zero variance, alpha = 0 leaves the
      domain of inv_cdf.  ([*_pinned] model the pinned getters.)           *)
Theorem C09_pinned_kurtosis_total_refuted :
  exists xs, g_kurtosis_pinned (NumQ sq_id) true (tally_of sq_id xs) = Raise ZeroDivisionError
             /\ g_kurtosis_pinned (NumQ sq_id) false (tally_of sq_id (1 :: xs)) = Raise ZeroDivisionError.
Proof. exact pinned_kurtosis_raises. Qed.
Print Assumptions C09_pinned_kurtosis_total_refuted.

Theorem C09_pinned_skewness_total_refuted :
  forall pow15 : Q -> res Q, (forall v, v == 0 -> pow15 v = Val 0) ->
  exists xs, g_skewness_pinned (NumQ sq_id) pow15 true (tally_of sq_id xs) = Raise ZeroDivisionError.
Proof. exact pinned_skewness_raises. Qed.
Print Assumptions C09_pinned_skewness_total_refuted.

Theorem C09_pinned_confidence_interval_total_refuted :
  forall f : Q -> res Q,
  exists xs, g_confidence_interval_pinned (NumQ sq_id) (icdf_domain (NumQ sq_id) f)
               (tally_of sq_id xs) (@ANum (NumQ sq_id) 0) = Raise StatisticsError.
Proof. exact pinned_confidence_interval_raises. Qed.
Print Assumptions C09_pinned_confidence_interval_total_refuted.

(* ---------------------------------------------------------------------- *)
(* Non-vacuity: the contracts are satisfiable, and a history with rejected
   observations and an initialize meets the strongest hypotheses above
   (>= 4 effective observations, positive variance).                       *)
Example C09_contracts_satisfiable : sqrt_contract sq_id /\ icdf_contract icdf_const.
Proof. split; [split; [exact sq_id_proper | exact sq_id_pos] | exact icdf_const_total]. Qed.

Example C09_hypotheses_satisfiable :
  let NQ := NumQ sq_id in
  let r (x : Q) : top NQ := reg sq_id x in
  let ops : list (top NQ) :=
    [r 7; @TReg NQ (@ONaN (F NQ)); @TInit NQ; r 1; @TReg NQ (@ONotNumber (F NQ)); r 2;
     r 4; @TReg NQ (@OHugeInt (F NQ)); r 9] in
  let xs := effective sq_id [] ops in
  xs = [1; 2; 4; 9] /\ (4 <= length xs)%nat /\ 0 < popvar xs /\
  res_is (g_mean NQ (trun NQ (tinit NQ) ops)) 4.
Proof.
  cbv zeta. split; [vm_compute; reflexivity |]. split; [vm_compute; apply le_n |].
  split; [vm_compute; reflexivity |]. eexists; split; vm_compute; reflexivity.
Qed.

(* ---------------------------------------------------------------------- *)
(* 8. The tie to the source TEXT.  Stats/Gen_Stats.v is regenerated on every
      run by translator/py2gallina_stats.py from the method bodies of
      Counter and Tally in src/pydsol/core/statistics.py of the tree under
      test (Python `ast`, fail-closed), and Stats/GenAgree.v proves every
      generated definition equal to the hand-written model function the
      theorems above are about -- for all states and arguments and every
      arithmetic instance.  Two equalities carry a hypothesis: skewness /
      excess_kurtosis compare float(n) where the model compares the integer n
      (needs [ofZ_order]: int -> float keeps the order; holds for the
      rationals), and confidence_interval needs an inv_cdf that never answers
      NaN ([icdf_no_nan]).  With these equalities every theorem above is a
      theorem about what the source says now; two of them are restated over
      the generated functions below.  A change of statistics.py that changes
      the meaning of a method makes GenAgree.v fail to compile: the check then
      reports the broken tie.                                                *)
From PV Require Import Stats.Gen_Stats Stats.GenAgree.

Theorem C09_generated_model_is_the_proved_model : forall N : Num,
  (forall s o, gen_Tally_register N s o = tregister N s o) /\
  (forall s, gen_Tally_initialize N s = Ok (tinit N)) /\
  (forall s, gen_Tally___init__ N s NameStr = Ok (tinit N) /\
             gen_Tally___init__ N s NameOther = Exn TypeError s) /\
  (forall s, gen_Tally_n N s = g_n N s /\ gen_Tally_sum N s = g_sum N s /\
             gen_Tally_min N s = g_min N s /\ gen_Tally_max N s = g_max N s /\
             gen_Tally_mean N s = g_mean N s) /\
  (forall s b, gen_Tally_variance N s b = g_variance N b s /\
               gen_Tally_stdev N s b = g_stdev N b s /\
               gen_Tally_kurtosis N s b = g_kurtosis N b s) /\
  (ofZ_order N -> forall s b, gen_Tally_skewness N s b = g_skewness N b s /\
                              gen_Tally_excess_kurtosis N s b = g_excess_kurtosis N b s) /\
  (forall icdf, icdf_no_nan N icdf -> forall s al,
     gen_Tally_confidence_interval N icdf s al = g_confidence_interval N icdf s al) /\
  (forall s o, gen_Counter_register s o = cregister s o) /\
  (forall s, gen_Counter_initialize s = Ok cinit) /\
  (forall s, gen_Counter_count s = ccount s /\ gen_Counter_n s = cn s) /\
  (forall ops s, gen_trun N s ops = trun N s ops) /\
  (forall ops s, gen_crun s ops = crun s ops).
Proof. exact tally_counter_generated_agree. Qed.
Print Assumptions C09_generated_model_is_the_proved_model.

Theorem C09_int_to_float_order_holds_in_exact_arithmetic : forall sq, ofZ_order (NumQ sq).
Proof. exact ofZ_order_Q. Qed.
Print Assumptions C09_int_to_float_order_holds_in_exact_arithmetic.

(* C09_accumulators_are_textbook_sums, for the generated constructor and register:
   a Tally made by the generated __init__ (whatever the fresh object held) and
   driven through the generated register / initialize *)
Theorem C09_generated_accumulators_are_textbook_sums :
  forall (sq : Q -> Q) (ops : list (top (NumQ sq))) (fresh : tstate (NumQ sq)),
    let NQ := NumQ sq in
    let xs := effective sq [] ops in
    let s := gen_trun NQ (state_of (gen_Tally___init__ NQ fresh NameStr)) ops in
    gen_Tally_n NQ s = Z.of_nat (length xs) /\
    gen_Tally_sum NQ s == sum1 xs /\
    tm1 s == mean xs /\
    tm2 s == central 2 xs /\ tm3 s == central 3 xs /\ tm4 s == central 4 xs /\
    match gen_Tally_min NQ s with XNaN => xs = [] | XFin m => is_min m xs | _ => False end /\
    match gen_Tally_max NQ s with XNaN => xs = [] | XFin m => is_max m xs | _ => False end.
Proof.
  intros sq ops fresh. cbv zeta. rewrite gen_trun_eq.
  exact (C09_accumulators_are_textbook_sums sq ops).
Qed.
Print Assumptions C09_generated_accumulators_are_textbook_sums.

(* C09_getters_total, for the generated getters *)
Theorem C09_generated_getters_total :
  forall sq, sqrt_contract sq -> forall icdf, icdf_contract icdf -> icdf_no_nan (NumQ sq) icdf ->
  forall (ops : list (top (NumQ sq))) (fresh : tstate (NumQ sq)),
    let NQ := NumQ sq in
    let s := gen_trun NQ (state_of (gen_Tally___init__ NQ fresh NameStr)) ops in
    no_raise (gen_Tally_mean NQ s) /\
    (forall b, no_raise (gen_Tally_variance NQ s b)) /\
    (forall b, no_raise (gen_Tally_stdev NQ s b)) /\
    (forall b, no_raise (gen_Tally_skewness NQ s b)) /\
    (forall b, no_raise (gen_Tally_kurtosis NQ s b)) /\
    (forall b, no_raise (gen_Tally_excess_kurtosis NQ s b)) /\
    (forall a : Q, 0 <= a -> a <= 1 -> no_raise (gen_Tally_confidence_interval NQ icdf s (@ANum NQ a))).
Proof.
  intros sq S icdf I NN ops fresh. cbv zeta. rewrite gen_trun_eq.
  destruct (C09_getters_total sq S icdf I ops) as [A [B [C [D [E [G K]]]]]].
  pose proof (ofZ_order_Q sq) as O.
  repeat split; intros;
    rewrite ?gen_Tally_mean_eq, ?gen_Tally_variance_eq, ?gen_Tally_stdev_eq, ?gen_Tally_kurtosis_eq,
            ?(gen_Tally_skewness_eq (NumQ sq) O), ?(gen_Tally_excess_kurtosis_eq (NumQ sq) O),
            ?(gen_Tally_confidence_interval_eq (NumQ sq) icdf NN);
    [exact A | exact (B b) | exact (C b) | exact (D b) | exact (E b) | exact (G b) | exact (K a H H0)].
Qed.
Print Assumptions C09_generated_getters_total.

Example C09_generated_hypotheses_satisfiable : icdf_contract icdf_const /\ icdf_no_nan (NumQ sq_id) icdf_const.
Proof. split; [exact icdf_const_total | intros p; discriminate]. Qed.
