From PV Require Import PubSub.Model PubSub.Proofs.
