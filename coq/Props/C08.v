(* C08 - publish/subscribe: a fired event reaches exactly its subscribers,
   once, in subscription order; duplicates ignored; unsubscribing an absent
   listener harmless; the four remove_all_listeners forms; payload against
   metadata; timed events keep their timestamp.
   Property-level theorems only; each is closed by [exact] of a lemma proved
   in PubSub/*.v and followed by Print Assumptions.

   Reading guide.  [run_top E fuel (init scr) ops = Some (s', t)] : the
   outermost caller performs [ops] on fresh EventProducers (every operation
   names the producer p it is called on; producers share event types and
   listeners); [E] gives the metadata of every event type; [scr] gives every listener the programs it
   performs from inside its successive notifications (subscribe, the
   unsubscribe forms, nested fire, raise) - so every history with re-entrant
   listeners is an instance.  The trace [t] contains, for fire invocation
   number [i] (outermost or nested): a start marker [ObsFire i ev subs]
   ([subs] = subscribers, on the producer the call is made on, of the type of
   [ev] in the state the call is made in, see
   C08_marker_records_subscribers_at_moment_of_firing), the deliveries
   [ObsDeliver i l ev], and [ObsFireDone i] if the call returned normally.
   [dels i t] = the (listener, event) pairs delivered by invocation [i], in
   order; [notified i t] = their listeners. *)
From Coq Require Import ZArith List Bool Arith.
From PV Require Import PubSub.Model PubSub.SubsProofs PubSub.EventProofs PubSub.Proofs PubSub.OpsProofs
  PubSub.TypeModel PubSub.TypeProofs.
Import ListNotations.

(* ====================================================================== *)
(* 1. Delivery: exactly once, in subscription order, to the subscribers    *)
(*    at the moment of firing, to nobody else - for all histories          *)
(* ====================================================================== *)

(* Every history has a behaviour (the fuel the correspondence check uses is
   always enough), so the hypotheses [run_top ... = Some ...] below are
   satisfiable for EVERY choice of metadata, listener programs and operations. *)
Theorem C08_every_history_has_a_behaviour :
  forall E scr ops, exists s' t, run_top E (fuel_for (init scr)) (init scr) ops = Some (s', t).
Proof. exact enough_fuel. Qed.
Print Assumptions C08_every_history_has_a_behaviour.

Theorem C08_behaviour_independent_of_fuel :
  forall E f f', f <= f' -> forall ops s r,
    run_top E f s ops = Some r -> run_top E f' s ops = Some r.
Proof. exact run_top_fuel_irrelevant. Qed.
Print Assumptions C08_behaviour_independent_of_fuel.

(* In every reachable state, for every producer: no event type stored twice,
   no listener twice per type, no empty list stored; every subscriber snapshot
   is duplicate-free. *)
Theorem C08_invariant_reachable :
  forall E fuel scr ops s' t,
    run_top E fuel (init scr) ops = Some (s', t) ->
    wfs (st_subs s') /\ Forall marker_ok t.
Proof. exact invariant_reachable. Qed.
Print Assumptions C08_invariant_reachable.

(* The heart: for every fire invocation i of every history (outermost or
   nested, whatever the notified listeners do to the producer meanwhile) that
   returned: the listeners notified by THIS invocation are exactly the
   subscribers at the moment of firing, in subscription order; each of them
   exactly once and nobody else (occurrence count 1 resp. 0); every delivery
   carries the fired event. *)
Theorem C08_fire_delivers_exactly_once_in_order_to_subscribers_at_firing :
  forall E fuel scr ops s' t i ev subs,
    run_top E fuel (init scr) ops = Some (s', t) ->
    In (ObsFire i ev subs) t -> In (ObsFireDone i) t ->
    notified i t = subs /\
    (forall l, count_occ Nat.eq_dec (notified i t) l = if memb l subs then 1 else 0) /\
    Forall (fun d => snd d = ev) (dels i t).
Proof. exact exactly_once_history. Qed.
Print Assumptions C08_fire_delivers_exactly_once_in_order_to_subscribers_at_firing.

(* The same with the unfinished case: while running, or when a listener raised
   (the exception propagates, the remaining subscribers are not notified), a
   prefix of the snapshot was notified, in order; invocation numbers are unique. *)
Theorem C08_fire_delivers_snapshot_history :
  forall E fuel scr ops s' t i ev subs,
    run_top E fuel (init scr) ops = Some (s', t) ->
    In (ObsFire i ev subs) t ->
    NoDup subs /\
    (exists k, dels i t = to ev (firstn k subs)) /\
    (In (ObsFireDone i) t -> dels i t = to ev subs) /\
    (forall ev' subs', In (ObsFire i ev' subs') t -> ev' = ev /\ subs' = subs).
Proof. exact fire_delivers_snapshot_history. Qed.
Print Assumptions C08_fire_delivers_snapshot_history.

Theorem C08_interrupted_fire_at_most_once :
  forall E fuel scr ops s' t i ev subs,
    run_top E fuel (init scr) ops = Some (s', t) ->
    In (ObsFire i ev subs) t ->
    (exists k, notified i t = firstn k subs) /\
    NoDup (notified i t) /\
    (forall l, In l (notified i t) -> In l subs) /\
    Forall (fun d => snd d = ev) (dels i t).
Proof. exact at_most_once_history. Qed.
Print Assumptions C08_interrupted_fire_at_most_once.

(* Nobody else: every delivery anywhere in a history belongs to a fire
   invocation of that very event whose snapshot contains the listener. *)
Theorem C08_nobody_else :
  forall E fuel scr ops s' t i l ev,
    run_top E fuel (init scr) ops = Some (s', t) ->
    In (ObsDeliver i l ev) t ->
    exists subs, In (ObsFire i ev subs) t /\ In l subs.
Proof. exact nobody_else_history. Qed.
Print Assumptions C08_nobody_else.

(* The marker of an invocation records the subscribers of the state the call is
   made in - "at the moment of firing". *)
Theorem C08_marker_records_subscribers_at_moment_of_firing :
  forall E f s o p ev,
    fired_event E o = Some (p, ev) ->
    match exec E (S f) s o with
    | Done _ t | Raised _ _ t =>
        exists t', t = ObsFire (st_next s) ev (subscribers (subs_of s p) (ev_type ev)) :: t'
    | OutOfFuel => True
    end.
Proof. exact fire_marker_is_state. Qed.
Print Assumptions C08_marker_records_subscribers_at_moment_of_firing.

(* The same fact seen from an arbitrary state s (any subscription maps, any
   pending listener programs, any nesting level): fire / fire_timed /
   fire_event / fire_timed_event of an accepted event ev on producer p delivers
   ev to p's subscribers of the type of ev, in order - other producers'
   subscriptions play no role. *)
Theorem C08_fire_delivers_snapshot_from_any_state :
  forall E fuel s o p ev,
    fired_event E o = Some (p, ev) ->
    let subs := subscribers (subs_of s p) (ev_type ev) in
    match exec E fuel s o with
    | Done s' t => dels (st_next s) t = to ev subs
    | Raised _ s' t => exists k, dels (st_next s) t = to ev (firstn k subs)
    | OutOfFuel => True
    end.
Proof. exact fire_delivers_snapshot. Qed.
Print Assumptions C08_fire_delivers_snapshot_from_any_state.

(* An operation that is not an accepted fire delivers nothing to anybody. *)
Theorem C08_no_event_no_delivery :
  forall E fuel s o,
    fired_event E o = None ->
    match exec E fuel s o with
    | Done s' t | Raised _ s' t => forall i l ev, ~ In (ObsDeliver i l ev) t
    | OutOfFuel => True
    end.
Proof. exact no_event_no_delivery. Qed.
Print Assumptions C08_no_event_no_delivery.

(* A refused event raises EventError before anything is delivered and leaves
   the producer untouched. *)
Theorem C08_refused_fire_raises_event_error :
  forall E f s o,
    (forall p a l, o <> OAdd p a l) -> (forall p a l, o <> ORemove p a l) -> (forall p a l, o <> ORemoveAll p a l) ->
    (forall p, o <> OHas p) -> o <> ORaise ->
    fired_event E o = None ->
    exists k, exec E (S f) s o = Raised k s [] /\ is_event_error k = true.
Proof. exact refused_fire_raises. Qed.
Print Assumptions C08_refused_fire_raises_event_error.

(* ====================================================================== *)
(* 2. Subscribing: order of subscription, duplicates ignored               *)
(* ====================================================================== *)
(* [unchanged s s']: every producer's map, the pending listener programs and
   the invocation counter of s' are those of s. *)
Theorem C08_add_listener_appends_or_ignores :
  forall E f s p et l,
  exists s', exec E (S f) s (OAdd p (Good et) (Good l)) = Done s' [] /\
    st_scripts s' = st_scripts s /\ st_next s' = st_next s /\
    (wfs (st_subs s) -> wfs (st_subs s')) /\
    forall q et', subscribers (subs_of s' q) et' =
      if Nat.eqb q p && Nat.eqb et' et then
        (if memb l (subscribers (subs_of s p) et) then subscribers (subs_of s p) et
         else subscribers (subs_of s p) et ++ [l])
      else subscribers (subs_of s q) et'.
Proof. exact add_op. Qed.
Print Assumptions C08_add_listener_appends_or_ignores.

Theorem C08_duplicate_subscription_ignored :
  forall E f s p et l,
    In l (subscribers (subs_of s p) et) ->
    exists s', exec E (S f) s (OAdd p (Good et) (Good l)) = Done s' [] /\ unchanged s s'.
Proof. exact add_duplicate_ignored. Qed.
Print Assumptions C08_duplicate_subscription_ignored.

(* ====================================================================== *)
(* 3. Unsubscribing: single, absent listener, the four remove-all forms    *)
(* ====================================================================== *)
Theorem C08_remove_listener_removes_exactly_it :
  forall E f s p et l, wfs (st_subs s) ->
  exists s', exec E (S f) s (ORemove p (Good et) (Good l)) = Done s' [] /\
    st_scripts s' = st_scripts s /\ st_next s' = st_next s /\ wfs (st_subs s') /\
    forall q et', subscribers (subs_of s' q) et' =
      if Nat.eqb q p && Nat.eqb et' et then without l (subscribers (subs_of s p) et)
      else subscribers (subs_of s q) et'.
Proof. exact remove_op. Qed.
Print Assumptions C08_remove_listener_removes_exactly_it.

Theorem C08_unsubscribing_absent_listener_harmless :
  forall E f s p et l,
    ~ In l (subscribers (subs_of s p) et) ->
    (exists s', exec E (S f) s (ORemove p (Good et) (Good l)) = Done s' [] /\ unchanged s s') /\
    (exists s', exec E (S f) s (ORemoveAll p (Good et) (Good l)) = Done s' [] /\ unchanged s s').
Proof. exact remove_absent_harmless. Qed.
Print Assumptions C08_unsubscribing_absent_listener_harmless.

Theorem C08_remove_everywhere_absent_listener_harmless :
  forall E f s p l,
    (forall et, ~ In l (subscribers (subs_of s p) et)) ->
    exists s', exec E (S f) s (ORemoveAll p NoneArg (Good l)) = Done s' [] /\ unchanged s s'.
Proof. exact remove_everywhere_absent_harmless. Qed.
Print Assumptions C08_remove_everywhere_absent_listener_harmless.

Theorem C08_remove_type_without_subscribers_harmless :
  forall E f s p et, wfs (st_subs s) ->
    subscribers (subs_of s p) et = [] ->
    exists s', exec E (S f) s (ORemoveAll p (Good et) NoneArg) = Done s' [] /\ unchanged s s'.
Proof. exact remove_type_absent_harmless. Qed.
Print Assumptions C08_remove_type_without_subscribers_harmless.

(* remove_all_listeners(event_type, listener) on producer p with each argument
   given or None.  remove_all_spec: the types hit are all (None) or the given
   one; for a hit type the new subscriber list is empty (listener None) or the
   old one without the listener, others keep their order; other types and
   other producers are untouched. *)
Theorem C08_remove_all_four_forms :
  forall E f s p oet ol, wfs (st_subs s) ->
  exists s', exec E (S f) s (ORemoveAll p (oarg oet) (oarg ol)) = Done s' [] /\
    st_scripts s' = st_scripts s /\ st_next s' = st_next s /\ wfs (st_subs s') /\
    forall q et', subscribers (subs_of s' q) et' =
      if Nat.eqb q p then remove_all_spec oet ol (subscribers (subs_of s p)) et'
      else subscribers (subs_of s q) et'.
Proof. exact remove_all_op. Qed.
Print Assumptions C08_remove_all_four_forms.

Theorem C08_remove_all_both_given_is_remove_listener :
  forall E fuel s p et l,
    exec E fuel s (ORemoveAll p (Good et) (Good l)) = exec E fuel s (ORemove p (Good et) (Good l)).
Proof. exact remove_all_both_is_remove. Qed.
Print Assumptions C08_remove_all_both_given_is_remove_listener.

Theorem C08_has_listeners_iff_some_subscriber :
  forall E f s p, wfs (st_subs s) ->
  exists b, exec E (S f) s (OHas p) = Done s [ObsHas b] /\
    (b = true <-> exists et l, In l (subscribers (subs_of s p) et)).
Proof. exact has_listeners_op. Qed.
Print Assumptions C08_has_listeners_iff_some_subscriber.

(* wrongly typed arguments: EventError, producers untouched *)
Theorem C08_raising_call_leaves_producer_untouched :
  forall s o k s' t,
    pure_step s o = Raised k s' t ->
    s' = s /\ t = [] /\ (is_event_error k = false -> k = EUser).
Proof. exact pure_raise_leaves_state. Qed.
Print Assumptions C08_raising_call_leaves_producer_untouched.

(* producers do not interfere: subscribing / unsubscribing on producer p
   leaves every other producer's map as it was *)
Theorem C08_other_producers_untouched :
  forall s o s' t p,
    (o = ORaise \/ exists a l, o = OAdd p a l \/ o = ORemove p a l \/ o = ORemoveAll p a l \/ o = OHas p) ->
    pure_step s o = Done s' t ->
    forall q, q <> p -> subs_of s' q = subs_of s q.
Proof. exact pure_step_other_producers. Qed.
Print Assumptions C08_other_producers_untouched.

(* ====================================================================== *)
(* 4. Payload against metadata                                             *)
(* ====================================================================== *)
(* Event(event_type, content, check) is accepted iff: the type declares no
   metadata, or content is a dict and - unless check is off - it has exactly
   the declared keys, each with a value that is not None and is an instance of
   the declared class.  (md_wf / payload_wf: Python dicts have unique keys.) *)
Theorem C08_event_accepted_iff :
  forall E et c chk,
    md_wf (md_of E et) -> payload_wf c ->
    ((exists e, make_event E (Good et) c chk = MkOk e) <-> acceptable (md_of E et) c chk).
Proof. exact event_accepted_iff. Qed.
Print Assumptions C08_event_accepted_iff.

(* a refusal is always an EventError, for Event and for TimedEvent *)
Theorem C08_refused_event_is_event_error :
  forall E a c chk k, make_event E a c chk = MkErr k -> is_event_error k = true.
Proof. exact make_event_error_kind. Qed.
Print Assumptions C08_refused_event_is_event_error.

(* with metadata a non-dict payload is refused even when check is off; a dict
   payload is accepted unchecked *)
Theorem C08_non_dict_payload_refused_even_unchecked :
  forall E et m c t chk,
    md_of E et = Some m -> c_shape c = SNonDict t -> make_event E (Good et) c chk = MkErr ENotDict.
Proof. exact non_dict_rejected. Qed.
Print Assumptions C08_non_dict_payload_refused_even_unchecked.

Theorem C08_check_off_accepts_any_dict :
  forall E et m c items,
    md_of E et = Some m -> c_shape c = SDict items ->
    make_event E (Good et) c false = MkOk (mkEvent et c None).
Proof. exact unchecked_dict_accepted. Qed.
Print Assumptions C08_check_off_accepts_any_dict.

(* ====================================================================== *)
(* 5. Timed events                                                         *)
(* ====================================================================== *)
(* TimedEvent(ts, ...) is built iff ts is an int/bool/float instance and the
   plain Event would be built; it carries ts, the payload and the type. *)
Theorem C08_timed_event_built_iff :
  forall E ts a c chk e,
    make_timed E ts a c chk = MkOk e <->
    ts_ok ts = true /\
    exists et, make_event E a c chk = MkOk (mkEvent et c None) /\ e = mkEvent et c (Some ts).
Proof. exact make_timed_ok_iff. Qed.
Print Assumptions C08_timed_event_built_iff.

Theorem C08_timed_event_keeps_timestamp :
  forall E ts a c chk e,
    make_timed E ts a c chk = MkOk e ->
    ev_time e = Some ts /\ ev_content e = c /\ a = Good (ev_type e).
Proof. exact timed_event_keeps_timestamp. Qed.
Print Assumptions C08_timed_event_keeps_timestamp.

(* every delivery made by fire_timed(ts, et, c) carries ts, c and et *)
Theorem C08_fire_timed_delivers_its_timestamp :
  forall E fuel s p ts a c chk,
    match exec E fuel s (OFireTimed p ts a c chk) with
    | Done s' t | Raised _ s' t =>
        forall l ev, In (ObsDeliver (st_next s) l ev) t ->
          ev_time ev = Some ts /\ ev_content ev = c /\ a = Good (ev_type ev)
    | OutOfFuel => True
    end.
Proof. exact fire_timed_delivers_timestamp. Qed.
Print Assumptions C08_fire_timed_delivers_its_timestamp.

(* ====================================================================== *)
(* 6. EventType: what "declares payload metadata" means                    *)
(* ====================================================================== *)
(* EventType(name, metadata) called from defining site [site] with the set
   [reg] of already used (site, name) keys creates a type iff name is a str,
   the key is unused, and metadata is None or every key is a str and every
   value a type ([encode m]); the type then carries exactly that declaration. *)
Theorem C08_event_type_created_iff :
  forall reg site name md e,
    snd (make_event_type reg site name md) = EtOk e <->
    exists n, name = NameStr n /\ ~ In (site, n) reg /\
      ((md = None /\ e = mkEType site n None) \/
       (exists m, md = Some (encode m) /\ e = mkEType site n (Some m))).
Proof. exact event_type_created_iff. Qed.
Print Assumptions C08_event_type_created_iff.

(* a declaration is refused exactly when some key is not a str or some value
   is not a type *)
Theorem C08_declaration_ok_iff :
  forall d, (exists m, check_decl d = inr m) <-> Forall entry_decl_ok d.
Proof. exact check_decl_ok_iff. Qed.
Print Assumptions C08_declaration_ok_iff.

(* in every sequence of constructions (accepted and refused interleaved, from
   any registry) no two created event types share (defining site, name) *)
Theorem C08_created_event_types_unique :
  forall reg cs, NoDup (map et_key (created (snd (make_types reg cs)))).
Proof. exact created_types_unique. Qed.
Print Assumptions C08_created_event_types_unique.

(* pinned behaviour, modelled faithfully: the key is registered before the
   metadata is looked at, so any second attempt with the same site and name
   is refused as a duplicate - also when the first one was refused because
   of its metadata *)
Theorem C08_event_type_second_attempt_refused :
  forall reg site n md md',
    snd (make_event_type (fst (make_event_type reg site (NameStr n) md)) site (NameStr n) md')
    = EtErr EDuplicate.
Proof. exact second_attempt_refused. Qed.
Print Assumptions C08_event_type_second_attempt_refused.

(* end to end: a type created with declaration m (a Python dict: unique keys)
   accepts exactly the payloads acceptable for m *)
Theorem C08_created_type_checks_its_declaration :
  forall reg site n m e c chk,
    NoDup (map fst (encode m)) -> payload_wf c ->
    snd (make_event_type reg site (NameStr n) (Some (encode m))) = EtOk e ->
    et_md e = Some m /\
    ((exists ev, make_event (env_of [e]) (Good 0) c chk = MkOk ev) <-> acceptable (Some m) c chk).
Proof. exact created_type_checks_its_declaration. Qed.
Print Assumptions C08_created_type_checks_its_declaration.

(* ====================================================================== *)
(* Non-vacuity: a history with re-entrant listeners and nested firing      *)
(* ====================================================================== *)
Definition ex_pay (n : nat) : content := mkContent n (SNonDict TInt).
(* two producers (0 and 1).  listener 0, when first notified, unsubscribes
   listener 1 from type 0 on producer 0 and subscribes listener 3; listener 1,
   when first notified, fires type 1 on producer 1 *)
Definition ex_scripts : scripts :=
  [ [[ORemove 0 (Good 0) (Good 1); OAdd 0 (Good 0) (Good 3)]];
    [[OFire 1 (Good 1) (ex_pay 51) true]];
    []; [] ].
Definition ex_ops : list op :=
  [ OAdd 0 (Good 0) (Good 0); OAdd 0 (Good 0) (Good 1); OAdd 0 (Good 0) (Good 2); OAdd 0 (Good 0) (Good 1);
    OAdd 1 (Good 1) (Good 2); OAdd 1 (Good 0) (Good 3);
    OFire 0 (Good 0) (ex_pay 50) true;
    OFire 0 (Good 0) (ex_pay 52) true ].
Definition ex_ev (et n : nat) : event := mkEvent et (ex_pay n) None.

(* the first fire still reaches listener 1 (subscribed at the moment of
   firing, unsubscribed meanwhile) and not listener 3 (subscribed meanwhile, and
   subscribed to the same type on the other producer all along); the nested
   fire on producer 1 runs in between; the second fire reaches 0, 2, 3 *)
Example C08_example_reentrant_history :
  exists s' t,
    run_top [None; None] (fuel_for (init ex_scripts)) (init ex_scripts) ex_ops = Some (s', t) /\
    In (ObsFire 0 (ex_ev 0 50) [0; 1; 2]) t /\ In (ObsFireDone 0) t /\
    In (ObsFire 1 (ex_ev 1 51) [2]) t /\ In (ObsFireDone 1) t /\
    In (ObsFire 2 (ex_ev 0 52) [0; 2; 3]) t /\ In (ObsFireDone 2) t /\
    notified 0 t = [0; 1; 2] /\ notified 1 t = [2] /\ notified 2 t = [0; 2; 3] /\
    erase t =
      [IRet; IRet; IRet; IRet; IRet; IRet;
       IDeliver 0 0 0 50 None; IDeliver 0 1 0 50 None; IDeliver 1 2 1 51 None; IDeliver 0 2 0 50 None; IRet;
       IDeliver 2 0 0 52 None; IDeliver 2 2 0 52 None; IDeliver 2 3 0 52 None; IRet].
Proof.
  eexists. eexists. split; [vm_compute; reflexivity|].
  vm_compute. repeat split; try reflexivity; repeat (first [left; reflexivity|right]).
Qed.

(* the hypotheses of C08_event_accepted_iff are satisfiable, with payloads on
   both sides of the iff *)
Definition ex_md : menv := [Some [(0, TInt); (1, TBase)]].
Example C08_example_payloads :
  md_wf (md_of ex_md 0) /\
  payload_wf (mkContent 1 (SDict [(1, PyV TDerived); (0, PyV TBool)])) /\
  (exists e, make_event ex_md (Good 0) (mkContent 1 (SDict [(1, PyV TDerived); (0, PyV TBool)])) true = MkOk e) /\
  make_event ex_md (Good 0) (mkContent 2 (SDict [(1, PyV TDerived); (0, PyV TStr)])) true = MkErr (EWrongType 0) /\
  make_event ex_md (Good 0) (mkContent 3 (SDict [(1, PyV TDerived)])) true = MkErr ELength /\
  make_event ex_md (Good 0) (mkContent 4 (SDict [(1, PyV TDerived); (2, PyV TInt)])) true = MkErr (EMissing 0) /\
  make_event ex_md (Good 0) (mkContent 5 (SDict [(1, PyV TNone); (0, PyV TInt)])) true = MkErr (EMissing 1) /\
  (exists e, make_event ex_md (Good 0) (mkContent 6 (SDict [(2, PyV TStr)])) false = MkOk e) /\
  make_event ex_md (Good 0) (mkContent 7 (SNonDict TList)) false = MkErr ENotDict /\
  make_timed ex_md (mkTs TFloat 10) (Good 0) (mkContent 1 (SDict [(1, PyV TDerived); (0, PyV TBool)])) true
    = MkOk (mkEvent 0 (mkContent 1 (SDict [(1, PyV TDerived); (0, PyV TBool)])) (Some (mkTs TFloat 10))) /\
  make_timed ex_md (mkTs TStr 3) (Good 0) (mkContent 1 (SDict [(1, PyV TDerived); (0, PyV TBool)])) true
    = MkErr ETimestamp.
Proof.
  split; [repeat constructor; cbn; intuition discriminate|].
  split; [repeat constructor; cbn; intuition discriminate|].
  repeat split; try (eexists; reflexivity); reflexivity.
Qed.

(* EventType constructions: accepted, duplicate, not-a-str name, bad key, bad
   value, and the name that stays reserved after a metadata refusal *)
Example C08_example_event_types :
  snd (make_types []
        [ (0, NameStr 0, None);
          (0, NameStr 0, None);
          (1, NameStr 0, Some [(KStr 0, VType TInt)]);
          (0, NameNotStr, None);
          (0, NameStr 1, Some [(KNotStr, VType TInt)]);
          (0, NameStr 1, None);
          (0, NameStr 2, Some [(KStr 0, VType TInt); (KStr 1, VNotType)]) ])
  = [ EtOk (mkEType 0 0 None); EtErr EDuplicate; EtOk (mkEType 1 0 (Some [(0, TInt)]));
      EtErr ENameNotStr; EtErr EKeyNotStr; EtErr EDuplicate; EtErr EValueNotType ].
Proof. reflexivity. Qed.

(* ====================================================================== *)
(* 7. The tie to the source TEXT                                           *)
(* ====================================================================== *)
(* PubSub/Gen_PubSub.v is regenerated on every run by
   translator/py2gallina_pubsub.py from the method bodies of EventType, Event,
   TimedEvent and EventProducer in src/pydsol/core/pubsub.py of the tree under
   test (Python `ast`, fail-closed; dict / list operations on the listener map,
   the delivery loop over the snapshot, the argument guards and the payload /
   metadata checks in their order), and PubSub/GenAgree.v proves every generated
   definition equal to the hand-written model function the theorems above are
   about - for all states, arguments, listener programs and fuel.  Two
   equalities carry the hypothesis that a Python dict has unique keys: [env_wf E]
   (the metadata an event type carries) and [rawmd_wf md] (the metadata argument
   of EventType), because the source looks the declared class up by key where
   the model walks the (key, class) pairs.  [model_add] .. [model_fire_timed_event]
   are the model's [pure_step] / [exec] read per method (gen_pure_step_eq,
   gen_exec_eq make that precise); [gen_exec], [gen_run_top], [gen_make_types] are
   the model's dispatch with every method replaced by its generated definition.
   With these equalities every theorem above is a theorem about what the source
   says now; the main ones are restated over the generated definitions below.
   A change of pubsub.py that changes the meaning of a method makes GenAgree.v
   fail to compile: the check then reports the broken tie. *)
From PV Require Import PubSub.Gen_PubSub PubSub.GenAgree.

Theorem C08_generated_model_is_the_proved_model :
  gen_EventProducer___init__ = [] /\
  (forall m a b, gen_EventProducer_add_listener m a b = model_add m a b) /\
  (forall m a b, gen_EventProducer_remove_listener m a b = model_remove m a b) /\
  (forall m a b, gen_EventProducer_remove_all_listeners m a b = model_remove_all m a b) /\
  (forall m, gen_EventProducer_has_listeners m = has_listeners m) /\
  (forall step s p oe, gen_EventProducer_fire_event step s p oe = model_fire_event step s p oe) /\
  (forall step s p oe, gen_EventProducer_fire_timed_event step s p oe = model_fire_timed_event step s p oe) /\
  (forall E, env_wf E ->
     (forall a c chk, gen_Event___init__ E a c chk = make_event E a c chk) /\
     (forall ts a c chk, gen_TimedEvent___init__ E ts a c chk = make_timed E ts a c chk) /\
     (forall step s p a c chk, gen_EventProducer_fire E step s p a c chk = fire_mk step s p (make_event E a c chk)) /\
     (forall step s p ts a c chk,
        gen_EventProducer_fire_timed E step s p ts a c chk = fire_mk step s p (make_timed E ts a c chk)) /\
     (forall fuel s o, gen_exec E fuel s o = exec E fuel s o) /\
     (forall fuel ops s, gen_run_top E fuel s ops = run_top E fuel s ops)) /\
  (forall s o, gen_pure_step s o = pure_step s o) /\
  (forall reg site name md, rawmd_wf md ->
     gen_EventType___init__ reg site name md = make_event_type reg site name md) /\
  (forall cs, Forall (fun c => rawmd_wf (snd c)) cs -> forall reg, gen_make_types reg cs = make_types reg cs).
Proof. exact pubsub_generated_agree. Qed.
Print Assumptions C08_generated_model_is_the_proved_model.

Theorem C08_generated_every_history_has_a_behaviour :
  forall E scr ops, env_wf E ->
    exists s' t, gen_run_top E (fuel_for (init scr)) (init scr) ops = Some (s', t).
Proof. exact gen_every_history_has_a_behaviour. Qed.
Print Assumptions C08_generated_every_history_has_a_behaviour.

(* C08_fire_delivers_exactly_once_in_order_to_subscribers_at_firing, for histories
   performed by the generated methods *)
Theorem C08_generated_fire_delivers_exactly_once_in_order_to_subscribers_at_firing :
  forall E fuel scr ops s' t i ev subs, env_wf E ->
    gen_run_top E fuel (init scr) ops = Some (s', t) ->
    In (ObsFire i ev subs) t -> In (ObsFireDone i) t ->
    notified i t = subs /\
    (forall l, count_occ Nat.eq_dec (notified i t) l = if memb l subs then 1 else 0) /\
    Forall (fun d => snd d = ev) (dels i t).
Proof. exact gen_exactly_once_history. Qed.
Print Assumptions C08_generated_fire_delivers_exactly_once_in_order_to_subscribers_at_firing.

Theorem C08_generated_fire_delivers_snapshot_history :
  forall E fuel scr ops s' t i ev subs, env_wf E ->
    gen_run_top E fuel (init scr) ops = Some (s', t) ->
    In (ObsFire i ev subs) t ->
    NoDup subs /\
    (exists k, dels i t = to ev (firstn k subs)) /\
    (In (ObsFireDone i) t -> dels i t = to ev subs) /\
    (forall ev' subs', In (ObsFire i ev' subs') t -> ev' = ev /\ subs' = subs).
Proof. exact gen_fire_delivers_snapshot_history. Qed.
Print Assumptions C08_generated_fire_delivers_snapshot_history.

Theorem C08_generated_nobody_else :
  forall E fuel scr ops s' t i l ev, env_wf E ->
    gen_run_top E fuel (init scr) ops = Some (s', t) ->
    In (ObsDeliver i l ev) t ->
    exists subs, In (ObsFire i ev subs) t /\ In l subs.
Proof. exact gen_nobody_else_history. Qed.
Print Assumptions C08_generated_nobody_else.

Theorem C08_generated_event_accepted_iff :
  forall E et c chk, env_wf E -> payload_wf c ->
    ((exists e, gen_Event___init__ E (Good et) c chk = MkOk e) <-> acceptable (md_of E et) c chk).
Proof. exact gen_event_accepted_iff. Qed.
Print Assumptions C08_generated_event_accepted_iff.

Theorem C08_generated_timed_event_keeps_timestamp :
  forall E ts a c chk e, env_wf E ->
    gen_TimedEvent___init__ E ts a c chk = MkOk e ->
    ev_time e = Some ts /\ ev_content e = c /\ a = Good (ev_type e).
Proof. exact gen_timed_event_keeps_timestamp. Qed.
Print Assumptions C08_generated_timed_event_keeps_timestamp.

Theorem C08_generated_event_type_created_iff :
  forall reg site name md e, rawmd_wf md ->
    (snd (gen_EventType___init__ reg site name md) = EtOk e <->
     exists n, name = NameStr n /\ ~ In (site, n) reg /\
       ((md = None /\ e = mkEType site n None) \/
        (exists m, md = Some (encode m) /\ e = mkEType site n (Some m)))).
Proof. exact gen_event_type_created_iff. Qed.
Print Assumptions C08_generated_event_type_created_iff.

(* the two well-formedness hypotheses are satisfiable (they say: a Python dict) *)
Example C08_generated_hypotheses_satisfiable :
  env_wf [None; Some [(0, TInt); (1, TBase)]] /\ rawmd_wf (Some [(KStr 0, VType TInt); (KNotStr, VNotType)]).
Proof. exact env_wf_example. Qed.

(* the example history of the non-vacuity section, performed by the generated methods *)
Example C08_generated_example_reentrant_history :
  exists s' t,
    gen_run_top [None; None] (fuel_for (init ex_scripts)) (init ex_scripts) ex_ops = Some (s', t) /\
    notified 0 t = [0; 1; 2] /\ notified 1 t = [2] /\ notified 2 t = [0; 2; 3].
Proof. eexists. eexists. split; [vm_compute; reflexivity |]. vm_compute. repeat split. Qed.
