(* placeholder, replaced below *)
From PV Require Import Dist.Num Dist.Draw.
Theorem C14_placeholder : True. Proof. exact I. Qed.
Print Assumptions C14_placeholder.
