(* C14 - draws are a pure function of parameters and stream output, within the
   support; drawing never raises; parameter domains enforced.   Status: PARTIAL.

   Model: Dist/Draw.v (one Gallina text over a number structure), executed with
   PrimFloat + recorded libm tables in the per-run correspondence check
   (harness/c14.py) and read over the real numbers (Dist/NumR.v) for the
   support / totality / constructor theorems.  [pv = false] is the repaired tree
   (proposed_fixes/C14-*.patch), [pv = true] the pinned tree 13808df.

   What is missing for "full": the support and totality theorems are about
   exact real arithmetic - float rounding at the support boundary, underflow
   (uniforms below 2^-64, inner gamma draws that underflow to 0.0) and overflow
   are only exercised by the correspondence run, and the cases where the
   repaired code still raises are listed as known findings
   (C14_*_refuted below show the mechanism).  Termination of the rejection
   loops (polar method, Poisson) is a probability-one statement and is not
   proved: the theorems say "returns a value in the support or the finite
   recorded stream output ran dry", never "raises".  erf / erf_inv are
   arbitrary functions here (the truncated normal is clamped whatever they
   return). *)
From Coq Require Import Reals Lra ZArith List Bool PrimFloat.
From PV Require Import Dist.Num Dist.Draw Dist.NumR Dist.NumF Dist.Frame Dist.Support Dist.Ctor Dist.Refuted.
Import ListNotations.

(* ---- clause: determined solely by parameters and the numbers the stream delivers ---- *)

(* draw() - result AND cached gaussian afterwards - depends only on (variant,
   stored parameters, cache, the uniforms it consumed); it hands back exactly
   the unconsumed rest of the stream output.  Any number structure, both variants. *)
Theorem C14_draw_determined_by_consumed_uniforms :
  forall (N : num) pv d cache us r c' rest,
  draw_c N pv d cache us = (r, c', rest) ->
  exists used, us = used ++ rest /\
    (r <> Err NoUniform -> forall ext, draw_c N pv d cache (used ++ ext) = (r, c', ext)).
Proof. exact draw_c_prefix. Qed.
Print Assumptions C14_draw_determined_by_consumed_uniforms.

(* equal parameters on two streams with equal content: same draw, and the two
   streams have equal content again (so the whole sequences coincide) *)
Theorem C14_twin_streams_equal :
  forall (N : num) pv (ins : nat -> option (inst (T N))) (st : store N) a b ia ib,
  ins a = Some ia -> ins b = Some ib ->
  idist ia = idist ib -> icache ia = icache ib ->
  isid ia <> isid ib -> st (isid ia) = st (isid ib) ->
  forall w1 m1 w2 m2,
  step N pv (ins, st) (ODraw a) = (w1, m1) ->
  step N pv w1 (ODraw b) = (w2, m2) ->
  m1 = m2 /\
  snd w2 (isid ia) = snd w2 (isid ib) /\
  (exists ia' ib', fst w2 a = Some ia' /\ fst w2 b = Some ib' /\
                   idist ia' = idist ib' /\ icache ia' = icache ib' /\
                   isid ia' = isid ia /\ isid ib' = isid ib).
Proof. exact twin_draws_equal. Qed.
Print Assumptions C14_twin_streams_equal.

(* ---- clause: instances never influence each other ---- *)
(* one operation changes only its own instance and only the stream that instance points to *)
Theorem C14_operation_frame :
  forall (N : num) pv (w : world N) o w' m,
  step N pv w o = (w', m) ->
  (forall j, j <> op_inst N o -> fst w' j = fst w j) /\
  (forall s, op_reads w o <> Some s -> snd w' s = snd w s).
Proof. exact step_frame. Qed.
Print Assumptions C14_operation_frame.

(* what instance k outputs in any interleaving with operations of other
   instances (constructions, draws, re-pointings) that read streams outside S
   is what it outputs when run alone *)
Theorem C14_instances_isolated :
  forall (N : num) pv k S ops (w1 w2 : world N),
  agree k S w1 w2 -> points_in k S w1 -> separated pv k S w1 ops ->
  outputs_of N k ops (snd (run N pv w1 ops)) = snd (run N pv w2 (only N k ops)).
Proof. exact isolated. Qed.
Print Assumptions C14_instances_isolated.

(* non-vacuity: two exponential instances on streams 0 and 1, interleaved *)
Example C14_isolated_example :
  let N := numF [] in
  let w : world N := (fun _ => None, fun _ => []) in
  let ops := [ONew 0 CExponential true 0 [PF 2%float]; ONew 1 CExponential true 1 [PF 3%float];
              ODraw 0; ODraw 1; ODraw 0] in
  separated false 0 (fun s => Nat.eqb s 0) w ops /\ length (only N 0 ops) = 3%nat.
Proof. vm_compute. repeat split. Qed.

(* ---- clause: after re-pointing the old stream is never consumed again ---- *)
Theorem C14_repoint_old_stream_untouched :
  forall (N : num) pv (w : world N) k i s2 ops w1,
  fst w k = Some i ->
  fst (step N pv w (OSetStream k true s2)) = w1 ->
  draws_of N k ops ->
  forall s, s <> s2 -> snd (fst (run N pv w1 ops)) s = snd w s.
Proof. exact repoint_old_stream_untouched. Qed.
Print Assumptions C14_repoint_old_stream_untouched.

(* re-pointing stores the new stream and drops DistNormal's cached gaussian ... *)
Theorem C14_repoint_drops_cached_gaussian :
  forall (N : num) pv (w : world N) k i s2,
  fst w k = Some i ->
  step N pv w (OSetStream k true s2) =
    ((wupd N (fst w) k (Some (mkInst (idist i) s2 None)), snd w), MNone).
Proof. exact repoint_sets_stream_and_drops_cache. Qed.
Print Assumptions C14_repoint_drops_cached_gaussian.

(* ... so the next normal draw runs the polar method on the new stream (>= 2 uniforms) *)
Theorem C14_repoint_normal_redraws :
  forall (N : num) pv mu sigma us r c' rest,
  draw_c N pv (DNormal mu sigma) None us = (r, c', rest) ->
  (exists v, r = Val v) -> (length rest + 2 <= length us)%nat.
Proof. exact repoint_normal_redraws. Qed.
Print Assumptions C14_repoint_normal_redraws.

Local Open Scope R_scope.
(* ---- clauses: every draw lies in the support / drawing never raises (exact reals) ---- *)
(* FULL STATEMENT (not proved): for every float stream output in [0,1) and every
   accepted float parameter set, draw() returns a value of the support.
   PROVED: the same over the reals, in two parts. *)

(* 16 classes (all but Beta / Pearson5 / Pearson6): uniforms in [0,1), 0 included *)
Theorem C14_support_and_totality_half_open_partial :
  forall (erf erfinv gammaf lgammaf : R -> R) d cache us,
  wf d -> divides d = false -> Forall half_open us ->
  match draw (numR erf erfinv gammaf lgammaf) false d cache us with
  | (Val (v, _), _) => in_support d v
  | (Err e, _) => e = NoUniform
  end.
Proof. exact support_half_open. Qed.
Print Assumptions C14_support_and_totality_half_open_partial.

(* all 19 classes: uniforms in the open interval (0,1) *)
Theorem C14_support_and_totality_open_partial :
  forall (erf erfinv gammaf lgammaf : R -> R) d cache us,
  wf d -> Forall open01 us ->
  match draw (numR erf erfinv gammaf lgammaf) false d cache us with
  | (Val (v, _), _) => in_support d v
  | (Err e, _) => e = NoUniform
  end.
Proof. exact support_open. Qed.
Print Assumptions C14_support_and_totality_open_partial.

(* non-vacuity: a well-formed gamma instance with shape < 1 and a stream output containing 0 *)
Example C14_support_example :
  wf (DGamma (/ 2) 2) /\ divides (DGamma (/ 2) 2) = false /\ Forall half_open [0%R; (/ 2)%R].
Proof.
  split; [simpl; lra|]. split; [reflexivity|].
  repeat constructor; unfold half_open; lra.
Qed.

(* pinned tree: refuted by uniforms 0.0 / (0.5, 0.5) *)
Theorem C14_draw_total_pinned_refuted :
  forall (erf erfinv gammaf lgammaf : R -> R),
  let NR := numR erf erfinv gammaf lgammaf in
  draw NR true (DExponential 1) None [0%R] = (Err (Raise EValue), []) /\
  draw NR true (DNormal 0 1) None [(/ 2)%R; (/ 2)%R] = (Err (Raise EValue), []).
Proof.
  intros. split; [apply pinned_exponential_raises_on_zero|apply pinned_normal_raises_on_half_half].
Qed.
Print Assumptions C14_draw_total_pinned_refuted.

(* repaired tree, still false (known findings): Pearson5 with shape < 1 divides
   by a gamma draw of 0 (uniform 0; with floats also by underflow); the product
   of uniforms in DistErlang underflows for a subnormal uniform (floats only) *)
Theorem C14_draw_total_zero_division_refuted :
  forall (erf erfinv gammaf lgammaf : R -> R),
  fst (draw (numR erf erfinv gammaf lgammaf) false (DPearson5 (/ 2) 1 (/ 2, 1%R)) None [0%R; (/ 2)%R])
  = Err (Raise EZeroDiv).
Proof. exact repaired_pearson5_divides_by_zero. Qed.
Print Assumptions C14_draw_total_zero_division_refuted.

Theorem C14_draw_total_subnormal_uniform_refuted :
  fst (draw (numF tb_log0) false (DErlang 1%float 2%Z 1%float None) None
         [0x0.0000000000001p-1022%float; 0x1p-1%float]) = Err (Raise EValue).
Proof. exact repaired_erlang_raises_on_subnormal_uniform. Qed.
Print Assumptions C14_draw_total_subnormal_uniform_refuted.

(* ---- clause: parameters outside the documented domain are rejected, inside it usable ---- *)
(* accepted  =>  a stream was given, the parameters are in the documented domain,
   and what is stored satisfies the hypothesis [wf] of the support theorems *)
Theorem C14_ctor_rejects_outside_domain :
  forall (erf erfinv gammaf lgammaf : R -> R) c sok ps d,
  ctor (numR erf erfinv gammaf lgammaf) false c sok ps = Val d ->
  sok = true /\ dom erf erfinv gammaf lgammaf c ps /\ wf d.
Proof. exact ctor_sound. Qed.
Print Assumptions C14_ctor_rejects_outside_domain.

Theorem C14_ctor_usable_inside_domain :
  forall (erf erfinv gammaf lgammaf : R -> R) c ps,
  dom erf erfinv gammaf lgammaf c ps ->
  exists d, ctor (numR erf erfinv gammaf lgammaf) false c true ps = Val d.
Proof. exact ctor_complete. Qed.
Print Assumptions C14_ctor_usable_inside_domain.

Example C14_dom_example :
  forall (erf erfinv gammaf lgammaf : R -> R),
  dom erf erfinv gammaf lgammaf CTriangular [PF 1%R; PI 1%Z; PF 4%R].
Proof.
  intros. simpl. split; [repeat constructor|]. unfold pf, p_float. simpl. lra.
Qed.

(* NaN parameters (floats): refused by every repaired range check; the pinned
   "x <= 0" spellings let them through; p = 0 for the geometric family *)
Theorem C14_ctor_rejects_nan :
  forallb (fun cp => is_value_error (ctor (numF []) false (fst cp) true (snd cp))) nan_cases = true.
Proof. exact repaired_ctor_rejects_nan. Qed.
Print Assumptions C14_ctor_rejects_nan.

Theorem C14_ctor_pinned_refuted :
  forallb (fun cp => is_accept_or_later (ctor (numF []) true (fst cp) true (snd cp))) (firstn 24 nan_cases) = true /\
  (forall (erf erfinv gammaf lgammaf : R -> R),
     exists d, ctor (numR erf erfinv gammaf lgammaf) true CGeometric true [PF 0%R] = Val d /\
               fst (draw (numR erf erfinv gammaf lgammaf) true d None [(/ 2)%R]) = Err (Raise EZeroDiv)).
Proof. split; [exact pinned_ctor_accepts_nan|exact pinned_geometric_accepts_p_zero]. Qed.
Print Assumptions C14_ctor_pinned_refuted.

Theorem C14_ctor_geometric_open_interval :
  forall (erf erfinv gammaf lgammaf : R -> R),
  ctor (numR erf erfinv gammaf lgammaf) false CGeometric true [PF 0%R] = Err (Raise EValue) /\
  ctor (numR erf erfinv gammaf lgammaf) false CGeometric true [PF 1%R] = Err (Raise EValue).
Proof. exact repaired_geometric_rejects_p_zero_and_one. Qed.
Print Assumptions C14_ctor_geometric_open_interval.

(* ====================================================================== *)
(* The model regenerated from the source text IS the model of the theorems above.

   Dist/Gen_Dist.v is produced on every run by translator/py2gallina_dist.py
   from src/pydsol/core/distributions.py of the tree under test (Python `ast`,
   fail-closed: constructors with their validation, derived fields and inner
   DistGamma instances, draw() with its helper methods and loops for all 19
   classes); Dist/GenAgree.v proves every generated definition equal to the
   hand-written one, for every number structure.  So the theorems of this file
   are theorems about what distributions.py says now; they are restated here
   for the generated definitions.  [gen_draw_c] returns the two attributes of
   DistNormal's cached gaussian where the model has an option ([cache_of]);
   [dist_consistent] (k < 10 iff no inner gamma in a DistErlang) holds for
   everything a constructor builds. *)
From PV Require Import Dist.Gen_Dist Dist.GenAgree.

Theorem C14_generated_model_is_the_proved_model : forall N : num,
  (forall c sok ps, gen_ctor N c sok ps = ctor N false c sok ps) /\
  (forall us, gen_Distribution__next_open_float N us = next_pos N us) /\
  (forall shape scale us, gen_DistGamma_draw N shape scale us = draw_gamma N false shape scale us) /\
  (forall d st us, dist_consistent N d ->
     draw_c N false d (cache_of st) us = ms_view_c (gen_draw_c N d st us)) /\
  (forall c sok ps d, ctor N false c sok ps = Val d -> dist_consistent N d) /\
  (forall sok mu sigma d st,
     gen_DistNormal___init__ N sok mu sigma = Val (d, st) \/ gen_DistLogNormal___init__ N sok mu sigma = Val (d, st) ->
     cache_of st = None).
Proof. exact dist_draw_generated_agree. Qed.
Print Assumptions C14_generated_model_is_the_proved_model.

(* C14_draw_determined_by_consumed_uniforms, for the generated draw *)
Theorem C14_generated_draw_determined_by_consumed_uniforms :
  forall (N : num) d st us r st' rest,
  dist_consistent N d ->
  gen_draw_c N d st us = (r, st', rest) ->
  exists used, us = used ++ rest /\
    (r <> Err NoUniform ->
     forall ext, ms_view_c (gen_draw_c N d st (used ++ ext)) = (r, cache_of st', ext)).
Proof.
  intros N d st us r st' rest C H.
  pose proof (gen_draw_c_eq N d st us C) as E. rewrite H in E. cbn in E.
  destruct (C14_draw_determined_by_consumed_uniforms N false d (cache_of st) us r (cache_of st') rest E) as [used [U K]].
  exists used. split; [exact U|]. intros NE ext. rewrite <- gen_draw_c_eq by exact C. apply K. exact NE.
Qed.
Print Assumptions C14_generated_draw_determined_by_consumed_uniforms.

(* C14_support_and_totality_open_partial, for the generated draw *)
Theorem C14_generated_support_and_totality_open_partial :
  forall (erf erfinv gammaf lgammaf : R -> R) d st us,
  wf d -> dist_consistent (numR erf erfinv gammaf lgammaf) d -> Forall open01 us ->
  match gen_draw_c (numR erf erfinv gammaf lgammaf) d st us with
  | (Val v, _, _) => in_support d v
  | (Err e, _, _) => e = NoUniform
  end.
Proof.
  intros erf erfinv gammaf lgammaf d st us W C U.
  pose proof (C14_support_and_totality_open_partial erf erfinv gammaf lgammaf d (cache_of st) us W U) as HS.
  pose proof (draw_c_result (numR erf erfinv gammaf lgammaf) false d (cache_of st) us) as R.
  rewrite (gen_draw_c_eq (numR erf erfinv gammaf lgammaf) d st us C) in R.
  destruct (draw (numR erf erfinv gammaf lgammaf) false d (cache_of st) us) as [[[v c]|e] r];
    destruct (gen_draw_c (numR erf erfinv gammaf lgammaf) d st us) as [[[v'|e'] st'] r']; cbn in R;
    try contradiction; destruct R as [R1 R2]; subst; first [exact HS | reflexivity].
Qed.
Print Assumptions C14_generated_support_and_totality_open_partial.

Theorem C14_generated_support_and_totality_half_open_partial :
  forall (erf erfinv gammaf lgammaf : R -> R) d st us,
  wf d -> dist_consistent (numR erf erfinv gammaf lgammaf) d -> divides d = false -> Forall half_open us ->
  match gen_draw_c (numR erf erfinv gammaf lgammaf) d st us with
  | (Val v, _, _) => in_support d v
  | (Err e, _, _) => e = NoUniform
  end.
Proof.
  intros erf erfinv gammaf lgammaf d st us W C D U.
  pose proof (C14_support_and_totality_half_open_partial erf erfinv gammaf lgammaf d (cache_of st) us W D U) as HS.
  pose proof (draw_c_result (numR erf erfinv gammaf lgammaf) false d (cache_of st) us) as R.
  rewrite (gen_draw_c_eq (numR erf erfinv gammaf lgammaf) d st us C) in R.
  destruct (draw (numR erf erfinv gammaf lgammaf) false d (cache_of st) us) as [[[v c]|e] r];
    destruct (gen_draw_c (numR erf erfinv gammaf lgammaf) d st us) as [[[v'|e'] st'] r']; cbn in R;
    try contradiction; destruct R as [R1 R2]; subst; first [exact HS | reflexivity].
Qed.
Print Assumptions C14_generated_support_and_totality_half_open_partial.

(* C14_ctor_rejects_outside_domain / C14_ctor_usable_inside_domain, for the generated constructors;
   what they build is consistent in the sense the draw theorems above ask for *)
Theorem C14_generated_ctor_rejects_outside_domain :
  forall (erf erfinv gammaf lgammaf : R -> R) c sok ps d,
  gen_ctor (numR erf erfinv gammaf lgammaf) c sok ps = Val d ->
  sok = true /\ dom erf erfinv gammaf lgammaf c ps /\ wf d /\ dist_consistent (numR erf erfinv gammaf lgammaf) d.
Proof.
  intros erf erfinv gammaf lgammaf c sok ps d H. rewrite gen_ctor_eq in H.
  destruct (C14_ctor_rejects_outside_domain erf erfinv gammaf lgammaf c sok ps d H) as [A [B C]].
  repeat split; try assumption. exact (ctor_consistent (numR erf erfinv gammaf lgammaf) c sok ps d H).
Qed.
Print Assumptions C14_generated_ctor_rejects_outside_domain.

Theorem C14_generated_ctor_usable_inside_domain :
  forall (erf erfinv gammaf lgammaf : R -> R) c ps,
  dom erf erfinv gammaf lgammaf c ps ->
  exists d, gen_ctor (numR erf erfinv gammaf lgammaf) c true ps = Val d.
Proof.
  intros erf erfinv gammaf lgammaf c ps H.
  destruct (C14_ctor_usable_inside_domain erf erfinv gammaf lgammaf c ps H) as [d E].
  exists d. rewrite gen_ctor_eq. exact E.
Qed.
Print Assumptions C14_generated_ctor_usable_inside_domain.

(* non-vacuity: the generated Erlang constructor builds a consistent instance on which the
   generated draw runs (PrimFloat, empty oracle table: it stops at the first libm call) *)
Example C14_generated_example :
  exists d, gen_ctor (numF []) CErlang true [PF 2%float; PI 3%Z] = Val d /\ dist_consistent (numF []) d /\
            fst (fst (gen_draw_c (numF []) d (false, 0%float) [0x1p-1%float; 0x1p-2%float; 0x1p-3%float]))
            = Err (Miss FLog (fenc 0x1p-6%float ++ fenc 0%float)).
Proof. eexists. split; [vm_compute; reflexivity|]. split; [vm_compute; reflexivity|vm_compute; reflexivity]. Qed.
