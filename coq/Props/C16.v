(* C16 -- quantity arithmetic is dimensionally sound and type safe.

   Property-level theorems only.  [gen_module] / [gen_classes] are the tables
   REGENERATED from the current pydsol/core/units.py on every run
   (Units/Gen_Tables.v); the table facts are kernel evaluations over them
   (Units/GenFacts16.v) lifted to quantified statements (Units/TableProofs.v).
   The general theorems are about the Gallina transcription of the operators
   (Units/Dispatch.v) and hold for every number structure satisfying
   [num_laws] (x*1 = x, commutativity of *, non-zero factors, (x*y)/y = x);
   exact rationals satisfy them, binary64 runs are tied by the bit-exact
   correspondence check, not by proof. *)
From Coq Require Import ZArith List Bool String PrimFloat.
From PV Require Import Units.Tables Units.SIString Units.Dispatch Units.TableProofs Units.DispatchProofs
                       Units.SIStringProofs.
From PV Require Import Units.Gen_Tables Units.GenFacts16.
Import ListNotations.
Local Open Scope string_scope.

Ltac table_facts :=
  first [ exact gen_classes_plain | exact gen_tables_closed | exact gen_mul_table_sound
        | exact gen_div_table_sound | exact gen_base_factor_one | exact gen_dimensionless_ok ].

(* ---------------------------------------------------------------- tables *)

(* Every entry  A._mul[B] = C  of every class: B and C are classes of the
   module and  sig C = sig A + sig B. *)
Theorem C16_mul_table_sound :
  forall a ca b r, get_class gen_classes a = Some ca -> clookup b (qc_mul ca) = Some r ->
    exists rc cb cr, r = GCls rc /\ get_class gen_classes b = Some cb /\ get_class gen_classes rc = Some cr /\
                     cls_sig cr = sig_add (cls_sig ca) (cls_sig cb).
Proof. exact (mul_table_sound_spec gen_classes gen_mul_table_sound). Qed.
Print Assumptions C16_mul_table_sound.

(* Every entry  A._div[B] = C :  sig C = sig A - sig B. *)
Theorem C16_div_table_sound :
  forall a ca b r, get_class gen_classes a = Some ca -> clookup b (qc_div ca) = Some r ->
    exists rc cb cr, r = GCls rc /\ get_class gen_classes b = Some cb /\ get_class gen_classes rc = Some cr /\
                     cls_sig cr = sig_sub (cls_sig ca) (cls_sig cb).
Proof. exact (div_table_sound_spec gen_classes gen_div_table_sound). Qed.
Print Assumptions C16_div_table_sound.

(* The tables are closed: keys and values are quantity classes of the module. *)
Theorem C16_tables_closed :
  forall a ca, get_class gen_classes a = Some ca ->
    forall k v, In (k, v) (qc_mul ca) \/ In (k, v) (qc_div ca) ->
      exists b r, k = GCls b /\ v = GCls r /\ (b < List.length gen_classes)%nat /\ (r < List.length gen_classes)%nat.
Proof. exact (tables_closed_spec gen_classes gen_tables_closed). Qed.
Print Assumptions C16_tables_closed.

(* What the model reads as the signature of a class is what the code's own
   sisig() returned when the tables were dumped; _sidict uses only the nine SI
   names with int exponents; every class is a direct subclass of Quantity
   that redefines none of the transcribed methods; SI.SIUNITS is the expected
   tuple; Dimensionless has the zero signature. *)
Theorem C16_model_reads_the_code_s_signatures :
  sidict_wf gen_classes = true /\ classes_plain gen_classes = true /\
  siunits_ok gen_module = true /\ dimensionless_ok gen_module = true.
Proof. exact (conj gen_sidict_wf (conj gen_classes_plain (conj gen_siunits_ok gen_dimensionless_ok))). Qed.
Print Assumptions C16_model_reads_the_code_s_signatures.

(* ---------------------------------------------------------------- products and quotients *)

(* x * y, both quantities (named or generic SI in any combination): signature
   = sum, SI value = product, whether the result is named or generic. *)
Theorem C16_product_signature_and_value :
  forall N, num_laws N -> forall x y r,
    is_quantity N x = true -> is_quantity N y = true ->
    binop_eval N gen_module Mul x y = Val (OVal r) ->
    exists sx sy ax ay,
      sig_of N gen_module x = Some sx /\ sig_of N gen_module y = Some sy /\
      si_of N x = Some ax /\ si_of N y = Some ay /\
      sig_of N gen_module r = Some (sig_add sx sy) /\ si_of N r = Some (fmul N ax ay).
Proof. intros N L. apply (mul_sound N gen_module L); table_facts. Qed.
Print Assumptions C16_product_signature_and_value.

(* x / y: signature = difference, SI value = quotient (divisor not zero). *)
Theorem C16_quotient_signature_and_value :
  forall N, num_laws N -> forall x y r,
    is_quantity N x = true -> is_quantity N y = true ->
    binop_eval N gen_module Div x y = Val (OVal r) ->
    exists sx sy ax ay,
      sig_of N gen_module x = Some sx /\ sig_of N gen_module y = Some sy /\
      si_of N x = Some ax /\ si_of N y = Some ay /\ fiszero N ay = false /\
      sig_of N gen_module r = Some (sig_sub sx sy) /\ si_of N r = Some (fdiv N ax ay).
Proof. intros N L. apply (div_sound N gen_module L); table_facts. Qed.
Print Assumptions C16_quotient_signature_and_value.

(* The product of two well-formed quantities always exists; the quotient
   exists unless the divisor's SI value is zero (then ZeroDivisionError). *)
Theorem C16_product_exists :
  forall N, num_laws N -> forall x y,
    wf_val N gen_module x = true -> wf_val N gen_module y = true ->
    exists r, binop_eval N gen_module Mul x y = Val (OVal r).
Proof. intros N L. apply (mul_total N gen_module L); table_facts. Qed.
Print Assumptions C16_product_exists.

Theorem C16_quotient_exists_unless_divisor_zero :
  forall N, num_laws N -> forall x y ay,
    wf_val N gen_module x = true -> wf_val N gen_module y = true -> si_of N y = Some ay ->
    (fiszero N ay = false -> exists r, binop_eval N gen_module Div x y = Val (OVal r)) /\
    (fiszero N ay = true -> binop_eval N gen_module Div x y = Raise ZeroDivisionError).
Proof. intros N L. apply (div_total N gen_module L); table_facts. Qed.
Print Assumptions C16_quotient_exists_unless_divisor_zero.

(* The result is a named quantity (in the base unit of the class the table
   names) exactly when the table of the left class has an entry for the right
   class; otherwise it is a generic SI value. *)
Theorem C16_named_result_iff_table_entry :
  forall N, num_laws N -> forall c a u c2 b u2 q r,
    get_class gen_classes c = Some q ->
    (binop_eval N gen_module Mul (VNamed c a u) (VNamed c2 b u2) = Val (OVal r) ->
     match clookup c2 (qc_mul q) with
     | Some v => exists rc cr, v = GCls rc /\ get_class gen_classes rc = Some cr /\
                   r = VNamed rc (fmul N a b) (match qc_base cr with GStr s => s | Bad_str s => s end)
     | None => exists sg, r = VSI sg (fmul N a b)
     end) /\
    (binop_eval N gen_module Div (VNamed c a u) (VNamed c2 b u2) = Val (OVal r) ->
     match clookup c2 (qc_div q) with
     | Some v => exists rc cr, v = GCls rc /\ get_class gen_classes rc = Some cr /\
                   r = VNamed rc (fdiv N a b) (match qc_base cr with GStr s => s | Bad_str s => s end)
     | None => exists sg, r = VSI sg (fdiv N a b)
     end).
Proof.
  intros N L c a u c2 b u2 q r Hc. split.
  - apply (mul_named_iff_table N gen_module L); first [table_facts | exact Hc].
  - apply (div_named_iff_table N gen_module L); first [table_facts | exact Hc].
Qed.
Print Assumptions C16_named_result_iff_table_entry.

(* number / quantity = Dimensionless(number) / quantity. *)
Theorem C16_number_over_quantity :
  forall N, num_laws N -> forall k y r,
    is_quantity N y = true ->
    binop_eval N gen_module Div (VNum k) y = Val (OVal r) ->
    exists sy ay, sig_of N gen_module y = Some sy /\ si_of N y = Some ay /\ fiszero N ay = false /\
      sig_of N gen_module r = Some (sig_sub sig0 sy) /\ si_of N r = Some (fdiv N k ay).
Proof. intros N L. apply (rdiv_sound N gen_module L); table_facts. Qed.
Print Assumptions C16_number_over_quantity.

(* Scaling by a number keeps class / signature and unit and acts on the SI value. *)
Theorem C16_scaling_acts_on_si_value :
  forall N, num_laws N ->
    (forall c a u k q, get_class gen_classes c = Some q ->
       binop_eval N gen_module Mul (VNamed c a u) (VNum k) = Val (OVal (VNamed c (fmul N a k) u)) /\
       binop_eval N gen_module Mul (VNum k) (VNamed c a u) = Val (OVal (VNamed c (fmul N k a) u)) /\
       binop_eval N gen_module Div (VNamed c a u) (VNum k) =
         if fiszero N k then Raise ZeroDivisionError else Val (OVal (VNamed c (fdiv N a k) u))) /\
    (forall sg a k,
       binop_eval N gen_module Mul (VSI sg a) (VNum k) = Val (OVal (VSI sg (fmul N a k))) /\
       binop_eval N gen_module Mul (VNum k) (VSI sg a) = Val (OVal (VSI sg (fmul N k a))) /\
       binop_eval N gen_module Div (VSI sg a) (VNum k) =
         if fiszero N k then Raise ZeroDivisionError else Val (OVal (VSI sg (fdiv N a k)))).
Proof.
  intros N L. split.
  - apply (scale_named N gen_module L); table_facts.
  - apply (scale_si N gen_module L).
Qed.
Print Assumptions C16_scaling_acts_on_si_value.

(* ---------------------------------------------------------------- SI -> named *)
Theorem C16_generic_si_converts_iff_signatures_match :
  forall N, num_laws N -> forall sg a c q, get_class gen_classes c = Some q ->
    ((exists v, as_quantity N gen_module (VSI sg a) (Some c) = Val v) <-> cls_sig q = sg) /\
    (cls_sig q = sg -> exists b, qc_base q = GStr b /\
                                 as_quantity N gen_module (VSI sg a) (Some c) = Val (VNamed c a b)) /\
    (cls_sig q <> sg -> as_quantity N gen_module (VSI sg a) (Some c) = Raise ValueError).
Proof. intros N L. apply (as_quantity_iff N gen_module L); table_facts. Qed.
Print Assumptions C16_generic_si_converts_iff_signatures_match.

(* ---------------------------------------------------------------- + - comparisons *)
Theorem C16_mixed_add_sub_refused :
  forall N op x y, op = Add \/ op = Sub ->
    is_quantity N x = true \/ is_quantity N y = true ->
    same_type N x y = false ->
    exists e, binop_eval N gen_module op x y = Raise e.
Proof. intros N. exact (mixed_add_sub_refused N gen_module). Qed.
Print Assumptions C16_mixed_add_sub_refused.

Theorem C16_mixed_compare_refused :
  forall N o x y,
    is_quantity N x = true \/ is_quantity N y = true ->
    same_type N x y = false ->
    binop_eval N gen_module (Cmp o) x y =
      match o with CEq => Val (OBool false) | CNe => Val (OBool true) | _ => Raise TypeError end.
Proof. intros N. exact (mixed_compare_refused N gen_module). Qed.
Print Assumptions C16_mixed_compare_refused.

Theorem C16_same_type_ops_act_on_si_values :
  forall N, num_laws N ->
    (forall c a u b v q, get_class gen_classes c = Some q ->
       binop_eval N gen_module Add (VNamed c a u) (VNamed c b v) = Val (OVal (VNamed c (fadd N a b) u)) /\
       binop_eval N gen_module Sub (VNamed c a u) (VNamed c b v) = Val (OVal (VNamed c (fsub N a b) u)) /\
       forall o, binop_eval N gen_module (Cmp o) (VNamed c a u) (VNamed c b v) = Val (OBool (cmp_nums N o a b))) /\
    (forall sg a b,
       binop_eval N gen_module Add (VSI sg a) (VSI sg b) = Val (OVal (VSI sg (fadd N a b))) /\
       binop_eval N gen_module Sub (VSI sg a) (VSI sg b) = Val (OVal (VSI sg (fsub N a b))) /\
       forall o, binop_eval N gen_module (Cmp o) (VSI sg a) (VSI sg b) = Val (OBool (cmp_nums N o a b))).
Proof.
  intros N L. split.
  - apply (same_type_named N gen_module L); table_facts.
  - apply (same_type_si N gen_module).
Qed.
Print Assumptions C16_same_type_ops_act_on_si_values.

(* The SI.__sub__ of the pinned tree (type test only, [si_sub_pinned]) does
   NOT refuse operands of different signatures: SI(3,'m') - SI(1,'s') = 2.0 m.
   The model above describes the repaired method (proposed_fixes/C16-si-sub-signature.patch). *)
Theorem C16_si_sub_without_signature_guard_refuted :
  exists sg sg2 a b r,
    same_type float_ops (VSI sg a) (VSI sg2 b) = false /\
    si_sub_pinned float_ops sg a (VSI sg2 b) = Val r.
Proof.
  exists [0;0;0;1;0;0;0;0;0]%Z, [0;0;0;0;1;0;0;0;0]%Z, 3%float, 1%float,
         (@VSI float_ops [0;0;0;1;0;0;0;0;0]%Z 2%float).
  split; vm_compute; reflexivity.
Qed.
Print Assumptions C16_si_sub_without_signature_guard_refuted.

(* ---------------------------------------------------------------- SI unit strings *)
(* Printing a signature with single-digit exponents in any of the eight
   formats (divisor or negative exponents, "^" or not, "." or not) and parsing
   the text gives the signature back. *)
Theorem C16_si_string_round_trip :
  forall sig d h t,
    List.length sig = 9%nat -> Forall (fun v => (-9 <= v <= 9)%Z) sig ->
    h = "" \/ h = "^" -> t = "" \/ t = "." ->
    str_to_sisig (siunit sig d h t) = Val sig.
Proof. exact parse_print. Qed.
Print Assumptions C16_si_string_round_trip.

(* ---------------------------------------------------------------- non-vacuity *)
(* the number laws are satisfiable (exact rationals) ... *)
Example C16_number_laws_satisfiable : num_laws qc_ops.
Proof. exact qc_ops_laws. Qed.

(* ... and the hypotheses of the product theorem are met by real values:
   Speed(2 m/s) * Duration(3 s) is the named quantity Length(6 m), Force * Force is generic. *)
Example C16_speed_times_duration_is_length :
  match find_class gen_classes "Speed", find_class gen_classes "Duration", find_class gen_classes "Length" with
  | Some sp, Some du, Some le =>
      R_eqb float_ops
        (binop_eval float_ops gen_module Mul (@VNamed float_ops sp 2%float "m/s") (@VNamed float_ops du 3%float "s"))
        (Val (OVal (@VNamed float_ops le 6%float "m")))
  | _, _, _ => false
  end = true.
Proof. vm_compute. reflexivity. Qed.

Example C16_force_times_force_is_generic :
  match find_class gen_classes "Force" with
  | Some f =>
      R_eqb float_ops
        (binop_eval float_ops gen_module Mul (@VNamed float_ops f 4%float "N") (@VNamed float_ops f 2%float "N"))
        (Val (OVal (@VSI float_ops [0;0;2;2;-4;0;0;0;0]%Z 8%float)))
  | None => false
  end = true.
Proof. vm_compute. reflexivity. Qed.

(* ---------------------------------------------------------------- the methods regenerated from the source *)
(* Units/Gen_Methods.v is regenerated on every run by translator/py2gallina_units.py from the text of
   src/pydsol/core/units.py of the tree under test (Python `ast`, fail-closed): the bodies of
   Quantity.__mul__ / __rmul__ / __truediv__ / __rtruediv__ / __add__ / __radd__ / __sub__ / __rsub__, the
   six comparisons, the same methods of SI, construction, _val, asSI, sisig, as_quantity, and the SI string
   functions siunit / sidict_to_unit / str_to_sisig (their loops included).  Units/GenAgree.v proves every
   generated definition equal to the hand-written function the theorems above are about -- for all
   arguments of the model's closed world ([val_ok]: quantity objects are instances of classes of the
   module, signatures have nine entries) -- and that evaluating an expression  x op y  through the
   generated methods is [binop_eval].  [conc] is the object of the generated code a value of the model
   stands for (an SI object carries its unit text as a stored attribute, as in the code).  So every
   theorem above is a theorem about what the source says now; the main ones are restated over the
   generated definitions below.  A change of the source that changes the meaning of a method (e.g.
   dropping the signature test of SI.__sub__, /repo a7e4981) makes GenAgree.v fail to compile: the check
   then reports the broken tie. *)
From PV Require Import Units.Gen_Methods Units.GenAgree.

Theorem C16_generated_model_is_the_proved_model : forall N,
  (forall c q a u o, get_class gen_classes c = Some q -> val_ok gen_module o ->
     gen_Quantity___mul__ N gen_module (GNamed c a u) (conc o) = rmap conc (q_mul N gen_module c a u o)) /\
  (forall c q a u o, get_class gen_classes c = Some q -> val_ok gen_module o ->
     gen_Quantity___truediv__ N gen_module (GNamed c a u) (conc o) = rmap conc (q_div N gen_module c a u o)) /\
  (forall sg a o, List.length sg = 9%nat -> val_ok gen_module o ->
     gen_SI___mul__ N gen_module (conc (VSI sg a)) (conc o) = rmap conc (si_mul N gen_module sg a o)) /\
  (forall sg a o, List.length sg = 9%nat -> val_ok gen_module o ->
     gen_SI___truediv__ N gen_module (conc (VSI sg a)) (conc o) = rmap conc (si_div N gen_module sg a o)) /\
  (forall c a u o, gen_Quantity___add__ N gen_module (GNamed c a u) (conc o) = rmap conc (q_addsub N gen_module (fadd N) c a u o)) /\
  (forall c a u o, gen_Quantity___sub__ N gen_module (GNamed c a u) (conc o) = rmap conc (q_addsub N gen_module (fsub N) c a u o)) /\
  (forall sg a o, gen_SI___add__ N gen_module (conc (VSI sg a)) (conc o) = rmap conc (si_addsub N (fadd N) sg a o)) /\
  (forall sg a o, gen_SI___sub__ N gen_module (conc (VSI sg a)) (conc o) = rmap conc (si_addsub N (fsub N) sg a o)) /\
  (forall op c a u o, gen_cmp_Quantity N gen_module op (GNamed c a u) (conc o) = q_cmp N op c a o) /\
  (forall op sg a o, gen_cmp_SI N gen_module op (conc (VSI sg a)) (conc o) = si_cmp N op sg a o) /\
  (forall sg a t, gen_SI_as_quantity N gen_module (conc (VSI sg a)) (tconc t) = rmap conc (as_quantity N gen_module (VSI sg a) t)) /\
  (forall c, gen_Quantity_sisig N gen_module c = class_sig_of gen_module c) /\
  (forall a sg u d h t, List.length sg = 9%nat -> gen_SI_siunit N gen_module (GSI a sg u) d h t = Val (siunit sg d h t)) /\
  (forall s, gen_SI_str_to_sisig N gen_module s = str_to_sisig s) /\
  (forall op x y, val_ok gen_module x -> val_ok gen_module y -> gen_binop_eval N gen_module op x y = binop_eval N gen_module op x y) /\
  (forall k, call_ok gen_module k -> gen_eval N gen_module k = eval N gen_module k).
Proof. intros N. exact (dispatch_generated_agree N gen_module gen_sidict_wf). Qed.
Print Assumptions C16_generated_model_is_the_proved_model.

(* x * y evaluated through the generated __mul__ / __rmul__: signature = sum, SI value = product *)
Theorem C16_generated_product_signature_and_value :
  forall N, num_laws N -> forall x y r,
    val_ok gen_module x -> val_ok gen_module y -> is_quantity N x = true -> is_quantity N y = true ->
    gen_binop_eval N gen_module Mul x y = Val (OVal r) ->
    exists sx sy ax ay,
      sig_of N gen_module x = Some sx /\ sig_of N gen_module y = Some sy /\
      si_of N x = Some ax /\ si_of N y = Some ay /\
      sig_of N gen_module r = Some (sig_add sx sy) /\ si_of N r = Some (fmul N ax ay).
Proof. intros N L. exact (gen_mul_sound N gen_module L gen_mul_table_sound gen_base_factor_one gen_sidict_wf). Qed.
Print Assumptions C16_generated_product_signature_and_value.

Theorem C16_generated_quotient_signature_and_value :
  forall N, num_laws N -> forall x y r,
    val_ok gen_module x -> val_ok gen_module y -> is_quantity N x = true -> is_quantity N y = true ->
    gen_binop_eval N gen_module Div x y = Val (OVal r) ->
    exists sx sy ax ay,
      sig_of N gen_module x = Some sx /\ sig_of N gen_module y = Some sy /\
      si_of N x = Some ax /\ si_of N y = Some ay /\ fiszero N ay = false /\
      sig_of N gen_module r = Some (sig_sub sx sy) /\ si_of N r = Some (fdiv N ax ay).
Proof. intros N L. exact (gen_div_sound N gen_module L gen_div_table_sound gen_base_factor_one gen_sidict_wf). Qed.
Print Assumptions C16_generated_quotient_signature_and_value.

(* + - and comparisons between operands of different type are refused by the generated methods *)
Theorem C16_generated_mixed_add_sub_refused :
  forall N op x y, val_ok gen_module x -> val_ok gen_module y -> op = Add \/ op = Sub ->
    is_quantity N x = true \/ is_quantity N y = true ->
    same_type N x y = false ->
    exists e, gen_binop_eval N gen_module op x y = Raise e.
Proof. intros N. exact (gen_mixed_add_sub_refused N gen_module gen_sidict_wf). Qed.
Print Assumptions C16_generated_mixed_add_sub_refused.

Theorem C16_generated_mixed_compare_refused :
  forall N o x y, val_ok gen_module x -> val_ok gen_module y ->
    is_quantity N x = true \/ is_quantity N y = true ->
    same_type N x y = false ->
    gen_binop_eval N gen_module (Cmp o) x y =
      match o with CEq => Val (OBool false) | CNe => Val (OBool true) | _ => Raise TypeError end.
Proof. intros N. exact (gen_mixed_compare_refused N gen_module gen_sidict_wf). Qed.
Print Assumptions C16_generated_mixed_compare_refused.

(* the guard of the generated SI.__add__ and SI.__sub__: SI values with different signatures are refused *)
Theorem C16_generated_si_add_sub_refuse_other_signature :
  forall N sg sg2 (a b : num N), sig_eqb sg sg2 = false ->
    gen_SI___add__ N gen_module (conc (VSI sg a)) (conc (VSI sg2 b)) = Raise ValueError /\
    gen_SI___sub__ N gen_module (conc (VSI sg a)) (conc (VSI sg2 b)) = Raise ValueError.
Proof. intros N. exact (gen_si_add_sub_signature_guard N gen_module). Qed.
Print Assumptions C16_generated_si_add_sub_refuse_other_signature.

Theorem C16_generated_generic_si_converts_iff_signatures_match :
  forall N, num_laws N -> forall sg a c q, get_class gen_classes c = Some q ->
    ((exists g, gen_SI_as_quantity N gen_module (conc (VSI sg a)) (TNamed c) = Val g) <-> cls_sig q = sg) /\
    (cls_sig q = sg -> exists b, qc_base q = GStr b /\
                                 gen_SI_as_quantity N gen_module (conc (VSI sg a)) (TNamed c) = Val (GNamed c a b)) /\
    (cls_sig q <> sg -> gen_SI_as_quantity N gen_module (conc (VSI sg a)) (TNamed c) = Raise ValueError).
Proof. intros N L. exact (gen_as_quantity_iff N gen_module L gen_base_factor_one gen_sidict_wf). Qed.
Print Assumptions C16_generated_generic_si_converts_iff_signatures_match.

(* the generated printer followed by the generated parser gives the signature back *)
Theorem C16_generated_si_string_round_trip :
  forall N (a : num N) u sig d h t,
    List.length sig = 9%nat -> Forall (fun v => (-9 <= v <= 9)%Z) sig ->
    h = "" \/ h = "^" -> t = "" \/ t = "." ->
    (do s <- gen_SI_siunit N gen_module (GSI a sig u) d h t; gen_SI_str_to_sisig N gen_module s) = Val sig.
Proof. intros N. exact (gen_parse_print N gen_module). Qed.
Print Assumptions C16_generated_si_string_round_trip.

(* non-vacuity: real values are in the closed world, and the generated methods compute Speed * Duration = Length *)
Example C16_generated_speed_times_duration_is_length :
  match find_class gen_classes "Speed", find_class gen_classes "Duration", find_class gen_classes "Length" with
  | Some sp, Some du, Some le =>
      R_eqb float_ops
        (gen_binop_eval float_ops gen_module Mul (@VNamed float_ops sp 2%float "m/s") (@VNamed float_ops du 3%float "s"))
        (Val (OVal (@VNamed float_ops le 6%float "m")))
  | _, _, _ => false
  end = true.
Proof. vm_compute. reflexivity. Qed.

Example C16_generated_closed_world_inhabited :
  exists sp, find_class gen_classes "Speed" = Some sp /\
    val_ok gen_module (@VNamed float_ops sp 2%float "m/s") /\ val_ok gen_module (@VSI float_ops [0;0;0;1;-1;0;0;0;0]%Z 2%float).
Proof. eexists. split; [vm_compute; reflexivity|]. split; [simpl; eexists; vm_compute; reflexivity|reflexivity]. Qed.

(* the closed world is closed under the operators: what an expression returns satisfies [val_ok] again, so the
   hypotheses of the theorems above stay satisfied along a computation *)
Theorem C16_generated_closed_world_is_closed :
  forall N op x y r, val_ok gen_module x -> val_ok gen_module y ->
    gen_binop_eval N gen_module op x y = Val (OVal r) -> val_ok gen_module r.
Proof. intros N. exact (gen_binop_eval_closed N gen_module gen_sidict_wf). Qed.
Print Assumptions C16_generated_closed_world_is_closed.
