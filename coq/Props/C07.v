(* C07 -- end-to-end reproducibility: a run is a function of model, seeds and settings.
   PARTIAL BY NATURE.

   Full statement (properties.jsonl): "Running the same model with the same
   parameters, seeds and replication settings yields the identical sequence of
   executed events, the identical notification stream and bit-identical final
   statistics in every interpreter process, independent of hash randomisation,
   of object identities and creation counters inherited from earlier work in
   the process, of wall-clock speed, and of where the run was paused.  When
   several listeners are subscribed to one event type they are always notified
   in subscription order, so models whose listeners schedule events or draw
   random numbers stay reproducible."

   What is proved here.  In Gallina a run IS a function of (program, raw stream
   outputs, settings); the content is in the corollaries that name what the
   implementation might depend on:
     1. creation counters / object identity: event ids enter a run only through
        the order of the ids of pending and referenced events
        (C07_run_id_monotone_invariant, C07_run_id_gaps_invariant -- Sim/Model.v);
     2. pause points: any segmentation of a replication into bounded runs,
        steps and stop/start pauses executes the same events with the same
        clocks (C07_pause_point_independence -- C03's theorem, Sim/Model.v);
     3. listener order: a firing notifies the subscribers of that moment in
        subscription order, each once, also when the notified listeners
        schedule events, draw numbers from shared streams, unsubscribe or
        subscribe others or fire again (C07_fire_notifies_snapshot_in_order on
        the composed model Sim/Repro.v; C07_pubsub_delivery_order re-exports
        C08's theorem about pubsub.py's producer model).

   What is NOT proved, and cannot be: independence of PYTHONHASHSEED, of object
   addresses and of wall-clock speed are statements about the interpreter; no
   Gallina model has those inputs.  These clauses -- and bit-identity of the
   final statistics across processes -- are carried by the multi-process tie of
   harness/c07.py alone.  The id-renaming theorem is proved for Sim/Model.v
   programs and for the composed model (listeners, streams, statistics); the
   pause-point theorem is proved for Sim/Model.v programs only -- for programs
   with pub/sub and streams pause-point independence rests on the tie. *)
From Coq Require Import ZArith List Bool Arith.
From PV Require Import EventList.Key Sim.Model Sim.Case Sim.Order Sim.Horizon Sim.Reinit Sim.ReinitProofs
  Sim.Repro Sim.ReproProofs Sim.ReproEmbed.
From PV Require PubSub.Model PubSub.Proofs PubSub.OpsProofs PubSub.SubsProofs.
Import ListNotations.
Local Open Scope Z_scope.

(* ---- clause: "independent ... of object identities and creation counters
   inherited from earlier work in the process" (the part a model can express) --
   [ren_sim f n' s]: the state s with every event id sent through f and the id
   counter at n' -- what the same pending events look like in a process whose
   SimEvent counter had a different history.  [MonoOn f n' s]: f is strictly
   monotone on the ids of the pending and referenced events, with values below n'. *)
Theorem C07_run_id_monotone_invariant : forall f n' s fuel p cs,
  (forall a, In a (dom s) -> a < nid s) -> MonoOn f n' s ->
  let ra := run_cmds fuel p s cs in
  let rb := run_cmds fuel p (ren_sim f n' s) cs in
  snd rb = snd ra /\ logs_of (fst rb) = logs_of (fst ra).
Proof. exact run_id_monotone_invariant. Qed.
Print Assumptions C07_run_id_monotone_invariant.

(* unrelated activity may consume any number of ids before every command *)
Theorem C07_run_id_gaps_invariant : forall f n' s fuel p cs,
  (forall a, In a (dom s) -> a < nid s) -> MonoOn f n' s ->
  let ra := run_cmds_burn fuel p s cs in
  let rb := run_cmds fuel p (ren_sim f n' s) (map snd cs) in
  snd rb = snd ra /\ logs_of (fst rb) = logs_of (fst ra).
Proof. exact run_id_gaps_invariant. Qed.
Print Assumptions C07_run_id_gaps_invariant.

(* the premise holds in every state of every history *)
Theorem C07_ids_below_counter : forall s, hreach s -> forall a, In a (dom s) -> a < nid s.
Proof. intros s H. apply Inv_dom_lt. apply hreach_inv. exact H. Qed.
Print Assumptions C07_ids_below_counter.

(* the same for the composed model (handlers and listeners that fire, draw from
   shared streams, (un)subscribe; statistics; SimEvent objects that were built
   BEFORE initialize -- [y_pre y]: their ids -- and are handed to
   schedule_event(event) by construct_model or a handler later).  [ren_y f n' y]
   renames the event ids of the simulator part of y and of the pre-built events;
   [domx (y_pre y) s]: the ids of pending, referenced and pre-built events.  Any
   history h of commands, with any models taking turns, gives the same
   snapshots, logs, deliveries to listeners, draws, producer, streams and
   reported statistics: also a pre-built event takes part in a run only through
   the RANK of its id.  (In the implementation that rank is "created earlier =>
   smaller id" in every process, because SimEvent's counter only grows; this is
   what the multi-process tie checks with events built before / after the
   unrelated prior activity.) *)
Theorem C07_composed_run_id_monotone_invariant : forall nint f n' y fuel hf h,
  (forall a, In a (domx (y_pre y) (y_sim y)) -> a < nid (y_sim y)) -> MonoOnX (y_pre y) f n' (y_sim y) ->
  let ra := y_hist nint fuel hf y h in
  let rb := y_hist nint fuel hf (ren_y f n' y) h in
  let ya := fst (fst ra) in let yb := fst (fst rb) in
  snd (fst rb) = snd (fst ra) /\ snd rb = snd ra
  /\ logs_of (y_sim yb) = logs_of (y_sim ya)
  /\ y_dlv yb = y_dlv ya /\ y_drw yb = y_drw ya
  /\ y_subm yb = y_subm ya /\ y_str yb = y_str ya /\ y_ser yb = y_ser ya
  /\ yreported yb = yreported ya.
Proof. exact y_run_id_monotone_invariant. Qed.
Print Assumptions C07_composed_run_id_monotone_invariant.

(* ---- clause: "independent ... of where the run was paused" --------------------
   C03's segmentation theorem: two sequences of run commands (start, step, stop,
   run_up_to, run_up_to_including with any bounds), for programs with the same
   handler code up to stop() calls, that both end the replication through an
   inclusive bound have the same executed events with the same clocks, the same
   pending / created / cancelled events and the same final clock. *)
Theorem C07_pause_point_independence : forall p p' fuel fuel' cs cs' s t,
  prog_equiv p p' -> core_eq s t -> Quiet s -> Quiet t ->
  forallb is_runcmd cs = true -> forallb is_runcmd cs' = true ->
  let s1 := fst (run_cmds fuel p s cs) in
  let t1 := fst (run_cmds fuel' p' t cs') in
  ps s1 = PEnded -> incl s1 = true -> ps t1 = PEnded -> incl t1 = true ->
  (pend s1 = pend t1 /\ nid s1 = nid t1 /\ created s1 = created t1 /\ trace s1 = trace t1
   /\ cancelled s1 = cancelled t1 /\ rep s1 = rep t1)
  /\ clock s1 = clock t1.
Proof. exact segmentation. Qed.
Print Assumptions C07_pause_point_independence.

(* The composed model restricted to programs without pub/sub, streams and
   statistics IS Sim/Model.v ([embed p]; hf: machine fuel above the longest
   handler body): same simulator state and snapshots for every command sequence.
   So the pause-point theorem holds for this fragment of the composed model; for
   programs WITH listeners and streams pause-point independence is carried by
   the tie (every child's segmented run is evaluated on the composed model and
   all digests are compared). *)
Theorem C07_composed_model_extends_Sim_Model : forall nint p hf,
  (forall h, (length (body p h) < hf)%nat) ->
  forall fuel cs y,
  let ry := y_hist nint fuel hf y (map (fun c => (embed p, c)) cs) in
  let rm := run_cmds fuel p (y_sim y) cs in
  y_sim (fst (fst ry)) = fst rm /\ snd (fst ry) = snd rm /\ snd ry = false.
Proof. intros nint p hf H fuel cs y. exact (y_hist_embed nint p hf H fuel cs y). Qed.
Print Assumptions C07_composed_model_extends_Sim_Model.

Theorem C07_composed_pause_point_independence_fragment : forall nint p p' hf hf' fuel fuel' cs cs' y t,
  (forall h, (length (body p h) < hf)%nat) -> (forall h, (length (body p' h) < hf')%nat) ->
  prog_equiv p p' -> core_eq (y_sim y) (y_sim t) -> Quiet (y_sim y) -> Quiet (y_sim t) ->
  forallb is_runcmd cs = true -> forallb is_runcmd cs' = true ->
  let s1 := y_sim (fst (fst (y_hist nint fuel hf y (map (fun c => (embed p, c)) cs)))) in
  let t1 := y_sim (fst (fst (y_hist nint fuel' hf' t (map (fun c => (embed p', c)) cs')))) in
  ps s1 = PEnded -> incl s1 = true -> ps t1 = PEnded -> incl t1 = true ->
  trace s1 = trace t1 /\ clock s1 = clock t1 /\ pend s1 = pend t1.
Proof. exact composed_pause_point_independence_embedded. Qed.
Print Assumptions C07_composed_pause_point_independence_fragment.

(* ---- clause: "When several listeners are subscribed to one event type they
   are always notified in subscription order, so models whose listeners schedule
   events or draw random numbers stay reproducible" ------------------------------
   The composed model: [ymachine] executes handler / listener code over a stack
   of pending work; [y_subm y]: the producer's subscriber lists; [y_ser y]: the
   number the next fired event gets; [notified ser n]: the listeners notified of
   event no. ser in the piece n of the delivery log, oldest first.  The theorem
   holds in every configuration of the machine ([stack_ok]: deliveries still
   pending belong to earlier events -- true at the start of every handler and
   preserved), for every listener program (scheduling, draws from shared
   streams, observations, (un)subscriptions, nested firings) and every next_int
   function. *)
Theorem C07_fire_notifies_snapshot_in_order : forall nint M fuel md y et r,
  stack_ok y r -> ycompletes nint M fuel md y (IAct (YFire et) :: r) = true ->
  let res := ymachine nint M fuel md y (IAct (YFire et) :: r) in
  exists n, y_dlv (fst res) = n ++ y_dlv y
    /\ (snd res = false -> notified (y_ser y) n = PS.subscribers (y_subm y) et)
    /\ exists k, notified (y_ser y) n = firstn k (PS.subscribers (y_subm y) et).
Proof. exact fire_notifies_snapshot_in_order. Qed.
Print Assumptions C07_fire_notifies_snapshot_in_order.

Theorem C07_handler_code_starts_with_no_delivery_pending : forall y acts, stack_ok y (map IAct acts).
Proof. exact stack_ok_start. Qed.
Print Assumptions C07_handler_code_starts_with_no_delivery_pending.

(* the subscriber list is in order of subscription: subscribing appends at the
   end (a listener already subscribed keeps its place), unsubscribing removes
   that listener and keeps the order of the others *)
Theorem C07_subscribing_appends : forall et l m et',
  PS.subscribers (PS.sub_add et l m) et' =
  if Nat.eqb et' et
  then (if PS.memb l (PS.subscribers m et) then PS.subscribers m et else PS.subscribers m et ++ [l])
  else PS.subscribers m et'.
Proof. exact subscribe_appends. Qed.
Print Assumptions C07_subscribing_appends.

Theorem C07_unsubscribing_keeps_order : forall et l m et', PV.PubSub.SubsProofs.wf m ->
  PS.subscribers (PS.sub_remove et l m) et' =
  if Nat.eqb et' et then PV.PubSub.SubsProofs.without l (PS.subscribers m et) else PS.subscribers m et'.
Proof. exact unsubscribe_keeps_order. Qed.
Print Assumptions C07_unsubscribing_keeps_order.

(* C08's theorem for the producer model of pubsub.py (all histories, re-entrant
   listeners): the listeners notified by fire invocation i are exactly the
   subscribers at the moment of firing, in subscription order, each once *)
Theorem C07_pubsub_delivery_order :
  forall E fuel scr ops s' t i ev subs,
    PV.PubSub.Model.run_top E fuel (PV.PubSub.Model.init scr) ops = Some (s', t) ->
    In (PV.PubSub.Model.ObsFire i ev subs) t -> In (PV.PubSub.Model.ObsFireDone i) t ->
    PV.PubSub.OpsProofs.notified i t = subs /\
    (forall l, count_occ Nat.eq_dec (PV.PubSub.OpsProofs.notified i t) l
               = if PV.PubSub.Model.memb l subs then 1%nat else 0%nat) /\
    Forall (fun d => snd d = ev) (PV.PubSub.Proofs.dels i t).
Proof. exact PV.PubSub.OpsProofs.exactly_once_history. Qed.
Print Assumptions C07_pubsub_delivery_order.

(* ---- non-vacuity and why the order matters ------------------------------------
   One self-rescheduling handler fires type 0 to three listeners that draw from
   ONE shared stream: listener 0 schedules a leaf event after a drawn delay,
   listener 1 observes a drawn value and unsubscribes listener 2 the first time,
   listener 2 observes a drawn value.  With subscription order 0,1,2 and with
   order 2,1,0 the runs differ (other delays, other observed values): a
   notification order that is not the subscription order -- a set, an
   address-ordered container -- changes the run. *)
Definition ex_nint (lo hi k : Z) : Z := lo + k mod (hi - lo + 1).
Definition ex_model (subs : list (nat * nat)) : ymodel :=
  mkYModel
    [ [YA (ASched (MRel (TNum 4)) 5 1)];
      [YFire 0; YSchedD 0 1 3 4 5 1];
      [YA (AObs 0 1)] ]
    [ [YSchedD 0 0 5 4 5 2];
      [YObsD 0 0 0 9; YUnsub 0 2];
      [YObsD 1 0 0 9] ]
    subs [] [[3; 14; 15; 92; 65; 35; 89; 79; 32; 38; 46; 26; 43; 38; 32; 79; 50; 28; 84; 19; 71; 69; 39; 93]] [].
Definition ex_run (subs : list (nat * nat)) : ysim :=
  fst (fst (y_hist ex_nint 100 100 (y0 SLog)
              [(ex_model subs, CInit (mkRepl 0 0 40)); (ex_model subs, CStart)])).

Example ex_fanout_hypotheses :
  let M := ex_model [(0, 0); (0, 1); (0, 2)]%nat in
  let y := fst (fst (ydo_cmd ex_nint 100 100 M (y0 SLog) (CInit (mkRepl 0 0 40)))) in
  stack_ok y [] /\ ycompletes ex_nint M 100 InRun y [IAct (YFire 0)] = true
  /\ PS.subscribers (y_subm y) 0 = [0; 1; 2]%nat
  /\ snd (ymachine ex_nint M 100 InRun y [IAct (YFire 0)]) = false
  /\ map d_l (rev (y_dlv (fst (ymachine ex_nint M 100 InRun y [IAct (YFire 0)])))) = [0; 1; 2]%nat
  /\ PS.subscribers (y_subm (fst (ymachine ex_nint M 100 InRun y [IAct (YFire 0)]))) 0 = [0; 1]%nat.
Proof. cbv zeta. split; [constructor|]. vm_compute. repeat split. Qed.

Example ex_order_matters :
  let a := ex_run [(0, 0); (0, 1); (0, 2)]%nat in
  let b := ex_run [(0, 2); (0, 1); (0, 0)]%nat in
  flag (y_sim a) = false /\ flag (y_sim b) = false /\ ps (y_sim a) = PEnded /\ ps (y_sim b) = PEnded
  /\ length (trace (y_sim a)) = 8%nat
  /\ user_trace (y_sim a) <> user_trace (y_sim b)
  /\ user_obs (y_sim a) <> user_obs (y_sim b).
Proof. vm_compute. repeat split; discriminate. Qed.

(* a SimEvent object built before initialize (time 8, priority 5, handler 2) is
   handed to schedule_event(event) by construct_model after an ordinary event for
   the same time and priority (handler 1) was scheduled: with an id below the
   counter -- as in every process of the implementation -- it runs first; if its
   id were above the ids of the replication (an id counter restarted at
   initialize after earlier work in the process) it would run second *)
Definition ex_pre_model : ymodel :=
  mkYModel [ [YA (ASched (MAbs (TNum 8)) 5 1); YSchedPre 0]; [YA (AObs 0 1)]; [YA (AObs 0 2)] ]
           [] [] [] [] [(8, 5, 2%nat)].
Definition ex_pre_run (pre : list Z) : ysim :=
  fst (fst (y_hist ex_nint 100 100 (y0p SLog pre)
              [(ex_pre_model, CInit (mkRepl 0 0 40)); (ex_pre_model, CStart)])).

Example ex_prebuilt_event_rank :
  user_obs (y_sim (ex_pre_run [-1])) = [ObsV 0 2 8; ObsV 0 1 8]
  /\ user_obs (y_sim (ex_pre_run [-7])) = [ObsV 0 2 8; ObsV 0 1 8]
  /\ user_obs (y_sim (ex_pre_run [1000])) = [ObsV 0 1 8; ObsV 0 2 8]
  /\ flag (y_sim (ex_pre_run [-1])) = false.
Proof. vm_compute. repeat split. Qed.
