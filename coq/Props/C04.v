(* C04 - Simulator lifecycle: commands, states and notifications follow the protocol.

   M1 (sequential, Sim/Lifecycle*.v): theorems over Sim/Model.v's own command
   semantics [do_cmd] / [run_cmds], for every program, every fuel and every
   command list.  M2 (overlap, Sim/Overlap*.v): theorems over the two-thread
   transition system, for every interleaving of its steps. *)
From Coq Require Import ZArith List Bool.
From PV Require Import Sim.Model Sim.Lifecycle Sim.LifecycleProofs Sim.LifecycleWarmup Sim.Overlap Sim.OverlapProofs.
Import ListNotations.
Local Open Scope Z_scope.

(* ---- clause: each command takes effect or is refused exactly as the
   documented run-state / replication-state rules prescribe (Lifecycle.table;
   start / step / bounded runs are refused when the clock is *beyond* the
   replication end - at the end itself a paused run can still be resumed; an
   initialize that is not refused is aborted - third outcome ResRaised - exactly
   when the model's construct_model raises) ---- *)
Theorem C04_accept_refuse_table :
  forall fuel p st s c, reachable fuel p st s ->
    snd (do_cmd fuel p s c)
    = table c (rs s) (ps s) (end_time s <? clock s) (bound_ok c (clock s)) (construct_raises p).
Proof. exact accept_refuse_table. Qed.
Print Assumptions C04_accept_refuse_table.

(* ---- clause: a refused command changes nothing and notifies nobody
   (for every state, reachable or not) ---- *)
Theorem C04_refused_changes_nothing :
  forall fuel p s c s', do_cmd fuel p s c = (s', ResRefused) -> s' = s.
Proof. exact refused_changes_nothing. Qed.
Print Assumptions C04_refused_changes_nothing.

Theorem C04_refused_notifies_nobody :
  forall fuel p s c s', do_cmd fuel p s c = (s', ResRefused) -> new_ntfs s s' = [].
Proof. exact refused_notifies_nobody. Qed.
Print Assumptions C04_refused_notifies_nobody.

(* ---- clause: subscribers see a well-formed stream.  [lifecycle_ok] runs the
   command list and feeds what each command notifies to the monitor automaton
   Lifecycle.mon_step (START_REPLICATION once and first; STARTING immediately
   followed by START; START / STOP strictly alternating; TIME_CHANGED only
   between START and STOP; all timestamps non-decreasing; WARMUP at most once,
   between START and STOP, with the warm-up time as timestamp; END_REPLICATION
   once, outside START..STOP, and last); it also checks after every command
   that the monitor is quiet, that the state is one of the four quiescent
   combinations and that state and monitor agree.
   That WARMUP *is* emitted when the run reaches the warm-up time is
   C04_warmup_when_reached below. ---- *)
Theorem C04_stream_wf :
  forall fuel p st cs, lifecycle_ok fuel p (init_sim st) mon_dead cs = true.
Proof. exact stream_wf. Qed.
Print Assumptions C04_stream_wf.

(* the warm-up notification is emitted when the run reaches the warm-up time:
   after any command list without end_replication (which discards the pending
   warm-up event by design), if the warm-up time is not before the start of
   the replication and the clock has passed it, the monitor has seen WARMUP in
   this replication - by C04_stream_wf exactly once, with the warm-up time as
   timestamp, between START and STOP *)
Theorem C04_warmup_when_reached :
  forall fuel p st cs s m r,
    forallb (fun c => negb (is_endrepl c)) cs = true ->
    lifecycle_run fuel p (init_sim st) mon_dead cs = Some (s, m) ->
    rs_initialized (rs s) = true -> rep s = Some r ->
    r_start r <= r_warm r -> r_warm r < clock s ->
    m_warm m = true.
Proof. exact warmup_when_reached. Qed.
Print Assumptions C04_warmup_when_reached.

Example C04_warmup_hypotheses_satisfiable :
  exists s m,
    lifecycle_run 100 [[ASched (MAbs (TNum 4)) 5 1]; []] (init_sim SWarnPause) mon_dead
                  [CInit (mkRepl 0 2 16); CStep; CRunUpTo (TNum 8)] = Some (s, m)
    /\ rs_initialized (rs s) = true /\ rep s = Some (mkRepl 0 2 16) /\ 2 < clock s /\ m_warm m = true.
Proof.
  destruct (lifecycle_run 100 [[ASched (MAbs (TNum 4)) 5 1]; []] (init_sim SWarnPause) mon_dead
                          [CInit (mkRepl 0 2 16); CStep; CRunUpTo (TNum 8)]) as [[s m]|] eqn:E;
    [|vm_compute in E; discriminate].
  exists s, m. split; [reflexivity|]. vm_compute in E. injection E as <- <-. vm_compute. auto.
Qed.

(* TIME_CHANGED carries the time of the event about to run: one pass of the
   run loop notifies TIME_CHANGED(t) exactly when t, the time of the first
   pending event, differs from the clock, and then executes that event at
   clock t; step() always notifies *)
Theorem C04_time_changed_is_next_event :
  forall p s e r, exists l,
    ntfs (take_event p s e r) = rev l ++ rev (tc_part s e) ++ ntfs s /\
    trace (take_event p s e r) = (e, ev_time e) :: trace s /\
    (forall n, In n l -> n = NStopping \/ n = NWarmup (ev_time e)).
Proof. exact time_changed_is_next_event. Qed.
Print Assumptions C04_time_changed_is_next_event.

Theorem C04_step_time_changed_is_event :
  forall p s e r, exists l,
    ntfs (step_event p s e r) = rev l ++ NTime (ev_time e) :: ntfs s /\
    trace (step_event p s e r) = (e, ev_time e) :: trace s /\
    (forall n, In n l -> n = NStopping \/ n = NWarmup (ev_time e)).
Proof. exact step_time_changed_is_event. Qed.
Print Assumptions C04_step_time_changed_is_event.

(* ---- clause: after END_REPLICATION the simulator reports ENDED, refuses
   start, step and stop (and bounded runs and end_replication), and its run
   thread has terminated ---- *)
Theorem C04_ended_absorbing :
  forall fuel p st s, reachable fuel p st s -> ps s = PEnded ->
    rs s = REnded /\ worker s = WFinal /\ alive_count s = 0%nat /\
    forall c, leaves_ended c = false -> do_cmd fuel p s c = (s, ResRefused).
Proof. exact ended_absorbing. Qed.
Print Assumptions C04_ended_absorbing.

(* the hypotheses are satisfiable: initialize + start reaches ENDED *)
Example C04_ended_reachable :
  exists s, reachable 100 [[ASched (MAbs (TNum 4)) 5 1]; []] SWarnPause s /\ ps s = PEnded.
Proof.
  exists (fst (run_cmds 100 [[ASched (MAbs (TNum 4)) 5 1]; []] (init_sim SWarnPause)
                        [CInit (mkRepl 0 2 16); CStart])).
  split; [exists [CInit (mkRepl 0 2 16); CStart]; reflexivity|vm_compute; reflexivity].
Qed.

(* ---- clause: the run thread terminates after cleanup (and only the states
   INITIALIZED / STARTED have a live run thread) ---- *)
Theorem C04_cleanup_terminates_worker :
  forall fuel p s,
    let s' := fst (do_cmd fuel p s CCleanup) in
    snd (do_cmd fuel p s CCleanup) = ResOk /\
    worker s' = WNone /\ alive_count s' = 0%nat /\ rs s' = RNotInit /\ ps s' = PNotInit.
Proof. exact cleanup_terminates_worker. Qed.
Print Assumptions C04_cleanup_terminates_worker.

(* the run thread is alive exactly in INITIALIZED / STARTED - and, after an
   initialize aborted by an exception of construct_model, in the state
   (NOT_INITIALIZED, NOT_INITIALIZED) that still holds the newly created thread
   until the next initialize / cleanup.  Without a failing construct_model that
   state does not occur (companion below), and the statement is the old one. *)
Theorem C04_run_thread_alive_iff_runnable :
  forall fuel p st s, reachable fuel p st s ->
    alive_count s = (if ps_runnable (ps s) || holds_aborted_thread s then 1%nat else 0%nat).
Proof. exact alive_iff_runnable. Qed.
Print Assumptions C04_run_thread_alive_iff_runnable.

Theorem C04_no_aborted_thread_without_failing_construct :
  forall fuel p st s, construct_raises p = false -> reachable fuel p st s ->
    holds_aborted_thread s = false.
Proof. exact no_aborted_thread_without_failing_construct. Qed.
Print Assumptions C04_no_aborted_thread_without_failing_construct.

(* Run-thread accounting over ALL histories, aborted initializes included:
   [vreach] lets the model program differ from command to command, so that
   construct_model may raise in some initialize calls and not in others.  In
   every such state: at most one live run thread; none once the replication has
   ENDED; none after cleanup; one exactly when the replication is INITIALIZED /
   STARTED or an aborted initialize left its thread waiting; and the next
   initialize replaces that thread rather than adding one.
   (The model keeps ONE run-thread field - initialize terminates the previous
   thread before it creates the next, Model.do_init - so "at most one" is how
   the model is built; that the implementation does the same is what the per-run
   correspondence checks by counting live SimulatorWorkerThread objects by
   identity after every command and after the final cleanup.) *)
Theorem C04_run_thread_accounting :
  forall fuel s, vreach fuel s ->
    (alive_count s <= 1)%nat /\
    (ps s = PEnded -> alive_count s = 0%nat) /\
    (forall p, alive_count (fst (do_cmd fuel p s CCleanup)) = 0%nat) /\
    (alive_count s = 1%nat <-> ps_runnable (ps s) = true \/ holds_aborted_thread s = true) /\
    (forall p r, (alive_count (fst (do_cmd fuel p s (CInit r))) <= 1)%nat).
Proof. exact run_thread_accounting. Qed.
Print Assumptions C04_run_thread_accounting.

(* non-vacuity: a history with an aborted initialize (construct_model raises),
   then a successful one, a run to the end and a cleanup; the thread counts *)
Example C04_history_with_aborted_initialize :
  let pbad : program := [[ASched (MAbs (TNum 4)) 5 1; AFail]; []] in
  let pok : program := [[ASched (MAbs (TNum 4)) 5 1]; []] in
  let s0 := init_sim SWarnPause in
  let s1 := fst (do_cmd 100 pbad s0 (CInit (mkRepl 0 2 16))) in
  let s2 := fst (do_cmd 100 pok s1 (CInit (mkRepl 0 2 16))) in
  let s3 := fst (do_cmd 100 pok s2 CStart) in
  let s4 := fst (do_cmd 100 pok s3 CCleanup) in
  vreach 100 s4 /\
  snd (do_cmd 100 pbad s0 (CInit (mkRepl 0 2 16))) = ResRaised /\
  holds_aborted_thread s1 = true /\ alive_count s1 = 1%nat /\
  snd (do_cmd 100 pok s1 (CInit (mkRepl 0 2 16))) = ResOk /\ alive_count s2 = 1%nat /\
  ps s3 = PEnded /\ alive_count s3 = 0%nat /\ alive_count s4 = 0%nat.
Proof.
  cbv zeta. split; [|vm_compute; auto 10].
  repeat apply vr_step. apply vr_init.
Qed.

(* ---- clause: this also holds when a command overlaps the run thread's own
   transitions - PARTIAL.
   Full statement: for every interleaving of a command with the run thread,
   every quiescent state satisfies M1's invariants (Overlap.qgood).
   Proved: (a) the generic inductive-invariant lemma for closed tables; (b) the
   statement under the sequential discipline; (c) the statement when commands
   overlap the run thread only inside the windows Overlap.safe_pair
   (_partial); (d) for unrestricted overlap a classification of what can be
   wrong; (e) refutations of the full statement with explicit schedules - the
   two races named in the property and the lost wake-up of end_replication.
   Missing: M2 abstracts CPython's preemption to the listed shared accesses, and
   the implementation is tied to M2 by sampled forced interleavings only. *)
Theorem C04_closed_invariant :
  forall (succ : ostate -> list ostate) (start : ostate) (T : PM.t ostate) (P : ostate -> bool),
    memb T start = true -> closed succ T = true -> forallb P (states T) = true ->
    forall s, reach succ start s -> P s = true.
Proof. exact closed_invariant. Qed.
Print Assumptions C04_closed_invariant.

Theorem C04_sequential_quiescent_good :
  forall s, oreach false pol_quiescent s -> quiescent s = true -> qgood s = true.
Proof. exact sequential_quiescent_good. Qed.
Print Assumptions C04_sequential_quiescent_good.

Theorem C04_quiescent_consistent_partial :
  forall s, oreach false pol_safe s -> quiescent s = true -> qgood s = true.
Proof. exact quiescent_consistent_partial. Qed.
Print Assumptions C04_quiescent_consistent_partial.

Theorem C04_overlap_quiescent_classified :
  forall s, oreach false pol_any s ->
    o_err s = false /\
    (quiescent s = true ->
     o_runflag s = false /\ (qgood s = true \/ symptom s = true) /\
     (o_ps s = PNotInit -> worker_dead s = true)).
Proof. exact overlap_quiescent_classified. Qed.
Print Assumptions C04_overlap_quiescent_classified.

Theorem C04_sequential_loose_only_stale_runflag :
  forall s, oreach true pol_quiescent s -> quiescent s = true ->
    qgood s = true \/ (o_runflag s = true /\ qgood (up_runflag false s) = true).
Proof. exact sequential_loose_only_stale_runflag. Qed.
Print Assumptions C04_sequential_loose_only_stale_runflag.

Theorem C04_overlap_loose_quiescent_classified :
  forall s, oreach true pol_any s -> quiescent s = true -> qgood s = true \/ symptom_loose s = true.
Proof. exact overlap_loose_quiescent_classified. Qed.
Print Assumptions C04_overlap_loose_quiescent_classified.

(* the start handshake: start() does not return before the run thread has
   written STARTED and entered the run loop (strict waits); a START subscriber
   slower than the one second start() waits breaks this (loose waits) *)
Theorem C04_start_returns_after_started :
  forall s, oreach false pol_any s -> handshake_ok s = true.
Proof. exact start_returns_after_started. Qed.
Print Assumptions C04_start_returns_after_started.

Theorem C04_start_handshake_loose_refuted :
  exists s, oreach true pol_any s /\ handshake_ok s = false /\ o_rs s = RStarting /\ o_w s = WSetStarted.
Proof. exact start_handshake_loose_refuted. Qed.
Print Assumptions C04_start_handshake_loose_refuted.

Theorem C04_overlap_stop_end_refuted :
  exists s, oreach false pol_any s /\ quiescent s = true /\
            o_rs s = RStopping /\ o_ps s = PEnded /\ worker_dead s = true /\ qgood s = false.
Proof. exact overlap_stop_end_refuted. Qed.
Print Assumptions C04_overlap_stop_end_refuted.

Theorem C04_overlap_start_stopping_refuted :
  exists s, oreach false pol_any s /\ quiescent s = true /\
            o_rs s = RStopped /\ o_ps s = PStarted /\ worker_waiting s = true /\
            starting_lost s = true /\ qgood s = false.
Proof. exact overlap_start_stopping_refuted. Qed.
Print Assumptions C04_overlap_start_stopping_refuted.

Theorem C04_overlap_end_replication_lost_wakeup_refuted :
  exists s, oreach false pol_any s /\ quiescent s = true /\
            o_rs s = RStopped /\ o_ps s = PEnding /\ worker_waiting s = true /\ qgood s = false.
Proof. exact overlap_end_replication_lost_wakeup_refuted. Qed.
Print Assumptions C04_overlap_end_replication_lost_wakeup_refuted.

(* the hypotheses of the overlap theorems are satisfiable by non-trivial states *)
Example C04_overlap_ended_reachable :
  exists s, oreach false pol_quiescent s /\ quiescent s = true /\ o_ps s = PEnded /\ qgood s = true.
Proof. exact ended_reachable_sequentially. Qed.

(* ---- the model regenerated from the source IS the proved model (M1, sequential) --
   Sim/Gen_Sim.v is regenerated on every run by translator/py2gallina_sim.py from
   simulator.py of the tree under test; Sim/GenAgree.v proves the generated methods
   equal to the command semantics of Sim/Model.v the sequential theorems above are
   about: the precondition blocks of _start_impl / start / run_up_to(_including) /
   step / stop / end_replication / initialize in their order and with their
   refusals, the state updates and notifications of each command, cleanup, and one
   wake-up of the worker thread's run().  [sim_wf] is the representation invariant
   of the Python object (an initialised simulator has a replication and a worker
   thread); it holds in every state reachable from a fresh simulator.  The thread
   machinery itself is not translated: overlap is M2 (Sim/Overlap.v) above. ---- *)
From PV Require Import Sim.Gen_Sim Sim.GenAgree.

Theorem C04_generated_model_is_the_proved_model :
  (forall fuel p s c, sim_wf s -> gen_do_cmd fuel p s c = do_cmd fuel p s c) /\
  (forall fuel p cs s, sim_wf s -> gen_run_cmds fuel p s cs = run_cmds fuel p s cs) /\
  (forall fuel p w s, rep s <> None -> gen_SimulatorWorkerThread_run fuel p w s = GRet RNone w (worker_run fuel p s)) /\
  (forall w s, gen_Simulator_stop w s =
               if running s then GRet RNone w (set_rs RStopping (emit NStopping s)) else GExc EDSOL w s) /\
  (forall w s, gen_Simulator_cleanup w s = GRet RNone (match worker s with WNone => w | _ => false end) (do_cleanup s)) /\
  (forall fuel p s, (ps s = PStarted -> rep s <> None /\ worker s <> WNone) ->
     gen_settle fuel p (gen_DEVSSimulator_end_replication false s) = do_end_repl fuel p s) /\
  (forall fuel p s, gen_settle fuel p (gen_DEVSSimulator_initialize p false s ModelBad (ReplOk (mkRepl 0 0 40))) = (s, ResRefused)).
Proof.
  exact (conj gen_do_cmd_eq (conj gen_run_cmds_eq (conj gen_worker_run_eq (conj gen_stop_eq
          (conj gen_cleanup_eq (conj gen_end_replication_eq gen_initialize_bad_eq)))))).
Qed.
Print Assumptions C04_generated_model_is_the_proved_model.

(* every state the command lists reach from a fresh simulator satisfies the representation invariant *)
Theorem C04_generated_reachable_wf : forall fuel p st s, reachable fuel p st s -> sim_wf s.
Proof.
  intros fuel p st s [cs ->]. apply (reachable_wf p), PV.Sim.Order.run_cmds_reachable, PV.Sim.Order.reach_init.
Qed.
Print Assumptions C04_generated_reachable_wf.

Theorem C04_generated_accept_refuse_table :
  forall fuel p st s c, reachable fuel p st s ->
    snd (gen_do_cmd fuel p s c)
    = table c (rs s) (ps s) (end_time s <? clock s) (bound_ok c (clock s)) (construct_raises p).
Proof.
  intros fuel p st s c H. rewrite gen_do_cmd_eq by (exact (C04_generated_reachable_wf fuel p st s H)).
  apply accept_refuse_table with (st := st). exact H.
Qed.
Print Assumptions C04_generated_accept_refuse_table.

Theorem C04_generated_refused_changes_nothing :
  forall fuel p s c s', sim_wf s -> gen_do_cmd fuel p s c = (s', ResRefused) -> s' = s.
Proof. intros fuel p s c s' Hwf. rewrite gen_do_cmd_eq by exact Hwf. apply refused_changes_nothing. Qed.
Print Assumptions C04_generated_refused_changes_nothing.

Theorem C04_generated_refused_notifies_nobody :
  forall fuel p s c s', sim_wf s -> gen_do_cmd fuel p s c = (s', ResRefused) -> new_ntfs s s' = [].
Proof. intros fuel p s c s' Hwf. rewrite gen_do_cmd_eq by exact Hwf. apply refused_notifies_nobody. Qed.
Print Assumptions C04_generated_refused_notifies_nobody.

(* a refused initialize -- a running simulator, a bad model or replication argument -- leaves the
   simulator object, the pending events included, as it was (for every state) *)
Theorem C04_generated_refused_initialize_changes_nothing :
  forall p w s m r k w' s',
    gen_DEVSSimulator_initialize p w s m r = GExc k w' s' -> running s = true \/ m <> ModelOk \/ r = ReplBad -> s' = s.
Proof. exact gen_refused_initialize_changes_nothing. Qed.
Print Assumptions C04_generated_refused_initialize_changes_nothing.

Theorem C04_generated_stream_wf :
  forall fuel p st cs,
    fst (gen_run_cmds fuel p (init_sim st) cs) = fst (run_cmds fuel p (init_sim st) cs)
    /\ lifecycle_ok fuel p (init_sim st) mon_dead cs = true.
Proof.
  intros fuel p st cs. split; [rewrite gen_run_cmds_eq by apply init_sim_wf; reflexivity|apply stream_wf].
Qed.
Print Assumptions C04_generated_stream_wf.
