(* C04 placeholder while proofs are being written; replaced below. *)
From PV Require Import Sim.Model.
Theorem C04_placeholder : True. Proof. exact I. Qed.
Print Assumptions C04_placeholder.
