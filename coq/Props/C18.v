From PV Require Import Params.Model Params.Proofs.
Theorem C18_stub : True. Proof. exact stub_true. Qed.
Print Assumptions C18_stub.
