(* C18 — input parameters always hold a valid value, addressable by their
   dotted key.  Property-level theorems only; each is closed by [exact] of a
   lemma proved in Params/Proofs.v and followed by Print Assumptions.

   Vocabulary (Params/Model.v): a tree of parameters is a [param]
   ([Leaf hdr read_only constraint default value] or [Map hdr children]);
   [step repaired] transcribes set_value / add / remove / get of
   parameters.py and set_parameter / get_parameter of model.py as they are in
   /repo now ([step_root] is the same function with the dotted key pre-split
   into segments, see C18_transcription_is_segment_walk); [run] folds it over an operation list starting from the root map
   a DSOLModel creates ([init]); [valid_for c v] is the declared type / bounds /
   option list / quantity type of each class; identities ([h_id]) are creation
   stamps; [h_seq] is the stamp of the insertion into the current map.  A state
   is a forest: the model's tree ([st_root]) and the parent-less objects built
   so far ([st_free]); [all_nodes] lists every parameter of all of them;
   [same_obj] = same identity, key and priority. *)
From Coq Require Import ZArith QArith List Bool String Ascii Sorted Permutation.
From PV Require Import Params.Model Params.Proofs.
Import ListNotations.
Local Open Scope list_scope.

(* ------------------------------------------------------------------ clause 1
   "for every sequence of set-value attempts (and adds, removes, gets,
   constructions that may fail, model-level sets / gets) a parameter's value
   always satisfies its declared type, bounds, option list or quantity type" *)
Theorem C18_value_always_valid :
  forall ops p, In p (all_nodes (run repaired init ops)) -> leaf_ok p.
Proof. exact value_always_valid. Qed.
Print Assumptions C18_value_always_valid.

(* the same from any well-formed state, e.g. a tree built earlier *)
Theorem C18_value_always_valid_from :
  forall st ops p, wf_state st -> In p (all_nodes (run repaired st ops)) -> leaf_ok p.
Proof. exact value_always_valid_from. Qed.
Print Assumptions C18_value_always_valid_from.

(* set_value accepts exactly the valid values of a writable parameter: what is
   accepted is valid, and every invalid value (wrong type, out of bounds, not
   an option, wrong quantity type, NaN) and every value for a read-only
   parameter is refused *)
Theorem C18_set_value_accepts_exactly_valid :
  forall ro c v, check_set repaired ro c v = None <-> (ro = false /\ valid_for c v = true).
Proof. exact check_set_repaired. Qed.
Print Assumptions C18_set_value_accepts_exactly_valid.

Theorem C18_set_value_decides :
  forall h ro c d v0 v,
    (ro = false /\ valid_for c v = true -> set_value repaired v (Leaf h ro c d v0) = Val (Leaf h ro c d v)) /\
    (~ (ro = false /\ valid_for c v = true) -> exists e, set_value repaired v (Leaf h ro c d v0) = Raise e).
Proof. exact set_value_decides. Qed.
Print Assumptions C18_set_value_decides.

(* ------------------------------------------------------------------ clause 2
   "a rejected attempt leaves the value unchanged" — every operation that
   raises leaves the whole tree as it was *)
Theorem C18_rejected_unchanged :
  forall st o e, snd (step repaired st o) = ORaise e ->
    st_root (fst (step repaired st o)) = st_root st /\ st_free (fst (step repaired st o)) = st_free st.
Proof. exact rejected_unchanged. Qed.
Print Assumptions C18_rejected_unchanged.

(* ------------------------------------------------------------------ clauses 3, 4
   "read-only parameters never change, and the default value never changes":
   a parameter present after ops1 ++ ops2 that was created during ops1 was
   present after ops1 with the same header, read-only flag, constraint and
   default ... *)
Theorem C18_default_never_changes :
  forall ops1 ops2 h ro c d v',
    let st1 := run repaired init ops1 in
    In (Leaf h ro c d v') (all_nodes (run repaired st1 ops2)) -> (h_id h < st_next st1)%nat ->
    exists h0 v, In (Leaf h0 ro c d v) (all_nodes st1) /\ same_obj h0 h.
Proof. exact default_never_changes. Qed.
Print Assumptions C18_default_never_changes.

(* ... and, when read-only, with the same value ... *)
Theorem C18_read_only_never_changes :
  forall ops1 ops2 h c d v',
    let st1 := run repaired init ops1 in
    In (Leaf h true c d v') (all_nodes (run repaired st1 ops2)) -> (h_id h < st_next st1)%nat ->
    exists h0, In (Leaf h0 true c d v') (all_nodes st1) /\ same_obj h0 h.
Proof. exact read_only_never_changes. Qed.
Print Assumptions C18_read_only_never_changes.

(* ... so a read-only parameter holds its default value for ever *)
Theorem C18_read_only_value_is_default :
  forall ops h c d v, In (Leaf h true c d v) (all_nodes (run repaired init ops)) -> v = d.
Proof. exact read_only_value_is_default. Qed.
Print Assumptions C18_read_only_value_is_default.

(* parameters are named by identity (creation stamp) above; in every
   reachable tree identities are pairwise distinct, so the name is unambiguous *)
Theorem C18_identities_unique :
  forall ops, NoDup (map pid (all_nodes (run repaired init ops))).
Proof. exact ids_unique. Qed.
Print Assumptions C18_identities_unique.

(* general form, from any state *)
Theorem C18_leaf_history :
  forall ops st h ro c d v',
    In (Leaf h ro c d v') (all_nodes (run repaired st ops)) -> (h_id h < st_next st)%nat ->
    exists h0 v, In (Leaf h0 ro c d v) (all_nodes st) /\ same_obj h0 h /\ (ro = true -> v' = v).
Proof. exact leaf_history. Qed.
Print Assumptions C18_leaf_history.

(* ------------------------------------------------------------------ clause 5
   "within a parameter tree every parameter is retrievable ... by its
   dot-separated extended key": [ext_keys "" root] lists every parameter with
   its extended_key(); lookups are relative to the map, so the root's own key
   is stripped ([rel_key]) *)
Theorem C18_get_by_extended_key :
  forall n root ek x,
    wf n root -> has_dot (pkey root) = false ->
    In (ek, x) (ext_keys EmptyString root) -> ek <> pkey root ->
    get root (rel_key ek) = Val x.
Proof. exact get_by_extended_key. Qed.
Print Assumptions C18_get_by_extended_key.

(* the recursion of get / remove (parts[0], then the text after the first '.')
   visits exactly the segments the model walks *)
Theorem C18_path_splitting :
  (forall key, has_dot key = true -> segments key = before_dot key :: segments (after_dot key)) /\
  (forall key, has_dot key = false -> segments key = [key]).
Proof. exact (conj segments_first_rest segments_nodot). Qed.
Print Assumptions C18_path_splitting.

(* the line-by-line transcription of get / remove / "get then change in place"
   (what the correspondence check executes, [step] and [run] are built on it)
   is the same function as the walk over segments the other theorems use *)
Theorem C18_transcription_is_segment_walk :
  (forall m key, py_get m key = get m key) /\
  (forall m key, py_remove m key = remove_at (segments key) m) /\
  (forall f m key, py_modify f m key = modify (segments key) f m) /\
  (forall q n root o, step_root_lit q n root o = step_root q n root o).
Proof. exact (conj py_get_eq (conj py_remove_eq (conj py_modify_eq step_root_lit_eq))). Qed.
Print Assumptions C18_transcription_is_segment_walk.

(* "... and removable": remove(extended key) hands back exactly that
   parameter, the key no longer resolves, keys that do not extend it resolve
   as before, the tree stays well-formed *)
Theorem C18_remove_by_extended_key :
  forall n root ek x,
    wf n root -> has_dot (pkey root) = false ->
    In (ek, x) (ext_keys EmptyString root) -> ek <> pkey root ->
    exists root',
      step_root repaired n root (ORemove (rel_key ek)) = (root', OParam (pid x)) /\
      get root' (rel_key ek) = Raise KeyError /\ wf n root' /\
      forall key', is_prefix (segments (rel_key ek)) (segments key') = false ->
                   option_map shallow (node_at root' (segments key')) =
                   option_map shallow (node_at root (segments key')).
Proof. exact remove_by_extended_key. Qed.
Print Assumptions C18_remove_by_extended_key.

(* ------------------------------------------------------------------ clause 6
   "duplicate keys are refused" (both ways of adding; tree unchanged) *)
Theorem C18_duplicate_refused :
  forall n root pp s h ch,
    node_at root (psegs pp) = Some (Map h ch) -> In (s_key s) (map pkey ch) ->
    (exists e, step_root repaired n root (OAddCtor pp s) = (root, ORaise e) /\
               (ctor_checks repaired s (Some (Map h ch)) = None -> e = ValueError)) /\
    (exists e, step_root repaired n root (OAddMeth pp s) = (root, ORaise e) /\
               (ctor_checks repaired s None = None -> e = ValueError)).
Proof. exact duplicate_refused. Qed.
Print Assumptions C18_duplicate_refused.

(* ------------------------------------------------------------------ clause 7
   "children are listed in order of display priority with ties in insertion
   order": in every reachable tree, every map *)
Theorem C18_children_sorted :
  forall ops h ch,
    In (Map h ch) (all_nodes (run repaired init ops)) ->
    StronglySorted hord_lt (map phdr ch) /\ NoDup (map pkey ch) /\ Forall key_ok (map pkey ch).
Proof. exact children_sorted. Qed.
Print Assumptions C18_children_sorted.

(* one add: the new child goes behind all children of priority <= its own,
   the others keep their places *)
Theorem C18_add_is_stable_insertion :
  forall p h ch x',
    StronglySorted prio_le ch -> map_add p (Map h ch) = Val x' ->
    exists l1 l2, ch = l1 ++ l2 /\ x' = Map h (l1 ++ p :: l2) /\
                  Forall (fun y => (pprio y <= pprio p)%Q) l1 /\ Forall (fun y => (pprio p < pprio y)%Q) l2.
Proof. exact add_is_stable_insertion. Qed.
Print Assumptions C18_add_is_stable_insertion.

(* the sort add() applies is a stable sort *)
Theorem C18_sort_is_stable :
  forall l,
    Permutation (py_sorted l) l /\ StronglySorted prio_le (py_sorted l) /\
    forall q, filter (same_prio q) (py_sorted l) = filter (same_prio q) l.
Proof. exact py_sorted_is_stable_sort. Qed.
Print Assumptions C18_sort_is_stable.

(* ------------------------------------------------------------------ clause 8
   "setting a parameter through the model followed by getting it returns the
   value that was set" *)
Theorem C18_model_set_get_roundtrip :
  forall n m root path v root',
    step_root repaired n root (OModelSet path v) = (root', ONone) ->
    step_root repaired m root' (OModelGet path) = (root', OValue v).
Proof. exact model_set_get_roundtrip. Qed.
Print Assumptions C18_model_set_get_roundtrip.

(* set_parameter does return normally for every valid value of a writable
   parameter under an existing key *)
Theorem C18_model_set_accepts_valid :
  forall n root path h c d v0 v,
    node_at root (segments path) = Some (Leaf h false c d v0) -> valid_for c v = true ->
    exists root', step_root repaired n root (OModelSet path v) = (root', ONone).
Proof. exact model_set_accepts_valid. Qed.
Print Assumptions C18_model_set_accepts_valid.

(* ------------------------------------------------------------------ clause 9
   a construction (with parent=...) that raises registers nothing *)
Theorem C18_failed_construction_not_registered :
  forall n root pp s e,
    snd (step_root repaired n root (OAddCtor pp s)) = ORaise e ->
    fst (step_root repaired n root (OAddCtor pp s)) = root.
Proof. exact failed_construction_not_registered. Qed.
Print Assumptions C18_failed_construction_not_registered.

(* ------------------------------------------------------------------ clauses 2 + 5 + 6 together
   an EXISTING parameter object offered to a map that already holds its key is
   refused and nothing changes: the tree is the same, so the object is where
   it was, keeps its parent and extended key, and that key resolves to it.
   (An accepted re-add would make one object a member of two maps; the tree
   model flags that [OOutside] and does not change the tree either.) *)
Theorem C18_readd_duplicate_refused :
  forall n root src dst p h ch,
    get root src = Val p -> node_at root (psegs dst) = Some (Map h ch) -> In (pkey p) (map pkey ch) ->
    step_root repaired n root (OReAdd src dst) = (root, ORaise ValueError).
Proof. exact readd_duplicate_refused. Qed.
Print Assumptions C18_readd_duplicate_refused.

Theorem C18_readd_never_changes_the_tree :
  forall n root src dst, fst (step_root repaired n root (OReAdd src dst)) = root.
Proof. exact readd_never_changes_the_tree. Qed.
Print Assumptions C18_readd_never_changes_the_tree.

(* ------------------------------------------------------------------ clauses 5 + 7, bottom-up construction
   a parent-less object - with whatever was built below it before - that add()
   accepts becomes a child of the addressed map: the tree stays well-formed
   (sorted, distinct keys), the object is found under its key there and
   everything below it under the path through it; by C18_get_by_extended_key
   on the new tree the extended keys of all of them, which now start at the
   root, resolve to them. *)
Theorem C18_attach_registers :
  forall n dst t T T',
    wf n T -> wf n t -> key_ok (pkey t) ->
    attach_seg dst (restamp n t) T = Val T' ->
    wf (S n) T' /\ phdr T' = phdr T /\
    node_at T' (psegs dst ++ [pkey t]) = Some (restamp n t) /\
    forall l x, In (l, x) (paths t) -> l <> [] -> node_at T' (psegs dst ++ pkey t :: l) = Some x.
Proof. exact attach_registers. Qed.
Print Assumptions C18_attach_registers.

(* ------------------------------------------------------------------ clauses 5 + 7: adding touches nothing else
   an accepted add / attach of p under the path segs changes the map it is
   added to and nothing else: every path that does not lead through the new
   child resolves to the same node as before (up to the child lists of the
   maps on the way) - no parameter of another map, and no other child of the
   same map, disappears or is replaced.  (remove() hands the removed object
   back; in the model it is a retired object of [st_free], which can be added
   again like a parent-less one, also when its old key has a successor.) *)
Theorem C18_add_frame :
  forall n segs p T T',
    wf n T -> modify segs (map_add p) T = Val T' ->
    forall l', is_prefix (segs ++ [pkey p]) l' = false ->
               option_map shallow (node_at T' l') = option_map shallow (node_at T l').
Proof. exact add_frame. Qed.
Print Assumptions C18_add_frame.

(* ------------------------------------------------------------------ the snapshot 13808df
   On the pinned snapshot three clauses were false ([step pinned] transcribes
   that code; each witness was replayed on it).  /repo has been repaired since
   (67d3f71, bc11b41, a3d4ad7); the check runs [repaired]. *)
Theorem C18_pinned_read_only_str_refuted :
  exists ops h c d v,
    In (Leaf h true c d v) (nodes (st_root (run pinned init ops))) /\ v <> d.
Proof. exact pinned_read_only_str_changes. Qed.
Print Assumptions C18_pinned_read_only_str_refuted.

Theorem C18_pinned_model_set_refuted :
  exists n root path v h c d v0,
    node_at root (segments path) = Some (Leaf h false c d v0) /\ valid_for c v = true /\
    step_root pinned n root (OModelSet path v) = (root, ORaise AttributeError).
Proof. exact pinned_model_set_raises. Qed.
Print Assumptions C18_pinned_model_set_refuted.

Theorem C18_pinned_failed_construction_refuted :
  exists n root pp s e,
    snd (step_root pinned n root (OAddCtor pp s)) = ORaise e /\
    fst (step_root pinned n root (OAddCtor pp s)) <> root /\
    exists p, In p (nodes (fst (step_root pinned n root (OAddCtor pp s)))) /\ ~ leaf_ok p.
Proof. exact pinned_failed_construction_registered. Qed.
Print Assumptions C18_pinned_failed_construction_refuted.

(* ------------------------------------------------------------------ non-vacuity
   One concrete history through all eight classes: depth 3, equal priorities,
   a read-only parameter, accepted and rejected attempts. *)
Local Open Scope string_scope.
Ltac in_list := vm_compute; repeat (first [left; reflexivity | right]).
Definition len_units : list string := ["m"; "km"; "mm"].

Definition ex_ops : list op :=
  [ OAddCtor None (mkSpec "n" 2 false (SInt (NI 0) (NI 10)) (VInt 5) no_flaws);                 (* 1 *)
    OAddMeth None (mkSpec "sub" 1 true SMap VNone no_flaws);                                     (* 2 *)
    OAddCtor (Some "sub") (mkSpec "x" 1 false (SFloat (NF FNInf) (NF FPInf)) (VFloat (FFin 1.5)) no_flaws);  (* 3 *)
    OAddCtor (Some "sub") (mkSpec "deep" 1 true SMap VNone no_flaws);                            (* 4: same priority as x *)
    OAddCtor (Some "sub.deep") (mkSpec "s" 1 true SStr (VStr "fixed") no_flaws);                 (* 5: read-only *)
    OAddCtor (Some "sub.deep") (mkSpec "b" (1#2) false SBool (VBool true) no_flaws);             (* 6: sorts before s *)
    OAddCtor (Some "sub") (mkSpec "q" 1 false (SQty (NI 0) (NI 100)) (VQty 0 (FFin 2) "m") no_flaws);  (* 7 *)
    OAddMeth (Some "sub") (mkSpec "sel" 3 false (SSel ["CA"; "MD"]) (VStr "CA") no_flaws);       (* 8 *)
    OAddCtor None (mkSpec "u" 2 false (SUnit 0 len_units) (VStr "km") no_flaws);                 (* 9: ties with n, goes after it *)
    OSet "n" (VInt 7);                                                                  (* accepted *)
    OSet "n" (VInt 11);                                                                 (* out of bounds *)
    OSet "n" (VFloat (FFin 3));                                                         (* wrong type *)
    OSet "sub.x" (VFloat FNaN);                                                         (* NaN *)
    OSet "sub.q" (VQty 1 (FFin 2) "s");                                                 (* wrong quantity type *)
    OSet "sub.sel" (VStr "AZ");                                                         (* not an option *)
    OSet "sub.deep.s" (VStr "other");                                                   (* read-only *)
    OModelSet "sub.deep.b" (VBool false);                                               (* accepted *)
    OAddCtor None (mkSpec "n" 9 false SStr (VStr "dup") no_flaws);                               (* duplicate *)
    OAddCtor None (mkSpec "bad" 1 false (SInt (NI 0) (NI 10)) (VInt 50) no_flaws) ].             (* failing construction *)

Definition ex_state : state := run repaired init ex_ops.

Example ex_tree_keys :
  map fst (ext_keys "" (st_root ex_state)) =
  ["root"; "root.sub"; "root.sub.x"; "root.sub.deep"; "root.sub.deep.b"; "root.sub.deep.s";
   "root.sub.q"; "root.sub.sel"; "root.n"; "root.u"].
Proof. vm_compute. reflexivity. Qed.

Example ex_values :
  map (fun e => snd (fst (entry_of e))) (ext_keys "" (st_root ex_state)) =
  [None; None; Some (VFloat (FFin 1.5)); None; Some (VBool false); Some (VStr "fixed");
   Some (VQty 0 (FFin 2) "m"); Some (VStr "CA"); Some (VInt 7); Some (VStr "km")].
Proof. vm_compute. reflexivity. Qed.

(* the outcomes of the nineteen operations: accepted ones return None, the
   others raise the documented exception *)
Fixpoint outs (st : state) (ops : list op) : list out :=
  match ops with [] => [] | o :: r => snd (step repaired st o) :: outs (fst (step repaired st o)) r end.

Example ex_outcomes :
  outs init ex_ops =
  [ONone; ONone; ONone; ONone; ONone; ONone; ONone; ONone; ONone;
   ONone; ORaise ValueError; ORaise TypeError; ORaise ValueError; ORaise ValueError; ORaise ValueError;
   ORaise ValueError; ONone; ORaise ValueError; ORaise ValueError].
Proof. vm_compute. reflexivity. Qed.

(* hypotheses of the implications are met by this state *)
Example ex_rejected_hyp :
  snd (step repaired ex_state (OSet "sub.x" (VStr "no"))) = ORaise TypeError.
Proof. vm_compute. reflexivity. Qed.

Example ex_wf : wf_state ex_state.
Proof. exact (run_wf ex_ops init init_wf). Qed.

Example ex_history_hyp :
  exists h c d v, In (Leaf h true c d v) (all_nodes ex_state) /\ (h_id h < st_next ex_state)%nat.
Proof.
  exists (mkHdr 5 "s" 1), CStr, (VStr "fixed"), (VStr "fixed"). split; [in_list | vm_compute; repeat constructor].
Qed.

Example ex_extended_key_hyp :
  has_dot (pkey (st_root ex_state)) = false /\
  exists x, In ("root.sub.deep.b", x) (ext_keys "" (st_root ex_state)) /\ "root.sub.deep.b" <> pkey (st_root ex_state) /\
            rel_key "root.sub.deep.b" = "sub.deep.b" /\ pid x = 6%nat.
Proof.
  split; [reflexivity|].
  exists (Leaf (mkHdr 6 "b" (1#2)) false CBool (VBool true) (VBool false)).
  split; [in_list|]. split; [vm_compute; intro H; discriminate H|]. split; reflexivity.
Qed.

Example ex_duplicate_hyp :
  exists h ch, node_at (st_root ex_state) (psegs (Some "sub.deep")) = Some (Map h ch) /\ In "s" (map pkey ch).
Proof. eexists. eexists. split; [vm_compute; reflexivity | in_list]. Qed.

Example ex_roundtrip_hyp :
  exists root', step_root repaired 20 (st_root ex_state) (OModelSet "sub.q" (VQty 0 (FFin 50) "km")) = (root', ONone).
Proof. eexists. vm_compute. reflexivity. Qed.

Example ex_failed_construction_hyp :
  snd (step_root repaired 20 (st_root ex_state) (OAddCtor (Some "sub") (mkSpec "z" 1 false SBool (VInt 1) no_flaws))) = ORaise TypeError.
Proof. vm_compute. reflexivity. Qed.

Example ex_stable_insertion_hyp :
  exists h ch x', node_at (st_root ex_state) [] = Some (Map h ch) /\ StronglySorted prio_le ch /\
                  map_add (node_of 20 (mkSpec "t" 2 false SBool (VBool true) no_flaws)) (Map h ch) = Val x' /\
                  match x' with Map _ ch' => map pkey ch' = ["sub"; "n"; "u"; "t"] | _ => False end.
Proof.
  eexists. eexists. eexists. split; [vm_compute; reflexivity|].
  split; [repeat (constructor; try (vm_compute; discriminate))|].
  split; vm_compute; reflexivity.
Qed.

(* a removed parameter is retired, its key gets a successor, the retired object
   is added to another map: both are listed, each under its own key path *)
Definition ex_retire : list op :=
  [ OAddCtor None (mkSpec "m" 1 true SMap VNone no_flaws);                   (* 1 *)
    OAddCtor None (mkSpec "m2" 2 true SMap VNone no_flaws);                  (* 2 *)
    OAddCtor (Some "m") (mkSpec "n" 1 false SBool (VBool true) no_flaws);    (* 3: A *)
    ORemove "m.n";                                                           (* A is handed back: retired *)
    OAddCtor (Some "m") (mkSpec "n" 1 false SBool (VBool false) no_flaws);   (* 5: B takes the key *)
    OAttach 3 (Some "m2");                                                   (* A is added to another map *)
    OGet "m.n"; OGet "m2.n";
    OAttach 3 None ].                                                        (* A is not free any more *)

Example ex_retire_outcomes :
  outs init ex_retire = [ONone; ONone; ONone; OParam 3; ONone; ONone; OParam 5; OParam 3; OOutside].
Proof. vm_compute. reflexivity. Qed.

Example ex_retire_mid :
  map (fun e => (fst (fst (fst e)), snd (fst (fst e)))) (dump_state (run repaired init (firstn 5 ex_retire))) =
  [("root", 0%nat); ("root.m", 1%nat); ("root.m.n", 5%nat); ("root.m2", 2%nat); ("n", 3%nat)].
Proof. vm_compute. reflexivity. Qed.

Example ex_retire_after :
  map (fun e => (fst (fst (fst e)), snd (fst (fst e)))) (dump_state (run repaired init ex_retire)) =
  [("root", 0%nat); ("root.m", 1%nat); ("root.m.n", 5%nat); ("root.m2", 2%nat); ("root.m2.n", 3%nat)].
Proof. vm_compute. reflexivity. Qed.

(* bottom-up construction: parent-less maps are filled first and attached later;
   before the attachment the extended keys start at the parent-less object,
   afterwards at the root.  "server" (identity 1) is attached after "z"
   (identity 6) of the same priority and is listed behind it: ties follow the
   insertion, not the creation. *)
Definition ex_bottom_up : list op :=
  [ ONew (mkSpec "server" 1 true SMap VNone no_flaws);                                                   (* 1 *)
    OFree 1 (OAddCtor None (mkSpec "rate" 2 false (SFloat (NI 0) (NI 10)) (VFloat (FFin 1.5)) no_flaws)); (* 2 *)
    ONew (mkSpec "cfg" 1 true SMap VNone no_flaws);                                                      (* 3 *)
    OFree 3 (OAddCtor None (mkSpec "n" 1 false (SInt (NI 0) (NI 10)) (VInt 5) no_flaws));                (* 4 *)
    OFree 1 (OAttach 3 None);                                                                            (* 5 *)
    OAddCtor None (mkSpec "z" 1 false SBool (VBool true) no_flaws);                                      (* 6 *)
    OAttach 1 None;                                                                                      (* 7 *)
    OSet "server.cfg.n" (VInt 7);
    ONew (mkSpec "server" 5 true SMap VNone no_flaws);                                                   (* 9 *)
    OAttach 9 None ].                                                                                    (* duplicate key: refused *)

Example ex_bottom_up_before :
  map (fun e => fst (fst (fst e))) (dump_state (run repaired init (firstn 4 ex_bottom_up))) =
  ["root"; "server"; "server.rate"; "cfg"; "cfg.n"].
Proof. vm_compute. reflexivity. Qed.

Example ex_bottom_up_after :
  map (fun e => (fst (fst (fst e)), snd (fst (fst e)))) (dump_state (run repaired init ex_bottom_up)) =
  [("root", 0%nat); ("root.z", 6%nat); ("root.server", 1%nat); ("root.server.cfg", 3%nat);
   ("root.server.cfg.n", 4%nat); ("root.server.rate", 2%nat); ("server", 9%nat)].
Proof. vm_compute. reflexivity. Qed.

Example ex_bottom_up_outcomes :
  outs init ex_bottom_up = [ONone; ONone; ONone; ONone; ONone; ONone; ONone; ONone; ONone; ORaise ValueError].
Proof. vm_compute. reflexivity. Qed.

(* ------------------------------------------------------------------ the tie to the source TEXT
   Params/Gen_Params.v is regenerated on every run by translator/py2gallina_params.py from
   src/pydsol/core/parameters.py and model.py of the tree under test (Python `ast`,
   fail-closed): set_value and the value property of every class, the constructors (their
   validation ORDER included: the state at a raise is part of a constructor's answer),
   __lt__, extended_key, add / get / remove of the map and the three accessors of the model
   class.  Params/GenAgree.v proves every generated definition equal to the hand-written
   function the theorems above are about -- for all arguments -- and that running an operation
   history through the generated functions is [run repaired].  So every theorem above is a
   theorem about what the source says now; the main ones are restated over the generated
   functions below.  A change of the sources that changes the meaning of a method makes
   GenAgree.v fail to compile: the check then reports the broken tie. *)
From PV Require Import Params.Gen_Params Params.GenAgree.

Theorem C18_generated_model_is_the_proved_model :
  (forall p v, gen_dispatch_set_value p v = mres_of p (set_value repaired v p)) /\
  (forall h ch p, gen_InputParameterMap_add (Map h ch) p = mres_of (Map h ch) (map_add p (Map h ch))) /\
  (forall m key, gen_InputParameterMap_get (fuel_of key) m key = py_get m key) /\
  (forall m key, gen_InputParameterMap_remove (fuel_of key) m key = rm_of m (py_remove m key)) /\
  (forall g m key, gen_InputParameterMap_get__upd (fuel_of key) (mlift g) m key = mres_of m (py_modify g m key)) /\
  (forall id s par, gen_construct id s par = model_ctor id s par) /\
  (forall root key v, gen_DSOLModel_set_parameter root key v = mres_of root (py_modify (set_value repaired v) root key)) /\
  (forall root key, gen_DSOLModel_get_parameter root key =
     match py_get root key with
     | Val (Leaf _ _ _ _ v) => Val (RV v) | Val (Map _ ch) => Val (RDict ch) | Raise e => Raise e
     end) /\
  (forall root, ext_keys EmptyString root = ext_keys_anc [] root) /\
  (forall anc p, gen_InputParameter_extended_key (S (List.length anc)) anc p = Val (ek anc p)) /\
  (forall st o, gen_step st o = step repaired st o) /\
  (forall ops st, gen_run st ops = run repaired st ops).
Proof. exact params_generated_agree. Qed.
Print Assumptions C18_generated_model_is_the_proved_model.

(* clause 1 over the generated functions: a history run through the generated constructors,
   set_value methods, add / get / remove and model accessors never leaves an invalid value *)
Theorem C18_generated_value_always_valid :
  forall ops p, In p (all_nodes (gen_run init ops)) -> leaf_ok p.
Proof. exact gen_value_always_valid. Qed.
Print Assumptions C18_generated_value_always_valid.

(* the generated set_value of the object's class accepts exactly the valid values of a
   writable parameter; a refusal leaves the object as it was *)
Theorem C18_generated_set_value_decides :
  forall h ro c d v0 v,
    (ro = false /\ valid_for c v = true ->
       gen_dispatch_set_value (Leaf h ro c d v0) v = MOk (Leaf h ro c d v) tt) /\
    (~ (ro = false /\ valid_for c v = true) ->
       exists e, gen_dispatch_set_value (Leaf h ro c d v0) v = MExn e (Leaf h ro c d v0)).
Proof. exact gen_set_value_decides. Qed.
Print Assumptions C18_generated_set_value_decides.

(* clause 2 *)
Theorem C18_generated_rejected_unchanged :
  forall st o e, snd (gen_step st o) = ORaise e ->
    st_root (fst (gen_step st o)) = st_root st /\ st_free (fst (gen_step st o)) = st_free st.
Proof. exact gen_rejected_unchanged. Qed.
Print Assumptions C18_generated_rejected_unchanged.

(* clauses 3, 4 *)
Theorem C18_generated_read_only_value_is_default :
  forall ops h c d v, In (Leaf h true c d v) (all_nodes (gen_run init ops)) -> v = d.
Proof. exact gen_read_only_value_is_default. Qed.
Print Assumptions C18_generated_read_only_value_is_default.

(* clause 5 *)
Theorem C18_generated_get_by_extended_key :
  forall n root ek x,
    wf n root -> has_dot (pkey root) = false ->
    In (ek, x) (ext_keys EmptyString root) -> ek <> pkey root ->
    gen_InputParameterMap_get (fuel_of (rel_key ek)) root (rel_key ek) = Val x.
Proof. exact gen_get_by_extended_key. Qed.
Print Assumptions C18_generated_get_by_extended_key.

(* clause 8 *)
Theorem C18_generated_model_set_get_roundtrip :
  forall root path v root',
    gen_DSOLModel_set_parameter root path v = MOk root' tt ->
    gen_DSOLModel_get_parameter root' path = Val (RV v).
Proof. exact gen_model_set_get_roundtrip. Qed.
Print Assumptions C18_generated_model_set_get_roundtrip.

(* clause 9: a generated constructor that raises -- for whatever reason, at whatever point --
   leaves the parent map exactly as it was (the content of /repo a3d4ad7: validate first) *)
Theorem C18_generated_failed_construction_not_registered :
  forall id s par e par', gen_construct id s par = MExn e par' -> par' = par.
Proof. exact gen_failed_construction_not_registered. Qed.
Print Assumptions C18_generated_failed_construction_not_registered.

(* the example history, run through the generated functions, ends in the same tree *)
Example ex_generated_run : gen_run init ex_ops = ex_state.
Proof. vm_compute. reflexivity. Qed.

Example ex_generated_roundtrip_hyp :
  exists root', gen_DSOLModel_set_parameter (st_root ex_state) "sub.q" (VQty 0 (FFin 50) "km") = MOk root' tt.
Proof. eexists. vm_compute. reflexivity. Qed.

Example ex_generated_failed_construction_hyp :
  exists e par', gen_construct 20 (mkSpec "z" 1 false SBool (VInt 1) no_flaws) (Some (st_root ex_state)) = MExn e par'.
Proof. eexists. eexists. vm_compute. reflexivity. Qed.
