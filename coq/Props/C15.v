(* C15 - samplers agree with their declared density / probability / cumulative
   functions.   Status: PARTIAL, with the scope stated exactly.

   Proved (over the real-number instance Dist.NumR of the SAME Gallina text,
   Dist/Draw.v + Dist/Density.v, that the per-run correspondence check executes
   with PrimFloat against the real classes, harness/c15.py):
     - every declared density / probability is total on accepted instances
       (the repaired triangular density included), non-negative, and zero
       outside the support;
     - normalisation, in antiderivative form, for uniform, exponential,
       Weibull, triangular; sums for Bernoulli, discrete uniform, geometric
       (closed-form partial sums);
     - for the inverse-transform samplers (uniform, exponential, Weibull,
       triangular incl. a mode at a bound, Bernoulli, discrete uniform,
       geometric):  draw(u) <= x  <->  u in an interval of length F(x)  with
       F' = declared density (resp. draw(u) = k <-> u in an interval of
       length probability(k)): with U uniform, the sample follows the density;
     - structure of the compositions (Erlang k < 10 = sum of k exponential
       draws, binomial, negative binomial, beta, Pearson 5, log-normal);
     - normal family: cdf' = density, cdf strictly increasing with range
       (0,1), truncated cdf 0 / 1 at the bounds - under an explicit contract
       for erf (derivative, monotone, range), erf being external.

   NOT decidable with this technique here (said plainly): distributional
   correctness of the gamma acceptance-rejection schemes, of the polar normal
   method and of the Poisson product method; normalisation of the gamma / beta
   / Pearson / normal / log-normal densities and of the binomial, negative
   binomial and Poisson probabilities (no Gamma / Beta / erf theory in the
   installed libraries); the accuracy 4.5e-8 of erf_inv and hence "cdf and
   inverse cdf are mutually inverse to the documented accuracy" (only the
   conditional statement C15_icdf_inverts_cdf_given_exact_erfinv_partial).  For
   these the check has the bit-exact transcription tie only; when that tie
   breaks the harness searches a failing input with seeded KS / frequency
   statistics, quadrature and round trips - as a search, never as the verdict. *)
From Coq Require Import Reals Lra ZArith List Bool.
From Coquelicot Require Import Coquelicot.
From PV Require Import Dist.Num Dist.Draw Dist.NumR Dist.Support Dist.Ctor Dist.Density Dist.DensityR
                       Dist.Normalise Dist.InvTransform.
Import ListNotations.
Local Open Scope R_scope.

(* ---- densities and probabilities: total, >= 0, zero outside the support ---- *)
Theorem C15_ctor_stores_wellformed_parameters :
  forall (erf erfinv gammaf lgammaf : R -> R) c sok ps d,
  ctor (numR erf erfinv gammaf lgammaf) false c sok ps = Val d -> wfd erf d.
Proof. exact ctor_sound_d. Qed.
Print Assumptions C15_ctor_stores_wellformed_parameters.

Theorem C15_density_total_nonneg_zero_outside :
  forall (erf erfinv gammaf lgammaf : R -> R),
  (forall x, 0 < x -> 0 < gammaf x) ->
  forall d x, wfd erf d -> has_density d = true ->
  exists v, pdf (numR erf erfinv gammaf lgammaf) false d x = Val v /\ 0 <= v /\
            (outside erf erfinv gammaf lgammaf d x -> v = 0).
Proof. exact pdf_total_nonneg_zero_outside. Qed.
Print Assumptions C15_density_total_nonneg_zero_outside.

Example C15_density_example :
  forall erf : R -> R, wfd erf (DTriangular 1 1 2) /\ has_density (DTriangular 1 1 2) = true.
Proof. intros. split; [simpl; lra|reflexivity]. Qed.

Theorem C15_probability_total_nonneg_zero_outside :
  forall (erf erfinv gammaf lgammaf : R -> R) d k,
  wfd erf d -> has_prob d = true ->
  exists v, prob (numR erf erfinv gammaf lgammaf) d k = Val v /\ 0 <= v /\ (outsideZ d k -> v = 0).
Proof. exact prob_total_nonneg_zero_outside. Qed.
Print Assumptions C15_probability_total_nonneg_zero_outside.

(* pinned tree: the triangular density raises at x = lo = mode; repaired: 2/(hi-lo) *)
Theorem C15_triangular_density_pinned_refuted :
  forall (erf erfinv gammaf lgammaf : R -> R),
  pdf (numR erf erfinv gammaf lgammaf) true (DTriangular 1 1 2) 1 = Err (Raise EZeroDiv) /\
  exists v, pdf (numR erf erfinv gammaf lgammaf) false (DTriangular 1 1 2) 1 = Val v /\ v = 2.
Proof. exact pinned_triangular_density_raises. Qed.
Print Assumptions C15_triangular_density_pinned_refuted.

(* ---- integrates / sums to one (elementary families) ---- *)
Theorem C15_uniform_normalised :
  forall (erf erfinv gammaf lgammaf : R -> R) lo hi, lo < hi ->
  (forall x, lo < x < hi ->
     is_derive (F_uniform lo hi) x (pdfv erf erfinv gammaf lgammaf (DUniform lo hi) x)) /\
  F_uniform lo hi lo = 0 /\ F_uniform lo hi hi = 1 /\
  is_RInt (pdfv erf erfinv gammaf lgammaf (DUniform lo hi)) lo hi 1.
Proof. exact uniform_normalised. Qed.
Print Assumptions C15_uniform_normalised.

Theorem C15_exponential_normalised :
  forall (erf erfinv gammaf lgammaf : R -> R) mean, 0 < mean ->
  (forall x, 0 < x ->
     is_derive (F_exponential mean) x (pdfv erf erfinv gammaf lgammaf (DExponential mean) x)) /\
  F_exponential mean 0 = 0 /\ is_lim (F_exponential mean) p_infty 1.
Proof. exact exponential_normalised. Qed.
Print Assumptions C15_exponential_normalised.

Theorem C15_weibull_normalised :
  forall (erf erfinv gammaf lgammaf : R -> R) alpha beta, 0 < alpha -> 0 < beta ->
  (forall x, 0 < x ->
     is_derive (F_weibull alpha beta) x (pdfv erf erfinv gammaf lgammaf (DWeibull alpha beta) x)) /\
  (forall x, 0 < x -> 0 < F_weibull alpha beta x < 1) /\
  (forall t, 0 < t -> F_weibull alpha beta (beta * Rpower t (1 / alpha)) = 1 - exp (- t)).
Proof. exact weibull_normalised. Qed.
Print Assumptions C15_weibull_normalised.

Theorem C15_triangular_normalised :
  forall (erf erfinv gammaf lgammaf : R -> R) lo mode hi, lo <= mode <= hi -> lo < hi ->
  (forall x, lo < x < mode ->
     is_derive (F_tri_rise lo mode hi) x (pdfv erf erfinv gammaf lgammaf (DTriangular lo mode hi) x)) /\
  (forall x, mode < x < hi ->
     is_derive (F_tri_fall lo mode hi) x (pdfv erf erfinv gammaf lgammaf (DTriangular lo mode hi) x)) /\
  (F_tri_rise lo mode hi mode - F_tri_rise lo mode hi lo) +
  (F_tri_fall lo mode hi hi - F_tri_fall lo mode hi mode) = 1.
Proof. exact triangular_normalised. Qed.
Print Assumptions C15_triangular_normalised.

Theorem C15_discrete_sums :
  forall (erf erfinv gammaf lgammaf : R -> R),
  (forall p v0 v1, prob (numR erf erfinv gammaf lgammaf) (DBernoulli p) 0 = Val v0 ->
                   prob (numR erf erfinv gammaf lgammaf) (DBernoulli p) 1 = Val v1 -> v0 + v1 = 1) /\
  (forall lo hi, (lo < hi)%Z ->
     sum_prob erf erfinv gammaf lgammaf (DDiscreteUniform lo hi) lo (Z.to_nat (hi - lo + 1)) = 1) /\
  (forall p lnp n, 0 < p < 1 ->
     sum_prob erf erfinv gammaf lgammaf (DGeometric p lnp) 0 (S n) = 1 - (1 - p) ^ (S n)).
Proof.
  intros. split; [apply bernoulli_sums_to_one|split; [apply discrete_uniform_sums_to_one|apply geometric_partial_sums]].
Qed.
Print Assumptions C15_discrete_sums.

(* ---- the sample follows the density: inverse-transform samplers ---- *)
Theorem C15_uniform_sampler :
  forall (erf erfinv gammaf lgammaf : R -> R) lo hi c u us x, lo < hi ->
  draw (numR erf erfinv gammaf lgammaf) false (DUniform lo hi) c (u :: us)
    = (Val (VF (lo + (hi - lo) * u), c), us) /\
  (lo + (hi - lo) * u <= x <-> u <= F_uniform lo hi x).
Proof. intros. split; [apply uniform_draw|apply uniform_inverse_transform; assumption]. Qed.
Print Assumptions C15_uniform_sampler.

Theorem C15_exponential_sampler :
  forall (erf erfinv gammaf lgammaf : R -> R) mean c u us x, 0 < mean -> 0 < u ->
  draw (numR erf erfinv gammaf lgammaf) false (DExponential mean) c (u :: us)
    = (Val (VF (- mean * ln u), c), us) /\
  (- mean * ln u <= x <-> 1 - F_exponential mean x <= u).
Proof.
  intros. split; [apply exponential_draw; assumption|].
  unfold F_exponential. replace (1 - (1 - exp (- x / mean))) with (exp (- x / mean)) by ring.
  apply exponential_inverse_transform; assumption.
Qed.
Print Assumptions C15_exponential_sampler.

Theorem C15_weibull_sampler :
  forall (erf erfinv gammaf lgammaf : R -> R) alpha beta c u us x,
  0 < alpha -> 0 < beta -> 0 < u < 1 -> 0 < x ->
  draw (numR erf erfinv gammaf lgammaf) false (DWeibull alpha beta) c (u :: us)
    = (Val (VF (beta * Rpower (- ln u) (1 / alpha)), c), us) /\
  (beta * Rpower (- ln u) (1 / alpha) <= x <-> 1 - F_weibull alpha beta x <= u).
Proof.
  intros. split; [apply weibull_draw; assumption|].
  unfold F_weibull. replace (1 - (1 - exp (- Rpower (x / beta) alpha))) with (exp (- Rpower (x / beta) alpha)) by ring.
  apply weibull_inverse_transform; assumption.
Qed.
Print Assumptions C15_weibull_sampler.

Theorem C15_triangular_sampler :
  forall (erf erfinv gammaf lgammaf : R -> R) lo mode hi c u us x,
  lo <= mode <= hi -> lo < hi -> 0 <= u <= 1 -> lo <= x <= hi ->
  draw (numR erf erfinv gammaf lgammaf) false (DTriangular lo mode hi) c (u :: us)
    = (Val (VF (g_tri lo mode hi u), c), us) /\
  (g_tri lo mode hi u <= x <-> u <= F_tri lo mode hi x).
Proof. intros. split; [apply triangular_draw; assumption|apply triangular_inverse_transform; assumption]. Qed.
Print Assumptions C15_triangular_sampler.

Theorem C15_bernoulli_sampler :
  forall (erf erfinv gammaf lgammaf : R -> R) p c u us,
  (draw (numR erf erfinv gammaf lgammaf) false (DBernoulli p) c (u :: us) = (Val (VI 1, c), us) <-> u <= p) /\
  (draw (numR erf erfinv gammaf lgammaf) false (DBernoulli p) c (u :: us) = (Val (VI 0, c), us) <-> p < u).
Proof. exact bernoulli_inverse_transform. Qed.
Print Assumptions C15_bernoulli_sampler.

Theorem C15_discrete_uniform_sampler :
  forall (erf erfinv gammaf lgammaf : R -> R) lo hi c u us k, (lo < hi)%Z -> 0 <= u < 1 ->
  (draw (numR erf erfinv gammaf lgammaf) false (DDiscreteUniform lo hi) c (u :: us) = (Val (VI k, c), us) <->
   IZR (k - lo) / IZR (hi - lo + 1) <= u < IZR (k - lo + 1) / IZR (hi - lo + 1)).
Proof. exact discrete_uniform_inverse_transform. Qed.
Print Assumptions C15_discrete_uniform_sampler.

Theorem C15_geometric_sampler :
  forall (erf erfinv gammaf lgammaf : R -> R) p c u us k, 0 < p < 1 -> 0 < u < 1 -> (0 <= k)%Z ->
  (draw (numR erf erfinv gammaf lgammaf) false (DGeometric p (ln (1 - p))) c (u :: us) = (Val (VI k, c), us) <->
   Rpower (1 - p) (IZR (k + 1)) < u <= Rpower (1 - p) (IZR k)).
Proof. exact geometric_inverse_transform. Qed.
Print Assumptions C15_geometric_sampler.

(* ---- compositions ---- *)
Theorem C15_erlang_is_sum_of_exponentials :
  forall (erf erfinv gammaf lgammaf : R -> R) scale k lam c us rest,
  0 < scale -> List.Forall open01 us -> Z.to_nat k = length us ->
  draw (numR erf erfinv gammaf lgammaf) false (DErlang scale k lam None) c (us ++ rest) =
    (Val (VF (sum_list (map (fun u => - scale * ln u) us)), c), rest).
Proof. exact erlang_is_sum_of_exponentials. Qed.
Print Assumptions C15_erlang_is_sum_of_exponentials.

Theorem C15_compositions :
  forall (erf erfinv gammaf lgammaf : R -> R),
  let NR := numR erf erfinv gammaf lgammaf in
  (forall n p x u us, count_successes NR (S n) p x (u :: us) =
                      count_successes NR n p (if Rleb u p then (x + 1)%Z else x) us) /\
  (forall s lnp x us, sum_geometrics NR false (S s) lnp x us =
     match geometric_once NR false lnp us with
     | (Val g, r) => sum_geometrics NR false s lnp (x + g)%Z r
     | (Err e, r) => (Err e, r)
     end) /\
  (forall a b g c us, draw NR false (DPearson5 a b g) c us =
     match draw_gamma NR false (fst g) (snd g) us with
     | (Val y, r) => (match r_div 1 y with Val v => Val (VF v, c) | Err e => Err e end, r)
     | (Err e, r) => (Err e, r)
     end) /\
  (forall mu sigma a b c us, draw NR false (DLogNormal mu sigma a b) c us =
     match draw NR false (DNormal mu sigma) c us with
     | (Val (VF x, c'), r) => (Val (VF (exp x), c'), r)
     | (Val (VI z, c'), r) => (Err Unmodelled, r)
     | (Err e, r) => (Err e, r)
     end).
Proof.
  intros. split; [apply binomial_is_sum_of_bernoullis|]. split; [apply negbinomial_is_sum_of_geometrics|].
  split; [apply pearson5_is_reciprocal_gamma|apply lognormal_is_exp_of_normal].
Qed.
Print Assumptions C15_compositions.

(* ---- cumulative functions of the normal family, under a contract for erf ---- *)
Theorem C15_normal_cdf_consistent_with_density_partial :
  forall (erf erfinv gammaf lgammaf : R -> R),
  (forall x, is_derive erf x (2 / sqrt Rtrigo1.PI * exp (- (x * x)))) ->
  forall mu sigma x, 0 < sigma ->
  cdf (numR erf erfinv gammaf lgammaf) (DNormal mu sigma) x = Val (Phi erf mu sigma x) /\
  is_derive (Phi erf mu sigma) x (pdfv erf erfinv gammaf lgammaf (DNormal mu sigma) x).
Proof.
  intros erf erfinv gammaf lgammaf Hd mu sigma x Hs.
  split; [apply cdf_normal; assumption|apply normal_cdf_derivative; assumption].
Qed.
Print Assumptions C15_normal_cdf_consistent_with_density_partial.

Theorem C15_normal_cdf_monotone_partial :
  forall (erf : R -> R),
  (forall x y, x < y -> erf x < erf y) -> (forall x, -1 < erf x < 1) ->
  forall mu sigma, 0 < sigma ->
  (forall x y, x < y -> Phi erf mu sigma x < Phi erf mu sigma y) /\
  (forall x, 0 < Phi erf mu sigma x < 1).
Proof. intros erf H1 H2. exact (normal_cdf_monotone_and_range erf H1 H2). Qed.
Print Assumptions C15_normal_cdf_monotone_partial.

Theorem C15_normaltrunc_cdf_bounds_partial :
  forall (erf erfinv gammaf lgammaf : R -> R),
  (forall x y, x < y -> erf x < erf y) -> (forall x, -1 < erf x < 1) ->
  forall mu sigma lo hi cplo diff fac,
  wfd erf (DNormalTrunc mu sigma lo hi cplo diff fac) ->
  let NR := numR erf erfinv gammaf lgammaf in
  cdf NR (DNormalTrunc mu sigma lo hi cplo diff fac) lo = Val 0 /\
  cdf NR (DNormalTrunc mu sigma lo hi cplo diff fac) hi = Val 1 /\
  (forall x y vx vy, lo <= x -> x < y -> y <= hi ->
     cdf NR (DNormalTrunc mu sigma lo hi cplo diff fac) x = Val vx ->
     cdf NR (DNormalTrunc mu sigma lo hi cplo diff fac) y = Val vy -> vx < vy).
Proof. intros erf erfinv gammaf lgammaf H1 H2. exact (normaltrunc_cdf_bounds erf erfinv gammaf lgammaf H1 H2). Qed.
Print Assumptions C15_normaltrunc_cdf_bounds_partial.

(* conditional: with an EXACT inverse of erf the inverse cdf inverts the cdf;
   the accuracy of the code's approximation is not decidable here *)
Theorem C15_icdf_inverts_cdf_given_exact_erfinv_partial :
  forall (erf erfinv gammaf lgammaf : R -> R) mu sigma x,
  0 < sigma -> (forall t, erfinv (erf t) = t) ->
  icdf (numR erf erfinv gammaf lgammaf) (DNormal mu sigma) (Phi erf mu sigma x) = Val x.
Proof. exact normal_icdf_inverts_cdf_given_exact_erfinv. Qed.
Print Assumptions C15_icdf_inverts_cdf_given_exact_erfinv_partial.

(* ====================================================================== *)
(* The density / probability / cdf functions and the samplers regenerated from the
   source text ARE the ones the theorems above are about.

   Dist/Gen_Dist.v is produced on every run by translator/py2gallina_dist.py
   from src/pydsol/core/distributions.py of the tree under test (Python `ast`,
   fail-closed); Dist/GenAgree.v proves every generated definition equal to the
   hand-written one of Dist/Density.v / Dist/Draw.v for every number structure.
   The main theorems are restated here for the generated definitions. *)
From PV Require Import Dist.Gen_Dist Dist.GenAgree.

Theorem C15_generated_model_is_the_proved_model : forall N : num,
  (forall c sok ps, gen_ctor N c sok ps = ctor N false c sok ps) /\
  (forall d x, gen_pdf N d x = pdf N false d x) /\
  (forall d k, gen_prob N d k = prob N d k) /\
  (forall d x, gen_cdf N d x = cdf N d x) /\
  (forall d y, gen_icdf N d y = icdf N d y) /\
  (forall d m a, gen_call N d m a = call N false d m a).
Proof. exact dist_density_generated_agree. Qed.
Print Assumptions C15_generated_model_is_the_proved_model.

(* C15_ctor_stores_wellformed_parameters + C15_density_total_nonneg_zero_outside, generated *)
Theorem C15_generated_density_total_nonneg_zero_outside :
  forall (erf erfinv gammaf lgammaf : R -> R),
  (forall x, 0 < x -> 0 < gammaf x) ->
  forall c sok ps d x,
  gen_ctor (numR erf erfinv gammaf lgammaf) c sok ps = Val d -> has_density d = true ->
  exists v, gen_pdf (numR erf erfinv gammaf lgammaf) d x = Val v /\ 0 <= v /\
            (outside erf erfinv gammaf lgammaf d x -> v = 0).
Proof.
  intros erf erfinv gammaf lgammaf G c sok ps d x H D. rewrite gen_ctor_eq in H. rewrite gen_pdf_eq.
  apply (C15_density_total_nonneg_zero_outside erf erfinv gammaf lgammaf G d x); [|exact D].
  exact (C15_ctor_stores_wellformed_parameters erf erfinv gammaf lgammaf c sok ps d H).
Qed.
Print Assumptions C15_generated_density_total_nonneg_zero_outside.

Theorem C15_generated_probability_total_nonneg_zero_outside :
  forall (erf erfinv gammaf lgammaf : R -> R) c sok ps d k,
  gen_ctor (numR erf erfinv gammaf lgammaf) c sok ps = Val d -> has_prob d = true ->
  exists v, gen_prob (numR erf erfinv gammaf lgammaf) d k = Val v /\ 0 <= v /\ (outsideZ d k -> v = 0).
Proof.
  intros erf erfinv gammaf lgammaf c sok ps d k H D. rewrite gen_ctor_eq in H. rewrite gen_prob_eq.
  apply (C15_probability_total_nonneg_zero_outside erf erfinv gammaf lgammaf d k); [|exact D].
  exact (C15_ctor_stores_wellformed_parameters erf erfinv gammaf lgammaf c sok ps d H).
Qed.
Print Assumptions C15_generated_probability_total_nonneg_zero_outside.

(* the inverse-transform samplers, generated draw against the antiderivative of the generated density
   (C15_weibull_sampler with C15_weibull_normalised; likewise exponential, triangular, uniform) *)
Theorem C15_generated_weibull_sampler :
  forall (erf erfinv gammaf lgammaf : R -> R) alpha beta u us x,
  0 < alpha -> 0 < beta -> 0 < u < 1 -> 0 < x ->
  gen_DistWeibull_draw (numR erf erfinv gammaf lgammaf) alpha beta (u :: us)
    = (Val (beta * Rpower (- ln u) (1 / alpha)), us) /\
  (beta * Rpower (- ln u) (1 / alpha) <= x <-> 1 - F_weibull alpha beta x <= u) /\
  (forall v, gen_pdf (numR erf erfinv gammaf lgammaf) (DWeibull alpha beta) x = Val v ->
             is_derive (F_weibull alpha beta) x v).
Proof.
  intros erf erfinv gammaf lgammaf alpha beta u us x A B U X.
  destruct (C15_weibull_sampler erf erfinv gammaf lgammaf alpha beta None u us x A B U X) as [D I].
  split; [|split; [exact I|]].
  - rewrite gen_DistWeibull_draw_eq in D. exact (fv_val _ _ _ _ _ _ D).
  - intros v E. rewrite gen_pdf_eq in E.
    destruct (C15_weibull_normalised erf erfinv gammaf lgammaf alpha beta A B) as [Der _].
    pose proof (Der x X) as K. unfold pdfv in K. rewrite E in K. exact K.
Qed.
Print Assumptions C15_generated_weibull_sampler.

Theorem C15_generated_exponential_sampler :
  forall (erf erfinv gammaf lgammaf : R -> R) mean u us x, 0 < mean -> 0 < u ->
  gen_DistExponential_draw (numR erf erfinv gammaf lgammaf) mean (u :: us) = (Val (- mean * ln u), us) /\
  (- mean * ln u <= x <-> 1 - F_exponential mean x <= u).
Proof.
  intros erf erfinv gammaf lgammaf mean u us x M U.
  destruct (C15_exponential_sampler erf erfinv gammaf lgammaf mean None u us x M U) as [D I].
  split; [|exact I]. rewrite gen_DistExponential_draw_eq in D. exact (fv_val _ _ _ _ _ _ D).
Qed.
Print Assumptions C15_generated_exponential_sampler.

Theorem C15_generated_triangular_sampler :
  forall (erf erfinv gammaf lgammaf : R -> R) lo mode hi u us x,
  lo <= mode <= hi -> lo < hi -> 0 <= u <= 1 -> lo <= x <= hi ->
  gen_DistTriangular_draw (numR erf erfinv gammaf lgammaf) lo mode hi (u :: us) = (Val (g_tri lo mode hi u), us) /\
  (g_tri lo mode hi u <= x <-> u <= F_tri lo mode hi x).
Proof.
  intros erf erfinv gammaf lgammaf lo mode hi u us x A B U X.
  destruct (C15_triangular_sampler erf erfinv gammaf lgammaf lo mode hi None u us x A B U X) as [D I].
  split; [|exact I]. rewrite gen_DistTriangular_draw_eq in D. exact (fv_val _ _ _ _ _ _ D).
Qed.
Print Assumptions C15_generated_triangular_sampler.

Theorem C15_generated_uniform_sampler :
  forall (erf erfinv gammaf lgammaf : R -> R) lo hi u us x, lo < hi ->
  gen_DistUniform_draw (numR erf erfinv gammaf lgammaf) lo hi (u :: us) = (Val (lo + (hi - lo) * u), us) /\
  (lo + (hi - lo) * u <= x <-> u <= F_uniform lo hi x).
Proof.
  intros erf erfinv gammaf lgammaf lo hi u us x A.
  destruct (C15_uniform_sampler erf erfinv gammaf lgammaf lo hi None u us x A) as [D I].
  split; [|exact I]. rewrite gen_DistUniform_draw_eq in D. exact (fv_val _ _ _ _ _ _ D).
Qed.
Print Assumptions C15_generated_uniform_sampler.

(* the repaired triangular density at a degenerate mode, generated (C15_triangular_density_pinned_refuted, second half) *)
Theorem C15_generated_triangular_density_total_at_degenerate_mode :
  forall (erf erfinv gammaf lgammaf : R -> R),
  exists v, gen_DistTriangular_probability_density (numR erf erfinv gammaf lgammaf) 1 1 2 1 = Val v /\ v = 2.
Proof.
  intros erf erfinv gammaf lgammaf. rewrite gen_DistTriangular_probability_density_eq.
  exact (proj2 (C15_triangular_density_pinned_refuted erf erfinv gammaf lgammaf)).
Qed.
Print Assumptions C15_generated_triangular_density_total_at_degenerate_mode.
