(* C01 — the event list is a faithful priority queue.
   Property-level theorems only; each is closed by [exact] of a lemma proved
   elsewhere and followed by Print Assumptions. *)
From Coq Require Import ZArith List Bool Permutation.
From PV Require Import EventList.Key EventList.KeyProofs EventList.Model EventList.Refine EventList.HeapqProofs.
Import ListNotations.

(* Every history of add/remove/pop/peek/contains/size/is_empty/clear on the
   heap-array implementation returns exactly what the sorted-multiset
   specification returns, and the array stays a heap whose sorted contents are
   the specification state.  [L] is any heap library meeting [heap_contract]. *)
Theorem C01_refines_sorted_multiset :
  forall L, heap_contract L -> forall ops,
    let '(h', os) := run_ops (impl_step L) [] ops in
    let '(s', os') := run_ops spec_step [] ops in
    is_heap h' /\ isort h' = s' /\ os = os'.
Proof. exact refine_from_empty. Qed.
Print Assumptions C01_refines_sorted_multiset.

(* The heap library actually used — the transcription of CPython's heapq that
   the correspondence check executes — meets the contract, so the refinement
   holds for it unconditionally. *)
Theorem C01_heapq_meets_contract : heap_contract heapq.
Proof. exact heapq_contract. Qed.
Print Assumptions C01_heapq_meets_contract.

Theorem C01_heapq_event_list_refines_sorted_multiset :
  forall ops,
    let '(h', os) := run_ops (impl_step heapq) [] ops in
    let '(s', os') := run_ops spec_step [] ops in
    is_heap h' /\ isort h' = s' /\ os = os'.
Proof. exact (refine_from_empty heapq heapq_contract). Qed.
Print Assumptions C01_heapq_event_list_refines_sorted_multiset.

(* The specification state is always sorted by (time, -priority, id), so pop
   and peek hand out the minimum ... *)
Theorem C01_spec_state_sorted :
  forall s op, sorted s -> sorted (fst (spec_step s op)).
Proof. exact spec_step_sorted. Qed.
Print Assumptions C01_spec_state_sorted.

Theorem C01_pop_is_minimum :
  forall s x r, sorted s -> spec_step s OpPop = (r, OutKey (Some x)) ->
    s = x :: r /\ Forall (kle x) r.
Proof. exact spec_pop_min. Qed.
Print Assumptions C01_pop_is_minimum.

(* ... removal leaves the order of the others untouched ... *)
Theorem C01_remove_preserves_order :
  forall s k, sorted s -> fst (spec_step s (OpRemove k)) = remove1 k s.
Proof. exact spec_remove_order. Qed.
Print Assumptions C01_remove_preserves_order.

(* ... and draining the implementation yields the sorted contents. *)
Theorem C01_drain_sorted :
  forall L, heap_contract L -> forall h n, is_heap h -> n = length h ->
    drain_impl L n h = isort h.
Proof. exact drain_sorted. Qed.
Print Assumptions C01_drain_sorted.

(* Looking does not touch: peek_first, contains, size, is_empty, str(el) and
   repr(el) leave the abstract queue -- and the heap array itself -- exactly as
   it was, so no later pop can depend on whether the list was looked at. *)
Theorem C01_observers_leave_queue_unchanged :
  (forall s op, is_observer op = true -> fst (spec_step s op) = s) /\
  (forall L h op, is_observer op = true -> fst (impl_step L h op) = h).
Proof. exact (conj spec_observer_unchanged impl_observer_unchanged). Qed.
Print Assumptions C01_observers_leave_queue_unchanged.

(* The comparison operators of events form a strict total order that agrees
   with the key order of the event list. *)
Theorem C01_event_comparisons_strict_total_order :
  (forall a, sev_lt a a = false) /\
  (forall a b c, sev_lt a b = true -> sev_lt b c = true -> sev_lt a c = true) /\
  (forall a b, sev_lt a b = true \/ a = b \/ sev_lt b a = true) /\
  (forall a b, sev_eq a b = true <-> a = b) /\
  (forall a b, sev_gt a b = sev_lt b a) /\
  (forall a b, sev_le a b = negb (sev_lt b a)) /\
  (forall a b, sev_ge a b = negb (sev_lt a b)) /\
  (forall a b, sev_ne a b = negb (sev_eq a b)).
Proof. exact sev_strict_total_order. Qed.
Print Assumptions C01_event_comparisons_strict_total_order.

Theorem C01_event_lt_agrees_with_list_order :
  forall a b, sev_lt a b = key_ltb (sev_key a) (sev_key b).
Proof. exact sev_lt_key. Qed.
Print Assumptions C01_event_lt_agrees_with_list_order.

(* The pinned tree's remove() (no re-heapify) does NOT refine the specification. *)
Theorem C01_remove_without_heapify_refuted :
  exists ops,
    snd (run_ops (impl_step_noheapify heapq) [] ops) <> snd (run_ops spec_step [] ops).
Proof. exact remove_without_heapify_refuted. Qed.
Print Assumptions C01_remove_without_heapify_refuted.

(* ------------------------------------------------------------------------ *)
(* The tie to the source TEXT.  EventList/Gen_EventList.v is regenerated on
   every run by translator/py2gallina_eventlist.py from
   src/pydsol/core/simevent.py and eventlist.py of the tree under test (Python
   `ast`, fail-closed), and EventList/GenAgree.v proves every generated
   definition equal to the hand-written model function the theorems above are
   about: the six rich comparisons and the properties of SimEvent, the id
   assignment of SimEvent.__init__ (one counter for all classes) and the nine
   methods of EventListHeap, operation by operation and for whole histories
   ([lower] turns a method result into the model's (list, observable) pair and
   is None for a raise; [lib_sane] is what pop_first and __init__ need from the
   heap library, it follows from heap_contract).  A change of the sources that
   changes the meaning of a method makes GenAgree.v fail to compile: the check
   then reports the broken tie. *)
From PV Require Import EventList.Gen_EventList EventList.GenAgree.

Theorem C01_generated_model_is_the_proved_model :
  (forall a b, gen_SimEvent___lt__ a b = sev_lt a b /\ gen_SimEvent___le__ a b = sev_le a b /\
               gen_SimEvent___gt__ a b = sev_gt a b /\ gen_SimEvent___ge__ a b = sev_ge a b /\
               gen_SimEvent___eq__ a b = sev_eq a b /\ gen_SimEvent___ne__ a b = sev_ne a b) /\
  (forall e, gen_SimEvent_time e = e_time e /\ gen_SimEvent_priority e = e_prio e /\ gen_SimEvent_id e = e_id e) /\
  (forall cv cls t p, gen_SimEvent___init__ cv cls t p =
                      (fst (sev_new (cv_base cv) t p), mkCV (snd (sev_new (cv_base cv) t p)) (cv_sub cv))) /\
  (forall L, hheapify L [] = [] -> lower out_none (gen_EventListHeap___init__ L) = Some (impl_new, OutNone)) /\
  (forall L h e, lower out_none (gen_EventListHeap_add L h e) = Some (impl_add L h (sev_key e)) /\
                 lower OutBool (gen_EventListHeap_remove L h e) = Some (impl_remove L h (sev_key e)) /\
                 lower OutBool (gen_EventListHeap_contains L h e) = Some (impl_contains_op L h (sev_key e))) /\
  (forall L h, lower OutKey (gen_EventListHeap_peek_first L h) = Some (impl_peek_first L h) /\
               lower OutNat (gen_EventListHeap_size L h) = Some (impl_size L h) /\
               lower OutBool (gen_EventListHeap_is_empty L h) = Some (impl_is_empty L h) /\
               lower out_none (gen_EventListHeap_clear L h) = Some (impl_clear L h) /\
               lower out_str (gen_EventListHeap___str__ L h) = Some (impl_str L h) /\
               lower out_str (gen_EventListHeap___repr__ L h) = Some (impl_repr L h)) /\
  (forall L, (forall h, hpop L h = None -> h = []) ->
             forall h, lower OutKey (gen_EventListHeap_pop_first L h) = Some (impl_pop_first L h)) /\
  (forall L, lib_sane L -> forall h op, gen_step L h op = Some (impl_step L h op)) /\
  (forall L, lib_sane L -> forall ops, gen_new_run L ops = Some (run_ops (impl_step L) [] ops)) /\
  lib_sane heapq.
Proof. exact event_list_generated_agree. Qed.
Print Assumptions C01_generated_model_is_the_proved_model.

(* C01_refines_sorted_multiset, for the generated constructor and methods: no
   history raises, and it returns what the sorted multiset returns. *)
Theorem C01_generated_event_list_refines_sorted_multiset :
  forall L, heap_contract L -> forall ops,
    match gen_new_run L ops with
    | Some (h', os) =>
        let '(s', os') := run_ops spec_step [] ops in is_heap h' /\ isort h' = s' /\ os = os'
    | None => False
    end.
Proof. exact gen_event_list_refines_sorted_multiset. Qed.
Print Assumptions C01_generated_event_list_refines_sorted_multiset.

Theorem C01_generated_heapq_event_list_refines_sorted_multiset :
  forall ops,
    match gen_new_run heapq ops with
    | Some (h', os) =>
        let '(s', os') := run_ops spec_step [] ops in is_heap h' /\ isort h' = s' /\ os = os'
    | None => False
    end.
Proof. exact gen_heapq_event_list_refines_sorted_multiset. Qed.
Print Assumptions C01_generated_heapq_event_list_refines_sorted_multiset.

(* C01_event_comparisons_strict_total_order and C01_event_lt_agrees_with_list_order,
   for the generated comparison methods *)
Theorem C01_generated_event_comparisons_strict_total_order :
  (forall a, gen_SimEvent___lt__ a a = false) /\
  (forall a b c, gen_SimEvent___lt__ a b = true -> gen_SimEvent___lt__ b c = true -> gen_SimEvent___lt__ a c = true) /\
  (forall a b, gen_SimEvent___lt__ a b = true \/ a = b \/ gen_SimEvent___lt__ b a = true) /\
  (forall a b, gen_SimEvent___eq__ a b = true <-> a = b) /\
  (forall a b, gen_SimEvent___gt__ a b = gen_SimEvent___lt__ b a) /\
  (forall a b, gen_SimEvent___le__ a b = negb (gen_SimEvent___lt__ b a)) /\
  (forall a b, gen_SimEvent___ge__ a b = negb (gen_SimEvent___lt__ a b)) /\
  (forall a b, gen_SimEvent___ne__ a b = negb (gen_SimEvent___eq__ a b)).
Proof. exact gen_event_comparisons_strict_total_order. Qed.
Print Assumptions C01_generated_event_comparisons_strict_total_order.

Theorem C01_generated_event_lt_agrees_with_list_order :
  forall a b, gen_SimEvent___lt__ a b = key_ltb (sev_key a) (sev_key b).
Proof. exact gen_event_lt_agrees_with_list_order. Qed.
Print Assumptions C01_generated_event_lt_agrees_with_list_order.

(* The third tie-breaker is the creation order: whatever the classes of the
   events constructed (SimEvent or any subclass), the i-th construction gets
   the i-th id. *)
Theorem C01_generated_ids_are_creation_stamps :
  forall specs cv i d, (i < length specs)%nat ->
    e_id (nth i (gen_create_all cv specs) d) = (cv_base cv + 1 + Z.of_nat i)%Z.
Proof. exact gen_created_ids_are_creation_stamps. Qed.
Print Assumptions C01_generated_ids_are_creation_stamps.

(* C01_observers_leave_queue_unchanged, for the generated methods *)
Theorem C01_generated_observers_leave_list_unchanged :
  forall L, lib_sane L -> forall h op, is_observer op = true ->
    match gen_step L h op with Some (h', _) => h' = h | None => False end.
Proof. exact gen_observers_leave_list_unchanged. Qed.
Print Assumptions C01_generated_observers_leave_list_unchanged.

(* non-vacuity of the hypotheses used above *)
Example C01_generated_hypotheses_satisfiable : heap_contract heapq /\ lib_sane heapq.
Proof. split; [exact heapq_contract | exact heapq_sane]. Qed.
