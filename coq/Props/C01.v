(* C01 — the event list is a faithful priority queue.
   Property-level theorems only; each is closed by [exact] of a lemma proved
   elsewhere and followed by Print Assumptions. *)
From Coq Require Import ZArith List Bool Permutation.
From PV Require Import EventList.Key EventList.KeyProofs EventList.Model EventList.Refine EventList.HeapqProofs.
Import ListNotations.

(* Every history of add/remove/pop/peek/contains/size/is_empty/clear on the
   heap-array implementation returns exactly what the sorted-multiset
   specification returns, and the array stays a heap whose sorted contents are
   the specification state.  [L] is any heap library meeting [heap_contract]. *)
Theorem C01_refines_sorted_multiset :
  forall L, heap_contract L -> forall ops,
    let '(h', os) := run_ops (impl_step L) [] ops in
    let '(s', os') := run_ops spec_step [] ops in
    is_heap h' /\ isort h' = s' /\ os = os'.
Proof. exact refine_from_empty. Qed.
Print Assumptions C01_refines_sorted_multiset.

(* The heap library actually used — the transcription of CPython's heapq that
   the correspondence check executes — meets the contract, so the refinement
   holds for it unconditionally. *)
Theorem C01_heapq_meets_contract : heap_contract heapq.
Proof. exact heapq_contract. Qed.
Print Assumptions C01_heapq_meets_contract.

Theorem C01_heapq_event_list_refines_sorted_multiset :
  forall ops,
    let '(h', os) := run_ops (impl_step heapq) [] ops in
    let '(s', os') := run_ops spec_step [] ops in
    is_heap h' /\ isort h' = s' /\ os = os'.
Proof. exact (refine_from_empty heapq heapq_contract). Qed.
Print Assumptions C01_heapq_event_list_refines_sorted_multiset.

(* The specification state is always sorted by (time, -priority, id), so pop
   and peek hand out the minimum ... *)
Theorem C01_spec_state_sorted :
  forall s op, sorted s -> sorted (fst (spec_step s op)).
Proof. exact spec_step_sorted. Qed.
Print Assumptions C01_spec_state_sorted.

Theorem C01_pop_is_minimum :
  forall s x r, sorted s -> spec_step s OpPop = (r, OutKey (Some x)) ->
    s = x :: r /\ Forall (kle x) r.
Proof. exact spec_pop_min. Qed.
Print Assumptions C01_pop_is_minimum.

(* ... removal leaves the order of the others untouched ... *)
Theorem C01_remove_preserves_order :
  forall s k, sorted s -> fst (spec_step s (OpRemove k)) = remove1 k s.
Proof. exact spec_remove_order. Qed.
Print Assumptions C01_remove_preserves_order.

(* ... and draining the implementation yields the sorted contents. *)
Theorem C01_drain_sorted :
  forall L, heap_contract L -> forall h n, is_heap h -> n = length h ->
    drain_impl L n h = isort h.
Proof. exact drain_sorted. Qed.
Print Assumptions C01_drain_sorted.

(* The comparison operators of events form a strict total order that agrees
   with the key order of the event list. *)
Theorem C01_event_comparisons_strict_total_order :
  (forall a, sev_lt a a = false) /\
  (forall a b c, sev_lt a b = true -> sev_lt b c = true -> sev_lt a c = true) /\
  (forall a b, sev_lt a b = true \/ a = b \/ sev_lt b a = true) /\
  (forall a b, sev_eq a b = true <-> a = b) /\
  (forall a b, sev_gt a b = sev_lt b a) /\
  (forall a b, sev_le a b = negb (sev_lt b a)) /\
  (forall a b, sev_ge a b = negb (sev_lt a b)) /\
  (forall a b, sev_ne a b = negb (sev_eq a b)).
Proof. exact sev_strict_total_order. Qed.
Print Assumptions C01_event_comparisons_strict_total_order.

Theorem C01_event_lt_agrees_with_list_order :
  forall a b, sev_lt a b = key_ltb (sev_key a) (sev_key b).
Proof. exact sev_lt_key. Qed.
Print Assumptions C01_event_lt_agrees_with_list_order.

(* The pinned tree's remove() (no re-heapify) does NOT refine the specification. *)
Theorem C01_remove_without_heapify_refuted :
  exists ops,
    snd (run_ops (impl_step_noheapify heapq) [] ops) <> snd (run_ops spec_step [] ops).
Proof. exact remove_without_heapify_refuted. Qed.
Print Assumptions C01_remove_without_heapify_refuted.
