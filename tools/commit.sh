#!/bin/sh
# tools/commit.sh "<message>" — regenerate MANIFEST / status / inventory, keep only VALID evidence
# files in the commit (an evidence file left behind by a builder's mid-work or seeded run is
# reverted to the last committed one), then commit everything.
cd "$(dirname "$0")/.."
python3 tools/gen_manifest.py >/dev/null
python3 tools/gen_status.py >/dev/null
python3 tools/inventory.py >/dev/null
python3-vt tools/validate_evidence.py 2>/dev/null | grep "PROBLEM\|MISSING" | while read pid rest; do
  echo "evidence/$pid.json not valid now ($rest) - keeping the committed version"
  git checkout -- "evidence/$pid.json" 2>/dev/null
done
git add -A
git commit -q -m "$1" && echo committed
python3-vt tools/validate_evidence.py | grep -v " ok$" || echo "all committed evidence valid"
