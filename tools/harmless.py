#!/usr/bin/env python3
"""tools/harmless.py [<name-prefix> ...]

Run the registered checks against the behaviour-preserving refactorings kept
under /verif/harmless/<name>/ (patch.diff, meta.json with "checks").  Such a
change keeps every property, so the right answers are:
   QUIET                       exit 0, no VIOLATION line, or
   TIE-BROKEN                  only `... no-failing-input-found` lines (the brief
                               accepts this for a harmless rewrite: the property
                               is no longer *shown* to hold),
and the wrong answer is
   FALSE-ALARM                 a VIOLATION line that claims a failing input.
Writes harmless/RESULTS.json."""
import json
import os
import shutil
import subprocess
import sys
import time
from pathlib import Path

V = Path(__file__).resolve().parent.parent
H = V / "harmless"


def sh(cmd, **kw):
    return subprocess.run(cmd, shell=True, capture_output=True, text=True, **kw)


def main(argv):
    rf = H / "RESULTS.json"
    results = json.loads(rf.read_text()) if rf.exists() else {}
    for d in sorted(p for p in H.iterdir() if p.is_dir()):
        if argv and not any(d.name.startswith(a) for a in argv):
            continue
        meta = json.loads((d / "meta.json").read_text())
        wt = Path("/tmp") / f"harmwt-{d.name}"
        sh(f"git -C /repo worktree remove --force {wt}")
        shutil.rmtree(wt, ignore_errors=True)
        r = sh(f"git -C /repo worktree add -q --detach {wt} HEAD && git -C {wt} apply {d}/patch.diff")
        if r.returncode != 0:
            print(f"{d.name}: patch does not apply: {r.stderr.strip()[:200]}")
            results[d.name] = {"error": "patch does not apply"}
            continue
        try:
            for pid in meta["checks"]:
                env = dict(os.environ, VERIF_REPO=str(wt))
                t0 = time.time()
                p = subprocess.run(["./check", pid, "--tier", "quick"], cwd=V, env=env, capture_output=True, text=True)
                lines = [l for l in p.stdout.splitlines() if l.startswith("VIOLATION")]
                with_input = [l for l in lines if "no-failing-input-found" not in l]
                status = "QUIET" if not lines and p.returncode == 0 else ("FALSE-ALARM" if with_input else "TIE-BROKEN")
                print(f"{d.name:45s} check={pid} {status} rc={p.returncode} {time.time()-t0:.0f}s "
                      + (with_input[0] if with_input else (lines[0] if lines else "")), flush=True)
                results.setdefault(d.name, {})[pid] = {"status": status, "violations": lines[:4]}
        finally:
            sh(f"git -C /repo worktree remove --force {wt}")
            shutil.rmtree(wt, ignore_errors=True)
    rf.write_text(json.dumps(results, indent=1, sort_keys=True) + "\n")


if __name__ == "__main__":
    main(sys.argv[1:])
