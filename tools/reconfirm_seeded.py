#!/usr/bin/env python3
"""Re-confirm every kept seeded change: suite passes WITH the change (sources of
the worktree under test via PYTHONPATH), demo fails with it and passes without."""
import json, shutil, subprocess, sys
from pathlib import Path
V = Path(__file__).resolve().parent.parent
def sh(c): return subprocess.run(c, shell=True, capture_output=True, text=True)
bad = []
for d in sorted(p for p in (V/"seeded").iterdir() if p.is_dir()):
    if len(sys.argv) > 1 and not any(d.name.startswith(a) for a in sys.argv[1:]): continue
    wt = Path(f"/tmp/reconf-{d.name}")
    sh(f"git -C /repo worktree remove --force {wt}"); shutil.rmtree(wt, ignore_errors=True)
    sh(f"git -C /repo worktree add -q --detach {wt} HEAD")
    try:
        env = f"cd {wt} && PYTHONPATH={wt}/src PYTHONDONTWRITEBYTECODE=1"
        r0 = sh(f"{env} timeout 600 /venv/bin/python -W ignore {d}/demo.py")
        a = sh(f"git -C {wt} apply {d}/patch.diff")
        r1 = sh(f"{env} timeout 600 /venv/bin/python -W ignore {d}/demo.py")
        rt = sh(f"{env} timeout 1200 /venv/bin/python -m pytest -q -p no:cacheprovider --timeout=900 2>&1 | tail -1")
        ok = a.returncode == 0 and r0.returncode == 0 and r1.returncode != 0 and " passed" in rt.stdout and "failed" not in rt.stdout
        print(f"{d.name:55s} apply={a.returncode} demo_clean={r0.returncode} demo_mut={r1.returncode} suite='{rt.stdout.strip()[-40:]}' {'OK' if ok else 'NOT CONFIRMED'}", flush=True)
        m = json.loads((d/"meta.json").read_text())
        m["reconfirmed"] = {"head": sh("git -C /repo rev-parse --short HEAD").stdout.strip(), "suite_with_change_under_PYTHONPATH": rt.stdout.strip()[-60:],
                            "demo_exit_clean": r0.returncode, "demo_exit_with_change": r1.returncode, "ok": ok}
        (d/"meta.json").write_text(json.dumps(m, indent=1) + "\n")
        if not ok: bad.append(d.name)
    finally:
        sh(f"git -C /repo worktree remove --force {wt}"); shutil.rmtree(wt, ignore_errors=True)
print("not confirmed:", bad)
