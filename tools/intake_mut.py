#!/usr/bin/env python3
"""tools/intake_mut.py <prop> <A|B> <slug> "<what it breaks>" "<what it needs to manifest>"

Confirm a seeded change delivered by an independent sub-agent in
/tmp/mut-<prop>/mut<A|B>.diff + demo<A|B>.py and, only if everything is
confirmed, keep it as /verif/seeded/<prop>-<slug>/ {patch.diff, demo.py, meta.json}.
Confirmed here, in a fresh scratch worktree of /repo's HEAD:
  * the patch applies; the whole existing test suite passes with it;
  * the demo fails (exit != 0) with the change and passes (exit 0) without it.
"""
import json
import shutil
import subprocess
import sys
from pathlib import Path

V = Path(__file__).resolve().parent.parent


def sh(cmd, **kw):
    return subprocess.run(cmd, shell=True, capture_output=True, text=True, **kw)


def main():
    prop, ab, slug, breaks, needs = sys.argv[1:6]
    src = Path(f"/tmp/mut-{prop}")
    patch = src / f"mut{ab}.diff"
    demo = src / f"demo{ab}.py"
    wt = Path(f"/tmp/intake-{prop}-{ab}")
    sh(f"git -C /repo worktree remove --force {wt}")
    shutil.rmtree(wt, ignore_errors=True)
    r = sh(f"git -C /repo worktree add -q --detach {wt} HEAD")
    assert r.returncode == 0, r.stderr
    ran = []
    try:
        env_demo = f"cd {wt} && PYTHONPATH={wt}/src PYTHONDONTWRITEBYTECODE=1 timeout 300 /venv/bin/python {demo}"
        r0 = sh(env_demo)
        ran.append({"cmd": "demo on clean HEAD", "exit": r0.returncode})
        r = sh(f"git -C {wt} apply {patch}")
        if r.returncode != 0:
            print("REJECT: patch does not apply:", r.stderr[:500]); return 1
        r1 = sh(env_demo)
        ran.append({"cmd": "demo with the change", "exit": r1.returncode, "tail": (r1.stdout + r1.stderr)[-600:]})
        rt = sh(f"cd {wt} && PYTHONPATH={wt}/src PYTHONDONTWRITEBYTECODE=1 timeout 1200 /venv/bin/python -m pytest -q -p no:cacheprovider --timeout=900 2>&1 | tail -3")
        rw = sh(f"cd {wt} && PYTHONPATH={wt}/src /venv/bin/python -c 'import pydsol.core.simulator as s; print(s.__file__)'")
        assert str(wt) in rw.stdout, "test suite would not import the worktree: " + rw.stdout
        ran.append({"cmd": "pytest with the change (PYTHONPATH=<worktree>/src, so the changed sources are what is tested)", "tail": rt.stdout.strip()[-300:]})
        head = sh("git -C /repo rev-parse --short HEAD").stdout.strip()
        ok = r0.returncode == 0 and r1.returncode != 0 and " passed" in rt.stdout and "failed" not in rt.stdout and "error" not in rt.stdout.lower()
        print(json.dumps(ran, indent=1))
        if not ok:
            print("REJECT: not confirmed"); return 1
        d = V / "seeded" / f"{prop}-{slug}"
        d.mkdir(parents=True, exist_ok=True)
        shutil.copy(patch, d / "patch.diff")
        shutil.copy(demo, d / "demo.py")
        (d / "meta.json").write_text(json.dumps({
            "breaks": prop, "what": breaks, "needs_to_manifest": needs,
            "origin": "independent sub-agent given only the property text and a scratch worktree",
            "base_commit": head,
            "confirmed": ran,
            "demo_cmd": "PYTHONPATH=<tree>/src /venv/bin/python demo.py  (exit != 0 with the change, 0 without)",
        }, indent=1) + "\n")
        print("KEPT", d)
        return 0
    finally:
        sh(f"git -C /repo worktree remove --force {wt}")
        shutil.rmtree(wt, ignore_errors=True)


if __name__ == "__main__":
    sys.exit(main())
