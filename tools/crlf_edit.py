#!/usr/bin/env python3
"""crlf_edit.py FILE OLDFILE NEWFILE — replace the text of OLDFILE by NEWFILE in FILE,
preserving FILE's CRLF line endings (OLD/NEW are written with LF)."""
import sys
p, o, n = sys.argv[1:4]
data = open(p, 'rb').read()
old = open(o, 'rb').read().replace(b'\r\n', b'\n').replace(b'\n', b'\r\n')
new = open(n, 'rb').read().replace(b'\r\n', b'\n').replace(b'\n', b'\r\n')
if old.endswith(b'\r\n') and not new.endswith(b'\r\n'):
    pass
cnt = data.count(old)
if cnt != 1:
    sys.exit(f"old text occurs {cnt} times in {p}")
open(p, 'wb').write(data.replace(old, new))
