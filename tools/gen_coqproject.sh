#!/bin/sh
# Regenerate coq/_CoqProject and coq/Makefile from the .v files present.
set -e
cd "$(dirname "$0")/../coq"
{
  echo "-R . PV"
  echo "-arg -w -arg -notation-overridden,-deprecated-hint-without-locality,-deprecated-instance-without-locality,-deprecated-syntactic-definition"
  find . -name '*.v' ! -path './scratch/*' | sed 's|^\./||' | LC_ALL=C sort
} > _CoqProject.new
if ! cmp -s _CoqProject.new _CoqProject 2>/dev/null || [ ! -f Makefile ]; then
  mv _CoqProject.new _CoqProject
  coq_makefile -f _CoqProject -o Makefile >/dev/null
else
  rm -f _CoqProject.new
fi
