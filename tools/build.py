#!/usr/bin/env python3
"""tools/build.py [-j N] [--timeout S] <target.vo>... | all

Incremental, concurrency-safe full (.vo) build of the Coq development under
coq/ (logical root PV).  Dependencies come from coqdep; every file is compiled
by a plain `coqc` under its own flock, so several builders / checks may run at
the same time without sharing a Makefile.  Never uses -vos/-vok.
Exit status 0 iff every requested target (and what it depends on) is built.
"""
import fcntl
import os
import re
import subprocess
import sys
import threading
from concurrent.futures import ThreadPoolExecutor
from pathlib import Path

V = Path(__file__).resolve().parent.parent
COQ = V / "coq"
LOCKS = V / ".scratch" / "locks"
WARN = "-notation-overridden,-deprecated-hint-without-locality,-deprecated-instance-without-locality,-deprecated-syntactic-definition"


def sources():
    return sorted(str(p.relative_to(COQ)) for p in COQ.rglob("*.v")
                  if "scratch" not in p.parts)


def deps(files):
    p = subprocess.run(["coqdep", "-R", ".", "PV"] + files, cwd=COQ, capture_output=True, text=True)
    d = {}
    for line in p.stdout.splitlines():
        if ":" not in line:
            continue
        lhs, rhs = line.split(":", 1)
        tgt = [t for t in lhs.split() if t.endswith(".vo")]
        if not tgt:
            continue
        vo = tgt[0]
        d[vo] = [x for x in rhs.split() if x.endswith(".vo") and not x.startswith("/")]
    return d, p.stderr


def uptodate(vo, dl):
    f = COQ / vo
    src = COQ / (vo[:-1])
    if not f.exists():
        return False
    t = f.stat().st_mtime_ns
    if src.stat().st_mtime_ns > t:
        return False
    for x in dl:
        g = COQ / x
        if not g.exists() or g.stat().st_mtime_ns > t:
            return False
    return True


def main(argv):
    jobs = 8
    tmo = 1500
    targets = []
    i = 0
    while i < len(argv):
        if argv[i] == "-j":
            jobs = int(argv[i + 1]); i += 2
        elif argv[i].startswith("-j") and argv[i][2:].isdigit():
            jobs = int(argv[i][2:]); i += 1
        elif argv[i] == "--timeout":
            tmo = int(argv[i + 1]); i += 2
        else:
            targets.append(argv[i]); i += 1
    LOCKS.mkdir(parents=True, exist_ok=True)
    files = sources()
    d, err = deps(files)
    if not targets or targets == ["all"]:
        targets = sorted(d)
    targets = [t if t.endswith(".vo") else t + "o" if t.endswith(".v") else t for t in targets]
    missing = [t for t in targets if t not in d]
    if missing:
        print("build: unknown targets: " + " ".join(missing))
        return 2
    need = set()
    stack = list(targets)
    while stack:
        t = stack.pop()
        if t in need:
            continue
        need.add(t)
        stack.extend(x for x in d.get(t, []) if x in d)
    state = {}            # vo -> True (ok) / False (failed)
    cond = threading.Condition()
    logs = []

    def work(vo):
        dl = [x for x in d[vo] if x in d]
        with cond:
            while not all(x in state for x in dl):
                cond.wait()
            okdeps = all(state[x] for x in dl)
        ok = False
        if okdeps:
            lock = open(LOCKS / (vo.replace("/", "__") + ".lock"), "w")
            fcntl.flock(lock, fcntl.LOCK_EX)
            try:
                if uptodate(vo, dl):
                    ok = True
                else:
                    print("COQC " + vo[:-1], flush=True)
                    p = subprocess.run(["timeout", str(tmo), "coqc", "-R", ".", "PV", "-w", WARN, vo[:-1]],
                                       cwd=COQ, capture_output=True, text=True)
                    ok = p.returncode == 0
                    out = (p.stdout + p.stderr).strip()
                    if not ok:
                        try:
                            (COQ / vo).unlink()
                        except FileNotFoundError:
                            pass
                        logs.append(f"FAILED {vo[:-1]} (exit {p.returncode})\n{out[-3000:]}")
            finally:
                fcntl.flock(lock, fcntl.LOCK_UN)
                lock.close()
        else:
            logs.append(f"SKIPPED {vo[:-1]} (a dependency failed)")
        with cond:
            state[vo] = ok
            cond.notify_all()

    # order so that a worker never waits on a job that is queued behind it
    order = []
    seen = set()

    def visit(t):
        if t in seen:
            return
        seen.add(t)
        for x in d[t]:
            if x in d:
                visit(x)
        order.append(t)
    sys.setrecursionlimit(10000)
    for t in sorted(need):
        visit(t)
    with ThreadPoolExecutor(max_workers=jobs) as ex:
        list(ex.map(work, order))
    for l in logs:
        print(l)
    bad = [t for t in order if not state.get(t)]
    if bad:
        print("build: NOT built: " + " ".join(bad))
        return 1
    return 0


if __name__ == "__main__":
    sys.exit(main(sys.argv[1:]))
