#!/bin/sh
# Clean full build of the Coq development (offline). Run from /verif.
set -e
cd "$(dirname "$0")/.."
mkdir -p evidence .scratch
# generated sources (unit tables) are regenerated from /repo's current tree
if [ -x tools/regen.sh ] || [ -f tools/regen.sh ]; then sh tools/regen.sh || true; fi
python3 tools/build.py -j16 all > .scratch/setup_build.log 2>&1 || { tail -60 .scratch/setup_build.log; echo "setup: some Coq files failed to build (checks report which)"; }
python3 - <<'PY'
import sys
sys.path.insert(0, 'harness')
import common
bad = common.source_gate()
if bad:
    print("forbidden constructs:", *bad, sep="\n  ")
    sys.exit(1)
print("setup: source gate clean")
PY
