#!/bin/sh
# Regenerate the generated Coq sources (unit tables for C16/C17) from the tree
# in $VERIF_REPO (default /repo).  Files are rewritten only if they changed.
cd "$(dirname "$0")/.."
PY="${VERIF_PY:-/venv/bin/python}"
exec env PYTHONDONTWRITEBYTECODE=1 timeout 120 "$PY" translator/dump_units.py
