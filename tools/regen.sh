#!/bin/sh
# Regenerate the generated Coq sources from the tree in $VERIF_REPO (default /repo):
#   coq/Units/Gen_*.v   unit tables for C16/C17        (translator/dump_units.py)
#   coq/Stats/Gen_Stats.v  statistics method bodies for C09/C10 (translator/py2gallina_stats.py)
# Files are rewritten only if they changed.  (The checks themselves translate into a
# per-tree scratch directory; these copies are for setup / `tools/build.py all`.)
cd "$(dirname "$0")/.."
PY="${VERIF_PY:-/venv/bin/python}"
rc=0
env PYTHONDONTWRITEBYTECODE=1 timeout 120 "$PY" translator/dump_units.py || rc=$?
env PYTHONDONTWRITEBYTECODE=1 timeout 120 "$PY" translator/py2gallina_stats.py || rc=$?
exit $rc
