#!/bin/sh
# Regenerate the generated Coq sources from the tree in $VERIF_REPO (default /repo).
# One snippet per generator in translator/regen.d/*.sh (run in name order, sourced
# with $PY set, cwd = /verif).  Generated files match coq/**/Gen_*.v (git-ignored)
# and are rewritten only if they changed.  (The checks themselves translate into a
# per-tree scratch directory; these copies are for setup / `tools/build.py all`.)
cd "$(dirname "$0")/.."
PY="${VERIF_PY:-/venv/bin/python}"
rc=0
for f in translator/regen.d/*.sh; do
  [ -f "$f" ] || continue
  ( . "./$f" ) || rc=$?
done
exit $rc
