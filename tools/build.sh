#!/bin/sh
# tools/build.sh <target.vo>...   — serialised (flock) incremental build of the given coq/ targets.
cd "$(dirname "$0")/.."
exec flock .build.lock sh -c 'sh tools/gen_coqproject.sh && cd coq && timeout 1500 make -k -j8 "$@"' sh "$@"
