#!/bin/sh
# tools/build.sh <target.vo>... | all  — incremental full (.vo) build of coq/ targets (paths relative to coq/).
# Safe to run concurrently with other builds (per-file locks, plain coqc, no Makefile).
cd "$(dirname "$0")/.."
exec python3 tools/build.py -j8 "$@"
