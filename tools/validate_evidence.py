#!/usr/bin/env python3
"""tools/validate_evidence.py — every evidence/<id>.json of a registered check must
validate against /root/.vp/EVIDENCE.schema.json AND carry the proof-level keys
(obligations >= 1, discharged == obligations, non-empty checker_cmd, violations == 0).
Run before committing evidence (python3-vt has jsonschema)."""
import json, sys, glob
from pathlib import Path
V = Path(__file__).resolve().parent.parent
try:
    import jsonschema
    schema = json.load(open("/root/.vp/EVIDENCE.schema.json"))
    val = jsonschema.Draft202012Validator(schema)
except Exception as exc:   # noqa
    val = None
    print("note: jsonschema not importable here; structural checks only (run with python3-vt for the schema)")
man = json.loads((V / "MANIFEST.json").read_text())
bad = 0
for c in man["checks"]:
    pid = c["property_id"]
    f = V / "evidence" / f"{pid}.json"
    if not f.exists():
        print(pid, "MISSING"); bad += 1; continue
    e = json.loads(f.read_text()); cov = e.get("coverage", {})
    probs = []
    if val:
        probs += [x.message[:120] for x in val.iter_errors(e)]
    if e.get("level") != c["level_claimed"]["category"]:
        probs.append(f"level {e.get('level')} != claimed {c['level_claimed']['category']}")
    if not (isinstance(cov.get("obligations"), int) and cov["obligations"] >= 1 and cov.get("discharged") == cov["obligations"]):
        probs.append(f"obligations/discharged = {cov.get('obligations')}/{cov.get('discharged')}")
    if not str(cov.get("checker_cmd", "")).strip():
        probs.append("checker_cmd empty")
    if e.get("violations"):
        probs.append(f"violations = {e['violations']}")
    if not cov.get("samples") or not cov.get("evaluations") or (cov.get("distinct_nontrivial") or 0) < 2:
        probs.append("samples / evaluations / distinct_nontrivial missing")
    if e.get("tier") != "quick":
        probs.append(f"tier {e.get('tier')} (commit the quick-tier evidence)")
    print(pid, "ok" if not probs else "PROBLEM: " + "; ".join(probs))
    bad += bool(probs)
sys.exit(1 if bad else 0)
