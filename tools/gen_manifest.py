#!/usr/bin/env python3
"""Build MANIFEST.json from harness/meta/*.json (one file per claimed property)
and harness/meta/not_applicable.json."""
import json
from pathlib import Path
V = Path(__file__).resolve().parent.parent
props = [json.loads(l)["id"] for l in (V / "properties.jsonl").read_text().splitlines() if l.strip()]
checks = []
claimed = set()
# only properties the coordinator has accepted (complete, quiet on /repo) are registered
registered = set(json.loads((V / "harness" / "meta" / "registered.json").read_text()))
for pid in props:
    if pid not in registered:
        continue
    f = V / "harness" / "meta" / f"{pid}.json"
    if f.name in ("registered.json", "not_applicable.json"):
        continue
    if not f.exists() or not (V / "harness" / f"{pid.lower()}.py").exists():
        continue
    m = json.loads(f.read_text())
    if m.get("technique", "").strip().lower() in ("placeholder", "stub", "") or not m.get("ready", True):
        continue      # builder has not landed this check yet
    claimed.add(pid)
    checks.append({
        "property_id": pid,
        "quick_cmd": f"./check {pid} --tier quick",
        "thorough_cmd": f"./check {pid} --tier thorough",
        "evidence_file": f"/verif/evidence/{pid}.json",
        "replay_cmd_template": f"./check {pid} --replay {{path}}",
        "engine": "coq-proof+correspondence",
        "level_claimed": {"category": m.get("category", "proof"), "text": m["level_text"],
                          "design_ref": m.get("design_ref", "DESIGN.md section 4")},
        "level_note": m["level_note"],
        "technique": m["technique"],
    })
na_file = V / "harness" / "meta" / "not_applicable.json"
na = json.loads(na_file.read_text()) if na_file.exists() else {}
not_applicable = []
for pid in props:
    if pid in claimed:
        continue
    not_applicable.append({"property_id": pid,
                           "reason": na.get(pid, "check not built yet in this round; machinery (Coq model + correspondence) is planned in DESIGN.md section 4")})
man = {
    "version": 1,
    "setup_cmd": "sh tools/setup.sh",
    "hooks": {
        "guard": "PYDSOL_CORE_VERIF",
        "enable": "export PYDSOL_CORE_VERIF=1 (no source hooks exist; the harness sets it anyway)",
        "baseline_off_cmd": "cd /repo && env -u PYDSOL_CORE_VERIF /venv/bin/python -m pytest -ra -q -p no:cacheprovider --timeout=900",
        "source_commits": [],
        "add_only": True,
    },
    "engines": [{
        "name": "coq-proof+correspondence",
        "path": "/verif/coq, /verif/harness, /verif/check",
        "serves_properties": sorted(claimed),
        "kind_free_text": "Coq 8.16.1 theorems over executable Gallina models; models tied to /repo per run by a reflective translator (unit tables) and by a correspondence check that evaluates the model with vm_compute inside coqc on the same cases the real Python classes ran",
    }],
    "checks": checks,
    "not_applicable": not_applicable,
    "notes": "See DESIGN.md. known_findings.json lists recorded genuine defects and fixed: entries.",
}
(V / "MANIFEST.json").write_text(json.dumps(man, indent=1) + "\n")
print(f"MANIFEST.json: {len(checks)} checks, {len(not_applicable)} not_applicable")
