#!/usr/bin/env python3
"""tools/seeded.py [--tier quick] [--inplace] [<prop>[/<name>] ...]

Run the registered checks against the seeded changes kept under
/verif/seeded/<name>/ (patch.diff, demo, meta.json).  By default every change
is applied to a scratch worktree of /repo's HEAD (VERIF_REPO points the check
at it); with --inplace it is applied to /repo itself (git apply ... checkout),
which is how the checks are finally meant to be used — do that only when
nothing else is using /repo.  Prints one line per (change, check):
CAUGHT (VIOLATION line, with or without a failing input) or MISSED, and
writes seeded/RESULTS.json.
"""
import json
import os
import re
import shutil
import subprocess
import sys
import time
from pathlib import Path

V = Path(__file__).resolve().parent.parent
SEEDED = V / "seeded"


def sh(cmd, **kw):
    return subprocess.run(cmd, shell=True, capture_output=True, text=True, **kw)


def main(argv):
    tier = "quick"
    inplace = False
    sel = []
    i = 0
    while i < len(argv):
        if argv[i] == "--tier":
            tier = argv[i + 1]; i += 2
        elif argv[i] == "--inplace":
            inplace = True; i += 1
        else:
            sel.append(argv[i]); i += 1
    results = {}
    rf = SEEDED / "RESULTS.json"
    for d in sorted(p for p in SEEDED.iterdir() if p.is_dir()):
        meta = json.loads((d / "meta.json").read_text())
        props = meta["breaks"] if isinstance(meta["breaks"], list) else [meta["breaks"]]
        if sel and not any(s == d.name or s in props or d.name.startswith(s) for s in sel):
            continue
        checks = meta.get("run_checks", props)
        wt = Path("/tmp") / f"seedwt-{d.name}"
        if inplace:
            repo = Path("/repo")
            r = sh(f"git -C /repo apply {d}/patch.diff")
        else:
            sh(f"git -C /repo worktree remove --force {wt}")
            shutil.rmtree(wt, ignore_errors=True)
            r = sh(f"git -C /repo worktree add -q --detach {wt} HEAD && git -C {wt} apply {d}/patch.diff")
            repo = wt
        if r.returncode != 0:
            print(f"{d.name}: patch does not apply: {r.stderr.strip()[:300]}")
            results[d.name] = {"error": "patch does not apply"}
            continue
        try:
            for pid in checks:
                env = dict(os.environ)
                if not inplace:
                    env["VERIF_REPO"] = str(repo)
                t0 = time.time()
                p = subprocess.run(["./check", pid, "--tier", tier], cwd=V, env=env, capture_output=True, text=True)
                lines = [l for l in p.stdout.splitlines() if l.startswith("VIOLATION")]
                caught = p.returncode != 0 and bool(lines)
                with_input = any("no-failing-input-found" not in l for l in lines)
                status = ("CAUGHT" + ("" if with_input else " (no-failing-input-found)")) if caught else "MISSED"
                print(f"{d.name:40s} check={pid} {status} rc={p.returncode} {time.time()-t0:.0f}s "
                      + (lines[0] if lines else p.stdout.strip().splitlines()[-1] if p.stdout.strip() else ""), flush=True)
                results.setdefault(d.name, {})[pid] = {"status": status, "tier": tier, "violations": lines[:5]}
        finally:
            if inplace:
                sh("git -C /repo checkout -- .")
            else:
                sh(f"git -C /repo worktree remove --force {wt}")
                shutil.rmtree(wt, ignore_errors=True)
    # several instances may run side by side: merge under a lock, touching only our own entries
    import fcntl
    with open(SEEDED / ".results.lock", "w") as lk:
        fcntl.flock(lk, fcntl.LOCK_EX)
        allres = json.loads(rf.read_text()) if rf.exists() else {}
        for k, v in results.items():
            if isinstance(v, dict) and "error" not in v and isinstance(allres.get(k), dict) and "error" not in allres[k]:
                allres[k].update(v)
            else:
                allres[k] = v
        rf.write_text(json.dumps(allres, indent=1, sort_keys=True) + "\n")


if __name__ == "__main__":
    main(sys.argv[1:])
