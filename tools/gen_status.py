#!/usr/bin/env python3
"""tools/gen_status.py — rewrite the generated part of DESIGN.md section 10
(between the BEGIN/END GENERATED STATUS markers) from MANIFEST.json,
evidence/*.json, known_findings.json and seeded/*/meta.json + seeded/RESULTS.json."""
import json
import re
from pathlib import Path

V = Path(__file__).resolve().parent.parent
B = "<!-- BEGIN GENERATED STATUS -->"
E = "<!-- END GENERATED STATUS -->"


def main():
    man = json.loads((V / "MANIFEST.json").read_text())
    out = []
    out.append("### 10.1 Registered checks (from MANIFEST.json and the last evidence files)\n")
    out.append("| prop | theorems (discharged/obligations) | axioms reported by Print Assumptions | correspondence cases (quick) | non-trivial | quick wall |")
    out.append("|---|---|---|---|---|---|")
    for c in man["checks"]:
        pid = c["property_id"]
        ev = V / "evidence" / f"{pid}.json"
        if not ev.exists():
            out.append(f"| {pid} | (no evidence yet) | | | | |")
            continue
        e = json.loads(ev.read_text())
        cov = e["coverage"]
        ax = sorted({a for v in cov.get("axioms_per_theorem", {}).values() for a in v if a != "Axioms"})
        prim = [a for a in ax if a.startswith("Prim") or a.startswith("Uint63") or a.startswith("Float")]
        real = [a for a in ax if a not in prim]
        axs = "none" if not ax else "; ".join(filter(None, [
            ", ".join(real), f"kernel primitives ({len(prim)}: PrimFloat/PrimInt63 operations)" if prim else ""]))
        out.append(f"| {pid} | {cov.get('discharged', cov.get('proof_obligations_discharged', 0))}/"
                   f"{cov.get('obligations', cov.get('proof_obligations_total', 0))} | {axs} | "
                   f"{cov.get('evaluations')} | {cov.get('distinct_nontrivial')} | {e.get('wall_s')} s ({e.get('tier')}) |")
    out.append("")
    na = man.get("not_applicable", [])
    if na:
        out.append("Not claimed: " + "; ".join(f"{x['property_id']} ({x['reason']})" for x in na) + "\n")
    kf = json.loads((V / "known_findings.json").read_text())
    out.append("### 10.2 Defects of the pinned tree and their disposition (known_findings.json)\n")
    for f in kf.get("fixed", []):
        out.append(f"* {f}")
    for f in kf.get("findings", []):
        out.append(f"* known finding: property={f['property']} signature=`{f['signature']}` — {f.get('what', '')}")
    out.append("")
    out.append("### 10.3 Seeded changes (independent sub-agents, property text only) and which check catches them\n")
    res = {}
    rf = V / "seeded" / "RESULTS.json"
    if rf.exists():
        res = json.loads(rf.read_text())
    out.append("| seeded change | breaks | needs, in order to manifest | result of the registered check(s) |")
    out.append("|---|---|---|---|")
    for d in sorted(p for p in (V / "seeded").iterdir() if p.is_dir()):
        m = json.loads((d / "meta.json").read_text())
        r = res.get(d.name, {})
        cell = "; ".join(
            f"{pid}: {v['status']}" + (f" — `{v['violations'][0].split('replay=')[-1].split('/')[-1]}`" if v.get("violations") else "")
            for pid, v in sorted(r.items()) if isinstance(v, dict)) or "not run yet"
        out.append(f"| `{d.name}` | {m['breaks']} | {m['needs_to_manifest']} | {cell} |")
    out.append("")
    hd = V / "harmless"
    if hd.exists():
        hres = json.loads((hd / "RESULTS.json").read_text()) if (hd / "RESULTS.json").exists() else {}
        out.append("### 10.3b Behaviour-preserving refactorings (independent sub-agents) and what the checks say\n")
        out.append("Right answers: QUIET, or TIE-BROKEN (only `... no-failing-input-found` lines: the source translation or an "
                   "agreement proof no longer checks, no failing input exists); wrong answer: FALSE-ALARM (a violation that claims a failing input).\n")
        out.append("| refactoring | checks run | outcome |")
        out.append("|---|---|---|")
        tot = {"QUIET": 0, "TIE-BROKEN": 0, "FALSE-ALARM": 0}
        for d in sorted(p for p in hd.iterdir() if p.is_dir()):
            r = hres.get(d.name, {})
            cells = []
            for pid, v in sorted(r.items()):
                if isinstance(v, dict):
                    cells.append(f"{pid}: {v['status']}")
                    tot[v["status"]] = tot.get(v["status"], 0) + 1
            out.append(f"| `{d.name}` | {len(cells)} | {'; '.join(cells) or 'not run yet'} |")
        out.append("")
        out.append(f"Totals: {tot['QUIET']} quiet, {tot['TIE-BROKEN']} tie-broken (no failing input), {tot['FALSE-ALARM']} false alarms.\n")
    text = (V / "DESIGN.md").read_text()
    block = B + "\n" + "\n".join(out) + "\n" + E
    if B in text:
        text = re.sub(re.escape(B) + r".*?" + re.escape(E), lambda _: block, text, flags=re.S)
    else:
        text = text.rstrip("\n") + "\n\n" + block + "\n"
    (V / "DESIGN.md").write_text(text)
    print("DESIGN.md status block regenerated")


if __name__ == "__main__":
    main()
