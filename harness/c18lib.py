"""C18 -- the model regenerated from the source (second tie).

Every run translates src/pydsol/core/parameters.py and model.py of the tree under test with
translator/py2gallina_params.py into .scratch/params/trees/<key>/Gen_Params.v, compiles it and the
agreement proofs coq/Params/GenAgree.v (copied there, generated module imported from the second
logical root PVT) and re-checks coq/Props/C18.v against them.  <key> hashes the tree's two source
files, the translator, GenAgree.v and the model sources, so runs against different trees never
share a generated file and a finished directory is never stale.  coq/Params/Gen_Params.v
(tools/regen.sh) is only for setup / `build all` and is not touched here.
"""
from __future__ import annotations

import fcntl
import hashlib
import json
import os
import re
import shutil
import subprocess
import time
from pathlib import Path

import common as C

TREES = C.SCRATCH / "params" / "trees"
LAYOUT = b"1"          # bump when the way a tree directory is filled changes (old directories are then ignored)
MODEL_VO = ["Params/Model.vo", "Params/Proofs.vo"]
TRANSLATOR = C.VERIF / "translator" / "py2gallina_params.py"
AGREE = C.COQ / "Params" / "GenAgree.v"
SOURCES = [Path("src/pydsol/core/parameters.py"), Path("src/pydsol/core/model.py")]
_IMPORT = re.compile(r"^From PV Require Import ((?:Params\.(?:Gen_Params|GenAgree)\s*)+)\.\s*$", re.M)
_COQ_WARN = "-notation-overridden,-deprecated-hint-without-locality,-abstract-large-number,-inexact-float"
_ITEM = re.compile(r"^[ \t]*(Theorem|Lemma|Definition|Fixpoint)\s+([A-Za-z0-9_']+)", re.M)
_GEN_NAME = re.compile(r"\bgen_[A-Za-z0-9_']+")

# what the model transcribes by hand and the translator does not regenerate (recorded in the evidence)
HAND_ONLY = [
    "the declaration a parameter reports (read_only, display_priority, min_value / max_value, min_si / max_si / type, options, "
    "unittype: the OInspect observation) -- plain properties, compared by the correspondence run only",
    "which method each operation of a history calls (gen_step_root in coq/Params/GenAgree.v mirrors harness/c18.py Exec._do by hand)",
    "DSOLModel.__init__ beyond the one statement that creates the root map; the input_parameters setter",
    "InputParameter.__eq__ / __ne__ beyond their first statement (the answer for None); __gt__ __ge__ __le__ __str__ __repr__ print_values "
    "(not in the model)",
    "name, description, format_str: stored by the code, not in the model",
    "Python semantics fixed in the translator's prelude: isinstance lattice on the value universe, comparison of plain numbers / "
    "Quantity / SI, dict = children in insertion order, sorted = stable insertion sort, str.split / find / slicing",
]


def tree_source(text: str) -> str:
    return _IMPORT.sub(lambda m: "From PVT Require Import " + " ".join(x.replace("Params.", "") for x in m.group(1).split()) + ".", text)


def _coqc_tree(tree: Path, path: Path, timeout: int = 600):
    cmd = ["timeout", str(timeout), "coqc", "-R", str(C.COQ), "PV", "-R", str(tree), "PVT", "-w", _COQ_WARN, str(path)]
    p = subprocess.run(cmd, capture_output=True, text=True, cwd=path.parent)
    return p.returncode, p.stdout + p.stderr


class ParamsTree:
    """Gen_Params.v / GenAgree.v of the tree under test, built in a directory of their own."""

    def __init__(self):
        h = hashlib.sha1(str(C.REPO.resolve()).encode() + b"\0" + LAYOUT + b"\0")
        for f in [C.REPO / s for s in SOURCES] + [TRANSLATOR, AGREE] + [C.COQ / v[:-1] for v in MODEL_VO]:
            try:
                h.update(f.read_bytes())
            except OSError:
                h.update(b"<missing>")
            h.update(b"\0")
        self.key = h.hexdigest()[:16]
        self.dir = TREES / self.key
        self.info: dict = {}
        self.failed_theorems: list[dict] = []       # agreement theorems that no longer check
        self.gen_error = ""                          # Gen_Params.v itself does not compile
        self.timing: dict = {}

    # -- translation + compilation (once per key; later runs only re-check freshness)
    def prepare(self):
        self.dir.mkdir(parents=True, exist_ok=True)
        t0 = time.time()
        with open(self.dir / ".lock", "w") as lk:
            fcntl.flock(lk, fcntl.LOCK_EX)
            try:
                self._translate()
                self._build()
            finally:
                fcntl.flock(lk, fcntl.LOCK_UN)
        self._sweep()
        self.timing["prepare_s"] = round(time.time() - t0, 2)
        return self

    def _translate(self):
        j = self.dir / "Gen_Params.json"
        if not j.exists():
            t0 = time.time()
            env = dict(os.environ)
            env["VERIF_REPO"] = str(C.REPO)
            env["PYTHONDONTWRITEBYTECODE"] = "1"
            p = subprocess.run(["timeout", "120", C.PY, str(TRANSLATOR), "--out", str(self.dir), "--keep-going"],
                               capture_output=True, text=True, env=env)
            (self.dir / "translator.log").write_text(p.stdout + p.stderr)
            if not j.exists():
                j.write_text(json.dumps({"ok": False, "repo": str(C.REPO), "methods": [], "definitions": [], "failures": [
                    {"class": None, "method": None, "line": 0, "construct": "translator crashed",
                     "error": f"translator exit {p.returncode}: " + (p.stderr or p.stdout)[-1500:]}]}))
            self.timing["translate_s"] = round(time.time() - t0, 2)
        self.info = json.loads(j.read_text())
        if Path(self.info.get("repo", "")).resolve() != C.REPO.resolve():
            raise RuntimeError(f"translator read {self.info.get('repo')} but the check runs against {C.REPO}")

    def _fresh(self, vo: Path, v: Path, deps) -> bool:
        return vo.exists() and vo.stat().st_mtime_ns >= v.stat().st_mtime_ns and \
            all(d.exists() and d.stat().st_mtime_ns <= vo.stat().st_mtime_ns for d in deps)

    def _build(self):
        static = [C.COQ / v for v in MODEL_VO]
        gv, gvo = self.dir / "Gen_Params.v", self.dir / "Gen_Params.vo"
        av, avo = self.dir / "GenAgree.v", self.dir / "GenAgree.vo"
        state = self.dir / "agree_state.json"
        self.gen_error, self.failed_theorems = "", []
        if not gv.exists():
            self.gen_error = "no Gen_Params.v (translation failed)"
            return
        if not self._fresh(gvo, gv, static):
            t0 = time.time()
            rc, out = _coqc_tree(self.dir, gv, timeout=300)
            self.timing["coqc_gen_s"] = round(time.time() - t0, 2)
            if rc != 0:
                gvo.unlink(missing_ok=True)
                self.gen_error = out[-2500:]
                return
        if self._fresh(avo, av, [gvo] + static) and state.exists():
            self.failed_theorems = json.loads(state.read_text())
            return
        t0 = time.time()
        text = tree_source(AGREE.read_text())
        self.failed_theorems = []
        seen = {}

        def note(name, why):
            if name not in seen:
                seen[name] = 0
                self.failed_theorems.append({"theorem": name, "why": why})

        # items that mention a definition the translator had to leave out cannot check: drop them (and what is
        # built on them) before the first compilation
        defined_here = {n for _k, n, _a, _b in self._items(text)}
        have = set(self.info.get("definitions", [])) | set(re.findall(r"^(?:Definition|Fixpoint) (gen_[A-Za-z0-9_']+)", gv.read_text(), re.M))
        missing = {n for n in _GEN_NAME.findall(text) if n not in have and n not in defined_here}
        if missing:
            text = self._drop_dependents(text, missing, note,
                                         lambda n, hit: f"uses {hit}, which the translator had to leave out")
        for _ in range(40):
            av.write_text(text)
            rc, out = _coqc_tree(self.dir, av, timeout=600)
            if rc == 0:
                break
            m = re.search(r'File "[^"]*GenAgree\.v", line (\d+)', out)
            item = self._item_at(text, int(m.group(1))) if m else None
            err = re.sub(r"\s+", " ", out[out.find("Error"):])[:600]
            if item is None or seen.get(item[1], 0) >= 2:
                avo.unlink(missing_ok=True)
                note("GenAgree.v", out[-1500:])
                break
            kind, name = item[0], item[1]
            note(name, err)
            seen[name] += 1
            # first the proof is given up (the statement stays, nothing is defined); if the statement itself does not
            # check any more the whole item goes; whatever is built on it goes with it
            text = self._abort(text, name) if (kind in ("Theorem", "Lemma") and seen[name] == 1) else self._drop(text, name)
            text = self._drop_dependents(text, {name}, note, lambda n, hit: f"rests on {hit}, which no longer checks")
        state.write_text(json.dumps(self.failed_theorems))
        self.timing["coqc_agree_s"] = round(time.time() - t0, 2)

    def _drop_dependents(self, text, names, note, why):
        names = set(names)
        changed = True
        while changed:
            changed = False
            for _kind, n, a, b in self._items(text):
                if n in names:
                    continue
                body = text[a:b]
                hit = next((x for x in names if re.search(r"(?<![A-Za-z0-9_'])" + re.escape(x) + r"(?![A-Za-z0-9_'])", body)), None)
                if hit is not None:
                    note(n, why(n, hit))
                    text = self._drop(text, n)
                    names.add(n)
                    changed = True
                    break
        return text

    @classmethod
    def _items(cls, text: str):
        """(kind, name, start, end) of every theorem (up to its Qed) and definition (up to its full stop)"""
        out = []
        for m in _ITEM.finditer(text):
            if out and m.start() < out[-1][3]:
                continue
            if m.group(1) in ("Theorem", "Lemma"):
                q = re.compile(r"\b(?:Qed|Abort)\.").search(text, m.end())
            else:
                q = re.compile(r"\.(?=\s|$)").search(text, m.end())
            out.append((m.group(1), m.group(2), m.start(), q.end() if q else len(text)))
        return out

    def _item_at(self, text: str, line: int):
        pos = sum(len(l) + 1 for l in text.split("\n")[:line - 1])
        best = None
        for it in self._items(text):
            if it[2] <= pos + 1:
                best = it
        return best

    def _abort(self, text: str, name: str) -> str:
        """the same file with the proof of one theorem given up (statement kept, nothing defined)"""
        for _k, n, a, b in self._items(text):
            if n == name:
                body = text[a:b]
                i = body.find("Proof.")
                if i < 0:
                    return self._drop(text, name)
                keep_lines = "\n" * body[i:].count("\n")
                return text[:a] + body[:i] + "Proof. Abort. (* no longer checks *)" + keep_lines + text[b:]
        return text

    def _drop(self, text: str, name: str) -> str:
        for _k, n, a, b in self._items(text):
            if n == name:
                keep_lines = "\n" * text[a:b].count("\n")
                return text[:a] + f"(* {name}: no longer checks, left out *)" + keep_lines + text[b:]
        return text

    def _sweep(self):
        try:
            for d in TREES.iterdir():
                if d.is_dir() and d != self.dir and time.time() - d.stat().st_mtime > 86400:
                    shutil.rmtree(d, ignore_errors=True)
            os.utime(self.dir)
        except OSError:
            pass

    # -- what the check needs to know
    def agreement_theorems(self):
        return re.findall(r"^[ \t]*Theorem\s+([A-Za-z0-9_']+)", AGREE.read_text(), re.M)

    def broken(self):
        """None when the regenerated model is proved equal to the hand-written one; otherwise what no longer checks."""
        fails = self.info.get("failures", [])
        thms = [f for f in self.failed_theorems if f["theorem"]]
        if self.gen_error and not fails:
            return {"stage": "generated file does not compile", "detail": self.gen_error[-1200:], "theorems": []}
        if fails:
            return {"stage": "translation", "detail": "; ".join(dict.fromkeys(f["error"] for f in fails)),
                    "theorems": [t["theorem"] for t in thms], "failures": fails}
        if thms:
            return {"stage": "agreement proof", "detail": thms[0]["why"], "theorems": [t["theorem"] for t in thms],
                    "first": thms[0]["theorem"]}
        return None

    def coverage(self) -> dict:
        ms = self.info.get("methods", [])
        return {"translator": "translator/py2gallina_params.py (Python ast, fail-closed; modules under test not imported)",
                "sources": self.info.get("sources"), "source_sha1": self.info.get("source_sha1"),
                "tree_directory": f".scratch/params/trees/{self.key}",
                "translated_methods": [{"method": f"{m['class']}.{m['method']}", "file": m["file"], "lines": m["lines"],
                                        "as": m["what"]} for m in ms],
                "generated_definitions": self.info.get("definitions", []),
                "translated_text_sha1": self.info.get("translated_text_sha1"),
                "translation_failures": self.info.get("failures", []),
                "agreement_theorems": self.agreement_theorems(),
                "agreement_theorems_not_checking": self.failed_theorems,
                "hand_transcribed_only": HAND_ONLY,
                "timing": self.timing}

    def props_report(self, pid: str, keep: bool = False) -> dict:
        """re-check coq/Props/<pid>.v against the generated model of this tree; theorem names and axioms"""
        text = tree_source((C.COQ / "Props" / f"{pid}.v").read_text())
        theorems = re.findall(r"^\s*Theorem\s+([A-Za-z0-9_']+)", text, re.M)
        printed = re.findall(r"^\s*Print Assumptions\s+([A-Za-z0-9_']+)", text, re.M)
        d = self.dir / f"props_{pid}_{os.getpid()}"
        d.mkdir(exist_ok=True)
        f = d / f"{pid}_recheck.v"
        f.write_text(text)
        rc, out = _coqc_tree(self.dir, f, timeout=900)
        if not keep:
            shutil.rmtree(d, ignore_errors=True)
        blocks = [b for b in re.split(r"(?=Closed under the global context|Axioms:)", out)
                  if b.startswith("Closed under the global context") or b.startswith("Axioms:")]
        assumptions = {}
        for name, b in zip(printed, blocks):
            assumptions[name] = [] if b.startswith("Closed") else \
                sorted(set(re.findall(r"^([A-Za-z_][A-Za-z0-9_'.]*)\s*:", b, re.M)))
        return {"ok": rc == 0, "theorems": theorems, "assumptions": assumptions, "log": out[-4000:], "printed": printed,
                "dir": d, "module": f"PVT.{d.name}.{pid}_recheck"}


def check_proofs(run: C.Run, tree: ParamsTree, static_targets, extra_tb=None) -> bool:
    """What common.Run.check_proofs does, with the part that depends on the source text (Gen_Params, GenAgree,
    the last section of Props/C18.v) taken from the run's own tree directory."""
    gate = C.source_gate()
    ok, log = C.build_coq(static_targets)
    thorough = run.tier == "thorough" and not os.environ.get("VERIF_NO_COQCHK")
    rep = tree.props_report(run.pid, keep=thorough)
    n = len(rep["theorems"])
    run.cov["obligations"] = max(n, 1)
    run.cov["discharged"] = n if (ok and rep["ok"] and not gate) else 0
    run.cov["theorems"] = rep["theorems"]
    run.cov["axioms_per_theorem"] = rep["assumptions"]
    run.cov["source_translation"] = tree.coverage()
    rel = f".scratch/params/trees/{tree.key}"
    run.cov["checker_cmd"] = (f"python3 translator/py2gallina_params.py --out {rel} && python3 tools/build.py {' '.join(static_targets)} && "
                              f"coqc -R coq PV -R {rel} PVT <Gen_Params.v, coq/Params/GenAgree.v, coq/Props/{run.pid}.v> "
                              "(generated module imported from PVT; full .vo; Print Assumptions under every theorem)")
    axioms = sorted({a for v in rep["assumptions"].values() for a in v})
    tb = [C.KERNEL_TB,
          "axioms reported by Print Assumptions: " + (", ".join(axioms) if axioms else "none (all theorems closed under the global context)"),
          "hand-written Gallina model tied to /repo (a) by the per-run correspondence check (harness/c18.py) and (b) by equality "
          "with the model regenerated from the source text on every run (translator/py2gallina_params.py + coq/Params/GenAgree.v)",
          "the translator translator/py2gallina_params.py: its Python subset and the meaning it gives to it (isinstance on the value "
          "universe, comparisons of plain numbers vs Quantity / SI, exceptions with the state at the raise, parameter objects as tree "
          "nodes with references as access paths, dict = children in insertion order, sorted = stable insertion sort by __lt__, "
          "recursion on explicit fuel, exception messages not evaluated) and its tables saying which attribute is which field of the "
          "model and which constraint belongs to which class"]
    run.cov["trusted_base"] = tb + list(extra_tb or [])
    good = ok and rep["ok"] and not gate
    if good and thorough:
        run.coqchk([rep["module"]], extra_roots=["-R", str(tree.dir), "PVT"])
    if thorough:
        shutil.rmtree(rep["dir"], ignore_errors=True)
    if gate:
        run.violation("forbidden-construct", "forbidden construct in the Coq development: " + "; ".join(gate[:5]),
                      {"lines": gate}, found_input=False)
        return False
    if not good:
        run.proof_log = (log[-2000:] if not ok else "") + rep["log"][-2000:]
        return False
    return True


def report_broken_tie(run: C.Run, tree: ParamsTree, extra: dict | None = None):
    """the regenerated model no longer equals the proved one and no explored input violates the property itself"""
    b = tree.broken()
    if not b:
        return
    names = [t for t in b["theorems"] if t] or ["(none compiled: " + b["stage"] + ")"]
    if b["stage"] == "translation":
        how = b["detail"][:400]
    elif b["stage"] == "agreement proof":
        how = (f"agreement theorem {b['first']} of coq/Params/GenAgree.v no longer checks"
               + (f" (and {len(names) - 1} that rest on it: " + ", ".join(n for n in names if n != b['first'])[:300] + ")" if len(names) > 1 else ""))
    else:
        how = b["detail"][-300:]
    what = ("the model regenerated from src/pydsol/core/parameters.py / model.py is no longer proved equal to the model the C18 "
            f"theorems are about ({b['stage']}): {how}; the clause oracle found no input on which the changed code violates the property")
    body = {"relation": "coq/Params/GenAgree.v: " + ", ".join(names), "stage": b["stage"], "detail": b["detail"],
            "unchecked_theorems": names, "generated_file": str(tree.dir / "Gen_Params.v"),
            "how": f"VERIF_REPO={C.REPO} python3 translator/py2gallina_params.py --out <dir>; coqc -R coq PV -R <dir> PVT "
                   "<dir>/Gen_Params.v, then coq/Params/GenAgree.v with the generated module imported from PVT"}
    if b.get("failures"):
        body["translation_failures"] = b["failures"]
    body.update(extra or {})
    run.violation("translated-model-differs", what, body, found_input=False)
