"""C15 — samplers agree with their declared density / probability / cumulative
functions (partial; scope in coq/Props/C15.v and DESIGN.md section 4).

Proof part: Props/C15.v (densities total / non-negative / zero outside the
support, normalisation of the elementary families, inverse-transform samplers
follow F with F' = density, compositions, normal cdf under an erf contract).

Tie, re-checked on every run:
  (a) probability_density / probability / cumulative_probability /
      inverse_cumulative_probability of the real classes against the Gallina
      transcription Dist/Density.v executed with PrimFloat (libm calls recorded
      through a proxy, ** by refinement rounds), bit for bit, over parameter
      grids that reach every algorithmic branch plus seeded random parameters;
  (b) the draw algorithms against Dist/Draw.v on the same grids (machinery of
      harness/c14.py): draws and number of uniforms consumed, bit for bit.

Oracle independent of the Coq model (harness/c15_impl.py): the property's
clauses evaluated on the implementation - densities never raise / are >= 0 /
vanish outside the support, quadrature = 1, probabilities sum to 1, cdf monotone,
consistent with the density, cdf / inverse cdf round trips to the documented
accuracy.  When tie (a) or (b) breaks and no clause evaluation explains it, a
seeded sample of the affected class is compared with the declared density
(Kolmogorov distance from quadrature / total variation) - as a SEARCH for a
failing input, never as the verdict.
"""
from __future__ import annotations

import json
import math
import os
import random
import sys
from pathlib import Path

sys.path.insert(0, str(Path(__file__).resolve().parent))
import common as C
import c14
import c14lib as L

PID = "C15"
# built in coq/ (independent of the source text); Gen_Dist / GenAgree / Props are compiled per tree (c14lib.DistTree)
TARGETS = ["Dist/NumF.vo", "Dist/DensF.vo", "Dist/DensityR.vo", "Dist/Normalise.vo", "Dist/InvTransform.vo",
           "Dist/Support.vo", "Dist/Ctor.vo"]
IMPL14 = Path(__file__).resolve().parent / "c14_impl.py"
IMPL15 = Path(__file__).resolve().parent / "c15_impl.py"
INF = math.inf

PFv, PIv, pval = c14.PFv, c14.PIv, c14.pval
CONT = ["DistBeta", "DistConstant", "DistErlang", "DistExponential", "DistGamma", "DistLogNormal", "DistNormal",
        "DistNormalTrunc", "DistPearson5", "DistPearson6", "DistTriangular", "DistUniform", "DistWeibull"]
DISC = ["DistBernoulli", "DistBinomial", "DistDiscreteUniform", "DistGeometric", "DistNegBinomial", "DistPoisson"]
HAS_CDF = ["DistNormal", "DistLogNormal", "DistNormalTrunc"]
METH = {"probability_density": "MPdf", "probability": "MProb", "cumulative_probability": "MCdf",
        "inverse_cumulative_probability": "MInvCdf"}

# parameter grid: every algorithmic branch named by the property's quantifier
GRID = {
    "DistBernoulli": [[PFv(0.0)], [PFv(1.0)], [PFv(0.3)]],
    "DistBeta": [[PFv(0.5), PFv(0.5)], [PFv(1.0), PFv(1.0)], [PFv(2.0), PFv(3.0)], [PFv(0.7), PFv(2.5)], [PFv(5.0), PFv(0.3)],
                 [PIv(2), PIv(2)]],
    "DistBinomial": [[PIv(1), PFv(0.5)], [PIv(5), PFv(0.3)], [PIv(12), PFv(0.0)], [PIv(8), PFv(1.0)], [PIv(30), PFv(0.73)],
                     [PIv(1100), PFv(0.5)], [PIv(1100), PFv(0.0)], [PIv(1200), PFv(0.35)]],      # comb(n, k) beyond the float range
    "DistConstant": [[PFv(2.0)], [PIv(3)]],
    "DistDiscreteUniform": [[PIv(1), PIv(6)], [PIv(-3), PIv(2)], [PIv(0), PIv(1)]],
    "DistErlang": [[PFv(2.0), PIv(1)], [PFv(0.5), PIv(3)], [PFv(1.5), PIv(9)], [PFv(2.0), PIv(10)], [PFv(0.7), PIv(15)],
                   [PIv(2), PIv(4)], [PFv(0.5), PIv(120)], [PFv(1.0), PIv(200)], [PFv(3.0), PIv(400)]],               # (lambda x)**(k-1), (k-1)! beyond the float range
    "DistExponential": [[PFv(0.5)], [PFv(2.0)], [PIv(3)]],
    "DistGamma": [[PFv(0.5), PFv(2.0)], [PFv(1.0), PFv(2.0)], [PIv(1), PIv(1)], [PFv(2.5), PFv(0.7)], [PFv(10.0), PFv(3.0)],
                  [PFv(0.999), PFv(1.0)], [PFv(1.001), PFv(1.0)]],
    "DistGeometric": [[PFv(0.5)], [PFv(0.05)], [PFv(0.95)], [PFv(0.001)]],
    "DistLogNormal": [[PFv(0.0), PFv(1.0)], [PFv(1.5), PFv(0.25)], [PFv(-1.0), PFv(2.0)], [PIv(0), PIv(1)]],
    "DistNegBinomial": [[PIv(1), PFv(0.5)], [PIv(3), PFv(0.3)], [PIv(6), PFv(0.8)], [PIv(600), PFv(0.5)],
                        [PIv(600), PFv(0.4)]],       # comb(s+k-1, k) beyond the float range at the mode, p != 1/2
    "DistNormal": [[PFv(0.0), PFv(1.0)], [PFv(5.0), PFv(2.0)], [PFv(-3.0), PFv(0.5)], [PIv(1), PIv(2)]],
    "DistNormalTrunc": [[PFv(0.0), PFv(1.0), PFv(-1.0), PFv(2.0)], [PFv(0.0), PFv(1.0), PFv(0.0), PFv(INF)],
                        [PFv(0.0), PFv(1.0), PFv(-INF), PFv(1.0)], [PFv(10.0), PFv(2.0), PFv(9.0), PFv(14.0)],
                        [PFv(0.0), PFv(1.0), PFv(-INF), PFv(INF)], [PFv(1.0), PFv(0.5), PFv(2.0), PFv(2.5)]],
    "DistPearson5": [[PFv(2.0), PFv(3.0)], [PFv(0.5), PFv(1.0)], [PFv(1.0), PFv(2.0)], [PFv(5.0), PFv(0.5)]],
    "DistPearson6": [[PFv(2.0), PFv(3.0), PFv(1.5)], [PFv(0.5), PFv(2.0), PFv(1.0)], [PFv(1.0), PFv(1.0), PFv(2.0)],
                     [PFv(3.0), PFv(0.6), PFv(0.5)]],
    "DistPoisson": [[PFv(0.5)], [PFv(3.0)], [PFv(15.0)], [PFv(800.0)], [PFv(501.0)], [PFv(22.5)], [PFv(60.0)], [PFv(2000.0)],
                    [PFv(7.5)], [PFv(530.0)],
                    [PFv(30.0)], [PFv(200.0)], [PFv(500.0)], [PFv(730.0)]],      # exp(-rate) subnormal from 708, 0.0 from 745
    "DistTriangular": [[PFv(1.0), PFv(2.0), PFv(4.0)], [PFv(1.0), PFv(1.0), PFv(2.0)], [PFv(1.0), PFv(2.0), PFv(2.0)],
                       [PFv(-2.0), PFv(0.5), PFv(3.0)], [PFv(0.0), PFv(0.001), PFv(1.0)], [PIv(1), PIv(2), PIv(4)]],
    "DistUniform": [[PFv(1.0), PFv(4.0)], [PFv(-2.5), PFv(2.5)], [PFv(0.0), PFv(0.001)]],
    "DistWeibull": [[PFv(1.5), PFv(2.0)], [PFv(0.5), PFv(1.0)], [PFv(1.0), PFv(3.0)], [PFv(5.0), PFv(0.5)]],
}


def random_params(rng, cname):
    u = rng.uniform

    def shape():
        r = rng.random()
        return PFv(u(0.2, 1.0)) if r < 0.35 else PFv(1.0) if r < 0.45 else PFv(u(1.0, 12.0))
    if cname == "DistBernoulli":
        return [PFv(rng.random())]
    if cname == "DistBeta":
        return [shape(), shape()]
    if cname == "DistBinomial":
        return [PIv(rng.randint(1, 40) if rng.random() < 0.9 else rng.randint(900, 1300)), PFv(rng.random())]
    if cname == "DistConstant":
        return [PFv(u(-5, 5))]
    if cname == "DistDiscreteUniform":
        lo = rng.randint(-10, 10)
        return [PIv(lo), PIv(lo + rng.randint(1, 30))]
    if cname == "DistErlang":
        return [PFv(u(0.1, 5.0)), PIv(rng.choice([1, 2, 4, 9, 10, 11, 18, 18, 150, 250]))]
    if cname == "DistExponential":
        return [PFv(u(0.05, 20.0))]
    if cname == "DistGamma":
        return [shape(), PFv(u(0.1, 5.0))]
    if cname == "DistGeometric":
        return [PFv(u(0.02, 0.98))]
    if cname == "DistLogNormal":
        return [PFv(u(-2, 2)), PFv(u(0.1, 1.5))]
    if cname == "DistNegBinomial":
        return [PIv(rng.randint(1, 8) if rng.random() < 0.9 else rng.randint(300, 700)), PFv(u(0.05, 0.95))]
    if cname == "DistNormal":
        return [PFv(u(-10, 10)), PFv(u(0.1, 5.0))]
    if cname == "DistNormalTrunc":
        mu, sg = u(-5, 5), u(0.2, 3.0)
        r = rng.random()
        lo = -INF if r < 0.25 else mu + sg * u(-2.5, 1.0)
        hi = INF if 0.25 <= r < 0.5 else (mu + sg * u(-1.0, 2.5) if lo == -INF else lo + sg * u(0.2, 3.0))
        return [PFv(mu), PFv(sg), PFv(lo), PFv(hi)]
    if cname == "DistPearson5":
        return [shape(), PFv(u(0.2, 5.0))]
    if cname == "DistPearson6":
        return [shape(), shape(), PFv(u(0.2, 5.0))]
    if cname == "DistPoisson":
        return [PFv(u(0.05, 40.0) if rng.random() < 0.8 else u(40.0, 600.0))]
    if cname == "DistTriangular":
        lo = u(-5, 5)
        hi = lo + u(0.1, 10)
        r = rng.random()
        mode = lo if r < 0.2 else hi if r < 0.4 else u(lo, hi)
        return [PFv(lo), PFv(mode), PFv(hi)]
    if cname == "DistUniform":
        lo = u(-5, 5)
        return [PFv(lo), PFv(lo + u(0.01, 10))]
    if cname == "DistWeibull":
        return [PFv(u(0.3, 6.0)), PFv(u(0.2, 5.0))]
    raise ValueError(cname)


def fl(p):
    return float(pval(p))


def support_of(cname, ps):
    if cname == "DistBeta":
        return 0.0, 1.0
    if cname in ("DistErlang", "DistExponential", "DistGamma", "DistLogNormal", "DistPearson5", "DistPearson6", "DistWeibull"):
        return 0.0, INF
    if cname == "DistNormal":
        return -INF, INF
    if cname == "DistNormalTrunc":
        return fl(ps[2]), fl(ps[3])
    if cname == "DistTriangular":
        return fl(ps[0]), fl(ps[2])
    if cname == "DistUniform":
        return fl(ps[0]), fl(ps[1])
    if cname == "DistConstant":
        return fl(ps[0]), fl(ps[0])
    return None


def typical_scale(cname, ps):
    """(centre, width) of the region where the mass is"""
    v = [fl(p) for p in ps]
    if cname == "DistBeta":
        return 0.5, 0.5
    if cname == "DistErlang":
        return v[0] * v[1], v[0] * max(1.0, v[1])
    if cname == "DistExponential":
        return v[0], v[0] * 2
    if cname == "DistGamma":
        return v[0] * v[1], v[1] * max(1.0, v[0])
    if cname == "DistLogNormal":
        return math.exp(v[0]), math.exp(v[0]) * (1 + v[1]) * 2
    if cname in ("DistNormal",):
        return v[0], 3 * v[1]
    if cname == "DistNormalTrunc":
        lo, hi = max(v[2], v[0] - 4 * v[1]), min(v[3], v[0] + 4 * v[1])
        return 0.5 * (lo + hi), 0.5 * (hi - lo)
    if cname == "DistPearson5":
        return v[1] / (v[0] + 1), v[1]
    if cname == "DistPearson6":
        return v[2], 3 * v[2]
    if cname == "DistTriangular":
        return 0.5 * (v[0] + v[2]), 0.5 * (v[2] - v[0])
    if cname == "DistUniform":
        return 0.5 * (v[0] + v[1]), 0.5 * (v[1] - v[0])
    if cname == "DistWeibull":
        return v[1], 2 * v[1]
    if cname == "DistConstant":
        return v[0], 1.0
    return 0.0, 1.0


def discrete_mean_sd(cname, v):
    if cname == "DistBernoulli":
        return v[0], math.sqrt(v[0] * (1 - v[0])) + 0.5
    if cname == "DistBinomial":
        return v[0] * v[1], math.sqrt(v[0] * v[1] * (1 - v[1])) + 0.5
    if cname == "DistDiscreteUniform":
        return 0.5 * (v[0] + v[1]), (v[1] - v[0]) / 3.5 + 0.5
    if cname == "DistGeometric":
        return (1 - v[0]) / v[0], math.sqrt(1 - v[0]) / v[0] + 0.5
    if cname == "DistNegBinomial":
        return v[0] * (1 - v[1]) / v[1], math.sqrt(v[0] * (1 - v[1])) / v[1] + 0.5
    return v[0], math.sqrt(v[0]) + 0.5          # Poisson


def gen_calls(rng, cname, ps):
    """[[method, arg], ...]: support boundaries, branch points, interior, outside, random"""
    calls = []
    if cname in DISC:
        v = [pval(p) for p in ps]
        lo, hi = ((0, 1) if cname == "DistBernoulli" else (0, v[0]) if cname == "DistBinomial"
                  else (v[0], v[1]) if cname == "DistDiscreteUniform" else (0, None))
        mean, sd = discrete_mean_sd(cname, v)
        top = hi if hi is not None else int(mean + 6 * sd) + 12
        ks = {lo - 2, lo - 1, lo, lo + 1, top - 1, top, top + 1, top + 3}
        # across the bulk of the support, where the sampler puts its mass
        for z in (-3.0, -2.0, -1.0, -0.5, 0.0, 0.5, 1.0, 2.0, 3.0, 4.5):
            ks.add(int(round(mean + z * sd)))
        for _ in range(6):
            ks.add(int(round(rng.gauss(mean, sd))))
            ks.add(rng.randint(lo, top))
        if hi is None:
            ks.update([171, 200, 400])           # factorials / powers beyond the float range
            ks.update([90, 105, 114, 120])       # the last observations whose power rate ** k is finite for rates 500 .. 2000
        ks = sorted(ks)
        if (cname == "DistBinomial" and v[0] >= 500) or (cname == "DistNegBinomial" and v[0] >= 200):
            # exact big binomial coefficients are slow inside coqc: a handful of observations, the bulk included
            keep = {int(round(mean)), int(round(mean + sd)), int(round(mean - 2 * sd)), lo, top}
            ks = [k for k in ks if k in keep] + rng.sample(ks, 3)
            ks = sorted(set(ks))
        return [["probability", PIv(k)] for k in ks]
    lo, hi = support_of(cname, ps)
    c, w = typical_scale(cname, ps)
    xs = set()
    for b in (lo, hi):
        if math.isfinite(b):
            xs.update([b, math.nextafter(b, -INF), math.nextafter(b, INF), b - 0.37 * max(w, 1e-3), b + 0.41 * max(w, 1e-3)])
    if cname == "DistTriangular":
        m = fl(ps[1])
        xs.update([m, math.nextafter(m, -INF), math.nextafter(m, INF)])
    if cname == "DistConstant":
        xs.update([fl(ps[0]), fl(ps[0]) + 1.0])
    xs.update([0.0, -0.0, c, c - 0.5 * w, c + 0.5 * w, c + 2 * w, -1.0, 1.0])
    if lo == 0.0:
        xs.update([1e-30, 1e-12, 1e-110])
    if hi == INF:
        xs.update([c + 1e6 * w, 1e16, 1e200])
    for _ in range(6):
        xs.add(rng.uniform(c - 1.2 * w, c + 2.5 * w))
    calls += [["probability_density", PFv(x)] for x in sorted(xs) if math.isfinite(x)]
    if cname in HAS_CDF:
        cx = sorted(x for x in xs if math.isfinite(x))[::2]
        calls += [["cumulative_probability", PFv(x)] for x in cx]
        ys = [0.0, 1.0, 0.5, 1e-10, 1.0 - 1e-10, 0.25, 0.875, 0.96875, 0.125, 0.03125, 1e-300, -0.1, 1.1,
              rng.random(), rng.random(), 1.0 - 2.0 ** -53, 1.0 - 1e-9]
        calls += [["inverse_cumulative_probability", PFv(y)] for y in ys]
    return calls


def far_of(c):
    if c["cls"] in DISC:
        return 1e12
    cc, w = typical_scale(c["cls"], c["params"])
    return 1e12 * max(w, abs(cc), 1.0)


def gen_dens_cases(rng, n_random):
    cases = []
    for cname in sorted(GRID):
        for ps in GRID[cname]:
            cases.append({"cls": cname, "params": ps, "calls": gen_calls(rng, cname, ps), "grid": True})
    names = sorted(GRID)
    for i in range(n_random):
        cname = names[i % len(names)]
        ps = random_params(rng, cname)
        cases.append({"cls": cname, "params": ps, "calls": gen_calls(rng, cname, ps), "grid": False})
    return cases


# ------------------------------------------------------------------ implementation runs
def chunks(lst, k):
    n = max(1, (len(lst) + k - 1) // k)
    return [lst[i:i + n] for i in range(0, len(lst), n)]


def run_parallel(script, mode, cases, workers=8, timeout=1500):
    from concurrent.futures import ThreadPoolExecutor
    parts = chunks(cases, workers)

    def work(part):
        return C.run_impl_json(script, {"mode": mode, "cases": part}, timeout=timeout)
    res = []
    with ThreadPoolExecutor(max_workers=workers) as ex:
        for r in ex.map(work, parts):
            res += r
    return res


def extreme_argument(cname, ps, a):
    """an argument closer than 1e-20 (relative) to a finite support bound without being on it, or further than
    1e12 widths away from where the mass is: intermediate powers over / underflow there (Pearson5 next to 0, the far
    tails of gamma / Erlang / Weibull / normal / Pearson6); the property does not quantify over such arguments"""
    sup = support_of(cname, ps)
    c, w = typical_scale(cname, ps)
    w = max(w, 1e-300)
    if abs(a - c) > 1e12 * max(w, abs(c), 1.0):
        return True
    for b in (sup or ()):
        if math.isfinite(b) and 0.0 < abs(a - b) < 1e-20 * max(abs(b), w, 1.0):
            return True
    return False


# ------------------------------------------------------------------ clause oracle on the recorded outputs
def oracle_calls(case, res):
    """non-negative, never raising, zero outside the support - on the values the tie recorded"""
    out = []
    cname, ps = case["cls"], case["params"]
    if res["ctor"][0] != "accept":
        return [("ctor-rejects-inside-domain:" + cname, f"{cname}{tuple(pval(p) for p in ps)} raised {res['ctor'][1]}: {res['ctor'][2]}")]
    sup = support_of(cname, ps) if cname in CONT else None
    for (meth, arg), o in zip(case["calls"], res["outs"]):
        a = pval(arg)
        if o[0] == "raise":
            if meth == "inverse_cumulative_probability" and not (0.0 <= a <= 1.0):
                continue          # documented ValueError outside [0, 1]
            if meth == "probability_density" and extreme_argument(cname, ps, a):
                continue          # outside what the property quantifies over (compared bit for bit in the tie all the same)
            out.append((f"{meth}-raises:{cname}", f"{cname}{tuple(pval(p) for p in ps)}.{meth}({a!r}) raised {o[1]}: {o[2]}"))
            continue
        if o[1] != "f":
            out.append((f"{meth}-returns-wrong-type:{cname}", f"{meth}({a!r}) returned {o[1:]}"))
            continue
        v = float.fromhex(o[2])
        if meth == "probability_density" and v != v and extreme_argument(cname, ps, a):
            continue
        if meth == "probability" and v > 1.0 + 1e-12:
            out.append((f"probability-above-one:{cname}", f"{cname}{tuple(pval(p) for p in ps)}.probability({a!r}) = {v!r}"))
        if meth in ("probability_density", "probability"):
            if not v >= 0.0:
                out.append((f"{meth}-negative:{cname}", f"{cname}{tuple(pval(p) for p in ps)}.{meth}({a!r}) = {v!r}"))
            if meth == "probability_density" and sup and (a < sup[0] or a > sup[1]) and v != 0.0:
                out.append((f"density-nonzero-outside-support:{cname}", f"{cname}{tuple(pval(p) for p in ps)}.probability_density({a!r}) = {v!r}"))
        if meth == "cumulative_probability" and not (0.0 <= v <= 1.0):
            out.append((f"cdf-outside-unit-interval:{cname}", f"cumulative_probability({a!r}) = {v!r}"))
    return out


# ------------------------------------------------------------------ Coq emission
def coq_dcase(case, res, powtab):
    calls_c, exp_c = [], []
    ok = res["ctor"][0] == "accept"
    if ok:
        for (meth, arg), o in zip(case["calls"], res["outs"]):
            a = f"VF {C.cfloat(float.fromhex(arg[1]))}" if arg[0] == "f" else f"VI {C.cz(int(arg[1]))}"
            calls_c.append(f"({METH[meth]}, {a})")
            if o[0] == "val" and o[1] == "f":
                exp_c.append(f"DV {C.cfloat(float.fromhex(o[2]))}")
            elif o[0] == "raise" and c14.cexn(o[1]):
                exp_c.append(f"DE {c14.cexn(o[1])}")
            else:
                return None
    tab = []
    for fn, x, y, r in res["table"] + powtab:
        v = (f"OV {C.cfloat(float.fromhex(r[1]))}" if r[0] == "v"
             else f"OE {c14.cexn(r[1])}" if r[0] == "e" and c14.cexn(r[1]) else "OU")
        yy = C.cfloat(float.fromhex(y)) if y is not None else "0%float"
        tab.append(f"({c14.FN[fn]}, {C.cfloat(float.fromhex(x))}, {yy}, {v})")
    return (f"(mkD {C.clist(tab)} {c14.COQ_CLS[case['cls']]} {C.clist(c14.cparam(p) for p in case['params'])} "
            f"{C.cbool(ok)}\n  {C.clist(calls_c)}\n  {C.clist(exp_c)})")


def emit_dshard(path, terms):
    lines = ["From Coq Require Import ZArith List PrimFloat.",
             "From PV Require Import Dist.Num Dist.Draw Dist.NumF Dist.Density Dist.DensF.",
             "Import ListNotations.", "Open Scope nat_scope.",
             "Definition cases : list dcase := [", ";\n".join(terms), "].",
             "Eval vm_compute in (dreport_from 0 false cases)."]
    path.write_text("\n".join(lines) + "\n")


def pow_guesses_dens(case, res):
    """(x, y) pairs for ** that the density code is likely to evaluate (cache warm-up only)."""
    cname = case["cls"]
    v = [fl(p) for p in case["params"]]
    pairs = set()

    def add(x, y):
        pairs.add((float(x).hex(), float(y).hex()))
    for meth, arg in case["calls"]:
        a = pval(arg)
        if meth == "probability_density":
            x = float(a)
            if cname == "DistBeta" and 0 < x < 1:
                add(x, v[0] - 1); add(1.0 - x, v[1] - 1)
            elif cname == "DistErlang" and x >= 0:
                add((1.0 / pval(case["params"][0])) * x, float(int(v[1]) - 1))
            elif cname == "DistGamma" and x > 0:
                add(v[1], -v[0]); add(x, v[0] - 1)
            elif cname == "DistPearson5" and x > 0:
                add(v[1], v[0]); add(x, -v[0] - 1)
            elif cname in ("DistNormal", "DistNormalTrunc"):
                add((x - v[0]) / v[1], 2.0)
        elif meth == "probability":
            k = int(a)
            if cname == "DistBinomial" and 0 <= k <= int(v[0]):
                add(v[1], float(k)); add(1.0 - v[1], float(int(v[0]) - k))
            elif cname == "DistGeometric" and k >= 0:
                add(1.0 - v[0], float(k))
            elif cname == "DistNegBinomial" and k >= 0:
                add(v[1], float(int(v[0]))); add(1.0 - v[1], float(k))
            elif cname == "DistPoisson" and k >= 0:
                add(v[0], float(k))
    return sorted(pairs)


def dens_correspondence(run, cases, results, max_rounds=8):
    d = C.scratch_dir(PID)
    powtabs = [[] for _ in cases]
    gi, gp = [], []
    for i, (c, r) in enumerate(zip(cases, results)):
        for pr in pow_guesses_dens(c, r):
            gi.append(i); gp.append(list(pr))
    for i, pr, v in zip(gi, gp, c14.eval_pow(gp)):
        powtabs[i].append(["**", pr[0], pr[1], v])
    pending = list(range(len(cases)))
    mismatches, unrep = set(), set()
    rounds, shard = 0, 40
    while pending and rounds < max_rounds:
        rounds += 1
        terms, index = [], []
        for i in pending:
            t = coq_dcase(cases[i], results[i], powtabs[i])
            if t is None:
                unrep.add(i)
            else:
                terms.append(t); index.append(i)
        files = []
        for s in range(0, len(terms), shard):
            f = d / f"cases_c15_r{rounds}_{s // shard}.v"
            emit_dshard(f, terms[s:s + shard])
            files.append(f)
        outs = C.coqc_many(files)
        nxt, want_idx, want_pairs = [], [], []
        for si, (rc, out) in enumerate(outs):
            zs = c14.parse_z_list(out)
            if rc != 0 or zs is None:
                run.violation("correspondence-not-evaluable",
                              "coqc could not evaluate the C15 correspondence (Dist.DensF.dreport_from): " + out[-800:],
                              {"file": str(files[si])}, found_input=False)
                return None
            mism, misses = c14.parse_report(zs)
            for local in mism:
                g = index[si * shard + local]
                ms = misses.get(local, [])
                pw = [(x, y) for fn, x, y in ms if fn == "**"]
                if pw and len(pw) == len(ms):
                    for x, y in pw:
                        want_idx.append(g); want_pairs.append([x.hex(), y.hex()])
                    nxt.append(g)
                else:
                    mismatches.add(g)
        for g, pr, v in zip(want_idx, want_pairs, c14.eval_pow(want_pairs)):
            powtabs[g].append(["**", pr[0], pr[1], v])
        pending = sorted(set(nxt))
    return mismatches | unrep, set(pending), rounds


# ------------------------------------------------------------------ draw scenarios (tie (b))
def gen_draw_cases(rng, n_random):
    cases = []
    names = sorted(GRID)
    plist = [(c, ps) for c in names for ps in GRID[c]]
    for i in range(n_random):
        cname = names[i % len(names)]
        plist.append((cname, random_params(rng, cname)))
    for cname, ps in plist:
        for kind in ("mt", "script"):
            cases.append({"kind": "single",
                          "streams": [{"script": [float(x).hex() for x in ([] if kind == "mt" else [rng.random() for _ in range(3)])],
                                       "seed": rng.randrange(1, 2 ** 31), "kind": kind}],
                          "ops": [["new", 0, cname, True, 0, ps]] + [["draw", 0]] * 6})
    return cases


# ------------------------------------------------------------------ statistical search (only after a broken tie)
def stat_threshold(cname):
    """continuous: Kolmogorov distance from quadrature of the declared density; discrete: standard-normal score of the
    chi-square statistic against the class's own probability() (6.0 ~ a tail probability of 1e-9)"""
    return 6.0 if cname in DISC else 0.035


def sample_size(cname, ps):
    if cname not in DISC:
        return 20000
    mean, _sd = discrete_mean_sd(cname, [pval(p) for p in ps])
    per_draw = {"DistPoisson": mean + 1, "DistBinomial": pval(ps[0]), "DistNegBinomial": pval(ps[0])}.get(cname, 1)
    return int(min(100000, max(20000, 5e6 / max(per_draw, 1))))


def statistical_search(run, suspects, seed):
    """suspects: [(cls, params)].  Returns the first (cls, params, seed, distance, detail) beyond the threshold."""
    cases = [{"cls": c, "params": ps, "seed": seed + 17 * j, "n": sample_size(c, ps), "far": far_of({"cls": c, "params": ps})}
             for j, (c, ps) in enumerate(suspects)]
    res = run_parallel(IMPL15, "stats", cases, workers=min(8, max(1, len(cases))))
    worst = None
    for cs, r in zip(cases, res):
        if r.get("error"):
            return cs, r, f"sampling raised {r['error']}"
        if r["distance"] is not None and r["distance"] > stat_threshold(cs["cls"]):
            if worst is None or r["distance"] > worst[1]["distance"]:
                worst = (cs, r, None)
    return worst


def main(tier: str) -> int:
    run = C.Run(PID, tier)
    extra_known = os.environ.get("VERIF_KNOWN")
    try:
        tree = L.DistTree().prepare()
    except Exception as exc:  # noqa
        run.violation("translated-model-not-buildable", f"the model could not be regenerated from the source: {type(exc).__name__}: {exc}",
                      {"unchecked": "coq/Dist/GenAgree.v"}, found_input=False)
        return run.finish()
    # the re-check of Props/C15.v (Print Assumptions over the Coquelicot closure: ~25 s of one core) runs next to the
    # implementation runs and the correspondence; both need the static targets built (per-file locks in tools/build.py)
    from concurrent.futures import ThreadPoolExecutor
    proof_thread = ThreadPoolExecutor(max_workers=1)
    proof_future = proof_thread.submit(L.check_proofs, run, tree, TARGETS, extra_tb=[
        "libm (log, exp, pow, erf, gamma, lgamma) and the ** operator are oracle tables recorded from CPython in the same run",
        "theorems are over the real-number instance (Dist.NumR; stdlib reals + Coquelicot, the standard real-number axioms) of "
        "the same Gallina text (Dist.Draw, Dist.Density) that is executed with PrimFloat in the correspondence",
        "erf is external: the normal-cdf theorems assume its derivative / monotonicity / range as explicit hypotheses; "
        "gamma is assumed positive on the positive axis; erf_inv's accuracy is not covered",
        "NOT decided by proof: gamma / polar / Poisson rejection schemes, normalisation of gamma / beta / Pearson / normal "
        "densities and of binomial / negative binomial / Poisson probabilities, cdf / inverse-cdf accuracy: transcription tie only",
        "numerical oracle (quadrature, sums, round trips, seeded sample statistics) is used only to find failing inputs",
    ])
    C.build_coq(TARGETS)

    def proofs_done():
        try:
            return proof_future.result()
        except Exception as exc:  # noqa
            run.proof_log = f"{type(exc).__name__}: {exc}"
            return False
    rng = random.Random(run.seed * 7919 + 15)
    thorough = tier != "quick"
    dcases = gen_dens_cases(rng, 152 if not thorough else 1900)
    corpus = C.VERIF / "corpus" / "C15.json"
    if corpus.exists():
        dcases = json.loads(corpus.read_text()) + dcases
    try:
        dres = run_parallel(IMPL14, "dens", [{"cls": c["cls"], "params": c["params"], "calls": c["calls"]} for c in dcases])
        num_cases = [c for c in dcases if c.get("grid")] + [c for c in dcases if not c.get("grid")][:(30 if not thorough else 400)]
        nres = run_parallel(IMPL15, "num", [{"cls": c["cls"], "params": c["params"], "far": far_of(c)} for c in num_cases])
    except Exception as exc:  # noqa
        proofs_done()
        run.violation("harness-cannot-run-implementation",
                      f"running the calls on the implementation failed: {type(exc).__name__}: {str(exc)[-1500:]}", {}, found_input=False)
        return run.finish()

    findings = []          # (signature, what, replay)
    n_calls = 0
    nontrivial = set()
    hist = {}
    for c, r in zip(dcases, dres):
        if r.get("timeout"):
            findings.append((f"density-call-does-not-return:{c['cls']}", "a call did not return within the time limit", {"case": c}))
            continue
        for sig, what in oracle_calls(c, r):
            findings.append((sig, what, {"class": c["cls"], "params": c["params"], "calls": c["calls"],
                                         "how": "construct the class with MersenneTwister(1) and make the listed calls"}))
        n_calls += len(r["outs"])
        for (meth, arg), o in zip(c["calls"], r["outs"]):
            hist[meth] = hist.get(meth, 0) + 1
            if o[0] == "val" and o[1] == "f" and float.fromhex(o[2]) != 0.0:
                nontrivial.add((c["cls"], json.dumps(c["params"]), meth, json.dumps(arg)))
    masses = {}
    for c, r in zip(num_cases, nres):
        if r.get("timeout"):
            continue
        for kind, detail in r["findings"]:
            findings.append((f"{kind}:{c['cls']}", f"{c['cls']}{tuple(pval(p) for p in c['params'])}: {detail}",
                             {"class": c["cls"], "params": c["params"],
                              "how": "harness/c15_impl.py mode 'num' on this class / parameter set"}))
        if r["mass"] is not None:
            masses.setdefault(c["cls"], []).append(abs(r["mass"] - 1.0))

    # ---- tie (a): densities
    corr = dens_correspondence(run, dcases, dres)
    if corr is None:
        proofs_done()
        return run.finish()
    mism, unresolved, rounds = corr
    # ---- tie (b): draws
    draw_cases = gen_draw_cases(rng, 38 if not thorough else 570)
    dr = c14.run_impl(draw_cases)
    c14.PID = "C15d"
    dcorr = c14.correspondence(run, draw_cases, dr, max_rounds=12)
    c14.PID = "C14"
    proofs_ok = proofs_done()
    if dcorr is None:
        return run.finish()
    dmism, dunres, drounds = dcorr
    draw_known = set()
    for i in list(dmism):
        # a draw that raises because of a C14 known finding is C14's business, the tie itself is still checked
        f, _ = c14.oracle(draw_cases[i], dr[i])
        if f:
            draw_known.add(i)

    run.cov["evaluations"] = n_calls + len(draw_cases)
    run.cov["distinct_nontrivial"] = len(nontrivial)
    run.cov["rule"] = ("calls of probability_density / probability / cumulative_probability / inverse_cumulative_probability on "
                       "all 19 classes over the branch grid of the property (gamma shape below / at / above one, Erlang below and "
                       "above the gamma switch-over, one- and two-sided truncation, modes at the bounds, int parameters) plus seeded "
                       "random parameters; arguments at / next to the support bounds and branch points, inside, outside; "
                       "non-trivial = distinct (class, parameters, method, argument) whose result is a non-zero float; "
                       "plus draw scenarios (6 draws each, MersenneTwister and scripted streams) on the same parameter sets")
    run.cov["method_histogram"] = hist
    run.cov["density_cases"] = len(dcases)
    run.cov["draw_scenarios"] = len(draw_cases)
    run.cov["numeric_oracle_cases"] = len(num_cases)
    run.cov["max_abs_mass_error_per_class"] = {k: max(v) for k, v in sorted(masses.items())}
    run.cov["traces_validated_against_impl"] = (len(dcases) - len(mism) - len(unresolved)) + (len(draw_cases) - len(dmism) - len(dunres))
    run.cov["model_impl_mismatches"] = {"density": len(mism), "draw": len(dmism)}
    run.cov["pow_refinement_rounds"] = {"density": rounds, "draw": drounds}
    for c, r in list(zip(dcases, dres))[3:6]:
        run.add_sample({"class": c["cls"], "params": c["params"], "calls": c["calls"][:4], "impl_outputs": r["outs"][:4]})

    reported = set()
    for sig, what, rep in findings:
        if sig in reported:
            continue
        reported.add(sig)
        run.violation(sig, what, rep)
    run.cov["oracle_findings"] = sorted(reported)

    # ---- a broken tie that no clause evaluation explains: search with seeded samples
    explained_classes = {s.split(":", 1)[1] for s in reported if ":" in s}
    broken = [(dcases[i]["cls"], dcases[i]["params"], "density", i) for i in sorted(mism)
              if dcases[i]["cls"] not in explained_classes]
    broken += [(draw_cases[i]["ops"][0][2], draw_cases[i]["ops"][0][5], "draw", i) for i in sorted(dmism - draw_known)
               if draw_cases[i]["ops"][0][2] not in explained_classes]
    # the regenerated model no longer equals the proved one: the classes whose agreement theorems broke are suspects too
    tie = tree.broken_for(PID)
    if "source_translation" in run.cov:
        run.cov["source_translation"]["tie"] = ({"status": "broken", **{k: v for k, v in tie.items() if k != "failures"}}
                                                if tie else {"status": "checked"})
    tie_suspects = []
    if tie and not run.violations:
        for cls in [c for c in tie.get("classes", []) if c in GRID and c not in explained_classes][:6]:
            for ps in GRID[cls][:(7 if cls in DISC else 4)]:
                tie_suspects.append((cls, ps))
    hit = None
    if broken or tie_suspects:
        suspects, seen = [], set()
        for cls, ps in tie_suspects + [(b[0], b[1]) for b in broken]:
            key = (cls, json.dumps(ps))
            if key not in seen and len(suspects) < 24:
                seen.add(key); suspects.append((cls, ps))
        hit = statistical_search(run, suspects, 1000 + run.seed)
        run.cov["suspects_searched_statistically"] = len(suspects)
    if hit:
        cs, r, err = hit
        disc = cs["cls"] in DISC
        what = (f"{cs['cls']}{tuple(pval(p) for p in cs['params'])}: a seeded sample of {cs['n']} draws (MersenneTwister({cs['seed']})) "
                f"does not follow the declared {'probability function' if disc else 'density'}: "
                f"{'score' if disc else 'distance'} {r['distance']!r} ({r['detail']})" if not err else
                f"{cs['cls']}{tuple(pval(p) for p in cs['params'])}: {err}")
        run.violation(f"sample-does-not-follow-{'probability' if disc else 'density'}:{cs['cls']}", what,
                      {"class": cs["cls"], "params": cs["params"], "seed": cs["seed"], "n": cs["n"],
                       "distance": r.get("distance"), "threshold": stat_threshold(cs["cls"]),
                       "how": "harness/c15_impl.py mode 'stats' on this case"})
    elif broken:
        cls, ps, which, i = broken[0]
        rep = ({"class": cls, "params": ps, "calls": dcases[i]["calls"], "impl_outputs": dres[i]["outs"], "relation": "Dist.DensF.dcase_ok"}
               if which == "density" else
               {"scenario": c14.public(draw_cases[i]), "impl_outputs": dr[i]["outs"], "relation": "Dist.NumF.case_ok"})
        rep["mismatching"] = {"density": len(mism), "draw": len(dmism - draw_known)}
        run.violation("model-impl-disagree",
                      f"the {which} correspondence for {cls} no longer matches the implementation, but neither the clause "
                      "evaluations nor the seeded-sample search found an input that violates the property", rep, found_input=False)
    if tie and not run.violations:
        L.report_broken_tie(run, tree, "the clause evaluations, the numeric oracle and the seeded-sample search",
                            {"model_impl_mismatching_cases": {"density": len(mism), "draw": len(dmism - draw_known)}})
    if len(unresolved) + len(dunres) > 5:
        run.violation("pow-oracle-not-converging", f"{len(unresolved) + len(dunres)} cases still miss ** table entries",
                      {}, found_input=False)
    if not proofs_ok and not run.violations:
        run.violation("proof-broken", "a C15 proof obligation no longer checks: " + getattr(run, "proof_log", "")[-800:],
                      {"theorems": run.cov.get("theorems")}, found_input=False)
    return run.finish()


def replay(path: str) -> int:
    body = json.loads(Path(path).read_text())
    if "seed" in body and "n" in body:
        r = C.run_impl_json(IMPL15, {"mode": "stats", "cases": [{"cls": body["class"], "params": body["params"],
                                                                 "seed": body["seed"], "n": body["n"]}]})[0]
        print(json.dumps(r, indent=1))
        return 1 if (r.get("error") or (r["distance"] or 0) > body.get("threshold", 0.035)) else 0
    if "calls" in body:
        r = C.run_impl_json(IMPL14, {"mode": "dens", "cases": [{"cls": body["class"], "params": body["params"], "calls": body["calls"]}]})[0]
        f = oracle_calls({"cls": body["class"], "params": body["params"], "calls": body["calls"]}, r)
        print(json.dumps({"impl_outputs": r["outs"], "findings": f}, indent=1))
        return 1 if any(s == body.get("signature") for s, _ in f) else 0
    if "class" in body:
        r = C.run_impl_json(IMPL15, {"mode": "num", "cases": [{"cls": body["class"], "params": body["params"]}]})[0]
        print(json.dumps(r, indent=1))
        return 1 if r["findings"] else 0
    print("replay file has no input (proof / correspondence failure): re-run", body.get("rerun"))
    return 1


if __name__ == "__main__":
    sys.exit(main(sys.argv[1] if len(sys.argv) > 1 else "quick"))
