"""C10 — weighted and time-weighted tallies compute weight / time integrals.

Tie: operation sequences (register / notify / initialize / end_observations,
valid and rejected arguments) are run on the real WeightedTally,
EventBasedWeightedTally, TimestampWeightedTally and
EventBasedTimestampWeightedTally (without, with one and with all subscribers)
of /repo and on the Gallina models Stats.Weighted / Stats.Timestamp (binary64
instance) inside coqc; how every call ended and every public getter after (a
sample of) the calls must agree bit for bit.  A model-independent oracle
(fractions.Fraction evaluation of the weighted definitions / exact integration
of the step function, tolerance scaled by the data's condition number; exact
agreement on value / NaN / raise; "never raises", "rejected changes nothing",
"ignored after closing" checked directly on the implementation) classifies
disagreements and searches for and shrinks a failing input.
"""
from __future__ import annotations

import json
import math
import random
import sys
from fractions import Fraction
from pathlib import Path

sys.path.insert(0, str(Path(__file__).resolve().parent))
import common as C
import c09lib as L

PID = "C10"
# built in coq/ (independent of the source text); Gen_Stats / GenAgree / Props are compiled per tree (c09lib.StatsTree)
TARGETS = ["Stats/WeightedProofs.vo", "Stats/TimestampProofs.vo", "Stats/GenericTotal.vo"]

GETTERS = [
    ("wmean", "weighted_mean", lambda t: t.weighted_mean()),
    ("var_b", "weighted_variance", lambda t: t.weighted_variance()),
    ("var_u", "weighted_variance", lambda t: t.weighted_variance(False)),
    ("sd_b", "weighted_stdev", lambda t: t.weighted_stdev()),
    ("sd_u", "weighted_stdev", lambda t: t.weighted_stdev(False)),
]
GNAME = {k: g for k, g, _ in GETTERS}
PLAIN = ["min", "max", "wsum"]
SNAP_ORDER = ["n"] + PLAIN + [k for k, _, _ in GETTERS]

W_EVENTS = [("OBSERVATION_ADDED_EVENT", None), ("N_EVENT", "n"), ("MIN_EVENT", "min"), ("MAX_EVENT", "max"),
            ("WEIGHTED_SUM_EVENT", "wsum"), ("WEIGHTED_MEAN_EVENT", "wmean"),
            ("WEIGHTED_POPULATION_STDEV_EVENT", "sd_b"), ("WEIGHTED_POPULATION_VARIANCE_EVENT", "var_b"),
            ("WEIGHTED_SAMPLE_STDEV_EVENT", "sd_u"), ("WEIGHTED_SAMPLE_VARIANCE_EVENT", "var_u")]


# ------------------------------------------------------------------ generation
def gen_values(rng: random.Random, fam: str, n: int):
    if fam == "small_int":
        as_int = rng.random() < 0.5
        return [(rng.randint(-5, 9) if as_int or rng.random() < 0.3 else float(rng.randint(-5, 9))) for _ in range(n)]
    if fam == "dyadic":
        return [rng.randint(-64, 64) / 8.0 for _ in range(n)]
    if fam == "unit":
        return [rng.random() for _ in range(n)]
    if fam == "mixed":
        return [rng.choice([-1, 1]) * rng.random() * 10.0 ** rng.randint(-9, 9) for _ in range(n)]
    if fam == "offset":
        base = rng.choice([1e6, 1e9, float(2 ** 40), -3e8, 1e4])
        spread = rng.choice([1e-3, 1.0, 100.0])
        return [base + spread * (rng.random() - 0.5) for _ in range(n)]
    if fam == "equal":
        v = rng.choice([0.0, 1.0, 0.1, -2.5, 1e9 + 0.1, 7, rng.random() * 10.0 ** rng.randint(-8, 8)])
        return [v for _ in range(n)]
    if fam == "two_level":
        v = rng.choice([0.1, 3.0, -1e3, 1e8])
        w = v + rng.choice([1.0, -0.5, 1e-6, 1e3])
        return [w if rng.random() < 0.3 else v for _ in range(n)]
    if fam == "tiny":
        sc = 10.0 ** rng.randint(-170, -100)
        return [rng.randint(1, 9) * sc for _ in range(n)]
    raise ValueError(fam)


VFAMS = ["small_int", "small_int", "dyadic", "unit", "mixed", "offset", "equal", "two_level", "tiny"]


def gen_weights(rng: random.Random, fam: str, n: int):
    if fam == "small_int":           # many zero weights
        as_int = rng.random() < 0.5
        return [(lambda k: k if as_int else float(k))(rng.choice([0, 0, 1, 1, 2, 3, 5])) for _ in range(n)]
    if fam == "unit":
        return [rng.random() for _ in range(n)]
    if fam == "dyadic":
        return [rng.randint(0, 32) / 8.0 for _ in range(n)]
    if fam == "mixed":
        return [rng.random() * 10.0 ** rng.randint(-6, 6) for _ in range(n)]
    if fam == "all_zero":
        return [rng.choice([0, 0.0, -0.0]) for _ in range(n)]
    if fam == "mostly_zero":
        return [0.0 if rng.random() < 0.8 else rng.random() for _ in range(n)]
    if fam == "dwarfing":            # a weight far beyond the sum of the earlier ones
        return [rng.random() * 10.0 ** rng.choice([0, 0, 0, 17, 20, 30, -20]) for _ in range(n)]
    if fam == "ones":
        return [1 if rng.random() < 0.5 else 1.0 for _ in range(n)]
    raise ValueError(fam)


WFAMS = ["small_int", "small_int", "unit", "dyadic", "mixed", "all_zero", "mostly_zero", "dwarfing", "ones"]
BAD = [float("nan"), "3.0", None, L.HUGE_INT, -L.HUGE_INT]
BAD_W = BAD + [-1.0, -1, -1e-300, float("-inf")]
SUBS = ["none", "none", "all", "one"]
QUANTITIES = [("Duration", "s"), ("Duration", "min"), ("Length", "km"), ("SI", "m"), ("Speed", "km/h")]


def gen_weighted_case(rng: random.Random, idx: int, long_n: int = 0):
    cls, subs = [("WeightedTally", "none"), ("EventBasedWeightedTally", "none"), ("EventBasedWeightedTally", "all"),
                 ("EventBasedWeightedTally", "one")][idx % 4]
    vf, wf = VFAMS[rng.randrange(len(VFAMS))], WFAMS[rng.randrange(len(WFAMS))]
    n = long_n if long_n else rng.choice([0, 1, 2, 3, 4, 5, 8, 13, 21])
    vals, wts = gen_values(rng, vf, n), gen_weights(rng, wf, n)
    p_init = 0.0 if long_n else rng.choice([0.0, 0.0, 0.05, 0.15])
    p_bad = 0.002 if long_n else rng.choice([0.0, 0.05, 0.2])
    p_qty = 0.0 if long_n else rng.choice([0.0, 0.0, 0.0, 0.1, 0.4])
    p_qw = 0.002 if long_n else rng.choice([0.0, 0.1, 0.3])
    p_foreign = 0.002 if long_n else rng.choice([0.0, 0.05, 0.2])
    ops = []
    seen = False
    for w, v in zip(wts, vals):
        if rng.random() < p_init:
            ops.append({"op": "init"})
            seen = False
        if rng.random() < p_bad:
            if rng.random() < 0.5:
                bw, bv = BAD_W[rng.randrange(len(BAD_W))], v
            else:
                bw, bv = w, BAD[rng.randrange(len(BAD))]
            if rng.random() < 0.1:
                bw, bv = BAD_W[rng.randrange(len(BAD_W))], BAD[rng.randrange(len(BAD))]
            ops.append({"op": "reg" if cls == "WeightedTally" or rng.random() < 0.5 else "notify",
                        "w": L.enc(bw), "v": L.enc(bv)})
        if seen and rng.random() < p_qw:
            # a Quantity WEIGHT in register(): no plain number (only notify converts with float()); it must be refused
            # and -- coming after ordinary observations -- leave n, min, max and every statistic as they were
            qu = rng.choice(["s", "min", "h"])
            ops.append({"op": "reg", "w": L.qenc("Duration", rng.choice([2.0, 0.5, 0.0, abs(float(w))]), qu), "v": L.enc(rng.choice([v, 7, -3.5]))})
        if cls != "WeightedTally" and rng.random() < p_foreign:
            # a valid payload under an event type that merely has the NAME "WEIGHT_DATA_EVENT" (defined in another class)
            ops.append({"op": "foreign", "w": L.enc(rng.choice([1.0, 2, 0.5])), "v": L.enc(rng.choice([v, 4.0]))})
        seen = True
        how = "reg" if cls == "WeightedTally" or rng.random() < 0.7 else "notify"
        ev = L.enc(v)
        if rng.random() < p_qty and not isinstance(v, bool):      # a Quantity value counts with its si-value
            qc, qu = QUANTITIES[rng.randrange(len(QUANTITIES))]
            ev = L.qenc(qc, float(v), qu)
        ew = L.enc(w)
        if how == "notify" and rng.random() < p_qty and not isinstance(w, bool):   # notify takes float(weight)
            ew = L.qenc("Duration", float(w), "s")
        ops.append({"op": how, "w": ew, "v": ev})
    if not long_n and rng.random() < 0.25:
        ops.append({"op": "init"})
        if rng.random() < 0.5:
            for v in gen_values(rng, "small_int", rng.randint(1, 3)):
                ops.append({"op": "reg", "w": L.enc(rng.choice([0, 1, 2.0])), "v": L.enc(v)})
    if not ops:
        ops.append({"op": "init"})
    every = 1 if len(ops) <= 14 or (not long_n and rng.random() < 0.3) else max(2, len(ops) // 6)
    case = {"kind": "weighted", "cls": cls, "subs": subs, "family": vf + "/" + wf, "ops": ops, "snap_every": every}
    return case if long_n else add_init_listener(rng, case)


def add_init_listener(rng: random.Random, case):
    """An event-based tally gets, in half of the cases, a listener of INITIALIZED_EVENT that reads the statistic inside
    notify and (mode 'register') registers a seed observation; such a case contains an initialize() after some calls."""
    if not case["cls"].startswith("EventBased") or rng.random() < 0.5:
        return case
    ops = case["ops"]
    case["init_listener"] = rng.choice(["read", "register", "register"])
    if len(ops) >= 2 and not any(o["op"] == "init" for o in ops[1:]):
        ops.insert(rng.randint(1, len(ops) - (1 if len(ops) > 2 else 0)), {"op": "init"})
    if case["init_listener"] == "register":
        for k, o in enumerate(ops):
            if o["op"] != "init" or rng.random() >= 0.85:
                continue
            o["sv"] = L.enc(rng.choice([5.0, 2, -1.5, 0.25]))
            if case["kind"] == "weighted":
                o["s1"] = L.enc(rng.choice([1.0, 2, 0.5, 0.0]))
            else:                          # the time of the next call (so that the later timestamps stay non-decreasing)
                nxt = [L.dec(q["t"]) for q in ops[k + 1:] if "t" in q]
                nxt = [x for x in nxt if L.is_number(x) and not isinstance(x, bool) and x == x and abs(x) < 1e300]
                o["s1"] = L.enc(nxt[0] if nxt else 0.0)
    return case


def gen_times(rng: random.Random, fam: str, n: int):
    """non-decreasing timestamps with repeats"""
    if fam == "bigint":          # int clock far beyond 2^53 (nanoseconds since the epoch, ...): float() is not injective there
        t = rng.choice([1_700_000_000_000_000_000 + rng.randrange(10 ** 9), 2 ** 53 + rng.randrange(1000), 2 ** 60 + rng.randrange(50),
                        -(2 ** 55) - rng.randrange(1000)])
        step = rng.choice([[1, 2, 3], [100], [100, 100, 250], [7, 1000, 10 ** 6]])
        out = []
        for _ in range(n):
            out.append(t)
            if rng.random() >= 0.25:
                t = t + rng.choice(step)
        return out
    if fam == "mixed53":         # ints and floats interleaved around 2^53, compared exactly by Python
        t = 2 ** 53 - rng.randrange(6)
        out = []
        for _ in range(n):
            out.append(float(t) if float(t) == t and rng.random() < 0.5 else t)
            if rng.random() >= 0.25:
                t = t + rng.choice([1, 1, 2, 3])
        return out
    t = {"small_int": rng.choice([0, 0, 1, -3]), "dyadic": rng.randint(-8, 8) / 4.0, "unit": rng.random(),
         "offset": rng.choice([1e6, 1e9, float(2 ** 40)]), "dwarfing": 0.0, "mixed": 0.0}[fam]
    out = []
    for _ in range(n):
        out.append(t)
        if rng.random() < 0.25:
            continue                                    # repeated timestamp
        if fam == "small_int":
            t = t + rng.choice([1, 1, 2, 5]) if isinstance(t, int) and rng.random() < 0.8 else float(t) + rng.choice([1.0, 0.5, 3.0])
        elif fam == "dyadic":
            t = t + rng.randint(1, 16) / 8.0
        elif fam == "unit":
            t = t + rng.random()
        elif fam == "offset":
            t = t + rng.choice([1e-3, 1.0, 0.25]) * (0.5 + rng.random())
        elif fam == "mixed":
            t = t + rng.random() * 10.0 ** rng.randint(-4, 4)
        elif fam == "dwarfing":                         # an interval far longer than all earlier ones together
            t = t + rng.random() * 10.0 ** rng.choice([0, 0, -3, 17, 20, 30])
    return out


TFAMS = ["small_int", "small_int", "dyadic", "unit", "offset", "mixed", "dwarfing", "bigint", "bigint", "mixed53"]


def gen_ts_case(rng: random.Random, idx: int, long_n: int = 0):
    cls, subs = [("TimestampWeightedTally", "none"), ("EventBasedTimestampWeightedTally", "none"),
                 ("EventBasedTimestampWeightedTally", "all"), ("EventBasedTimestampWeightedTally", "one")][idx % 4]
    vf, tf = VFAMS[rng.randrange(len(VFAMS))], TFAMS[rng.randrange(len(TFAMS))]
    n = long_n if long_n else rng.choice([0, 1, 2, 3, 4, 5, 8, 13, 21])
    vals, times = gen_values(rng, vf, n), gen_times(rng, tf, n)
    p_init = 0.0 if long_n else rng.choice([0.0, 0.0, 0.05, 0.1])
    p_bad = 0.002 if long_n else rng.choice([0.0, 0.05, 0.2])
    p_back = 0.0 if long_n else rng.choice([0.0, 0.05, 0.15])
    p_end = 0.0 if long_n else rng.choice([0.0, 0.03, 0.1])
    p_qty = 0.0 if long_n else rng.choice([0.0, 0.0, 0.0, 0.1, 0.4])
    p_qw = 0.002 if long_n else rng.choice([0.0, 0.1, 0.3])
    p_foreign = 0.002 if long_n else rng.choice([0.0, 0.05, 0.2])
    # int timestamps beyond 2^53 go through register only: notify() converts with float(event.timestamp) by design
    exact_ints = tf in ("bigint", "mixed53")

    def pick(options):
        return rng.choice([o for o in options if isinstance(o, int)] if exact_ints else options)

    def val(v):                  # a Quantity value counts with its si-value
        if rng.random() < p_qty and not isinstance(v, bool):
            qc, qu = QUANTITIES[rng.randrange(len(QUANTITIES))]
            return L.qenc(qc, float(v), qu)
        return L.enc(v)
    ops = []
    last = None
    for t, v in zip(times, vals):
        if rng.random() < p_init:
            ops.append({"op": "init"})
        if rng.random() < p_bad:
            bt, bv = (BAD[rng.randrange(len(BAD))], v) if rng.random() < 0.5 else (t, BAD[rng.randrange(len(BAD))])
            if isinstance(bt, str) or bt is None or cls == "TimestampWeightedTally" or exact_ints or rng.random() < 0.5:
                ops.append({"op": "reg", "t": L.enc(bt), "v": L.enc(bv)})
            else:
                ops.append({"op": "notify", "t": L.enc(bt), "v": L.enc(bv)})
        if last is not None and rng.random() < p_back:   # an earlier timestamp
            ops.append({"op": "reg", "t": L.enc(last - pick([1, 0.5, 1e-9 * abs(last) + 1e-12, 3])), "v": L.enc(v)})
        if rng.random() < p_end:
            te = t if rng.random() < 0.5 else t + pick([0, 1, 0.5])
            ops.append({"op": "end", "t": L.enc(te)})
            if rng.random() < 0.3:
                ops.append({"op": "end", "t": L.enc(te + 1)})
        if last is not None and not exact_ints and rng.random() < p_qw and abs(float(last)) < 1e15:
            # a Quantity TIMESTAMP in register() / end_observations(): no plain number (only notify converts with
            # float()); it must be refused and leave everything as it was
            qt = L.qenc("Duration", float(last) + rng.choice([1.0, 0.5, 0.0]), "s")
            if rng.random() < 0.75:
                ops.append({"op": "reg", "t": qt, "v": L.enc(rng.choice([v, 7, -3.5]))})
            else:
                ops.append({"op": "end", "t": qt})
        if cls != "TimestampWeightedTally" and not exact_ints and rng.random() < p_foreign:
            # a valid payload under an event type that merely has the NAME "TIMESTAMP_DATA_EVENT"
            ops.append({"op": "foreign", "t": L.enc(t), "v": L.enc(rng.choice([v, 4.0]))})
        how = "reg" if cls == "TimestampWeightedTally" or exact_ints or rng.random() < 0.7 else "notify"
        if how == "notify" and rng.random() < p_qty and isinstance(t, float) and abs(t) < 1e15:
            ops.append({"op": how, "t": L.qenc("Duration", t, "s"), "v": val(v)})      # a Duration clock
        else:
            ops.append({"op": how, "t": L.enc(t), "v": val(v)})
        last = t
    if last is not None and (long_n or rng.random() < 0.8):
        r = rng.random()
        te = last if r < 0.3 else (last + pick([1, 2.5, 0.125, 100]) if r < 0.95 else last - 1)
        ops.append({"op": "end", "t": L.enc(te)})
        if not long_n and rng.random() < 0.5:              # observations after closing
            for v in gen_values(rng, "small_int", rng.randint(1, 3)):
                te = te + rng.choice([0, 1, 2])
                ops.append({"op": "reg", "t": L.enc(te), "v": L.enc(v)})
            if rng.random() < 0.4:
                ops.append({"op": "init"})
                t0 = (te + 10) if exact_ints else rng.choice([0, 5.0, -1])
                for k, v in enumerate(gen_values(rng, "small_int", rng.randint(1, 3))):
                    ops.append({"op": "reg", "t": L.enc(t0 + k), "v": L.enc(v)})
                ops.append({"op": "end", "t": L.enc(t0 + 7)})
    if not ops:
        ops.append({"op": "init"})
    every = 1 if len(ops) <= 14 or (not long_n and rng.random() < 0.3) else max(2, len(ops) // 6)
    case = {"kind": "timestamp", "cls": cls, "subs": subs, "family": vf + "/" + tf, "ops": ops, "snap_every": every}
    return case if long_n else add_init_listener(rng, case)


# ------------------------------------------------------------------ implementation side
def _make_collector():
    from pydsol.core.pubsub import EventListener

    class Collector(EventListener):
        def __init__(self):
            self.events = []

        def notify(self, event):
            self.events.append((event.event_type.name, event.content, getattr(event, "timestamp", None)))
    return Collector()


def snap(t, ts: bool):
    d = {"n": t.n(), "min": L.call(t.min), "max": L.call(t.max), "wsum": L.call(t.weighted_sum)}
    for k, _, f in GETTERS:
        d[k] = L.call(f, t)
    sw = getattr(t, "_sum_of_weights", None)           # anchor state; read defensively, used by the oracle only
    d["sw"] = float(sw) if isinstance(sw, (int, float)) else None
    if ts:
        d["active"] = _call_bool(t.isactive)
        d["last_value"] = L.call(t.last_value)
    return d


def _call_bool(f):
    try:
        v = f()
    except Exception as exc:  # noqa
        return ("r", type(exc).__name__)
    return ("v", v) if isinstance(v, bool) else ("bad", repr(v))


def snap_key(d, with_lv=True):
    out = [d["n"]]
    for k in PLAIN + [k for k, _, _ in GETTERS]:
        v = d[k]
        out.append((v[0], L.fbits(v[1]) if v[0] == "v" else v[1]))
    out.append(None if d["sw"] is None else L.fbits(d["sw"]))
    if "active" in d:
        out.append(d["active"])
        if with_lv:
            v = d["last_value"]
            out.append((v[0], L.fbits(v[1]) if v[0] == "v" else v[1]))
    return out


def run_case(case):
    """Run on the real class. Returns a list of step records."""
    from pydsol.core import statistics as S
    from pydsol.core.interfaces import StatEvents
    from pydsol.core.pubsub import Event, TimedEvent
    ts = case["kind"] == "timestamp"
    t = getattr(S, case["cls"])("tally under test")
    col = None
    if case["subs"] != "none":
        col = _make_collector()
        names = [n for n, _ in W_EVENTS] + ["INITIALIZED_EVENT"] if case["subs"] == "all" else ["N_EVENT"]
        for nme in names:
            t.add_listener(getattr(StatEvents, nme), col)
    lis = None
    if case.get("init_listener") and case["cls"].startswith("EventBased"):   # subscribed AFTER the collector
        lis = L.make_init_listener(case["init_listener"], lambda s: snap(s, ts), lambda s, seed: s.register(*seed))
        t.add_listener(StatEvents.INITIALIZED_EVENT, lis)
    every = case["snap_every"]
    nops = len(case["ops"])
    steps = []
    for i, op in enumerate(case["ops"]):
        rec = {"kind": "ok", "snap": None, "pub": None}
        if col is not None:
            col.events.clear()
        rec["pre"] = snap(t, ts)
        if op["op"] == "init" and lis is not None:
            lis.seen, lis.errors = [], []
            lis.seed = (L.dec_impl(op["s1"]), L.dec_impl(op["sv"])) if "s1" in op else None
        try:
            if op["op"] == "init":
                t.initialize()
            elif op["op"] == "end":
                t.end_observations(L.dec_impl(op["t"]))
            elif ts:
                tt, v = L.dec_impl(op["t"]), L.dec_impl(op["v"])
                if op["op"] == "foreign":
                    t.notify(TimedEvent(tt, L.foreign_event_type("TIMESTAMP_DATA_EVENT"), v))
                elif op["op"] == "notify":
                    t.notify(TimedEvent(tt, StatEvents.TIMESTAMP_DATA_EVENT, v))
                else:
                    t.register(tt, v)
            else:
                w, v = L.dec_impl(op["w"]), L.dec_impl(op["v"])
                if op["op"] == "foreign":
                    t.notify(Event(L.foreign_event_type("WEIGHT_DATA_EVENT"), (w, v)))
                elif op["op"] == "notify":
                    t.notify(Event(StatEvents.WEIGHT_DATA_EVENT, (w, v)))
                else:
                    t.register(w, v)
        except Exception as exc:  # noqa
            rec["kind"] = type(exc).__name__
        if col is not None:
            rec["pub"] = list(col.events)
        rec["post"] = snap(t, ts)
        if op["op"] == "init" and lis is not None:
            rec["init_seen"], rec["init_errors"] = list(lis.seen), list(lis.errors)
        if (i % every == every - 1) or i >= nops - 2 or "init_seen" in rec:
            rec["snap"] = rec["post"]
        rec["self"] = t
        steps.append(rec)
    return steps


# ------------------------------------------------------------------ oracle (independent of the Coq model)
def _arg_kind(x):
    """how a numeric-argument check ends: None (fine), or the exception"""
    if not L.is_number(x):
        return "TypeError"
    return None


def _isnan_kind(x):
    if isinstance(x, int) and not isinstance(x, bool) and abs(x) >= 10 ** 309:
        return "OverflowError"
    if isinstance(x, float) and x != x:
        return "ValueError"
    return None


def expected_kind_weighted(op):
    """documented outcome of WeightedTally.register / EventBasedWeightedTally.notify"""
    if op["op"] == "init":
        return "ok"
    if op["op"] == "foreign":          # notify() accepts StatEvents.WEIGHT_DATA_EVENT only, whatever another type is called
        return "ValueError"
    if op["op"] == "reg" and "q" in op["w"]:
        return "rejected"              # a Quantity weight is no plain number: refused (with whatever exception)
    w, v = L.dec(op["w"]), L.dec(op["v"])
    if _arg_kind(w) or _arg_kind(v):
        return "TypeError"
    if op["op"] == "notify":       # float(weight), float(value) first
        k = _isnan_kind(w) if _isnan_kind(w) == "OverflowError" else (_isnan_kind(v) if _isnan_kind(v) == "OverflowError" else None)
        if k:
            return k
    k = _isnan_kind(v) or _isnan_kind(w)
    if k:
        return k
    if w < 0:
        return "ValueError"
    return "ok"


def weighted_expectations(obs):
    """Definitions over the positively weighted observations (Fractions).
    Returns dict getter -> ('nan',) | ('val', lo, hi) | ('any',), and `regular`."""
    exp = {}
    n = len(obs)
    if n == 0:
        for k in ("min", "max", "wmean", "var_b", "var_u", "sd_b", "sd_u"):
            exp[k] = ("nan",)
        exp["wsum"] = ("val", 0.0, 0.0)
        exp["sw"] = ("val", 0.0, 0.0)
        return exp, True
    xs_all = [float(x) for _, x in obs]
    exp["min"] = ("val", min(xs_all), min(xs_all))
    exp["max"] = ("val", max(xs_all), max(xs_all))
    pos = [(Fraction(w), Fraction(x)) for w, x in obs if w > 0]
    nz = len(pos)
    if nz == 0:
        exp["wsum"] = ("val", 0.0, 0.0)
        exp["sw"] = ("val", 0.0, 0.0)
        exp["wmean"] = ("any",)                   # value not constrained where the definition is undefined
        for k in ("var_b", "var_u", "sd_b", "sd_u"):
            exp[k] = ("nan",)
        return exp, True
    W = sum(w for w, _ in pos)
    A = sum(w * x for w, x in pos)
    mean = A / W
    V = sum(w * (x - mean) ** 2 for w, x in pos) / W
    X = float(max(abs(x) for _, x in pos))
    D = float(max(abs(x - mean) for _, x in pos))
    wmax, wmin = float(max(w for w, _ in pos)), float(min(w for w, _ in pos))
    regular = X <= 1e60 and (D == 0 or (D >= 1e-60 and D * 1e6 >= X)) and wmax <= 1e60 and wmin >= 1e-60 \
        and wmax <= 1e12 * wmin
    nf = max(1.0, nz / 100.0)
    absA = float(sum(w * abs(x) for w, x in pos))
    tS = 1e-12 * absA * nf + 1e-300
    exp["wsum"] = ("val", float(A) - tS, float(A) + tS)
    tW = 1e-12 * float(W) * nf + 1e-300
    exp["sw"] = ("val", float(W) - tW, float(W) + tW)
    tM = 1e-12 * X * nf + 1e-300
    exp["wmean"] = ("val", float(mean) - tM, float(mean) + tM)
    if not regular:
        exp["var_b"] = exp["sd_b"] = ("sign",)          # a value >= 0 (or NaN from overflow), never negative
        exp["var_u"] = exp["sd_u"] = ("sign",) if nz >= 2 else ("nan",)
        return exp, False
    kappa = 1.0 if D == 0 else max(1.0, X / D)
    rel = 1e-9 * kappa * nf
    t2 = rel * D * D + 1e-300
    lo, hi = max(0.0, float(V) - t2), float(V) + t2
    exp["var_b"] = ("val", lo, hi)
    exp["sd_b"] = ("val",) + L.widen(math.sqrt(lo), math.sqrt(hi))
    if nz >= 2:
        c = nz / (nz - 1)
        exp["var_u"] = ("val",) + L.widen(lo * c, hi * c)
        exp["sd_u"] = ("val",) + L.widen(math.sqrt(lo * c), math.sqrt(hi * c))
    else:
        exp["var_u"] = exp["sd_u"] = ("nan",)
    return exp, True


def check_values(sn, exp, who):
    for k in PLAIN + [k for k, _, _ in GETTERS] + ["sw"]:
        e = exp.get(k)
        if e is None or e[0] == "any":
            continue
        if k == "sw":
            x = sn["sw"]
            if x is None:
                continue
        else:
            x = sn[k][1]
        g = GNAME.get(k, {"wsum": "weighted_sum", "sw": "sum-of-weights"}.get(k, k))
        if e[0] == "nan" and x == x:
            return (f"{who}-{g}-not-nan-when-undefined", f"{k} = {x!r} but the statistic is undefined here (documented: NaN)")
        if e[0] == "sign" and x == x and x < 0:
            return (f"{who}-{g}-negative", f"{k} = {x!r}: a variance / standard deviation is never negative")
        if e[0] == "val":
            if x != x:
                return (f"{who}-{g}-nan-when-defined", f"{k} is NaN but the statistic is defined; exact value in [{e[1]!r}, {e[2]!r}]")
            if not (e[1] <= x <= e[2]):
                return (f"{who}-{g}-value-off", f"{k} = {x!r}, exact rational evaluation of the definition gives [{e[1]!r}, {e[2]!r}]")
    return None


def never_raises(sn, who, nobs):
    for k in PLAIN:
        if sn[k][0] != "v":
            return (f"{who}-{k}-raises-or-not-a-float", f"{k}() gave {sn[k]!r}")
    for k, g, _ in GETTERS:
        if sn[k][0] == "r":
            return (f"{who}-{g}-raises-{sn[k][1]}",
                    f"{g}({'biased' if k.endswith('_b') or k == 'wmean' else 'unbiased'}) raised {sn[k][1]} "
                    f"after {nobs} registered observations")
        if sn[k][0] == "bad":
            return (f"{who}-{g}-not-a-float", f"{g} returned {sn[k][1]}")
    return None


def _polluting(x):
    return (isinstance(x, float) and math.isinf(x)) or (isinstance(x, int) and abs(int(x)) > 2 ** 53)


def check_publication(case, rec, want_first, who, i, stamp=None):
    if rec["pub"] is None or case["subs"] != "all":
        return None
    names = [e[0] for e in rec["pub"]]
    if names != [n for n, _ in W_EVENTS]:
        return (f"{who}-publication-order-wrong", f"register published {names}", i)
    for (nme, key), (_, content, tstamp) in zip(W_EVENTS, rec["pub"]):
        want = want_first if key is None else (rec["post"]["n"] if key == "n" else rec["post"][key][1])
        if key == "n":
            same = content == want
        else:
            same = isinstance(content, (int, float)) and L.same_float(float(content), float(want))
        if not same:
            return (f"{who}-published-payload-differs", f"{nme} carried {content!r} but the getter returns {want!r} right after the call", i)
        if stamp is not None and not (isinstance(tstamp, (int, float)) and float(tstamp) == float(stamp)):
            return (f"{who}-published-timestamp-differs", f"{nme} was stamped {tstamp!r}, the observation time is {stamp!r}", i)
    return None


def not_fresh(sn):
    """None when a getter snapshot is that of a (timestamp) weighted tally with no observation"""
    if sn["n"] != 0 or isinstance(sn["n"], bool):
        return f"n() = {sn['n']!r}"
    if sn["wsum"] != ("v", 0.0):
        return f"weighted_sum() = {sn['wsum'][1]!r}"
    for k in ["min", "max"] + [k for k, _, _ in GETTERS]:
        if sn[k][0] != "v" or sn[k][1] == sn[k][1]:
            return f"{GNAME.get(k, k)}() = {sn[k][1]!r}"
    if sn["sw"] not in (None, 0.0):
        return f"sum of weights = {sn['sw']!r}"
    if "active" in sn and (sn["active"] != ("v", True) or sn["last_value"] != ("v", 0.0)):
        return f"isactive(), last_value() = {sn['active'][1]!r}, {sn['last_value'][1]!r}"
    return None


def check_init_listener(case, op, rec, who, i):
    """the INITIALIZED_EVENT listener of the case: notified exactly once, what it read inside notify is a freshly
    initialised statistic, and its registration of the seed observation went through"""
    if "init_seen" not in rec:
        return None
    if len(rec["init_seen"]) != 1:
        return (f"{who}-initialized-event-count-wrong", f"initialize() notified the INITIALIZED_EVENT listener {len(rec['init_seen'])} times", i)
    stale = not_fresh(rec["init_seen"][0])
    if stale:
        return (f"{who}-initialized-event-before-reset",
                f"{case['cls']}.initialize(): when INITIALIZED_EVENT was delivered the statistic still reported {stale}; "
                "at that moment no observation has been registered since the initialisation", i)
    if rec["init_errors"]:
        return (f"{who}-register-inside-initialized-notification-raises",
                f"registering ({L.show(op['s1'])}, {L.show(op['sv'])}) from the INITIALIZED_EVENT listener raised {rec['init_errors'][0]}", i)
    return None


def init_seeded(case, op, rec):
    return "init_seen" in rec and case.get("init_listener") == "register" and "s1" in op


def check_init_publication(case, op, rec, who, i, stamp=None):
    if rec["pub"] is None or case["subs"] != "all":
        return None
    seeded = init_seeded(case, op, rec)
    names = [e[0] for e in rec["pub"]]
    want = ["INITIALIZED_EVENT"] + ([n for n, _ in W_EVENTS] if seeded else [])
    if names != want or rec["pub"][0][1] is not rec["self"]:
        return (f"{who}-initialize-publication-wrong", f"initialize published {names}, expected {want}", i)
    if seeded:
        return check_publication(case, {**rec, "pub": rec["pub"][1:]}, float(L.dec(op["sv"])), who, i, stamp=stamp)
    return None


def oracle_weighted(case, steps):
    who = "weighted"
    obs, polluted, nontrivial = [], False, False
    for i, (op, rec) in enumerate(zip(case["ops"], steps)):
        ek = expected_kind_weighted(op)
        sub = {"none": "", "all": " with subscribers attached", "one": " with one subscriber attached"}[case["subs"]]
        call = "initialize()" if op["op"] == "init" else f"{op['op']}({L.show(op['w'])}, {L.show(op['v'])})"
        if op["op"] == "foreign":
            call = f"notify(Event(<EventType named 'WEIGHT_DATA_EVENT' defined in class Sensor>, ({L.show(op['w'])}, {L.show(op['v'])})))"
            if rec["kind"] != ek:
                return (f"{who}-foreign-event-type-not-rejected", f"{case['cls']}.{call}: a DIFFERENT EventType that merely has the "
                        f"expected name ended with {rec['kind']}, expected ValueError", i), False
        if ek == "rejected":
            if rec["kind"] == "ok":
                return (f"{who}-quantity-weight-not-rejected", f"{case['cls']}.{call} was accepted", i), False
            ek = rec["kind"]
        if rec["kind"] != ek:
            if ek == "ok":
                return (f"{who}-register-raises-{rec['kind']}",
                        f"{case['cls']}.{call}{sub} raised {rec['kind']} on a valid observation "
                        f"(observation #{len(obs) + 1} since the last initialize)", i), False
            return (f"{who}-invalid-observation-not-rejected", f"{case['cls']}.{call} ended with {rec['kind']}, expected {ek}", i), False
        if op["op"] == "init":
            obs, polluted = [], False
            bad = check_init_listener(case, op, rec, who, i)
            if bad:
                return bad, False
            if init_seeded(case, op, rec):     # the listener's observation is the first one since this initialisation
                obs = [(L.dec(op["s1"]), L.dec(op["sv"]))]
            bad = check_init_publication(case, op, rec, who, i)
            if bad:
                return bad, False
        elif ek != "ok":
            if snap_key(rec["pre"]) != snap_key(rec["post"]):
                return (f"{who}-rejected-observation-changes-state",
                        f"{call} was rejected with {ek} but a getter changed: {snap_key(rec['pre'])} -> {snap_key(rec['post'])}", i), False
            if rec["pub"]:
                return (f"{who}-publishes-on-rejected", f"rejected observation published {len(rec['pub'])} events", i), False
        else:
            w, v = L.dec(op["w"]), L.dec(op["v"])
            polluted = polluted or _polluting(w) or _polluting(v)
            obs.append((w, v))
            if w == 0:      # zero weight touches only n, min, max
                a, b = rec["pre"], rec["post"]
                same = all(L.fbits(a[k][1]) == L.fbits(b[k][1]) for k in ["wsum"] + [k for k, _, _ in GETTERS]
                           if a[k][0] == "v" and b[k][0] == "v" and not (k == "wmean" and a["n"] == 0))
                if not same or (a["sw"] is not None and L.fbits(a["sw"]) != L.fbits(b["sw"])):
                    return (f"{who}-zero-weight-changes-statistics",
                            f"{call}: a zero-weight observation changed a weighted statistic: {snap_key(a)} -> {snap_key(b)}", i), False
            bad = check_publication(case, rec, float(v), who, i)
            if bad:
                return bad, False
        bad = never_raises(rec["post"], who, len(obs))
        if bad:
            return (bad[0], bad[1] + f" (after {call})", i), False
        if rec["snap"] is not None and not polluted:
            sn = rec["snap"]
            if sn["n"] != len(obs) or isinstance(sn["n"], bool):
                return (f"{who}-n-wrong", f"n() = {sn['n']!r}, {len(obs)} observations registered since the last initialize", i), False
            exp, regular = weighted_expectations(obs)
            bad = check_values(sn, exp, who)
            if bad:
                return (bad[0], bad[1], i), False
            nzv = {x for w, x in obs if w > 0}
            nontrivial = nontrivial or (regular and sum(1 for w, _ in obs if w > 0) >= 3 and len(nzv) >= 2)
    return None, nontrivial


def expected_kind_ts(op, last_ts):
    if op["op"] == "init":
        return "ok"
    if op["op"] == "foreign":          # notify() accepts StatEvents.TIMESTAMP_DATA_EVENT only
        return "ValueError"
    if op["op"] in ("reg", "end") and "q" in op["t"]:
        return "rejected"              # a Quantity timestamp is no plain number: refused (with whatever exception)
    t = L.dec(op["t"])
    v = L.dec(op["v"]) if op["op"] != "end" else 0.0
    if op["op"] == "notify":
        if not L.is_number(v):
            return "TypeError"
        k = _isnan_kind(t) if _isnan_kind(t) == "OverflowError" else (_isnan_kind(v) if _isnan_kind(v) == "OverflowError" else None)
        if k:
            return k
    if _arg_kind(t) or _arg_kind(v):
        return "TypeError"
    k = _isnan_kind(v) or _isnan_kind(t)
    if k:
        return k
    if last_ts is not None and t < last_ts:
        return "ValueError"
    return "ok"


def oracle_ts(case, steps):
    """Property-level semantics: the signal is piecewise constant, the value given at time t holds from t on
    (the last one given at t wins); statistics are weight = duration integrals from the first time to the latest time
    seen while open; closed tallies ignore observations; earlier timestamps are refused."""
    who = "timestamp"
    pts, last_ts, closed, polluted, nontrivial = [], None, False, False, False
    n_adv = 0          # number of intervals of positive length seen while open (exact comparison of the timestamps)
    for i, (op, rec) in enumerate(zip(case["ops"], steps)):
        ek = expected_kind_ts(op, last_ts)
        sub = {"none": "", "all": " with subscribers attached", "one": " with one subscriber attached"}[case["subs"]]
        call = "initialize()" if op["op"] == "init" else (
            f"end_observations({L.show(op['t'])})" if op["op"] == "end" else f"{op['op']}({L.show(op['t'])}, {L.show(op['v'])})")
        if op["op"] == "foreign":
            call = f"notify(TimedEvent({L.show(op['t'])}, <EventType named 'TIMESTAMP_DATA_EVENT' defined in class Sensor>, {L.show(op['v'])}))"
            if rec["kind"] != ek:
                return (f"{who}-foreign-event-type-not-rejected", f"{case['cls']}.{call}: a DIFFERENT EventType that merely has the "
                        f"expected name ended with {rec['kind']}, expected ValueError", i), False
        if ek == "rejected":
            if rec["kind"] == "ok":
                return (f"{who}-quantity-timestamp-not-rejected", f"{case['cls']}.{call} was accepted", i), False
            ek = rec["kind"]
        if rec["kind"] != ek:
            if ek == "ok":
                return (f"{who}-register-raises-{rec['kind']}",
                        f"{case['cls']}.{call}{sub} raised {rec['kind']} on a valid call "
                        f"({len(pts)} timestamps accepted since the last initialize)", i), False
            if ek == "ValueError" and rec["kind"] == "ok" and _isnan_kind(L.dec(op["t"])) is None:
                return (f"{who}-earlier-timestamp-accepted", f"{case['cls']}.{call} was accepted although the latest timestamp is {last_ts!r}", i), False
            return (f"{who}-invalid-observation-not-rejected", f"{case['cls']}.{call} ended with {rec['kind']}, expected {ek}", i), False
        pre, post = rec["pre"], rec["post"]
        if op["op"] == "init":
            pts, last_ts, closed, polluted, n_adv = [], None, False, False, 0
            if post["active"] != ("v", True):
                return (f"{who}-initialize-does-not-reopen", f"isactive() = {post['active']!r} after initialize", i), False
            bad = check_init_listener(case, op, rec, who, i)
            if bad:
                return bad, False
            if init_seeded(case, op, rec):     # the listener's (time, value) is the first point since this initialisation
                pts, last_ts = [(L.dec(op["s1"]), L.dec(op["sv"]))], L.dec(op["s1"])
            bad = check_init_publication(case, op, rec, who, i, stamp=L.dec(op["s1"]) if "s1" in op else None)
            if bad:
                return bad, False
        elif ek != "ok":
            if snap_key(pre) != snap_key(post):
                return (f"{who}-rejected-observation-changes-state",
                        f"{call} was rejected with {ek} but a getter changed: {snap_key(pre)} -> {snap_key(post)}", i), False
            if rec["pub"]:
                return (f"{who}-publishes-on-rejected", f"rejected call published {len(rec['pub'])} events", i), False
        else:
            t = L.dec(op["t"])
            if closed:
                if snap_key(pre, with_lv=False) != snap_key(post, with_lv=False):
                    return (f"{who}-observation-after-closing-not-ignored",
                            f"{call} after end_observations changed a statistic: {snap_key(pre, False)} -> {snap_key(post, False)}", i), False
            else:
                v = pts[-1][1] if (op["op"] == "end" and pts) else (L.dec(op["v"]) if op["op"] != "end" else 0.0)
                # a timestamp may be any int (Python subtracts and compares ints exactly); only +-inf is left aside
                polluted = polluted or (isinstance(t, float) and math.isinf(t)) or _polluting(v)
                if pts and t > pts[-1][0]:
                    n_adv += 1
                pts.append((t, v))
                last_ts = t
                if op["op"] == "end":
                    closed = True
                    if post["active"] != ("v", False):
                        return (f"{who}-end-does-not-close", f"isactive() = {post['active']!r} after {call}", i), False
            if op["op"] != "end":
                bad = check_publication(case, rec, float(L.dec(op["v"])), who, i, stamp=t)
                if bad:
                    return bad, False
        bad = never_raises(post, who, len(pts))
        if bad:
            return (bad[0], bad[1] + f" (after {call})", i), False
        if rec["snap"] is not None and not polluted:
            sn = rec["snap"]
            if sn["n"] != n_adv or isinstance(sn["n"], bool):
                return (f"{who}-n-wrong", f"n() = {sn['n']!r}, but {n_adv} intervals of positive length lie between the "
                        f"{len(pts)} timestamps accepted since the last initialize", i), False
            segs = [(Fraction(t1) - Fraction(t0), v0) for (t0, v0), (t1, _) in zip(pts, pts[1:])]
            exp, regular = weighted_expectations([(w, x) for w, x in segs if w > 0])
            # ints beyond 2^53 next to floats: Python itself rounds the int when it meets the float in a subtraction,
            # so a duration can be off by an ulp of the timestamps; then only n, the span (to that accuracy), NaN
            # structure and never-raises are checked.  Ints among themselves (and floats among themselves) subtract
            # exactly / correctly rounded: the span must then be right relative to ITS OWN size.
            lossy = any(isinstance(t, int) and abs(t) > 2 ** 53 for t, _ in pts) and any(isinstance(t, float) for t, _ in pts)
            if lossy:
                exp = {k: (e if e[0] == "nan" else ("any",)) for k, e in exp.items()}
                regular = False
            if not pts:
                exp["sw"] = ("val", 0.0, 0.0)
            else:                    # total weight = the span from the first to the latest time
                span = Fraction(pts[-1][0]) - Fraction(pts[0][0])
                tol = 1e-12 * float(span) * max(1.0, len(pts) / 100.0) + 1e-300
                if lossy:
                    tol += 2.0 * len(pts) * math.ulp(max(abs(float(pts[-1][0])), abs(float(pts[0][0]))))
                exp["sw"] = ("val", float(span) - tol, float(span) + tol)
                if exp.get("wmean", ("any",))[0] == "val" and regular and span > 0:
                    # weighted mean * span = integral of the step function
                    integral = sum(w * Fraction(x) for w, x in segs)
                    m = float(integral / span)
                    tM = 1e-9 * max(abs(float(x)) for w, x in segs if w > 0) + 1e-300
                    exp["wmean"] = ("val", m - tM, m + tM)
            exp.pop("min", None)
            exp.pop("max", None)        # which values count for min / max at repeated timestamps is not part of the property
            bad = check_values(sn, exp, who)
            if bad:
                return (bad[0], bad[1], i), False
            if closed and regular and sum(1 for w, _ in segs if w > 0) >= 3 and len({x for w, x in segs if w > 0}) >= 2:
                nontrivial = True
    return None, nontrivial


def oracle(case, steps):
    return oracle_weighted(case, steps) if case["kind"] == "weighted" else oracle_ts(case, steps)


# ------------------------------------------------------------------ Coq emission
def c_wsnap(sn):
    parts = [C.cz(sn["n"])]
    for k in PLAIN:
        if sn[k][0] != "v":
            return None
        parts.append(C.cfloat(sn[k][1]))
    for k, _, _ in GETTERS:
        g = L.cgres(sn[k])
        if g is None:
            return None
        parts.append(g)
    return "(mkWS " + " ".join(parts) + ")"


def notify_args(a, b):
    """EventBased*.notify converts with float(first), float(second) before register: an int beyond the float
    range fails there, whatever the other argument is."""
    if _isnan_kind(a) == "OverflowError":
        return "OHugeInt", "(ONum 0%float)"
    if _isnan_kind(b) == "OverflowError":
        return "(ONum 0%float)", "OHugeInt"
    return L.carg(a), L.carg(b)


ORACLE_ONLY = "oracle-only"


def ts_shift(case):
    """The model's time universe is binary64.  A case whose timestamps are ints beyond 2^53 is executed on the model
    with every int timestamp shifted by the first such int (the code subtracts and compares int timestamps exactly, so
    its statistics depend on differences only -- which is precisely what the bit-exact comparison then re-checks).
    Returns the shift (0: none needed), or None when ints beyond 2^53 meet float timestamps in one case: Python then
    rounds the int inside `int - float`, which the model's universe cannot express; such cases are judged by the
    oracle only."""
    tvals = [L.dec(op["t"]) for op in case["ops"] if "t" in op] + \
            [L.dec(op["s1"]) for op in case["ops"] if op["op"] == "init" and "s1" in op and case["kind"] == "timestamp"]
    big = [t for t in tvals if isinstance(t, int) and not isinstance(t, bool) and 2 ** 53 < abs(t) < 10 ** 309]
    if not big:
        return 0
    nums = [t for t in tvals if L.is_number(t) and not (isinstance(t, float) and t != t)
            and not (isinstance(t, int) and abs(t) >= 10 ** 309)]
    if any(isinstance(t, (float, bool)) for t in nums) or any(abs(t - big[0]) > 2 ** 53 for t in nums):
        return None
    return big[0]


def c_case(case, steps):
    ts = case["kind"] == "timestamp"
    shift = ts_shift(case) if ts else 0
    if shift is None:
        return ORACLE_ONLY

    def tm(t):
        return t - shift if shift and isinstance(t, int) and abs(t) < 10 ** 309 else t
    items = []
    for op, rec in zip(case["ops"], steps):
        if op["op"] == "init":
            cop = "(@TsInit NumF)" if ts else "(@WInit NumF)"
        elif op["op"] == "foreign":
            # notify's own event-type test is not part of the models: a notification it refuses enters as a refused
            # call of the same kind (ValueError); if the implementation accepted it, the step disagrees
            cop = f"(@{'TsReg' if ts else 'WReg'} NumF ONaN (ONum 0%float))"
        elif "q" in op.get("t" if ts else "w", {}) and op["op"] in ("reg", "end"):
            # a Quantity weight / timestamp is outside the models' universe: it enters as a refused argument of the
            # observed kind; that nothing changed is what the snapshots (and the oracle) then check
            ca = {"TypeError": "ONotNumber", "ValueError": "ONaN"}.get(rec["kind"])
            if ca is None:
                return None
            cop = f"(@TsEnd NumF {ca})" if op["op"] == "end" else f"(@{'TsReg' if ts else 'WReg'} NumF {ca} {L.carg(L.dec(op['v']))})"
        elif op["op"] == "end":
            cop = f"(@TsEnd NumF {L.carg(tm(L.dec(op['t'])))})"
        else:
            a, b = L.dec(op["t"] if ts else op["w"]), L.dec(op["v"])
            if ts:
                a = tm(a)
            if op["op"] == "notify":
                if not L.is_number(a) or not L.is_number(b):
                    ca, cb = "ONotNumber", "ONotNumber"
                else:
                    ca, cb = notify_args(a, b)
            else:
                ca, cb = L.carg(a), L.carg(b)
            cop = f"(@{'TsReg' if ts else 'WReg'} NumF {ca} {cb})"
        ek = L.cekind(rec["kind"])
        if ek is None:
            return None
        if rec["snap"] is None:
            sn = "None"
        else:
            w = c_wsnap(rec["snap"])
            if w is None:
                return None
            if ts:
                a, lv = rec["snap"]["active"], rec["snap"]["last_value"]
                if a[0] != "v" or lv[0] != "v":
                    return None
                sn = f"(Some ({w}, {C.cbool(a[1])}, {C.cfloat(lv[1])}))"
            else:
                sn = f"(Some {w})"
        if op["op"] == "init" and rec.get("init_seen"):
            # initialize() with the INITIALIZED_EVENT listener: the model resets (compared with what the listener read
            # inside notify), then -- in mode 'register' -- registers the listener's seed observation
            seen = rec["init_seen"][0]
            w0 = c_wsnap(seen)
            if w0 is None or len(rec["init_seen"]) != 1 or rec["init_errors"]:
                return None
            if ts:
                if seen["active"][0] != "v" or seen["last_value"][0] != "v":
                    return None
                s0 = f"(Some ({w0}, {C.cbool(seen['active'][1])}, {C.cfloat(seen['last_value'][1])}))"
            else:
                s0 = f"(Some {w0})"
            items.append(f"({cop}, {ek}, {s0})")
            reg = "TsReg" if ts else "WReg"
            if init_seeded(case, op, rec):
                s1 = L.dec(op["s1"])
                items.append(f"((@{reg} NumF {L.carg(tm(s1) if ts else s1)} {L.carg(L.dec(op['sv']))}), EOk, {sn})")
            else:                      # a no-op step carrying the snapshot taken after initialize() returned
                items.append(f"((@{reg} NumF ONaN (ONum 0%float)), (EExn ValueError), {sn})")
            continue
        items.append(f"({cop}, {ek}, {sn})")
    return C.clist(items)


HEADER = ["From Coq Require Import ZArith List PrimFloat.", "From PV Require Import Stats.Num Stats.Weighted Stats.Timestamp.",
          "Import ListNotations."]


def emit(path: Path, kind: str, lits):
    ty, ok = ("wcase_step", "wcase_ok") if kind == "weighted" else ("tscase_step", "tscase_ok")
    lines = HEADER + [f"Definition cases : list (list {ty}) := [", ";\n".join(lits), "].",
                      f"Eval vm_compute in (mismatches_from 0 {ok} cases)."]
    path.write_text("\n".join(lines) + "\n")


# ------------------------------------------------------------------ driver pieces
def strip(case):
    return {k: v for k, v in case.items()}


def shrink_case(case, sig):
    def failing(ops):
        c = dict(case)
        c["ops"] = ops
        c["snap_every"] = 1
        try:
            b, _ = oracle(c, run_case(c))
        except Exception:  # noqa
            return False
        return bool(b) and b[0] == sig
    c = dict(case)
    c["snap_every"] = 1
    if not failing(c["ops"]):
        return case
    c["ops"] = L.shrink_list(c["ops"], failing)
    return c


def describe_ops(case):
    out = []
    for op in case["ops"]:
        if op["op"] == "init" and case.get("init_listener"):
            out.append("initialize()  [INITIALIZED_EVENT listener reads the statistic inside notify"
                       + (f" and registers ({L.show(op['s1'])}, {L.show(op['sv'])})]" if case["init_listener"] == "register" and "s1" in op else "]"))
        elif op["op"] == "init":
            out.append("initialize()")
        elif op["op"] == "foreign":
            out.append(f"notify(<event of a type named like the expected one, defined in class Sensor>, "
                       + (f"({L.show(op['w'])}, {L.show(op['v'])}))" if case["kind"] == "weighted" else f"timestamp={L.show(op['t'])}, value={L.show(op['v'])})"))
        elif op["op"] == "end":
            out.append(f"end_observations({L.show(op['t'])})")
        elif case["kind"] == "weighted":
            out.append(f"{op['op']}(weight={L.show(op['w'])}, value={L.show(op['v'])})")
        else:
            out.append(f"{op['op']}(timestamp={L.show(op['t'])}, value={L.show(op['v'])})")
    return out


def main(tier: str) -> int:
    L.quiet_import()
    run = C.Run(PID, tier)
    try:
        tree = L.StatsTree().prepare()
    except Exception as exc:  # noqa
        run.violation("translated-model-not-buildable", f"the model could not be regenerated from the source: {type(exc).__name__}: {exc}",
                      {"unchecked": "coq/Stats/GenAgree.v"}, found_input=False)
        return run.finish()
    proofs_ok = L.check_proofs(run, tree, TARGETS, extra_tb=[
        "math.sqrt over the rationals is an uninterpreted function the theorems quantify over (stdev is stated structurally); "
        "in the correspondence check it is the binary64 square root",
        "Coq primitive floats and CPython floats round + - * / sqrt identically (re-validated by every bit-exact correspondence run)",
        "exact-arithmetic theorems: the rounding error of the weighted recurrences is measured by the Fraction oracle, not bounded by a theorem",
        "the model's value / time universe is binary64: int weights and values beyond 2^53 are not generated; int timestamps beyond 2^53 "
        "(register only -- notify converts with float() by design) are run on the model shifted by the case's first such timestamp, "
        "and cases mixing them with float timestamps are judged by the Fraction oracle only (counted in the evidence)",
    ])
    run.assumptions = ["math.sqrt respects equality and is positive on positive arguments (contract on the uninterpreted sqrt of the exact-arithmetic theorems)", "Coq primitive floats and CPython floats agree bit for bit on + - * / sqrt and comparisons", "weights and values are floats, ints of magnitude <= 2^53 or Quantities (counted with their si-value), or rejected inputs; timestamps may be any int", "translated model: self.m() / super().m() resolve statically within the four base classes; float / and math.sqrt raise exactly on a zero divisor / negative argument; int -> float conversion of counters does not overflow (translator/py2gallina_stats.py)"]
    C.use_repo_sources()
    rng = random.Random(run.seed * 15485863 + 10)
    quick = tier == "quick"
    n_w = 900 if quick else 12000
    n_t = 900 if quick else 12000
    longs = [200, 600, 1500] if quick else [500, 1000, 2000, 3000, 5000] * 4
    cases = []
    corpus = C.VERIF / "corpus" / "C10.json"
    if corpus.exists():
        cases += json.loads(corpus.read_text())
    n_corpus = len(cases)
    for i in range(n_w):
        cases.append(gen_weighted_case(rng, i))
    for i in range(n_t):
        cases.append(gen_ts_case(rng, i))
    for i, ln in enumerate(longs):
        cases.append(gen_weighted_case(rng, i, long_n=ln))
        cases.append(gen_ts_case(rng, i, long_n=ln))

    results = []
    found = {}
    nontrivial = set()
    ops_hist = {"register": 0, "notify": 0, "initialize": 0, "end_observations": 0, "rejected": 0,
                "zero_weight": 0, "repeated_timestamp": 0, "after_closing": 0}
    kinds_hist, fam_hist = {}, {}
    snaps = 0
    for case in cases:
        try:
            steps = run_case(case)
        except Exception as exc:  # noqa
            run.violation("harness-cannot-run-implementation",
                          f"running a case on the implementation failed: {type(exc).__name__}: {exc}",
                          {"case": strip(case)}, found_input=False)
            return run.finish()
        bad, nontriv = oracle(case, steps)
        if bad and bad[0] not in found and len(found) < 8:
            found[bad[0]] = (case, bad)
        if nontriv:
            nontrivial.add(json.dumps([case["cls"], case["subs"], case["ops"]], sort_keys=True))
        prev_t, closed = None, False
        for op, rec in zip(case["ops"], steps):
            ops_hist[{"init": "initialize", "end": "end_observations", "notify": "notify", "reg": "register", "foreign": "notify"}[op["op"]]] += 1
            if op["op"] == "foreign":
                ops_hist["notify_with_same_named_foreign_event_type"] = ops_hist.get("notify_with_same_named_foreign_event_type", 0) + 1
            if op["op"] in ("reg", "end") and "q" in op.get("w", op.get("t", {})):
                ops_hist["quantity_weight_or_timestamp_in_register"] = ops_hist.get("quantity_weight_or_timestamp_in_register", 0) + 1
            if rec["kind"] != "ok":
                ops_hist["rejected"] += 1
                kinds_hist[rec["kind"]] = kinds_hist.get(rec["kind"], 0) + 1
            elif op["op"] == "init":
                prev_t, closed = None, False
            elif case["kind"] == "weighted":
                if L.dec(op["w"]) == 0:
                    ops_hist["zero_weight"] += 1
            else:
                t = L.dec(op["t"])
                if closed:
                    ops_hist["after_closing"] += 1
                elif prev_t is not None and t == prev_t:
                    ops_hist["repeated_timestamp"] += 1
                if not closed:
                    prev_t = t
                if op["op"] == "end":
                    closed = True
            if rec["snap"] is not None:
                snaps += 1
        fam_hist[case["kind"] + ":" + case.get("family", "corpus")] = fam_hist.get(case["kind"] + ":" + case.get("family", "corpus"), 0) + 1
        for rec in steps:
            rec.pop("self", None)
        results.append(steps)

    run.cov["evaluations"] = len(cases)
    run.cov["distinct_nontrivial"] = len(nontrivial)
    run.cov["rule"] = (
        "random operation sequences on WeightedTally / EventBasedWeightedTally and TimestampWeightedTally / "
        "EventBasedTimestampWeightedTally (no, one, all subscribers; register and notify): values from the families small ints, dyadic, "
        "uniform, mixed magnitude, large offset + small spread, all equal, two-level, tiny; weights small ints with many zeros, uniform, "
        "dyadic, mixed magnitude, all zero, mostly zero, dwarfing (one weight 1e17..1e30 times the others), ones; timestamps non-decreasing "
        "with 25% repeats (ints, dyadic, uniform steps, large offset, mixed, dwarfing intervals, int clocks of magnitude 2^53..1.7e18 with gaps "
        "1..1e6, ints and floats interleaved around 2^53), Quantity values / Duration clocks through notify, earlier timestamps, end_observations at / "
        f"after / before the last time, observations after closing, re-initialisation; lengths 0..21 plus long runs of {sorted(set(longs))}; "
        "rejected inputs (NaN, str, None, huge int, negative weight; Quantity weights / timestamps in register and end_observations after ordinary observations; notifications whose event type is a different EventType with the expected name). Getters compared after every call or a sample of calls. non-trivial = "
        "distinct case in which at some compared point >= 3 positively weighted observations (positive-length intervals, and the tally closed, "
        "for the timestamped variant) with >= 2 distinct values were registered since the last initialize, in the regular regime "
        "(|x| <= 1e60, spread >= 1e-6 of the magnitude, weight ratio <= 1e12), and every statistic was checked against the exact rational value")
    run.cov["op_histogram"] = ops_hist
    run.cov["rejection_kinds"] = kinds_hist
    run.cov["family_histogram"] = dict(sorted(fam_hist.items(), key=lambda kv: -kv[1])[:40])
    run.cov["getter_snapshots_compared"] = snaps
    for case, steps in list(zip(cases, results))[n_corpus + 5:n_corpus + n_w + n_t:n_w]:
        last = steps[-1]["post"]
        run.add_sample({"class": case["cls"], "subscribers": case["subs"], "calls": describe_ops(case)[:12],
                        "last_snapshot": {k: (v if k in ("n", "sw") else v[1]) for k, v in last.items()}})

    # ---- the regenerated model no longer equals the proved one: look harder for a concrete failing input
    tie = tree.broken_for(PID)
    if tie and not found:
        rng2 = random.Random(run.seed * 7919 + 1010)
        extra = []
        for i in range(max(n_w, n_t)):
            if i < n_w:
                extra.append(gen_weighted_case(rng2, i))
            if i < n_t:
                extra.append(gen_ts_case(rng2, i))
        extra += [gen_weighted_case(rng2, 0, long_n=longs[0]), gen_ts_case(rng2, 0, long_n=longs[0])]
        tried = 0
        for case in extra:
            tried += 1
            try:
                steps = run_case(case)
            except Exception:  # noqa
                continue
            bad, _ = oracle(case, steps)
            if bad:
                found[bad[0]] = (case, bad)
                break
        run.cov["extra_cases_searched_after_broken_tie"] = tried
    if tie:
        run.cov["source_translation"]["tie"] = {"status": "broken", **{k: v for k, v in tie.items() if k != "failures"}}
    else:
        run.cov["source_translation"]["tie"] = {"status": "checked"}

    for sig, (case, bad) in found.items():
        small = shrink_case(case, sig)
        b, _ = oracle(small, run_case(small))
        what = (b or bad)[1]
        run.violation(sig, what, {"class": small["cls"], "subscribers": small["subs"], "calls": describe_ops(small),
                                  "case": strip(small),
                                  "how": "replay the calls on pydsol.core.statistics.<class>; with case.init_listener a listener of "
                                         "StatEvents.INITIALIZED_EVENT (added after the other subscribers) reads all getters of event.content inside "
                                         "notify and, in mode 'register', calls event.content.register(s1, sv) of that initialize; 'notify' delivers "
                                         "Event(StatEvents.WEIGHT_DATA_EVENT, (weight, value)) resp. "
                                         "TimedEvent(timestamp, StatEvents.TIMESTAMP_DATA_EVENT, value)"})

    # ---- model vs implementation inside coqc
    d = C.scratch_dir(PID)
    files, owners, kinds = [], [], []
    unrep = []
    oracle_only = []     # ints beyond 2^53 next to float timestamps: outside the model's time universe (see ts_shift)

    def shards(idx, size_budget):
        cur, cost = [], 0
        for i in idx:
            w = sum(3 if r["snap"] is None else 25 for r in results[i])
            if cur and cost + w > size_budget:
                yield cur
                cur, cost = [], 0
            cur.append(i)
            cost += w
        if cur:
            yield cur

    for kind in ("weighted", "timestamp"):
        idx = [i for i, c in enumerate(cases) if c["kind"] == kind]
        for k, grp in enumerate(shards(idx, 30000)):
            lits, own = [], []
            for i in grp:
                try:
                    lit = c_case(cases[i], results[i])
                except ValueError:
                    lit = None
                if lit == ORACLE_ONLY:
                    oracle_only.append(i)
                elif lit is None:
                    unrep.append(i)
                else:
                    lits.append(lit)
                    own.append(i)
            f = d / f"cases_c10_{kind[0]}{k}.v"
            emit(f, kind, lits)
            files.append(f)
            owners.append(own)
            kinds.append(kind)
    outs = C.coqc_many(files)
    mism = list(unrep)
    for fi, (rc, out) in enumerate(outs):
        lst = C.parse_nat_list(out)
        if rc != 0 or lst is None:
            run.violation("correspondence-not-evaluable",
                          "coqc could not evaluate the C10 correspondence (Stats.Weighted.wcase_ok / Stats.Timestamp.tscase_ok): " + out[-600:],
                          {"file": str(files[fi])}, found_input=False)
            return run.finish()
        mism += [owners[fi][j] for j in lst]
    run.cov["traces_validated_against_impl"] = len(cases) - len(mism) - len(oracle_only)
    run.cov["model_impl_mismatches"] = len(mism)
    run.cov["cases_judged_by_the_oracle_only"] = len(oracle_only)
    run.cov["cases_with_int_timestamps_beyond_2^53_run_on_the_model_shifted"] = sum(
        1 for c in cases if c["kind"] == "timestamp" and ts_shift(c))
    if mism and not found:
        i = mism[0]
        case = cases[i]
        diag = ""
        if i not in unrep:
            ty, dg, ini = ("wcase_step", "wcase_diag", "winit") if case["kind"] == "weighted" else ("tscase_step", "tscase_diag", "tsinit")
            diag = L.coq_eval(PID, HEADER, f"Definition c : list {ty} := {c_case(case, results[i])}.\n"
                                           f"Eval vm_compute in ({dg} 0%nat ({ini} NumF) c).")
        run.violation("model-impl-disagree",
                      "correspondence Stats.Weighted.wcase_ok / Stats.Timestamp.tscase_ok (bit-exact binary64 model of register, "
                      "end_observations and all getters) no longer matches the implementation, but the exact-arithmetic oracle found no violated clause",
                      {"class": case["cls"], "subscribers": case["subs"], "calls": describe_ops(case)[:60],
                       "case": strip(case) if len(case["ops"]) < 200 else "long case (regenerate with the seed)",
                       "first_difference (step, getter index in wsnap_checks / tssnap_checks; 99 = how the call ended)": diag,
                       "relation": "Stats.Weighted.wcase_ok" if case["kind"] == "weighted" else "Stats.Timestamp.tscase_ok"},
                      found_input=False)
    if tie and not found:
        L.report_broken_tie(run, tree, {"model_impl_mismatching_cases": len(mism)})
    if not proofs_ok and not run.violations:
        run.violation("proof-broken", "a C10 proof obligation no longer checks: " + getattr(run, "proof_log", "")[-800:],
                      {"theorems": run.cov.get("theorems")}, found_input=False)
    return run.finish()


if __name__ == "__main__":
    sys.exit(main(sys.argv[1] if len(sys.argv) > 1 else "quick"))
