"""Shared machinery for the per-property checks.

Every check does, in this order:
  1. (re)build the Coq development it needs            -> build_coq()
  2. re-check the property file and read its theorems  -> props_report()
  3. run generated cases on /repo's current sources and on the Gallina model
     (coqc + vm_compute) and diff                      -> eval_cases()/coqc_file()
  4. on a broken proof / broken correspondence: search for a concrete failing
     input with a model-independent oracle             -> Run.violation()
  5. write evidence/<id>.json, print VIOLATION / KNOWN-FINDING lines.
"""
from __future__ import annotations

import fcntl
import hashlib
import json
import os
import re
import subprocess
import sys
import time
from pathlib import Path

VERIF = Path(__file__).resolve().parent.parent
REPO = Path(os.environ.get("VERIF_REPO", "/repo"))
COQ = VERIF / "coq"
SCRATCH = VERIF / ".scratch"
PY = os.environ.get("VERIF_PY", "/venv/bin/python")
NPROC = int(os.environ.get("VERIF_JOBS", "16"))
GUARD = "PYDSOL_CORE_VERIF"

KERNEL_TB = "Coq 8.16.1 kernel incl. vm_compute (no native_compute)"


def seed() -> int:
    try:
        return int(os.environ.get("VERIF_SEED", "0"))
    except ValueError:
        return 0


def child_env(extra: dict | None = None) -> dict:
    env = dict(os.environ)
    env["PYTHONPATH"] = str(REPO / "src")
    env.setdefault("PYTHONHASHSEED", "0")
    env[GUARD] = "1"
    env["PYTHONDONTWRITEBYTECODE"] = "1"
    if extra:
        env.update(extra)
    return env


def use_repo_sources():
    """Make `import pydsol` in this process resolve to /repo's working tree."""
    src = str(REPO / "src")
    if src in sys.path:
        sys.path.remove(src)
    sys.path.insert(0, src)
    os.environ[GUARD] = "1"
    sys.dont_write_bytecode = True


# ----------------------------------------------------------------------------
# Coq build
# ----------------------------------------------------------------------------
class BuildLock:
    def __enter__(self):
        self.f = open(VERIF / ".build.lock", "w")
        fcntl.flock(self.f, fcntl.LOCK_EX)
        return self

    def __exit__(self, *a):
        fcntl.flock(self.f, fcntl.LOCK_UN)
        self.f.close()


def build_coq(targets: list[str], timeout: int = 1500) -> tuple[bool, str]:
    """Build the given .vo targets (paths relative to coq/) with tools/build.py
    (coqdep + plain coqc, per-file locks; full .vo, never -vos). Returns (ok, log)."""
    cmd = ["python3", str(VERIF / "tools/build.py"), f"-j{NPROC}", "--timeout", str(timeout)] + targets
    p = subprocess.run(cmd, cwd=VERIF, capture_output=True, text=True)
    return p.returncode == 0, p.stdout + p.stderr


def coqc_file(path: Path, timeout: int = 600) -> tuple[int, str]:
    """Compile one scratch .v file against the built development."""
    cmd = ["timeout", str(timeout), "coqc", "-noglob", "-R", str(COQ), "PV",
           "-w", "-notation-overridden,-deprecated-hint-without-locality,-abstract-large-number,-inexact-float",
           str(path)]
    p = subprocess.run(cmd, capture_output=True, text=True, cwd=path.parent)
    return p.returncode, p.stdout + p.stderr


def coqc_many(paths: list[Path], timeout: int = 900) -> list[tuple[int, str]]:
    """Compile several scratch files in parallel."""
    from concurrent.futures import ThreadPoolExecutor
    with ThreadPoolExecutor(max_workers=NPROC) as ex:
        return list(ex.map(lambda p: coqc_file(p, timeout), paths))


_AX_CLOSED = "Closed under the global context"


def props_report(pid: str) -> dict:
    """Re-check Props/<pid>.v with coqc and parse its theorems and the
    Print Assumptions output.  Returns
       {ok, theorems:[names], assumptions:{name:[axioms]}, log}"""
    src = COQ / "Props" / f"{pid}.v"
    text = src.read_text()
    theorems = re.findall(r"^\s*Theorem\s+([A-Za-z0-9_']+)", text, re.M)
    SCRATCH.mkdir(exist_ok=True)
    d = SCRATCH / f"props_{pid}" / f"run{os.getpid()}"
    d.mkdir(parents=True, exist_ok=True)
    tmp = d / f"{pid}_recheck.v"
    tmp.write_text(text)
    rc, out = coqc_file(tmp, timeout=900)
    assumptions: dict[str, list[str]] = {}
    # split output on theorem order: each Print Assumptions prints either
    # "Closed under the global context" or "Axioms:\n name : type ..."
    blocks = re.split(r"(?=Closed under the global context|Axioms:)", out)
    blocks = [b for b in blocks if b.startswith(_AX_CLOSED) or b.startswith("Axioms:")]
    printed = re.findall(r"^\s*Print Assumptions\s+([A-Za-z0-9_']+)", text, re.M)
    for name, b in zip(printed, blocks):
        if b.startswith(_AX_CLOSED):
            assumptions[name] = []
        else:
            body = b[len("Axioms:"):]
            assumptions[name] = sorted(set(re.findall(r"^([A-Za-z_][A-Za-z0-9_'.]*)\s*:", body, re.M)))
    import shutil
    shutil.rmtree(d, ignore_errors=True)
    return {"ok": rc == 0, "theorems": theorems, "assumptions": assumptions, "log": out[-4000:],
            "printed": printed}


def source_gate() -> list[str]:
    """grep the development for forbidden constructs; returns offending lines."""
    bad = []
    pat = re.compile(r"\b(Admitted|admit|Axiom|Axioms|Parameter|Parameters|Conjecture|Admit Obligations|"
                     r"Unset Guard Checking|Unset Positivity Checking|Unset Universe Checking|bypass_check|"
                     r"type-in-type|impredicative-set)\b")
    for f in sorted(COQ.rglob("*.v")):
        depth = 0
        for n, line in enumerate(f.read_text().splitlines(), 1):
            code = re.sub(r"\(\*.*?\*\)", "", line)
            if re.match(r"\s*Section\b", code):
                depth += 1
            if re.match(r"\s*End\b", code) and depth > 0:
                depth -= 1
            if pat.search(code):
                bad.append(f"{f.relative_to(VERIF)}:{n}: {line.strip()}")
            if depth == 0 and re.match(r"\s*(Variable|Variables|Hypothesis|Hypotheses|Context)\b", code):
                bad.append(f"{f.relative_to(VERIF)}:{n}: {line.strip()} (outside Section)")
    return bad


# ----------------------------------------------------------------------------
# Coq literal helpers
# ----------------------------------------------------------------------------
def cz(n: int) -> str:
    return f"({n})%Z" if n < 0 else f"{n}%Z"


def cnat(n: int) -> str:
    return f"{n}%nat"


def cbool(b: bool) -> str:
    return "true" if b else "false"


def clist(items) -> str:
    return "[" + "; ".join(items) + "]"


def cstr(s: str) -> str:
    return '"' + s.replace('"', '""') + '"%string'


def cfloat(x: float) -> str:
    """PrimFloat literal, bit exact."""
    import math
    if x != x:
        return "nan%float"
    if math.isinf(x):
        return "infinity%float" if x > 0 else "neg_infinity%float"
    if x == 0.0:
        return "(-0)%float" if math.copysign(1.0, x) < 0 else "0%float"
    h = x.hex()
    return f"({h})%float" if x < 0 else f"{h}%float"


def parse_nat_list(out: str) -> list[int] | None:
    """Parse the `= [..] : list nat` answer of an Eval."""
    m = re.search(r"=\s*\[(.*?)\]\s*:\s*list nat", out, re.S)
    if not m:
        if re.search(r"=\s*nil\s*:\s*list nat", out):
            return []
        return None
    body = m.group(1).strip()
    if not body:
        return []
    return [int(x.replace("%nat", "").strip()) for x in body.split(";")]


def parse_nat_lists(out: str) -> list[list[int]]:
    res = []
    for m in re.finditer(r"=\s*(\[.*?\]|nil)\s*:\s*list nat", out, re.S):
        body = m.group(1)
        if body == "nil":
            res.append([])
            continue
        body = body[1:-1].strip()
        res.append([int(x.replace("%nat", "").strip()) for x in body.split(";")] if body else [])
    return res


# ----------------------------------------------------------------------------
# Known findings, replays, evidence
# ----------------------------------------------------------------------------
def load_known() -> dict:
    p = VERIF / "known_findings.json"
    res = {"findings": [], "fixed": []}
    if p.exists():
        res = json.loads(p.read_text())
    extra = os.environ.get("VERIF_KNOWN")      # builders' local testing only
    if extra and Path(extra).exists():
        e = json.loads(Path(extra).read_text())
        res["findings"] = list(res.get("findings", [])) + (e if isinstance(e, list) else e.get("findings", []))
    return res


class Run:
    def __init__(self, pid: str, tier: str, level: str = "proof"):
        self.pid = pid
        self.tier = tier
        self.level = level
        self.seed = seed()
        self.t0 = time.time()
        self.cov: dict = {"evaluations": 0, "distinct_nontrivial": 0, "rule": "", "samples": [],
                          "obligations": 0, "discharged": 0, "checker_cmd": "", "trusted_base": [],
                          "traces_validated_against_impl": 0}
        self.assumptions: list[str] = []
        self.violations: list[dict] = []
        self.known_hits: list[dict] = []
        self.notes: list[str] = []
        self._known = [k for k in load_known().get("findings", []) if k.get("property") == pid]
        self._printed = set()

    # -- proofs ---------------------------------------------------------------
    def check_proofs(self, targets: list[str], extra_tb: list[str] | None = None) -> bool:
        """Build targets, re-check the Props file, record obligations."""
        gate = source_gate()
        ok, log = build_coq(targets)
        rep = props_report(self.pid) if (COQ / "Props" / f"{self.pid}.v").exists() else \
            {"ok": False, "theorems": [], "assumptions": {}, "log": "no Props file", "printed": []}
        n = len(rep["theorems"])
        self.cov["obligations"] = max(n, 1)
        disch = n if (ok and rep["ok"] and not gate) else 0
        self.cov["discharged"] = disch
        self.cov["theorems"] = rep["theorems"]
        self.cov["axioms_per_theorem"] = rep["assumptions"]
        self.cov["checker_cmd"] = (f"python3 tools/build.py {' '.join(targets)} && coqc -R coq PV coq/Props/{self.pid}.v "
                                   "(full .vo build by coqc; Print Assumptions under every theorem)")
        axioms = sorted({a for v in rep["assumptions"].values() for a in v})
        tb = [KERNEL_TB,
              "axioms reported by Print Assumptions: " + (", ".join(axioms) if axioms else "none (all theorems closed under the global context)"),
              "hand-written Gallina model tied to /repo by the per-run correspondence check (harness/%s.py)" % self.pid.lower()]
        if extra_tb:
            tb += extra_tb
        self.cov["trusted_base"] = tb
        if ok and rep["ok"] and not gate and self.tier == "thorough" and not os.environ.get("VERIF_NO_COQCHK"):
            self.coqchk([f"PV.Props.{self.pid}"])
        if gate:
            self.violation("forbidden-construct", "forbidden construct in the Coq development: " + "; ".join(gate[:5]),
                           {"lines": gate}, found_input=False)
            return False
        if not ok or not rep["ok"]:
            self.proof_log = (log[-3000:] if not ok else "") + rep["log"]
            return False
        return True

    def coqchk(self, modules: list[str], extra_roots: list[str] | None = None, timeout: int = 1500):
        """Second opinion (thorough tier): re-check the compiled property file and
        everything it depends on with the independent checker coqchk and record
        the axioms it reports (-o lists those of every loaded library)."""
        cmd = ["timeout", str(timeout), "coqchk", "-silent", "-o", "-R", str(COQ), "PV"] + (extra_roots or []) + modules
        t0 = time.time()
        p = subprocess.run(cmd, capture_output=True, text=True, cwd=COQ)
        out = p.stdout + p.stderr
        m = re.search(r"\* Axioms:(.*?)\n\s*\n\* Constants/Inductives relying on type-in-type:(.*?)\n\s*\n"
                      r"\* Constants/Inductives relying on unsafe \(co\)fixpoints:(.*?)\n\s*\n"
                      r"\* Inductives whose positivity is assumed:(.*?)\n", out, re.S)
        rec = {"cmd": " ".join(cmd[2:]), "exit": p.returncode, "wall_s": round(time.time() - t0, 1)}
        if m:
            names = ["axioms", "type_in_type", "unsafe_fixpoints", "assumed_positivity"]
            for n, g in zip(names, m.groups()):
                g = g.strip()
                rec[n] = [] if g == "<none>" else [x.strip() for x in g.splitlines() if x.strip()]
        else:
            rec["tail"] = out[-1500:]
        self.cov["coqchk"] = rec
        bad = p.returncode != 0 or not m or rec.get("type_in_type") or rec.get("unsafe_fixpoints") or rec.get("assumed_positivity")
        self.cov["trusted_base"] = list(self.cov.get("trusted_base", [])) + [
            "coqchk -o (independent checker) on the compiled property file: "
            + ("axioms of all loaded libraries: " + (", ".join(rec.get("axioms", [])) or "none") if m else "FAILED")]
        if bad:
            self.violation("coqchk-rejects", "coqchk does not accept the compiled property file: " + out[-400:],
                           {"unchecked": modules, "log": out[-3000:]}, found_input=False)
        return not bad

    # -- cases ----------------------------------------------------------------
    def add_sample(self, s, limit: int = 4):
        if len(self.cov["samples"]) < limit:
            self.cov["samples"].append(s)

    def violation(self, signature: str, what: str, replay: dict, found_input: bool = True):
        for k in self._known:
            if k.get("signature") == signature:
                if signature not in self._printed:
                    print(f"KNOWN-FINDING: property={self.pid} {k.get('what', what)}")
                    self._printed.add(signature)
                self.known_hits.append({"signature": signature, "what": what})
                return
        key = ("V", signature)
        self.violations.append({"signature": signature, "what": what})
        if key in self._printed:
            return
        self._printed.add(key)
        rdir = VERIF / "replays"
        rdir.mkdir(exist_ok=True)
        body = dict(replay)
        body.update({"property": self.pid, "signature": signature, "what": what,
                     "seed": self.seed, "tier": self.tier, "failing_input_found": found_input,
                     "rerun": f"VERIF_SEED={self.seed} ./check {self.pid} --tier {self.tier}"})
        h = hashlib.sha1(json.dumps(body, sort_keys=True, default=str).encode()).hexdigest()[:10]
        path = rdir / f"{self.pid}-{signature[:40]}-{h}.json"
        path.write_text(json.dumps(body, indent=1, default=str))
        tail = "" if found_input else " no-failing-input-found"
        print(f"VIOLATION property={self.pid} replay={path}{tail}")

    def expect_known_seen(self):
        """A known finding that is no longer observed is just noted (e.g. fixed upstream)."""
        seen = {k["signature"] for k in self.known_hits}
        for k in self._known:
            if k["signature"] not in seen:
                self.notes.append(f"known finding not observed on this run: {k['signature']}")

    def _sanitize_axioms(self):
        """The per-area libraries parse `Print Assumptions` output with `^name :`;
        header / message words that end in a colon are not axioms."""
        junk = {"Axioms", "Error", "Warning", "File", "Toplevel"}
        apt = self.cov.get("axioms_per_theorem")
        if isinstance(apt, dict):
            for k, v in list(apt.items()):
                if isinstance(v, list):
                    apt[k] = [a for a in v if a not in junk]
            axioms = sorted({a for v in apt.values() if isinstance(v, list) for a in v})
            tb = self.cov.get("trusted_base")
            if isinstance(tb, list):
                for i, t in enumerate(tb):
                    if isinstance(t, str) and t.startswith("axioms reported by Print Assumptions"):
                        tb[i] = "axioms reported by Print Assumptions: " + (
                            ", ".join(axioms) if axioms else "none (all theorems closed under the global context)")

    def finish(self) -> int:
        self.expect_known_seen()
        self._sanitize_axioms()
        if not self.cov.get("discharged") and not self.violations:
            # fail closed: a check whose proof obligations did not check can never report OK
            self.violation("proof-obligations-not-discharged",
                           "the Coq proof obligations of this property did not check on this run",
                           {"unchecked": f"coq/Props/{self.pid}.v", "log": getattr(self, "proof_log", "")[-3000:]},
                           found_input=False)
        ev = {
            "property_id": self.pid,
            "tier": self.tier,
            "seed": self.seed,
            "level": self.level,
            "coverage": self.cov,
            "assumptions": self.assumptions,
            "wall_s": round(time.time() - self.t0, 2),
            "violations": len(self.violations),
        }
        if not self.cov.get("discharged"):
            # a proof-level evidence file needs discharged >= 1; when the proof
            # obligations no longer check, say so under other keys and let the
            # measured exploration counts describe the run
            self.cov["proof_obligations_total"] = self.cov.pop("obligations", 0)
            self.cov["proof_obligations_discharged"] = self.cov.pop("discharged", 0)
            self.cov["evaluations"] = max(int(self.cov.get("evaluations", 0)), 1)
        if self.known_hits:
            ev["coverage"]["known_findings_observed"] = sorted({k["signature"] for k in self.known_hits})
        if self.notes:
            ev["coverage"]["notes"] = self.notes
        if self.violations:
            ev["coverage"]["violation_signatures"] = sorted({v["signature"] for v in self.violations})
        # evidence/<id>.json describes runs against /repo itself; a run against another tree
        # (VERIF_REPO: seeded / harmless-refactoring experiments) writes its record elsewhere
        evdir = VERIF / "evidence" if REPO.resolve() == Path("/repo") else SCRATCH / "evidence_other_tree"
        if os.environ.get("VERIF_EVIDENCE_DIR"):
            evdir = Path(os.environ["VERIF_EVIDENCE_DIR"])
        evdir.mkdir(parents=True, exist_ok=True)
        ev["repo"] = str(REPO)
        (evdir / f"{self.pid}.json").write_text(json.dumps(ev, indent=1, default=str) + "\n")
        if self.violations:
            return 1
        print(f"OK property={self.pid} tier={self.tier} seed={self.seed} "
              f"obligations={self.cov.get('discharged', 0)}/{self.cov.get('obligations', self.cov.get('proof_obligations_total', 0))} "
              f"cases={self.cov['evaluations']} wall={ev['wall_s']}s")
        return 0


def scratch_dir(pid: str) -> Path:
    """A scratch directory private to this process (several runs of the same
    check may be in flight); older run directories of the property are removed."""
    base = SCRATCH / pid
    base.mkdir(parents=True, exist_ok=True)
    import shutil
    now = time.time()
    for f in base.iterdir():
        try:
            if f.is_file():
                f.unlink()
            elif f.is_dir() and f.name.startswith("run") and now - f.stat().st_mtime > 3600:
                shutil.rmtree(f, ignore_errors=True)
        except OSError:
            pass
    d = base / f"run{os.getpid()}"
    shutil.rmtree(d, ignore_errors=True)
    d.mkdir(parents=True)
    import atexit
    atexit.register(lambda: shutil.rmtree(d, ignore_errors=True) if not os.environ.get("VERIF_KEEP_SCRATCH") else None)
    return d


def run_impl_json(script: Path, payload, timeout: int = 900, env_extra: dict | None = None):
    """Run a harness-side implementation driver in a fresh interpreter on
    /repo's sources; JSON in on stdin, JSON out on stdout."""
    p = subprocess.run([PY, str(script)], input=json.dumps(payload), capture_output=True,
                       text=True, timeout=timeout, env=child_env(env_extra))
    if p.returncode != 0:
        raise RuntimeError(f"implementation driver {script.name} failed:\n{p.stderr[-3000:]}")
    return json.loads(p.stdout)
