"""C05 — fault containment: a failing handler never loses, duplicates or reorders events.

Programs in which handlers raise at a chosen failure point are run on the real
simulators under LOG_AND_CONTINUE, WARN_AND_CONTINUE and WARN_AND_PAUSE, driven
by start (repeated after every pause), by bounded runs and by steps, and on the
Gallina model; everything observable must agree.  Oracle (independent of the Coq
model): the executed-event trace and the final clock must equal those of the
fault-free run, on the implementation itself, of the program whose failing
handlers return normally at their failure point; under WARN_AND_PAUSE every
segment must end right after its failing event in state STOPPED / STARTED; a
failing step() must return normally and leave STOPPED / STARTED.

Small "tree" programs (every executed event has its own handler, <= 12 events):
every single failing event x every failure point in its handler, exhaustively;
DAG programs with loops: random subsets of failing handlers.
"""
from __future__ import annotations

import json
import random
import sys
from pathlib import Path

sys.path.insert(0, str(Path(__file__).resolve().parent))
import common as C
import simlib as S
import c02
import c03

PID = "C05"
MODES = ["start", "bounded", "step"]
# what a failing handler raises: ordinary exceptions and one BaseException subclass that is not an Exception
KINDS = ["runtime", "value", "key", "zerodiv", "custom", "stopiter", "base", "base",
         "keyint", "oserr", "noargs", "tuplearg", "custom2"]      # the last five: arguments that are not one string


def truncate(prog):
    out = []
    for body in prog:
        nb = []
        for a in body:
            if a[0] == "fail":
                break
            nb.append(a)
        out.append(nb)
    return out


def gen_tree(rng: random.Random, clock: str, max_events=11):
    """every sched action targets a fresh handler: one executed event per handler"""
    u = S.unit_of(clock)
    prog = [[]]
    frontier = [0]
    n = 0
    while frontier and n < max_events:
        h = frontier.pop(0)
        k = rng.randint(1, 3) if h == 0 else rng.randint(0, 2)
        for _ in range(k):
            if n >= max_events:
                break
            n += 1
            prog.append([])
            child = len(prog) - 1
            m = rng.random()
            if m < 0.25:
                mode = ["now"]
            elif m < 0.75:
                mode = ["rel", u * rng.choice([0, 0, 1, 1, 2, 3, 4])]
            else:
                mode = ["abs", u * rng.randint(0, 14)]
            prog[h].append(["sched", mode, rng.choice(S.PRIOS), child])
            frontier.append(child)
        if rng.random() < 0.25:
            prog[h].append(["cancel", rng.randint(0, max(1, n))])
        if rng.random() < 0.15:
            prog[h].append(["sched", rng.choice([["rel", -u], ["abs", "nan"], ["rel", "nan"]]), 5, max(1, len(prog) - 1)])
    return prog


def cmds_for(rng, mode, init, n_pauses, u):
    start, end = init[1], init[3]
    if mode == "start":
        return [init] + [["start"]] * (n_pauses + 2)
    if mode == "step":
        return [init] + [["step"]] * rng.randint(3, 16) + [["start"]] * (n_pauses + 1)
    cmds = [init]
    t = start
    for _ in range(rng.randint(1, 4)):
        t += u * rng.choice([0, 1, 2, 3, 5])
        cmds.append([rng.choice(["runupto", "runuptoincl"]), min(t, end + u)])
        if rng.random() < 0.3:
            cmds.append(["step"])
    return cmds + [["start"]] * (n_pauses + 1)


def tree_cases(rng, nprog, clocks):
    """every single failing event x every failure point x 3 strategies x 3 ways of driving"""
    out = []
    for j in range(nprog):
        clock = clocks[j % len(clocks)]
        u = S.unit_of(clock)
        prog = gen_tree(rng, clock)
        init = ["init", 0, u * rng.choice([0, 1, 2]), u * rng.randint(6, 16)]
        for h in range(1, len(prog)):
            for pos in range(len(prog[h]) + 1):
                p2 = json.loads(json.dumps(prog))
                p2[h].insert(pos, ["fail", KINDS[(j + h + pos) % len(KINDS)]])
                for strat in S.STRATS:
                    for mode in MODES:
                        out.append({"clock": clock, "strategy": strat, "prog": p2,
                                    "cmds": cmds_for(rng, mode, init, 1, u), "kind": "single"})
                        decorate(out[-1], rng, len(out))
    return out


def gen_case(rng: random.Random, i: int) -> dict:
    clock = S.CLOCKS[i % len(S.CLOCKS)]
    u = S.unit_of(clock)
    prog = S.gen_program(rng, clock, p_illegal=0.05, p_cancel=0.10, p_fail=rng.choice([0.15, 0.3, 0.6]), max_events=60)
    for body in prog:
        for a in body:
            if a[0] == "fail":
                a.append(rng.choice(KINDS))
    init = S.gen_repl(rng, clock)
    strat = S.STRATS[(i // 4) % 3]
    mode = MODES[(i // 12) % 3]
    n_p = 0 if strat != "pause" else rng.choice([2, 5, 9])
    kind = "subset"
    if i % 7 == 3:
        # a handler changes the error strategy while the run is going on (PAUSE -> a continue strategy or back);
        # what counts for a failing handler is the strategy in force when it fails
        to = rng.choice(["log", "warn"]) if strat == "pause" else "pause"
        hs = [h for h in range(1, len(prog))]
        for h in rng.sample(hs, min(len(hs), rng.choice([1, 1, 2]))):
            prog[h].insert(rng.randint(0, len(prog[h])), ["setstrat", to])
        if rng.random() < 0.3 and hs:
            prog[rng.choice(hs)].append(["setstrat", strat])
        n_p = rng.choice([3, 6, 9])
        kind = "switch"
    case = {"clock": clock, "strategy": strat, "prog": prog, "cmds": cmds_for(rng, mode, init, n_p, u), "kind": kind}
    decorate(case, rng, i)
    return S.maybe_fail_construct(case, rng, i)


LEVELS = [0, 10, 20, 30, 40, 50]


def decorate(case, rng, i):
    """a share of the cases: events carrying argument objects whose repr / str raise (or are very long and slow),
    and the two-argument form set_error_strategy(strategy, log_level) at set-up and in ["setstrat", x, level]"""
    if i % 5 == 1:
        case["badrepr"] = "raise"
    elif i % 40 == 3:
        case["badrepr"] = "long"
    if i % 3 == 1:
        case["loglevel"] = rng.choice(LEVELS)
    if i % 4 == 2:
        case["userevents"] = True       # every third event is a user-defined SimEventInterface object
    for body in case["prog"]:
        for a in body:
            if a[0] == "setstrat" and len(a) == 2 and rng.random() < 0.5:
                a.append(rng.choice(LEVELS))


def switch_cases():
    """the smallest programs in which the strategy changes during a run before a handler fails"""
    out = []
    for clock in ("float", "int", "dur"):
        u = S.unit_of(clock)
        for a, b in (("pause", "log"), ("pause", "warn"), ("log", "pause"), ("warn", "pause")):
            prog = [[["sched", ["abs", 2 * u], 5, 1], ["sched", ["abs", 4 * u], 5, 2], ["sched", ["abs", 6 * u], 5, 3]],
                    [["setstrat", b]], [["sched", ["now"], 5, 3], ["fail", "runtime"]], []]
            out.append({"clock": clock, "strategy": a, "prog": json.loads(json.dumps(prog)),
                        "cmds": [["init", 0, 0, 10 * u], ["start"], ["start"], ["start"]], "kind": "switch"})
            if len(out) % 2 == 0:
                out[-1]["prog"][1][0].append(LEVELS[len(out) % len(LEVELS)])      # ["setstrat", b, level]
                out[-1]["loglevel"] = 30
    return out


def prepare(cases, obs):
    """fault-free uninterrupted runs of the truncated programs, on the implementation"""
    keys, uniq, base = [], {}, []
    for c in cases:
        b = {"clock": c["clock"], "strategy": "log", "prog": truncate(c["prog"]), "cmds": [c["cmds"][0], ["start"]]}
        if "scale" in c:
            b["scale"] = c["scale"]
        k = json.dumps(b, sort_keys=True)
        if k not in uniq:
            uniq[k] = len(base)
            base.append(b)
        keys.append(uniq[k])
    res = S.run_impl(base)
    return [res[j] for j in keys]


def oracle(case, obs, ctx, idx):
    facts = {"fault_hit": False, "pause_resume": False, "continue": False, "failing_step": False,
             "fault_before_other_events": False, "non_exception_fault_hit": False, "strategy_switched_in_run": False,
             "fault_under_switched_strategy": False, "executed": 0}
    if "error" in obs:
        return ("driver-error", obs["error"]), facts
    bad_clock = S.log_insane(obs)
    if bad_clock:
        return ("clock-not-an-exact-number", bad_clock), facts
    if obs.get("notes"):
        return ("simulator-did-not-come-to-rest", "; ".join(obs["notes"]) + f" (snapshots so far: {obs.get('snaps')})"), facts
    why = S.representable(obs, case)
    base = ctx[idx]
    if "error" in base:
        return ("driver-error", base["error"]), facts
    prog = case["prog"]
    failing_h = {h for h, body in enumerate(prog) if any(a[0] == "fail" for a in body)}
    base_h = {h for h, body in enumerate(prog) if any(a[0] == "fail" and len(a) > 1 and a[1] == "base" for a in body)}
    strat = case["strategy"]
    init = case["cmds"][0]
    end = init[3]
    seg = []
    seg_str = []          # error strategy in force when the handler of seg[k] returned / failed
    cur = strat           # strategy in force now (handlers may change it: ["setstrat", x])
    has_switch = any(a[0] == "setstrat" for body in prog for a in body)
    ended = False
    excl_end = False
    n_fail_total = 0
    for ent in obs["log"]:
        if ent[0] == "exec":
            seg.append(ent)
            seg_str.append(cur)
            if ent[2] > end:
                return ("event-executed-after-end", f"event {ent[1]} at {ent[2]}/4, end {end}/4"), facts
        elif ent[0] == "setstrat":
            cur = ent[1]
            facts["strategy_switched_in_run"] = True
            if seg:
                seg_str[-1] = cur
        elif ent[0] == "cmd":
            c, r, rs, ps, clk = ent[1], ent[2], ent[3], ent[4], ent[5]
            if r not in ("ok", "refused") and not (c[0] == "init" and S.construct_fails(case)):
                sig = "failing-step-escapes-as-unrelated-error" if c[0] == "step" else "command-raises-unrelated-error"
                return (sig, f"{c} -> {r} (failing handlers: {sorted(failing_h)})"), facts
            fails_here = [k for k, e in enumerate(seg) if e[3] in failing_h]
            n_fail_total += len(fails_here)
            if fails_here:
                facts["fault_hit"] = True
                if any(seg[k][3] in base_h for k in fails_here):
                    facts["non_exception_fault_hit"] = True
                if has_switch and any(seg_str[k] != strat for k in fails_here):
                    facts["fault_under_switched_strategy"] = True
            if c[0] == "step" and r == "ok":
                if len(seg) > 1:
                    return ("step-executed-several-events", f"{len(seg)} events in one step"), facts
                if fails_here:
                    facts["failing_step"] = True
                    if (rs, ps) != ("STOPPED", "STARTED"):
                        return ("failing-step-leaves-inconsistent-state", f"after a failing step: {rs}/{ps}"), facts
            if c[0] in ("start", "runupto", "runuptoincl") and r == "ok":
                pausing = [k for k in fails_here if seg_str[k] == "pause"]
                desc = f"{c}: executions {[(e[1], e[3], seg_str[k]) for k, e in enumerate(seg)]} (k, handler, strategy in force), failing handlers {sorted(failing_h)}"
                if pausing:
                    if pausing[0] != len(seg) - 1:
                        return ("pause-did-not-stop-after-failing-event", desc), facts
                    if (rs, ps) != ("STOPPED", "STARTED"):
                        return ("pause-leaves-wrong-state", f"{c}: {rs}/{ps} after the failing event"), facts
                    facts["pause_resume"] = True
                else:
                    if fails_here:
                        facts["continue"] = True
                        if fails_here[-1] < len(seg) - 1:
                            facts["fault_before_other_events"] = True
                    # nothing paused this run: it must have gone on to its bound
                    t, inc = (end, True) if c[0] == "start" else (min(c[1], end), c[0] == "runuptoincl" or c[1] > end)
                    if clk != t:
                        return ("continue-strategy-in-force-but-run-paused" if fails_here else "run-stopped-short-of-its-bound",
                                f"clock {clk}/4 after the run, bound {t}/4, state {rs}/{ps}; " + desc), facts
                if c[0] == "runupto" and rs == "ENDED" and c[1] == end:
                    excl_end = True
            ended = (rs == "ENDED")
            seg = []
            seg_str = []
    tr, bt = obs["trace"], base["trace"]
    facts["executed"] = len(tr)
    stuck = c03.stuck_at_end(case, obs, base, end, PID)
    if stuck:
        return ("pause-at-replication-end-cannot-be-resumed", stuck), facts
    if ended and not excl_end:
        if tr != bt:
            return ("faulty-run-differs-from-truncated-run",
                    f"strategy {strat}: trace {tr[:14]} vs fault-free run of the truncated program {bt[:14]} ((k, clock/4) pairs)"), facts
        if obs["snaps"][-1][3] != base["snaps"][-1][3]:
            return ("final-clock-differs", f"{obs['snaps'][-1][3]} vs {base['snaps'][-1][3]}"), facts
        if obs.get("canc") != base.get("canc"):
            return ("cancellations-differ-from-truncated-run", f"{obs.get('canc')} vs {base.get('canc')}"), facts
    else:
        if tr != bt[:len(tr)]:
            return ("faulty-run-not-a-prefix-of-truncated-run", f"strategy {strat}: {tr[:14]} vs {bt[:14]}"), facts
    if strat != "pause" and not has_switch and not S.construct_fails(case) and case["cmds"][1] == ["start"] and not ended \
            and base["snaps"][-1][1] == "ENDED":
        return ("continue-strategy-did-not-finish-the-run", f"state {obs['snaps'][1][1:3]} after start under {strat}"), facts
    if why is not None:
        return ("unexpected-observation", why), facts
    return None, facts


RULE = ("tree programs (every executed event has its own handler, <= 11 events; zero delays, ties, priorities, cancels, illegal "
        "requests): every single failing event x every failure point inside its handler, exhaustively, x {LOG_AND_CONTINUE, "
        "WARN_AND_CONTINUE, WARN_AND_PAUSE} x {start repeated after each pause, bounded runs, steps}; plus generated DAG / loop "
        "programs with random subsets of failing handlers; non-trivial = distinct case executing >= 3 events in which a failing "
        "handler was actually executed; what a failing handler raises is drawn from RuntimeError, ValueError, KeyError, "
        "ZeroDivisionError, a custom Exception subclass, StopIteration and a custom BaseException subclass that is not an Exception; "
        "every seventh generated case (and 12 fixed small ones) has handlers that call set_error_strategy during the run "
        "(PAUSE <-> a continue strategy) before a handler fails - judged by the oracle with the strategy in force at the failure, "
        "outside the Coq model (counted as cases_not_representable); a third of the cases (and half of the switches) use the "
        "two-argument form set_error_strategy(strategy, log_level); in a fifth of the cases every other event carries an argument "
        "object whose repr / str / format raise (a few: a 200 kB slow repr); in a quarter of the cases every third event is a "
        "user-defined SimEventInterface object (not a SimEvent) handed to schedule_event; exception arguments also numbers, several, none")

_tier_rng = {}


def at_end_cases():
    out = []
    for clock in ("int", "float", "dur"):
        u = S.unit_of(clock)
        e = 8 * u
        prog = [[["sched", ["abs", e - u], 5, 1], ["sched", ["abs", e], 5, 2], ["sched", ["abs", e], 5, 1]], [], [["fail", "runtime"]]]
        out.append({"clock": clock, "strategy": "pause", "prog": prog, "cmds": [["init", 0, 0, e], ["start"], ["start"]], "kind": "at-end"})
    return out


def extra_cases(tier):
    rng = random.Random(C.seed() * 15485863 + 5)
    return at_end_cases() + switch_cases() + tree_cases(rng, 10 if tier == "quick" else 150, ["float", "int", "dur", "durmin"])


def main(tier: str) -> int:
    return c02.main(tier, pid=PID, gen=gen_case, oracle_fn=oracle, prepare=prepare, rule=RULE,
                    n_quick=800, n_thorough=20000, extra_cases=extra_cases,
                    targets=["Sim/Case.vo", "Sim/Faults.vo", "Props/C05.vo"],
                    nontrivial=lambda f: f.get("executed", 0) >= 3 and f.get("fault_hit") is True)


def replay(path: str) -> int:
    return c02.replay_generic(path, PID, oracle, prepare)


if __name__ == "__main__":
    sys.exit(main(sys.argv[1] if len(sys.argv) > 1 else "quick"))
