"""C12 - random streams are reproducible, resettable, restorable, independent, in range.

Tie: interleaved histories over several real MersenneTwister objects of /repo
are run in-process; the raw outputs of random.Random(seed) are recorded in the
harness and handed to the Gallina model Streams.Stream as the `raw` table; every
returned value must agree with the model (coqc + vm_compute).  In "scripted"
cases the wrapped generator is replaced by a scripted one (same seed / getstate /
setstate protocol) so that the extreme outputs 0, 1-2^-53, 1/2 +- 2^-53 reach
next_int / next_bool.

The oracle is independent of the Coq model: the clauses of the property are
evaluated on the implementation's outputs (fresh-object replays for twin /
independence / reset / restore; range and one-draw-per-call tests against the
recorded generator outputs).

Second tie: on every run the bodies of the MersenneTwister methods are
translated from the source text of the tree under test
(translator/py2gallina_streams.py, fail-closed) and coq/Streams/GenAgree.v
proves the translated definitions equal to the hand-written model; the last
section of Props/C12.v is re-checked against them (c12lib.StreamsTree).  When
that tie breaks, more histories are searched with the oracle for a concrete
failing input; only if none is found the line ends no-failing-input-found.
"""
from __future__ import annotations

import json
import random
import sys
from pathlib import Path

sys.path.insert(0, str(Path(__file__).resolve().parent))
import common as C
import c12lib as L

PID = "C12"
# built in coq/ (independent of the source text); Gen_Streams / GenAgree / Props are compiled per tree (c12lib.StreamsTree)
TARGETS = ["Streams/StreamProofs.vo"]
TWO53 = 2 ** 53
TWO52 = 2 ** 52
TABLE_LEN = 44
FILLER_K = 2 ** 51
MAX_OPS = 40

SPECIAL_SEEDS = [0, 1, -1, 10, 101, -7, 2 ** 31, 2 ** 32 - 1, -(2 ** 32), 2 ** 63, 2 ** 64, 2 ** 64 + 5,
                 -(2 ** 64 + 5), 2 ** 70 + 3, 2 ** 130 + 12345, 987654321]
EXTREME_K = [0, 0, 1, TWO53 - 1, TWO53 - 1, TWO53 - 2, TWO52, TWO52 - 1, TWO52 + 1, 6004799503160661,
             3002399751580331, TWO53 // 3]


# ------------------------------------------------------------------ generation
def gen_range(rng: random.Random):
    r = rng.random()
    if r < 0.22:
        lo = rng.randint(-20, 20); return lo, lo + rng.randint(0, 12)
    if r < 0.30:
        lo = rng.choice([0, -5, 7, 2 ** 40, -(2 ** 70)]); return lo, lo                     # single value
    if r < 0.42:
        lo = -rng.randint(1, 10 ** 6); return lo, lo + rng.randint(0, 10 ** 6)             # negative
    if r < 0.60:                                                                            # width 2^53 +- k
        w = TWO53 + rng.choice([-3, -2, -1, 0, 1, 2, 3, 4, 5, rng.randint(-1000, 1000)])
        lo = rng.choice([0, 1, -1, -(2 ** 52), rng.randint(-10 ** 9, 10 ** 9)]); return lo, lo + w - 1
    if r < 0.70:
        w = 2 ** rng.choice([31, 32, 52, 54, 63, 64, 70, 100]) + rng.randint(-2, 2)
        lo = rng.choice([0, -w // 2, rng.randint(-10 ** 12, 10 ** 12)]); return lo, lo + w - 1
    if r < 0.80:                                                                            # around the float limit
        w = rng.choice([2 ** 1023, 2 ** 1024 - 2 ** 971, 2 ** 1024 - 2 ** 970 - 1, 2 ** 1024 - 2 ** 970,
                        2 ** 1024, 2 ** 1024 + 1, 2 ** 1100, 10 ** 400])
        lo = rng.choice([0, -1, -(w // 2), 17]); return lo, lo + w - 1
    if r < 0.86:
        lo = rng.randint(-50, 50); return lo, lo - rng.randint(1, 9)                        # empty: hi < lo
    w = rng.randint(1, 2 ** rng.randint(1, 60))
    lo = rng.randint(-2 ** 40, 2 ** 40); return lo, lo + w - 1


def gen_stream_ops(rng: random.Random, seed_pool, n: int, label_base: str):
    """Operation list for ONE stream (twins share it)."""
    ops, labels = [], []
    heavy = rng.random() < 0.15     # checkpoint-heavy: chains of save / restore / save with and without draws in between
    for t in range(n):
        r = rng.random()
        if heavy:
            if r < 0.30 or (r < 0.65 and not labels):
                lab = f"{label_base}{len(labels)}"; labels.append(lab); ops.append(["save", lab])
            elif r < 0.65:
                ops.append(["restore", rng.choice(labels)])
            elif r < 0.80:
                ops.append(["f"])
            elif r < 0.90:
                ops.append(["i", 1, 6])
            elif r < 0.95:
                ops.append(["b"])
            else:
                ops.append([rng.choice(["reset", "qseed"])])
            continue
        if r < 0.22:
            ops.append(["f"])
        elif r < 0.46:
            lo, hi = gen_range(rng); ops.append(["i", lo, hi])
        elif r < 0.60:
            ops.append(["b"])
        elif r < 0.67:
            ops.append(["seed", rng.choice(seed_pool)])
        elif r < 0.75:
            ops.append(["reset"])
        elif r < 0.84:
            lab = f"{label_base}{len(labels)}"; labels.append(lab); ops.append(["save", lab])
        elif r < 0.92:
            if labels:
                ops.append(["restore", rng.choice(labels)])
            else:
                ops.append(["f"])
        elif r < 0.95:
            ops.append(["qseed"])
        elif r < 0.97:
            ops.append(["qorig"])
        elif r < 0.985:
            ops.append(["ibad", rng.randrange(3)])
        else:
            ops.append(["rbad", rng.randrange(4)])
    return ops


def gen_case(rng: random.Random, mode: str, real_pool):
    pool = real_pool if mode == "real" else SPECIAL_SEEDS[:8] + [rng.randint(-10 ** 9, 10 ** 9)]
    ns = rng.choice([1, 2, 2, 3, 3, 4])
    seeds, groups = [], []          # groups[i] = index of the stream whose op list stream i shares
    via = None
    if rng.random() < 0.22:
        # the streams of a model come out of StreamInformation / StreamSeedInformation objects: several instances built
        # with the documented default ("default" = MersenneTwister(10)), with an explicit default, or filled by add_stream
        ns = rng.choice([2, 2, 3, 3, 4])
        via = []
        for i in range(ns):
            x = rng.random()
            if i < 2 or x < 0.5:
                via.append(rng.choice(["info", "info", "seedinfo", "info_streams"])); seeds.append(10)
            elif x < 0.7:
                via.append(rng.choice(["info_arg", "seedinfo_arg"])); seeds.append(rng.choice([10, rng.choice(pool)]))
            elif x < 0.9:
                via.append("info_add"); seeds.append(rng.choice([10, rng.choice(pool)]))
            else:
                via.append("mt"); seeds.append(rng.choice([10, rng.choice(pool)]))
            j = next((k for k in range(i) if seeds[k] == seeds[i]), None)
            groups.append(groups[j] if j is not None and rng.random() < 0.5 else i)
    for i in range(ns if via is None else 0):
        if i > 0 and rng.random() < 0.4:
            j = rng.randrange(i); seeds.append(seeds[j]); groups.append(groups[j])
        else:
            seeds.append(rng.choice(pool)); groups.append(i)
    if via is None and mode == "real" and rng.random() < 0.04:
        # MersenneTwister() without a seed: the seed is what the object reports (run_impl writes it into case["seeds"]);
        # the oracle compares with a twin MersenneTwister(reported seed) and with the stream's own reset
        via = ["mt"] * ns
        for i in range(ns):
            if i == 0 or rng.random() < 0.5:
                via[i] = "noseed"; seeds[i] = 0; groups[i] = i
    total = rng.randint(5, MAX_OPS)
    per = {}
    for g in sorted(set(groups)):
        members = groups.count(g)
        per[g] = gen_stream_ops(rng, pool, max(1, total // ns + rng.randint(-2, 3)), f"g{g}_")
    queues = [[list(op) for op in per[groups[i]]] for i in range(ns)]
    ops = []
    while any(queues) and len(ops) < MAX_OPS:
        i = rng.choice([k for k in range(ns) if queues[k]])
        ops.append([i] + queues[i].pop(0))
    # a state saved by one stream restored into another one
    if ns >= 2 and rng.random() < 0.35:
        for _ in range(rng.choice([1, 1, 2])):
            t = rng.randint(1, len(ops))
            src = [(op[0], op[2]) for op in ops[:t] if op[1] == "save"]
            if src:
                j, lab = rng.choice(src)
                others = [i for i in range(ns) if i != j]
                ops.insert(t, [rng.choice(others), "xrestore", j, lab])
    case = {"mode": mode, "seeds": seeds, "ops": ops}
    if via is not None:
        case["via"] = via
    if mode == "scripted":
        used = sorted(set(seeds) | {op[2] for op in ops if op[1] == "seed"})
        nd = sum(1 for op in ops if op[1] in ("f", "i", "b")) + 1
        case["table"] = {str(s): [rng.choice(EXTREME_K) if rng.random() < 0.75 else rng.getrandbits(53)
                                  for _ in range(nd)] for s in used}
    return case


# ------------------------------------------------------------------ generator tables
_REAL_CACHE: dict = {}


def real_raws(seed: int):
    if seed not in _REAL_CACHE:
        r = random.Random(seed)
        ks = []
        for _ in range(TABLE_LEN):
            u = r.random()
            k = u * TWO53
            assert k == int(k) and 0 <= k < TWO53
            ks.append(int(k))
        _REAL_CACHE[seed] = ks
    return _REAL_CACHE[seed]


def case_table(case):
    if case["mode"] == "scripted":
        return {int(s): v for s, v in case["table"].items()}
    used = set(case["seeds"]) | {op[2] for op in case["ops"] if op[1] == "seed"}
    return {s: real_raws(s) for s in used}


# ------------------------------------------------------------------ implementation side
class Scripted(random.Random):
    """Stand-in for the wrapped random.Random: outputs come from a table
    seed -> [k0, k1, ...] (random() returns k / 2^53); same protocol."""
    table: dict = {}

    def __init__(self, table):
        self.table = table
        self._s, self._p = None, 0
        super().__init__()

    def seed(self, a=None, version=2):
        self._s, self._p = a, 0

    def random(self):
        row = self.table.get(self._s, [])
        k = row[self._p] if self._p < len(row) else FILLER_K    # beyond the script (only reached by defective code)
        self._p += 1
        return k / TWO53

    def getstate(self):
        return ("scripted", self._s, self._p)

    def setstate(self, st):
        if not (isinstance(st, tuple) and len(st) == 3 and st[0] == "scripted"):
            raise ValueError("not a scripted state")
        self._s, self._p = st[1], st[2]


BAD_BOUNDS = [("a", "b"), (None, 3), (0, "x")]
BAD_STATES = ["abc", None, (3, (1, 2, 3), None), 5]


def make_stream(case, table, seed, via="mt"):
    """a stream with this seed: a new MersenneTwister (the reference of the oracle), or the object a
    StreamInformation / StreamSeedInformation hands out (the seed of the documented default is 10)"""
    from pydsol.core.streams import MersenneTwister, StreamInformation, StreamSeedInformation
    if via == "noseed":
        mt = MersenneTwister()
    elif via == "mt":
        mt = MersenneTwister(seed)
    elif via in ("info", "seedinfo", "info_streams"):
        assert seed == 10
        info = StreamSeedInformation() if via == "seedinfo" else StreamInformation()
        mt = info.get_streams()["default"] if via == "info_streams" else info.get_stream("default")
    elif via in ("info_arg", "seedinfo_arg"):
        info = (StreamSeedInformation if via == "seedinfo_arg" else StreamInformation)(MersenneTwister(seed))
        mt = info.get_stream("default")
    elif via == "info_add":
        info = StreamInformation()
        info.add_stream("arrivals", MersenneTwister(seed))
        mt = info.get_stream("arrivals")
    else:
        raise ValueError(via)
    if case["mode"] == "scripted":
        mt._random = Scripted(table)
        mt.set_seed(seed)
    return mt


def canon_float(v):
    if type(v) is float:
        k = v * TWO53
        if k == int(k):
            return ["float", int(k)]
    return ["bad", repr(v)]


def apply_op(mt, saved: dict, op, all_saved=None):
    """op without the stream index. Returns the canonical output."""
    kind = op[0]
    try:
        if kind == "xrestore":
            v = mt.restore_state(all_saved[op[1]][op[2]]); return ["none"] if v is None else ["bad", repr(v)]
        if kind == "f":
            return canon_float(mt.next_float())
        if kind == "i":
            v = mt.next_int(op[1], op[2])
            return ["int", v] if type(v) is int else ["bad", repr(v)]
        if kind == "b":
            v = mt.next_bool()
            return ["bool", v] if type(v) is bool else ["bad", repr(v)]
        if kind == "seed":
            v = mt.set_seed(op[1]); return ["none"] if v is None else ["bad", repr(v)]
        if kind == "reset":
            v = mt.reset(); return ["none"] if v is None else ["bad", repr(v)]
        if kind == "save":
            saved[op[1]] = mt.save_state(); return ["none"]
        if kind == "restore":
            v = mt.restore_state(saved[op[1]]); return ["none"] if v is None else ["bad", repr(v)]
        if kind == "qseed":
            v = mt.seed(); return ["seed", v] if type(v) is int else ["bad", repr(v)]
        if kind == "qorig":
            v = mt.original_seed(); return ["seed", v] if type(v) is int else ["bad", repr(v)]
        if kind == "ibad":
            v = mt.next_int(*BAD_BOUNDS[op[1]]); return ["bad", repr(v)]
        if kind == "rbad":
            v = mt.restore_state(BAD_STATES[op[1]]); return ["bad", repr(v)]
    except Exception as exc:  # noqa
        return ["raise", type(exc).__name__]
    raise ValueError(op)


def run_impl(case, table=None):
    via = case.get("via") or ["mt"] * len(case["seeds"])
    if "noseed" in via:                         # (real generator only: no table needed to build the objects)
        streams = [make_stream(case, None, s, v) for s, v in zip(case["seeds"], via)]
        case["seeds"] = list(case["seeds"])         # (not shared with a copy of the case made for shrinking)
        for i, v in enumerate(via):
            if v == "noseed":
                r = streams[i].seed()
                case["seeds"][i] = r if type(r) is int else 0
    else:
        table = table if table is not None else case_table(case)
        streams = [make_stream(case, table, s, v) for s, v in zip(case["seeds"], via)]
    saved = [dict() for _ in streams]
    return [apply_op(streams[op[0]], saved[op[0]], op[1:], saved) for op in case["ops"]]


def run_single(case, table, seed, ops):
    """ops (without stream index) on one fresh stream."""
    mt = make_stream(case, table, seed)
    saved = {}
    return [apply_op(mt, saved, op) for op in ops]


# ------------------------------------------------------------------ oracle (independent of the Coq model)
DRAWS = ("f", "i", "b")


def tracked(case, outs, table, positions: bool):
    """(d) ranges and result types; with positions=True also (e): the n-th draw
    after (re)seeding with s returns the n-th output of the generator seeded
    with s, whatever kinds of draws came before."""
    seeds, ops = case["seeds"], case["ops"]
    state = [{"seed": s, "pos": 0, "cur": s, "orig": s, "saved": {}} for s in seeds]
    for t, op in enumerate(ops):
        i, kind = op[0], op[1]
        st, o = state[i], outs[t]
        if o[0] == "bad":
            return (f"{kind}-returns-ill-typed-value", f"op #{t} {op}: returned {o[1]}")
        if kind in DRAWS:
            row = table.get(st["seed"], [])
            k = row[st["pos"]] if st["pos"] < len(row) else FILLER_K
            st["pos"] += 1
            if kind == "f":
                if o[0] != "float":
                    return ("next-float-raises", f"op #{t} {op}: {o}")
                if not (0 <= o[1] < TWO53):
                    return ("float-outside-unit-interval", f"op #{t}: next_float returned {o[1]}/2^53")
                if positions and o[1] != k:
                    return ("not-one-generator-output-per-call",
                            f"op #{t} {op} on stream {i}: next_float returned {o[1]}/2^53 but output #{st['pos'] - 1} "
                            f"of the generator seeded with {st['seed']} is {k}/2^53")
            elif kind == "b":
                if o[0] != "bool":
                    return ("next-bool-raises", f"op #{t} {op}: {o}")
                if positions and o != ["bool", k < TWO52]:
                    return ("not-one-generator-output-per-call",
                            f"op #{t} {op} on stream {i}: next_bool returned {o}, generator output #{st['pos'] - 1} "
                            f"after seed {st['seed']} is {k}/2^53")
            else:
                lo, hi = op[2], op[3]
                if lo <= hi:
                    if o[0] == "raise":
                        wide = "-wide-range" if hi - lo + 1 >= TWO53 else ""
                        return (f"next-int-raises-{o[1]}{wide}",
                                f"op #{t}: next_int({lo}, {hi}) raised {o[1]} (width {hi - lo + 1}, u = {k}/2^53)")
                    if not (lo <= o[1] <= hi):
                        return ("next-int-out-of-range", f"op #{t}: next_int({lo}, {hi}) returned {o[1]} (u = {k}/2^53)")
                    w = hi - lo + 1
                    if positions and k == 0 and o[1] != lo:
                        return ("next-int-endpoint-unreachable", f"op #{t}: next_int({lo}, {hi}) with u = 0 returned {o[1]}, not lo")
                    if positions and k == TWO53 - 1 and w <= TWO53 and o[1] != hi:
                        return ("next-int-endpoint-unreachable",
                                f"op #{t}: next_int({lo}, {hi}) with u = 1-2^-53 returned {o[1]}, not hi")
        elif kind == "seed":
            st["seed"], st["pos"], st["cur"] = op[2], 0, op[2]
        elif kind == "reset":
            st["seed"], st["pos"] = st["cur"], 0
        elif kind == "save":
            st["saved"][op[2]] = (st["seed"], st["pos"])
        elif kind == "restore":
            if o != ["none"]:
                return ("restore-of-saved-state-refused", f"op #{t} {op}: {o}")
            st["seed"], st["pos"] = st["saved"][op[2]]
        elif kind == "xrestore":
            if o != ["none"]:
                return ("restore-of-saved-state-refused", f"op #{t} {op}: {o}")
            st["seed"], st["pos"] = state[op[2]]["saved"][op[3]]
        elif kind == "qseed":
            if positions and o != ["seed", st["cur"]]:
                return ("seed-query-wrong", f"op #{t}: seed() returned {o}, current seed is {st['cur']}")
        elif kind == "qorig":
            if positions and o != ["seed", st["orig"]]:
                return ("seed-query-wrong", f"op #{t}: original_seed() returned {o}, original seed is {st['orig']}")
        elif kind == "ibad":
            if o != ["raise", "TypeError"]:
                return ("ill-typed-bounds-not-refused", f"op #{t}: next_int{BAD_BOUNDS[op[2]]} gave {o}")
        elif kind == "rbad":
            if o[0] != "raise":
                return ("garbage-state-accepted", f"op #{t}: restore_state({BAD_STATES[op[2]]!r}) gave {o}")
    return None


def oracle(case, outs):
    """Evaluate the clauses of C12 on the implementation's outputs.
    Returns (signature, description) of the first violated clause or None."""
    table = case_table(case)
    seeds, ops = case["seeds"], case["ops"]
    ns = len(seeds)
    proj = [[(t, op[1:]) for t, op in enumerate(ops) if op[0] == i] for i in range(ns)]
    bad = tracked(case, outs, table, positions=False)
    if bad:
        return bad
    # (a) twins / independence: every stream alone, fresh object, same requests
    local = [not any(op[0] == "xrestore" for _, op in proj[i]) for i in range(ns)]
    for i in range(ns):
        if not local[i]:
            continue
        alone = run_single(case, table, seeds[i], [op for _, op in proj[i]])
        mine = [outs[t] for t, _ in proj[i]]
        if alone != mine:
            d = next(n for n in range(len(mine)) if alone[n] != mine[n])
            if (case.get("via") or ["mt"] * ns)[i] == "noseed":
                return ("stream-without-seed-differs-from-twin-with-the-reported-seed",
                        f"stream {i} = MersenneTwister() reports seed {seeds[i]}; its request #{d} {proj[i][d][1]} is answered {mine[d]}, "
                        f"a MersenneTwister({seeds[i]}) given the same requests answers {alone[d]}")
            return ("stream-depends-on-other-streams",
                    f"stream {i} (seed {seeds[i]}): request #{d} {proj[i][d][1]} answered {mine[d]} in the interleaved run "
                    f"but {alone[d]} when a fresh stream with the same seed gets the same requests alone")
    for i in range(ns):
        for j in range(i + 1, ns):
            if local[i] and seeds[i] == seeds[j] and [op for _, op in proj[i]] == [op for _, op in proj[j]]:
                a, b = [outs[t] for t, _ in proj[i]], [outs[t] for t, _ in proj[j]]
                if a != b:
                    return ("twin-streams-differ", f"streams {i} and {j} (seed {seeds[i]}, same requests) answered {a} vs {b}")
    # (b) reset replays the current seed; (c) restore continues as after the save
    for i in range(ns):
        reqs = [op for _, op in proj[i]]
        mine = [outs[t] for t, _ in proj[i]]
        cur = seeds[i]
        for n, op in enumerate(reqs):
            if op[0] == "seed":
                cur = op[1]
            if op[0] in ("reset", "seed"):
                tail, labs = [], set()
                for q in reqs[n + 1:]:
                    if (q[0] in ("qorig", "xrestore") or (q[0] == "restore" and q[1] not in labs)
                            or (op[0] == "seed" and q[0] == "reset")):
                        break
                    if q[0] == "save":
                        labs.add(q[1])
                    tail.append(q)
                if tail:
                    fresh = run_single(case, table, cur, tail)
                    got = mine[n + 1:n + 1 + len(tail)]
                    if fresh != got:
                        sig = "reset-does-not-replay-current-seed" if op[0] == "reset" else "set-seed-does-not-reseed"
                        return (sig, f"stream {i}: after request #{n} {op} (current seed {cur}) the requests {tail} were answered "
                                     f"{got}; a new stream with seed {cur} answers {fresh}")
            if op[0] == "restore" and not any(q[0] == "xrestore" for q in reqs[:n]):
                m = next(x for x in range(n) if reqs[x] == ["save", op[1]])
                tail = []
                for q in reqs[n + 1:]:
                    if q[0] not in DRAWS:
                        break
                    tail.append(q)
                if tail:
                    ref = run_single(case, table, seeds[i], reqs[:m + 1] + tail)[m + 1:]
                    got = mine[n + 1:n + 1 + len(tail)]
                    if ref != got:
                        return ("restore-does-not-continue-as-after-save",
                                f"stream {i}: state saved at request #{m}, restored at #{n}; the draws {tail} then gave {got}, "
                                f"directly after the save they give {ref}")
    # (c') a state saved by stream j restored into stream i: i continues as j did after the save
    for i in range(ns):
        reqs = [op for _, op in proj[i]]
        mine = [outs[t] for t, _ in proj[i]]
        for n, op in enumerate(reqs):
            if op[0] != "xrestore":
                continue
            j = op[1]
            jreqs = [q for _, q in proj[j]]
            m = next(x for x in range(len(jreqs)) if jreqs[x] == ["save", op[2]])
            if any(q[0] == "xrestore" for q in jreqs[:m]):
                continue
            tail = []
            for q in reqs[n + 1:]:
                if q[0] not in DRAWS:
                    break
                tail.append(q)
            if tail:
                ref = run_single(case, table, seeds[j], jreqs[:m + 1] + tail)[m + 1:]
                got = mine[n + 1:n + 1 + len(tail)]
                if ref != got:
                    return ("restore-into-other-stream-does-not-continue-as-after-save",
                            f"state saved by stream {j} (its request #{m}) restored into stream {i}; the draws {tail} then gave {got}, "
                            f"directly after the save stream {j} gives {ref}")
    return tracked(case, outs, table, positions=True)


def nontrivial(case) -> bool:
    ops = case["ops"]
    if len(case["seeds"]) < 2 or not any(op[1] == "i" for op in ops):
        return False
    for t, op in enumerate(ops):
        if op[1] in ("reset", "restore", "seed"):
            n = 0
            for q in ops[t + 1:]:
                if q[0] == op[0]:
                    if q[1] in DRAWS:
                        n += 1
                    elif q[1] in ("reset", "restore", "seed"):
                        break
            if n >= 2:
                return True
    return False


def shrink(case, failing):
    cur = case
    changed = True
    while changed:
        changed = False
        for t in range(len(cur["ops"])):
            op = cur["ops"][t]
            drop = {t}
            if op[1] == "save":
                drop |= {x for x, q in enumerate(cur["ops"]) if q[0] == op[0] and q[1] == "restore" and q[2] == op[2]}
                drop |= {x for x, q in enumerate(cur["ops"]) if q[1] == "xrestore" and q[2] == op[0] and q[3] == op[2]}
            cand = dict(cur); cand["ops"] = [q for x, q in enumerate(cur["ops"]) if x not in drop]
            if cand["ops"] and failing(cand):
                cur = cand; changed = True
                break
    # drop unused trailing streams
    while len(cur["seeds"]) > 1 and not any(op[0] == len(cur["seeds"]) - 1 or (op[1] == "xrestore" and op[2] == len(cur["seeds"]) - 1)
                                            for op in cur["ops"]):
        cand = dict(cur); cand["seeds"] = cur["seeds"][:-1]
        if cur.get("via"):
            cand["via"] = cur["via"][:-1]
        if failing(cand):
            cur = cand
        else:
            break
    return cur


# ------------------------------------------------------------------ Coq emission
ZI_HEADER = ["From Coq Require Import Uint63.", "Definition zi (i : int) : Z := Uint63.to_Z i.", "Arguments zi _%uint63.",
             "Definition zbig (l : list int) : Z := fold_left (fun acc d => Z.shiftl acc 62 + Uint63.to_Z d) l 0."]


def cz(n):
    # Coq interprets a decimal Z literal at ~60 us per digit (a 300-digit one takes 0.4 s); primitive 63-bit
    # integer literals are parsed natively (20 x faster); larger numbers are given by their base-2^62 digits
    a = abs(n)
    if a < 1000:
        t = str(a)
    elif a < 2 ** 62:
        t = f"(zi {a})"
    else:                       # big-endian digits in base 2^62
        ds = []
        while a:
            ds.append(a & (2 ** 62 - 1)); a >>= 62
        t = "(zbig [" + "; ".join(str(d) for d in reversed(ds)) + "]%uint63)"
    return f"(- {t})" if n < 0 else t


def model_ops(case):
    res = []
    nsaves = [0] * len(case["seeds"])
    ordinal = [dict() for _ in case["seeds"]]
    for op in case["ops"]:
        i, kind = op[0], op[1]
        if kind == "f":
            m = "NextFloat"
        elif kind == "i":
            m = f"NextInt {cz(op[2])} {cz(op[3])}"
        elif kind == "b":
            m = "NextBool"
        elif kind == "seed":
            m = f"SetSeed {cz(op[2])}"
        elif kind == "reset":
            m = "Reset"
        elif kind == "save":
            ordinal[i][op[2]] = nsaves[i]; nsaves[i] += 1; m = "Save"
        elif kind == "restore":
            m = f"Restore {nsaves[i] - 1 - ordinal[i][op[2]]}%nat"
        elif kind == "xrestore":
            m = f"RestoreFrom {op[2]}%nat {nsaves[op[2]] - 1 - ordinal[op[2]][op[3]]}%nat"
        elif kind == "qseed":
            m = "QSeed"
        elif kind == "qorig":
            m = "QOrig"
        elif kind == "ibad":
            m = "NextIntIllTyped"
        elif kind == "rbad":
            m = "RestoreGarbage"
        else:
            raise ValueError(op)
        res.append(f"({i}%nat, {m})")
    return C.clist(res)


def cout(op, o):
    if o[0] == "float":
        return f"OFloat {cz(o[1])}"
    if o[0] == "int":
        return f"OInt {cz(o[1])}"
    if o[0] == "bool":
        return f"OBool {C.cbool(o[1])}"
    if o[0] == "none":
        return "ONone"
    if o[0] == "seed":
        return f"OSeed {cz(o[1])}"
    if o[0] == "raise":
        if op[1] == "rbad" and o[1] in ("ValueError", "TypeError"):
            return "ORaise EBadState"
        if o[1] == "TypeError":
            return "ORaise ETypeError"
        if o[1] == "OverflowError":
            return "ORaise EOverflow"
    return "ORaise EModelSplit"          # not representable: a certain mismatch


def ctable(tbl: dict):
    return C.clist(f"({cz(s)}, map zi {C.clist(str(k) for k in ks)}%uint63)" for s, ks in sorted(tbl.items()))


def emit_cases(path: Path, cases, real_pool):
    lines = ["From Coq Require Import ZArith List.", "From PV Require Import Streams.Stream.",
             "Import ListNotations.", "Open Scope Z_scope."] + ZI_HEADER + [
             f"Definition treal : list (Z * list Z) := {ctable({s: real_raws(s) for s in real_pool})}.",
             "Definition cases : list case := ["]
    items = []
    for case, outs in cases:
        if case["mode"] == "real" and all(s in real_pool for s in case_table(case)):
            tb = "treal"
        else:
            tb = ctable(case_table(case))
        items.append(f"({tb}, {C.clist(cz(s) for s in case['seeds'])}, {model_ops(case)}, "
                     f"{C.clist(cout(op, o) for op, o in zip(case['ops'], outs))})")
    lines.append(";\n".join(items))
    lines.append("].")
    lines.append("Eval vm_compute in (mismatches_from 0 case_ok cases).")
    lines.append("Eval vm_compute in (mismatches_from 0 case_ok_pinned cases).")
    path.write_text("\n".join(lines) + "\n")


def emit_diag(path: Path, case, outs):
    lines = ["From Coq Require Import ZArith List.", "From PV Require Import Streams.Stream.",
             "Import ListNotations.", "Open Scope Z_scope."] + ZI_HEADER + [
             f"Definition c : case := ({ctable(case_table(case))}, {C.clist(cz(s) for s in case['seeds'])}, "
             f"{model_ops(case)}, {C.clist(cout(op, o) for op, o in zip(case['ops'], outs))}).",
             "Eval vm_compute in (model_outs next_int_fixed_checked c)."]
    path.write_text("\n".join(lines) + "\n")


# ------------------------------------------------------------------ corpus
CORPUS = [
    {"mode": "real", "seeds": [101], "ops": [[0, "i", 0, 2 ** 1024]]},
    {"mode": "real", "seeds": [0, 0], "ops": [[0, "f"], [1, "i", 0, 2 ** 1024 - 2 ** 970 - 1], [1, "f"], [0, "i", -1, 2 ** 1100], [0, "f"]]},
    {"mode": "scripted", "seeds": [5], "table": {"5": [6004799503160661, TWO53 - 1, TWO53 - 1, TWO53 - 1, 0, TWO53 - 1, TWO52, TWO52 - 1]},
     "ops": [[0, "i", 0, 2], [0, "i", 0, TWO53 - 2], [0, "i", 0, TWO53 - 1], [0, "i", 0, TWO53], [0, "i", -3, 2 ** 70], [0, "i", 7, 7],
             [0, "b"], [0, "b"]]},
    {"mode": "real", "seeds": [10, 10, -1],
     "ops": [[0, "f"], [2, "b"], [1, "f"], [0, "seed", 2 ** 64 + 5], [0, "save", "a"], [0, "i", 1, 6], [0, "f"], [1, "seed", 2 ** 64 + 5],
             [2, "reset"], [1, "save", "a"], [1, "i", 1, 6], [1, "f"], [0, "restore", "a"], [0, "f"], [0, "b"], [0, "reset"], [0, "f"],
             [0, "f"], [1, "restore", "a"], [1, "f"], [1, "b"], [1, "reset"], [1, "f"], [1, "f"], [2, "f"], [2, "f"]]},
    {"mode": "real", "seeds": [0, 2 ** 70 + 3, -7],
     "ops": [[0, "f"], [0, "f"], [0, "save", "a"], [0, "f"], [0, "i", 1, 6], [1, "b"], [1, "xrestore", 0, "a"], [1, "f"], [1, "i", 1, 6],
             [1, "qseed"], [1, "reset"], [1, "f"], [2, "save", "z"], [0, "seed", 5], [0, "xrestore", 2, "z"], [0, "b"], [2, "b"],
             [0, "reset"], [0, "f"]]},
]


# ------------------------------------------------------------------ main
def main(tier: str) -> int:
    run = C.Run(PID, tier)
    try:
        tree = L.StreamsTree().prepare()
    except Exception as exc:  # noqa
        run.violation("translated-model-not-buildable", f"the model could not be regenerated from the source: {type(exc).__name__}: {exc}",
                      {"unchecked": "coq/Streams/GenAgree.v"}, found_input=False)
        return run.finish()
    proofs_ok = L.check_proofs(run, tree, TARGETS, extra_tb=[
        "random.Random (CPython) is abstract in the theorems: raw(seed, n) = n-th output after seeding, state = (seed, position), "
        "getstate/setstate copy that pair; validated on every explored history against random.Random(seed) recorded in the harness",
        "binary64 arithmetic of next_int modelled in Z (round-to-nearest-even of the width and of the product); cross-checked "
        "against Coq primitive floats and against CPython on every integer draw of the correspondence",
        "extreme generator outputs (0, 1-2^-53, 1/2 +- 2^-53) reach the code through a scripted stand-in installed as MersenneTwister._random",
    ])
    C.use_repo_sources()
    rng = random.Random(run.seed * 104729 + 12)
    real_pool = SPECIAL_SEEDS + [rng.randint(-2 ** 40, 2 ** 40) for _ in range(3)] + [rng.getrandbits(200)]
    n_random = 3000 if tier == "quick" else 40000
    cases = []
    corpus = C.VERIF / "corpus" / "C12.json"
    if corpus.exists():
        cases += json.loads(corpus.read_text())
    n_corpus = len(cases)
    for n in range(n_random):
        cases.append(gen_case(rng, "scripted" if n % 3 == 2 else "real", real_pool))

    evaluated = []
    impl_fail = None
    nontriv = set()
    hist = {}
    kinds_of_range = {"single": 0, "negative_lo": 0, "width_ge_2^53": 0, "width_gt_float_max": 0, "empty": 0, "other": 0}
    exc_hist = {}
    for case in cases:
        try:
            outs = run_impl(case)
        except Exception as exc:  # import error etc.
            run.violation("harness-cannot-run-implementation",
                          f"running a history on the implementation failed: {type(exc).__name__}: {exc}",
                          {"case": case}, found_input=False)
            return run.finish()
        for op, o in zip(case["ops"], outs):
            hist[op[1]] = hist.get(op[1], 0) + 1
            if o[0] == "raise":
                exc_hist[o[1]] = exc_hist.get(o[1], 0) + 1
            if op[1] == "i":
                w = op[3] - op[2] + 1
                key = ("empty" if w <= 0 else "width_gt_float_max" if w >= 2 ** 1024 - 2 ** 970 else "width_ge_2^53" if w >= TWO53
                       else "single" if w == 1 else "negative_lo" if op[2] < 0 else "other")
                kinds_of_range[key] += 1
        bad = oracle(case, outs)
        if bad and impl_fail is None:
            impl_fail = (case, bad)
        if nontrivial(case):
            nontriv.add(json.dumps([case["mode"], case["seeds"], case.get("via"), case["ops"]]))
        evaluated.append((case, outs))
    run.cov["evaluations"] = len(evaluated)
    run.cov["distinct_nontrivial"] = len(nontriv)
    run.cov["rule"] = ("random interleavings of 5-40 requests over 1-4 MersenneTwister objects (40% twins sharing seed and request list; in 22% of the "
                       "histories the objects are handed out by 2-4 StreamInformation / StreamSeedInformation instances: documented default, "
                       "explicit default, add_stream / get_stream / get_streams), "
                       "seeds from {0, +-1, 10, 101, -7, 2^31, 2^32-1, -2^32, 2^63, 2^64, +-(2^64+5), 2^70+3, 2^130+12345, random, 200-bit}; "
                       "2/3 on the real random.Random, 1/3 on a scripted generator with extreme outputs; "
                       "non-trivial = distinct case with >= 2 streams, >= 1 next_int and a reset/restore/set_seed followed by >= 2 draws on the same stream")
    run.cov["op_histogram"] = hist
    run.cov["histories_over_streams_handed_out_by_StreamInformation"] = sum(1 for c, _ in evaluated if c.get("via") and "noseed" not in c["via"])
    run.cov["histories_with_streams_constructed_without_a_seed"] = sum(1 for c, _ in evaluated if "noseed" in (c.get("via") or []))
    run.cov["int_range_histogram"] = kinds_of_range
    run.cov["exception_histogram"] = exc_hist
    for case, outs in evaluated[n_corpus:n_corpus + 2]:
        run.add_sample({"case": {k: v for k, v in case.items() if k != "table"}, "impl_outputs": outs})

    # ---- the regenerated model no longer equals the proved one: look harder for a concrete failing input
    tie = tree.broken_for(PID)
    if tie and not impl_fail:
        rng2 = random.Random(run.seed * 7919 + 1212)
        tried = 0
        for n in range(n_random):
            case = gen_case(rng2, "scripted" if n % 3 == 2 else "real", real_pool)
            tried += 1
            try:
                bad = oracle(case, run_impl(case))
            except Exception:  # noqa
                continue
            if bad:
                impl_fail = (case, bad)
                break
        run.cov["extra_cases_searched_after_broken_tie"] = tried

    if impl_fail:
        case, (sig, what) = impl_fail

        def failing(c):
            try:
                b = oracle(c, run_impl(c))
            except Exception:
                return False
            return bool(b) and b[0] == sig
        small = shrink(case, failing)
        o = run_impl(small)
        b = oracle(small, o)
        run.violation(sig, (b or (sig, what))[1],
                      {"case": small, "impl_outputs": o,
                       "how": "streams = [MersenneTwister(s) for s in seeds]; each op is [stream index, kind, args]: f=next_float, "
                              "i=next_int(lo,hi), b=next_bool, seed=set_seed, save/restore=save_state/restore_state (by label), "
                              "xrestore j label = restore_state(state saved by stream j); "
                              "mode 'scripted': stream._random replaced by harness/c12.py:Scripted(table) then set_seed(seed)"})

    # ---- model vs implementation inside coqc
    d = C.scratch_dir(PID)
    shard = 250 if tier == "quick" else 400
    files = []
    for s in range(0, len(evaluated), shard):
        f = d / f"cases_c12_{s // shard}.v"
        emit_cases(f, evaluated[s:s + shard], real_pool)
        files.append(f)
    results = C.coqc_many(files)
    mism, mism_pinned = [], []
    for si, (rc, out) in enumerate(results):
        lsts = C.parse_nat_lists(out)
        if rc != 0 or len(lsts) != 2:
            run.violation("correspondence-not-evaluable",
                          "coqc could not evaluate the C12 correspondence (Streams.Stream.case_ok): " + out[-600:],
                          {"file": str(files[si])}, found_input=False)
            return run.finish()
        mism += [si * shard + i for i in lsts[0]]
        mism_pinned += [si * shard + i for i in lsts[1]]
    run.cov["traces_validated_against_impl"] = len(evaluated) - len(mism)
    run.cov["model_impl_mismatches"] = len(mism)
    run.cov["cases_where_pinned_and_repaired_next_int_differ"] = len(set(mism) ^ set(mism_pinned))
    if mism and not impl_fail:
        case, outs = evaluated[mism[0]]
        diag = d / "diag_c12.v"
        emit_diag(diag, case, outs)
        _, dout = C.coqc_file(diag)
        run.violation("model-impl-disagree",
                      "correspondence Streams.Stream.case_ok (wrapper over the recorded generator, repaired next_int) no longer matches "
                      "the implementation, but no clause of the property is violated on any explored input"
                      + ("; the outputs agree with the model of the pinned next_int (float product for every width)"
                         if mism[0] not in mism_pinned else ""),
                      {"case": case, "impl_outputs": outs, "model_outputs": dout[-3000:], "relation": "Streams.Stream.case_ok",
                       "mismatching_cases": len(mism)},
                      found_input=False)
    if tie and not impl_fail:
        L.report_broken_tie(run, tree, "the clause-by-clause oracle on the implementation's outputs",
                            {"model_impl_mismatching_cases": len(mism)})
    if not proofs_ok and not run.violations:
        run.violation("proof-broken", "a C12 proof obligation no longer checks: " + getattr(run, "proof_log", "")[-800:],
                      {"theorems": run.cov.get("theorems")}, found_input=False)
    return run.finish()


if __name__ == "__main__":
    sys.exit(main(sys.argv[1] if len(sys.argv) > 1 else "quick"))
