"""Implementation driver for C13: runs in a fresh interpreter (its own
PYTHONHASHSEED) on /repo's sources.  JSON list of cases on stdin, JSON list of
observations on stdout.  No Coq model involved."""
import json
import random
import sys

from pydsol.core.streams import (MersenneTwister, SimpleStreamUpdater, StreamSeedInformation, StreamSeedUpdater, StreamUpdater)

BAD_KEYS = [5, ("a", 1), None, 2.5, b"default"]
BAD_STREAMS = [None, "stream", 7, random.Random(3)]
ILL_R = [1.0, "1", None, [1], 2.5]


class Custom(StreamUpdater):
    def __init__(self, a, b):
        self.a, self.b = a, b

    def update_seed(self, stream_id, stream, replication_nr):
        stream.set_seed(stream.original_seed() + self.a * replication_nr + self.b * len(stream_id))


def make_fallback(fb):
    if fb["kind"] == "simple":
        return None
    if fb["kind"] == "custom":
        return Custom(fb["a"], fb["b"])
    if fb["kind"] == "nested":
        return StreamSeedUpdater({k: list(v) for k, v in fb["table"]})
    raise ValueError(fb)


def make_updater(u, case=None, by_name=None):
    """-> (updater, info).  The seed table of the top-level updater is configured the documented way: a
    StreamSeedInformation holds the named streams, add_seed_values() their seed lists, and the updater is built
    from get_seeds(); later add_seed_values() calls (case["reconf"]) reconfigure that same table."""
    if u["kind"] == "simple":
        return SimpleStreamUpdater(), None
    info = StreamSeedInformation()
    names = [k for k, _ in u["table"]] + [n for _ci, n, _v in (case or {}).get("reconf", [])]
    for n in names:
        info.add_stream(n, (by_name or {}).get(n) or MersenneTwister(0))   # add_seed_values wants the stream to be known
    for k, v in u["table"]:
        info.add_seed_values(k, list(v))
    upd = StreamSeedUpdater(info.get_seeds())
    fb = make_fallback(u["fb"])
    if fb is not None:
        upd.set_fallback_stream_updater(fb)
    return upd, info


def make_stream(s):
    mt = MersenneTwister(s["orig"])
    if s["cur"] != s["orig"]:
        mt.set_seed(s["cur"])
    return mt


def rvalue(r):
    if isinstance(r, dict):
        return ILL_R[r["ill"]]
    return r


def seeds_of(objs):
    out = []
    for o in objs:
        if not isinstance(o, MersenneTwister):
            out.append(0)          # not a stream
            continue
        v = o.seed()
        out.append(v if type(v) is int else repr(v))
    return out


def run_case(case):
    d, objs = {}, []
    for s in case["streams"]:
        key = s["name"] if s["kind"] != "badkey" else BAD_KEYS[s["bad"]]
        val = BAD_STREAMS[s["bad"]] if s["kind"] == "badstream" else make_stream(s)
        d[key] = val
        objs.append((key, val))
    upd, info = make_updater(case["updater"], case, {k: v for k, v in objs if isinstance(k, str) and isinstance(v, MersenneTwister)})
    reconf = {}
    for ci, n, v in case.get("reconf", []):
        reconf.setdefault(ci, []).append((n, v))
    queries, answers = {}, []
    for ci, how, n in case.get("queries", []):
        queries.setdefault(ci, []).append((how, n))
    obs = []
    pre = case.get("pre") or [0] * len(case["calls"])
    npost = case.get("post", 0)
    for ci, c in enumerate(case["calls"]):
        # the streams are USED between the updates: some draws from every stream before the call ...
        for _ in range(pre[ci]):
            for _k, v in objs:
                if isinstance(v, MersenneTwister):
                    v.next_float()
        exc = None
        try:
            for n, v in reconf.get(ci, []):          # the seed table is reconfigured between two replications
                try:
                    info.add_seed_values(n, list(v))
                except Exception as e:  # noqa
                    raise RuntimeError("reconf") from e
            for how, n in queries.get(ci, []):       # read-only questions about the configuration, before the update
                try:
                    v = info.get_seed_values(n) if how == "get_seed_values" else info.get_seeds()[n]
                    answers.append([ci, how, n, "value", list(v) if isinstance(v, list) and all(type(x) is int for x in v) else repr(v)])
                except Exception as e:  # noqa
                    answers.append([ci, how, n, "raise", type(e).__name__])
            if "all" in c:
                ret = upd.update_seeds(d, rvalue(c["all"]))
            else:
                key, val = objs[c["one"]]
                ret = upd.update_seed(key, val, rvalue(c["r"]))
            if ret is not None:
                exc = "returned:" + repr(ret)
        except Exception as e:  # noqa
            exc = type(e).__name__ if str(e) != "reconf" else "add_seed_values:" + type(e.__cause__).__name__
        # ... and the first draws of every stream after it
        after = []
        for _k, v in objs:
            if isinstance(v, MersenneTwister) and npost:
                try:
                    after.append([v.next_float().hex() for _ in range(npost)])
                except Exception as e:  # noqa
                    after.append("raise:" + type(e).__name__)
            else:
                after.append(None)
        obs.append({"seeds": seeds_of([v for _, v in objs]), "exc": exc, "draws": after})
    # the fallback updater alone, on fresh copies, for every accepted replication number
    fb_expect = []
    if case["updater"]["kind"] == "table":
        fb = upd.get_fallback_stream_updater()
        listed = {k for k, _ in case["updater"]["table"]}
        for i, s in enumerate(case["streams"]):
            if s["kind"] != "stream" or s["name"] in listed:
                continue
            for c in case["calls"]:
                r = c.get("all", c.get("r"))
                if isinstance(r, dict) or (not isinstance(r, bool) and isinstance(r, int) and r < 0):
                    continue
                mt = MersenneTwister(s["orig"])
                try:
                    fb.update_seed(s["name"], mt, r)
                    fb_expect.append([i, r, mt.seed()])
                except Exception as e:  # noqa
                    fb_expect.append([i, r, "raise:" + type(e).__name__])
    # first draws after the last call
    draws = []
    for _, v in objs:
        try:
            draws.append(v.next_float().hex())
        except Exception:
            draws.append(None)
    hashes = [[s["name"], hash(s["name"])] for s in case["streams"] if s["kind"] != "badkey"]
    return {"obs": obs, "fb_expect": fb_expect, "draws": draws, "hashes": hashes, "queries": answers}


def main():
    cases = json.load(sys.stdin)
    json.dump([run_case(c) for c in cases], sys.stdout)


if __name__ == "__main__":
    main()
